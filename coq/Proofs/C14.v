(* C14 — proofs about the model of the block-synchronised state machine (Model/C14.v). *)
From Coq Require Import ZArith NArith List Bool Lia Arith.
From KV Require Import Common.Verdict Gen.Consts_C14 Model.C14.
Import ListNotations.
Open Scope N_scope.

(* ------------------------------------------------------------------ generic list facts *)
Lemma run_from_app : forall prog start a b s,
  run_from prog start s (a ++ b) =
  match run_from prog start s a with Some s' => run_from prog start s' b | None => None end.
Proof.
  induction a as [|e a IH]; intros b s; cbn [run_from app]; [reflexivity|].
  destruct (step prog start s e); [apply IH | reflexivity].
Qed.

Lemma run_split : forall prog start h0 pre e post s,
  run prog start h0 (pre ++ e :: post) = Some s ->
  exists s1 s2, run prog start h0 pre = Some s1 /\ step prog start s1 e = Some s2 /\
                run_from prog start s2 post = Some s.
Proof.
  unfold run. intros prog start h0 pre e post s H. rewrite run_from_app in H.
  destruct (run_from prog start (init_state h0) pre) as [s1|]; [|discriminate].
  cbn [run_from] in H. destruct (step prog start s1 e) as [s2|] eqn:E; [|discriminate].
  exists s1, s2. auto.
Qed.

Lemma all_ok_intro : forall f rest pre,
  (forall p e q, rest = p ++ e :: q -> f (pre ++ p) e = true) -> all_ok f pre rest = true.
Proof.
  induction rest as [|e t IH]; intros pre H; cbn [all_ok]; [reflexivity|].
  apply andb_true_intro; split.
  - specialize (H [] e t eq_refl). now rewrite app_nil_r in H.
  - apply IH. intros p e' q ->. rewrite <- app_assoc. cbn [app]. apply (H (e :: p) e' q). reflexivity.
Qed.

Lemma all_ok_elim : forall f rest pre,
  all_ok f pre rest = true -> forall p e q, rest = p ++ e :: q -> f (pre ++ p) e = true.
Proof.
  induction rest as [|e t IH]; intros pre H p e' q E.
  - destruct p; discriminate.
  - cbn [all_ok] in H. apply andb_prop in H as [H1 H2]. destruct p as [|x p]; cbn [app] in E.
    + injection E as -> _. now rewrite app_nil_r.
    + injection E as -> ->. specialize (IH _ H2 p e' q eq_refl).
      now rewrite <- app_assoc in IH.
Qed.

(* an element of a filter-map observation comes from one event of the trace *)
Lemma nth_flat_map_split : forall (A B : Type) (f : A -> list B),
  (forall a, (length (f a) <= 1)%nat) ->
  forall l i x, nth_error (flat_map f l) i = Some x ->
  exists pre a post, l = pre ++ a :: post /\ length (flat_map f pre) = i /\ f a = [x].
Proof.
  intros A B f Hf. induction l as [|a l IH]; intros i x H; cbn [flat_map] in H.
  - destruct i; discriminate.
  - specialize (Hf a) as Ha. destruct (f a) as [|y [|z r]] eqn:E; cbn [length] in Ha; [| |lia].
    + cbn [app] in H. destruct (IH _ _ H) as (pre & b & post & -> & L & F).
      exists (a :: pre), b, post. cbn [flat_map app]. rewrite E. cbn [app]. auto.
    + cbn [app] in H. destruct i as [|i]; cbn [nth_error] in H.
      * injection H as ->. exists [], a, l. cbn. auto.
      * destruct (IH _ _ H) as (pre & b & post & -> & L & F).
        exists (a :: pre), b, post. cbn [flat_map app]. rewrite E. cbn [app length]. auto.
Qed.

(* ------------------------------------------------------------------ observations and append *)
Lemma waits_app : forall a b, waits (a ++ b) = waits a ++ waits b.
Proof. intros; apply flat_map_app. Qed.
Lemma inits_app : forall a b, inits (a ++ b) = inits a ++ inits b.
Proof. intros; apply flat_map_app. Qed.
Lemma waiters_app : forall a b, waiters (a ++ b) = waiters a ++ waiters b.
Proof. intros; apply flat_map_app. Qed.
Lemma nexts_app : forall a b, nexts (a ++ b) = nexts a ++ nexts b.
Proof. intros; apply flat_map_app. Qed.
Lemma recvs_app : forall a b, recvs (a ++ b) = recvs a ++ recvs b.
Proof. intros; apply flat_map_app. Qed.
Lemma accepted_app : forall a b, accepted (a ++ b) = accepted a ++ accepted b.
Proof. intros; apply flat_map_app. Qed.
Lemma dones_app : forall a b, dones (a ++ b) = dones a ++ dones b.
Proof. intros; apply flat_map_app. Qed.
Lemma height_of_app : forall h0 a b, height_of h0 (a ++ b) = height_of (height_of h0 a) b.
Proof. intros; apply fold_left_app. Qed.

Definition counts (evs : list event) : nat * nat * nat * nat :=
  (length (waits evs), length (inits evs), length (waiters evs), length (nexts evs)).

Ltac obs_app :=
  rewrite ?waits_app, ?inits_app, ?waiters_app, ?nexts_app, ?recvs_app, ?accepted_app, ?dones_app,
          ?height_of_app;
  cbn [waits inits waiters nexts recvs accepted dones height_of flat_map fold_left app];
  rewrite ?app_nil_r, ?app_length; cbn [length].

(* ------------------------------------------------------------------ closed forms *)
Lemma two64_pos : two64 <> 0. Proof. discriminate. Qed.

Lemma sum_dur_app : forall a b, sum_dur (a ++ b) = sum_dur a + sum_dur b.
Proof. induction a as [|x a IH]; intros b; cbn [sum_dur app fold_right]; [reflexivity|]. fold (sum_dur (a ++ b)) (sum_dur a). rewrite IH. lia. Qed.

Lemma firstn_S_nth : forall (prog : program) k, (k < length prog)%nat ->
  firstn (S k) prog = firstn k prog ++ [nth_st prog k].
Proof.
  induction prog as [|x p IH]; intros k Hk; cbn [length] in Hk; [lia|].
  destruct k as [|k]; [reflexivity|]. cbn [firstn app]. unfold nth_st. cbn [nth]. f_equal.
  apply IH. lia.
Qed.

Lemma sum_dur_firstn_S : forall prog k, (k < length prog)%nat ->
  sum_dur (firstn (S k) prog) = sum_dur (firstn k prog) + dur (nth_st prog k).
Proof.
  intros. rewrite firstn_S_nth by assumption. rewrite sum_dur_app. cbn [sum_dur fold_right]. lia.
Qed.

Lemma nominal_0 : forall s0 p start, nominal (s0 :: p) start 0 = add64 start (delay s0).
Proof. intros. unfold nominal, add64, nth_st. cbn [firstn sum_dur fold_right nth]. f_equal. lia. Qed.

Lemma nominal_S : forall prog start k sn, nth_error prog (S k) = Some sn ->
  add64 (endk prog start k) (delay sn) = nominal prog start (S k).
Proof.
  intros prog start k sn H. unfold add64, endk, nominal.
  rewrite N.add_mod_idemp_l by apply two64_pos.
  replace (nth_st prog (S k)) with sn; [reflexivity|].
  unfold nth_st. symmetry. now apply nth_error_nth.
Qed.

Lemma endk_step : forall prog start k, (k < length prog)%nat ->
  add64 (nominal prog start k) (active (nth_st prog k)) = endk prog start k.
Proof.
  intros prog start k Hk. unfold add64, endk, nominal.
  rewrite N.add_mod_idemp_l by apply two64_pos. rewrite sum_dur_firstn_S by assumption.
  unfold dur. f_equal. lia.
Qed.

Lemma endk_last : forall prog start k, S k = length prog ->
  endk prog start k = (start + sum_dur prog) mod two64.
Proof. intros prog start k H. unfold endk. rewrite H, firstn_all. reflexivity. Qed.

(* ------------------------------------------------------------------ the invariant *)
Definition ctl_inv (prog : program) (start : N) (evs : list event) (s : mstate) : Prop :=
  match ctl_ s with
  | CBoot => counts evs = (0, 0, 0, 0)%nat /\ dones evs = []
  | CStartWait => counts evs = (1, 0, 0, 0)%nat /\ dones evs = []
  | CDelayWait k t =>
      (k < length prog)%nat /\ t = nominal prog start k /\ counts evs = (S (S k), k, k, k) /\
      dones evs = [] /\ start <= height s
  | CInit k t =>
      (k < length prog)%nat /\ t = nominal prog start k /\ counts evs = (S (S k), S k, k, k) /\
      dones evs = [] /\ start <= height s
  | CLoop k w =>
      (k < length prog)%nat /\ w = endk prog start k /\ counts evs = (S (S k), S k, S k, k) /\
      dones evs = [] /\ start <= height s
  | CNext k w =>
      (k < length prog)%nat /\ w = endk prog start k /\ counts evs = (S (S k), S k, S k, S k) /\
      dones evs = [] /\ start <= height s /\ w <= height s
  | CDone o => dones evs = [o]
  end.

Record Inv (prog : program) (start h0 : N) (evs : list event) (s : mstate) : Prop := {
  inv_h : height s = height_of h0 evs;
  inv_buf : map snd (recvs evs) ++ buf s = accepted evs;
  inv_ctl : ctl_inv prog start evs s }.

Lemma inv_init : forall prog start h0, Inv prog start h0 [] (init_state h0).
Proof. intros. split; cbn; auto. Qed.

Ltac destr_if H :=
  match type of H with
  | (if ?c then _ else _) = Some _ =>
      let E := fresh "E" in destruct c eqn:E; [|discriminate H]
  end.

Ltac bools :=
  repeat match goal with
  | H : _ && _ = true |- _ => apply andb_prop in H; destruct H
  | H : Nat.eqb _ _ = true |- _ => apply Nat.eqb_eq in H
  | H : N.eqb _ _ = true |- _ => apply N.eqb_eq in H
  | H : N.leb _ _ = true |- _ => apply N.leb_le in H
  | H : negb _ = true |- _ => apply negb_true_iff in H
  | H : Bool.eqb _ _ = true |- _ => apply Bool.eqb_prop in H
  end.

Ltac cnt := rewrite ?Nat.add_1_r; reflexivity.
Ltac prep := cbn [height buf ctl_ with_ctl]; unfold ctl_inv, counts; cbn [ctl_ with_ctl height buf]; obs_app.

Lemma step_inv : forall prog start h0 pre s e s',
  Inv prog start h0 pre s -> step prog start s e = Some s' -> Inv prog start h0 (pre ++ [e]) s'.
Proof.
  intros prog start h0 pre s e s' [Hh Hb Hc] Hs.
  unfold ctl_inv, counts in Hc.
  destruct e as [h|m acc|t|k hgt|w|k m|k|o]; cbn [step] in Hs.
  - (* EBlock *)
    injection Hs as <-. split.
    + prep. now rewrite Hh.
    + prep. assumption.
    + prep. destruct (ctl_ s); intuition (try lia).
  - (* EMsg *)
    destr_if Hs. bools. injection Hs as <-.
    destruct acc; split.
    + prep. assumption.
    + prep. rewrite app_assoc, Hb. reflexivity.
    + prep. destruct (ctl_ s); intuition.
    + prep. assumption.
    + prep. assumption.
    + prep. destruct (ctl_ s); intuition.
  - (* MWait *)
    destruct (ctl_ s) eqn:Ec; try discriminate.
    + destr_if Hs. bools. injection Hs as <-. split.
      * prep. assumption.
      * prep. assumption.
      * prep. destruct Hc as [Hc Hd]. injection Hc as -> -> -> ->. cbn. auto.
    + destruct prog as [|s0 p]; [discriminate|]. destr_if Hs. bools. injection Hs as <-. split.
      * prep. assumption.
      * prep. assumption.
      * prep. destruct Hc as [Hc Hd]. injection Hc as Hw -> -> ->. rewrite Hw. cbn [length Nat.add].
        repeat split; auto; try lia. subst t. first [apply nominal_0 | symmetry; apply nominal_0].
    + destruct (nth_error prog (S k)) as [sn|] eqn:En; [|discriminate]. destr_if Hs. bools.
      injection Hs as <-. split.
      * prep. assumption.
      * prep. assumption.
      * prep. destruct Hc as (Hk & Hw & Hc & Hd & Hst & Hwh). injection Hc as -> -> -> ->.
        assert (S k < length prog)%nat by (apply nth_error_Some; congruence).
        repeat split; auto; try lia.
        -- subst t w. first [now apply nominal_S | symmetry; now apply nominal_S].
        -- cnt.
  - (* MInit *)
    destruct (ctl_ s) eqn:Ec; try discriminate. destr_if Hs. bools. subst. injection Hs as <-. split.
    + prep. assumption.
    + prep. assumption.
    + prep. destruct Hc as (Hk & Ht & Hc & Hd & Hst). injection Hc as -> -> -> ->.
      repeat split; auto. cnt.
  - (* MWaiter *)
    destruct (ctl_ s) eqn:Ec; try discriminate. destr_if Hs. bools. injection Hs as <-. split.
    + prep. assumption.
    + prep. assumption.
    + prep. destruct Hc as (Hk & Ht & Hc & Hd & Hst). injection Hc as -> -> -> ->.
      repeat split; auto.
      * subst. first [now apply endk_step | symmetry; now apply endk_step].
      * cnt.
  - (* MRecv *)
    destruct (ctl_ s) eqn:Ec; try discriminate. destruct (buf s) as [|m' rest] eqn:Eb; [discriminate|].
    destr_if Hs. bools. subst. injection Hs as <-. split.
    + prep. assumption.
    + prep. rewrite map_app. cbn [map snd]. rewrite <- app_assoc. exact Hb.
    + prep. first [exact Hc | rewrite Ec; exact Hc].
  - (* MNext *)
    destruct (ctl_ s) eqn:Ec; try discriminate. destr_if Hs. bools. subst. injection Hs as <-. split.
    + prep. assumption.
    + prep. assumption.
    + prep. destruct Hc as (Hk & Ht & Hc & Hd & Hst). injection Hc as -> -> -> ->.
      repeat split; auto. cnt.
  - (* MDone *)
    destruct (ctl_ s) eqn:Ec; try discriminate; destruct o; try discriminate;
      destr_if Hs; injection Hs as <-; (split; [prep; assumption | prep; assumption | prep]).
    all: try (destruct Hc as (_ & _ & _ & Hd & _); now rewrite Hd).
Qed.

Lemma run_from_inv : forall prog start h0 evs pre s s',
  Inv prog start h0 pre s -> run_from prog start s evs = Some s' -> Inv prog start h0 (pre ++ evs) s'.
Proof.
  induction evs as [|e evs IH]; intros pre s s' HI H; cbn [run_from] in H.
  - injection H as <-. now rewrite app_nil_r.
  - destruct (step prog start s e) as [s1|] eqn:E; [|discriminate].
    replace (pre ++ e :: evs) with ((pre ++ [e]) ++ evs) by (rewrite <- app_assoc; reflexivity).
    eapply IH; [|eassumption]. eapply step_inv; eassumption.
Qed.

Lemma run_inv : forall prog start h0 evs s,
  run prog start h0 evs = Some s -> Inv prog start h0 evs s.
Proof. intros. apply (run_from_inv prog start h0 evs [] (init_state h0) s (inv_init _ _ _) H). Qed.

(* ------------------------------------------------------------------ every step of a valid trace
   satisfies the executable property *)
Definition total_ok (prog : program) (total : option N) : Prop :=
  match total with Some T => T = sum_dur prog | None => True end.

Lemma step_ev_ok : forall prog start h0 total pre s e s',
  total_ok prog total ->
  Inv prog start h0 pre s -> step prog start s e = Some s' -> ev_ok prog start h0 total pre e = true.
Proof.
  intros prog start h0 total pre s e s' HT [Hh Hb Hc] Hs.
  unfold ctl_inv, counts in Hc.
  destruct e as [h|m acc|t|k hgt|w|k m|k|o]; cbn [step] in Hs; cbn [ev_ok]; auto.
  - (* MWait *)
    destruct (ctl_ s) eqn:Ec; try discriminate.
    + destr_if Hs. bools. destruct Hc as [Hc Hd]. injection Hc as C1 C2 C3 C4; rewrite ?C1, ?C2, ?C3, ?C4. rewrite Hd. cbn [is_nil andb Nat.eqb].
      subst. rewrite ?N.eqb_refl. reflexivity.
    + destruct prog as [|s0 p]; [discriminate|]. destr_if Hs. bools.
      destruct Hc as [Hc Hd]. injection Hc as C1 C2 C3 C4; rewrite ?C1, ?C2, ?C3, ?C4. rewrite Hd. cbn [is_nil andb length Nat.ltb Nat.leb Nat.eqb].
      subst t. rewrite nominal_0, ?N.eqb_refl. cbn [andb]. rewrite <- Hh. now apply N.leb_le.
    + destruct (nth_error prog (S k)) as [sn|] eqn:En; [|discriminate]. destr_if Hs. bools.
      destruct Hc as (Hk & Hw & Hc & Hd & Hst & Hwh). injection Hc as C1 C2 C3 C4; rewrite ?C1, ?C2, ?C3, ?C4. rewrite Hd.
      assert (Hlt : (S k < length prog)%nat) by (apply nth_error_Some; congruence).
      cbn [is_nil andb]. apply Nat.ltb_lt in Hlt. rewrite Hlt. subst t w.
      rewrite (nominal_S _ _ _ _ En), ?N.eqb_refl, ?Nat.eqb_refl. cbn [andb].
      rewrite <- Hh. now apply N.leb_le.
  - (* MInit *)
    destruct (ctl_ s) eqn:Ec; try discriminate. destr_if Hs. bools. subst.
    destruct Hc as (Hk & Ht & Hc & Hd & Hst). injection Hc as C1 C2 C3 C4; rewrite ?C1, ?C2, ?C3, ?C4. rewrite Hd.
    cbn [is_nil andb]. rewrite ?Nat.eqb_refl. cbn [andb]. subst. now apply N.leb_le.
  - (* MWaiter *)
    destruct (ctl_ s) eqn:Ec; try discriminate. destr_if Hs. bools.
    destruct Hc as (Hk & Ht & Hc & Hd & Hst). injection Hc as C1 C2 C3 C4; rewrite ?C1, ?C2, ?C3, ?C4. rewrite Hd.
    cbn [is_nil andb]. rewrite ?Nat.eqb_refl. cbn [andb]. subst.
    rewrite (endk_step _ _ _ Hk), ?N.eqb_refl. cbn [andb]. now apply negb_true_iff.
  - (* MRecv *)
    destruct (ctl_ s) eqn:Ec; try discriminate. destruct (buf s) as [|m' rest] eqn:Eb; [discriminate|].
    destr_if Hs. bools. subst.
    destruct Hc as (Hk & Ht & Hc & Hd & Hst). injection Hc as C1 C2 C3 C4; rewrite ?C1, ?C2, ?C3, ?C4. rewrite Hd.
    cbn [is_nil andb]. rewrite ?Nat.eqb_refl. cbn [andb].
    rewrite <- Hb. rewrite nth_error_app2 by (rewrite map_length; lia).
    rewrite map_length, Nat.sub_diag. cbn [nth_error]. apply N.eqb_refl.
  - (* MNext *)
    destruct (ctl_ s) eqn:Ec; try discriminate. destr_if Hs. bools. subst.
    destruct Hc as (Hk & Ht & Hc & Hd & Hst). injection Hc as C1 C2 C3 C4; rewrite ?C1, ?C2, ?C3, ?C4. rewrite Hd.
    cbn [is_nil andb]. rewrite ?Nat.eqb_refl. cbn [andb]. rewrite <- Hh. subst. now apply N.leb_le.
  - (* MDone *)
    destruct (ctl_ s) eqn:Ec; try discriminate; destruct o; try discriminate; destr_if Hs; bools; subst.
    + destruct Hc as (Hk & Ht & Hc & Hd & Hst). injection Hc as C1 C2 C3 C4; rewrite ?C1, ?C2, ?C3, ?C4. rewrite Hd.
      cbn [is_nil andb]. rewrite ?Nat.eqb_refl. cbn [andb]. assumption.
    + destruct Hc as (Hk & Ht & Hc & Hd & Hst & Hwh). injection Hc as C1 C2 C3 C4; rewrite ?C1, ?C2, ?C3, ?C4. rewrite Hd.
      cbn [is_nil andb]. match goal with H : S _ = length prog |- _ => rename H into HL end.
      subst w. rewrite <- HL, ?Nat.eqb_refl, ?N.eqb_refl. cbn [andb].
      match goal with H : next_err _ = false |- _ => rewrite H end. cbn [negb andb].
      destruct total as [T|]; [|reflexivity]. cbn in HT. subst T.
      rewrite (endk_last _ _ _ HL). apply N.eqb_refl.
    + destruct Hc as (Hk & Ht & Hc & Hd & Hst & Hwh). injection Hc as C1 C2 C3 C4; rewrite ?C1, ?C2, ?C3, ?C4. rewrite Hd.
      cbn [is_nil andb]. rewrite ?Nat.eqb_refl. cbn [andb]. assumption.
Qed.

Lemma valid_event_ok : forall prog start h0 total pre e post s,
  total_ok prog total ->
  run prog start h0 (pre ++ e :: post) = Some s -> ev_ok prog start h0 total pre e = true.
Proof.
  intros prog start h0 total pre e post s HT H.
  destruct (run_split _ _ _ _ _ _ _ H) as (s1 & s2 & H1 & H2 & _).
  eapply step_ev_ok; eauto using run_inv.
Qed.

Lemma valid_all_ok : forall prog start h0 total evs s,
  total_ok prog total ->
  run prog start h0 evs = Some s -> all_ok (ev_ok prog start h0 total) [] evs = true.
Proof.
  intros prog start h0 total evs s HT H. apply all_ok_intro. intros p e q ->. cbn [app].
  eapply valid_event_ok; eauto.
Qed.

(* ------------------------------------------------------------------ from the executable property
   to statements: everything below only assumes that every event of the trace passes [ev_ok] *)
Definition ok_trace (prog : program) (start h0 : N) (total : option N) (evs : list event) : Prop :=
  forall pre e post, evs = pre ++ e :: post -> ev_ok prog start h0 total pre e = true.

Lemma valid_ok_trace : forall prog start h0 total evs s,
  total_ok prog total -> run prog start h0 evs = Some s -> ok_trace prog start h0 total evs.
Proof. intros prog start h0 total evs s HT H pre e post ->. eapply valid_event_ok; eauto. Qed.

Lemma spec_ok_trace : forall prog start h0 total evs,
  all_ok (ev_ok prog start h0 total) [] evs = true -> ok_trace prog start h0 total evs.
Proof. intros prog start h0 total evs H pre e post E. exact (all_ok_elim _ _ _ H pre e post E). Qed.

Lemma ok_trace_all_ok : forall prog start h0 total evs,
  ok_trace prog start h0 total evs -> all_ok (ev_ok prog start h0 total) [] evs = true.
Proof. intros. apply all_ok_intro. intros p e q E. cbn [app]. eapply H; eauto. Qed.

Definition expected_wait (prog : program) (start : N) (i : nat) : N :=
  match i with O => start | S j => nominal prog start j end.

Lemma is_nil_true : forall A (l : list A), is_nil l = true -> l = [].
Proof. destruct l; [reflexivity|discriminate]. Qed.

Ltac bools2 :=
  repeat match goal with
  | H : _ && _ = true |- _ => apply andb_prop in H; destruct H
  | H : is_nil _ = true |- _ => apply is_nil_true in H
  | H : Nat.eqb _ _ = true |- _ => apply Nat.eqb_eq in H
  | H : Nat.ltb _ _ = true |- _ => apply Nat.ltb_lt in H
  | H : N.eqb _ _ = true |- _ => apply N.eqb_eq in H
  | H : N.leb _ _ = true |- _ => apply N.leb_le in H
  | H : negb _ = true |- _ => apply negb_true_iff in H
  end.

Lemma ok_waits_closed : forall prog start h0 total evs,
  ok_trace prog start h0 total evs ->
  forall i t, nth_error (waits evs) i = Some t ->
    t = expected_wait prog start i /\ (forall j, i = S j -> (j < length prog)%nat).
Proof.
  intros prog start h0 total evs H i t Hn.
  destruct (nth_flat_map_split _ _ (fun e => match e with MWait t => [t] | _ => [] end)
              ltac:(intros []; cbn; lia) _ _ _ Hn) as (pre & a & post & E & L & F).
  destruct a; try discriminate. injection F as ->.
  specialize (H _ _ _ E). cbn [ev_ok] in H. fold (waits pre) in L. rewrite L in H.
  destruct i as [|j]; bools2; cbn [expected_wait]; split; auto; try discriminate.
  intros j' [= <-]. assumption.
Qed.

Lemma ok_waiters_closed : forall prog start h0 total evs,
  ok_trace prog start h0 total evs ->
  forall i w, nth_error (waiters evs) i = Some w -> w = endk prog start i.
Proof.
  intros prog start h0 total evs H i w Hn.
  destruct (nth_flat_map_split _ _ (fun e => match e with MWaiter t => [t] | _ => [] end)
              ltac:(intros []; cbn; lia) _ _ _ Hn) as (pre & a & post & E & L & F).
  destruct a; try discriminate. injection F as ->.
  specialize (H _ _ _ E). cbn [ev_ok] in H. fold (waiters pre) in L. rewrite L in H.
  bools2. assumption.
Qed.

Lemma ok_prefix : forall prog start h0 total pre post,
  ok_trace prog start h0 total (pre ++ post) -> ok_trace prog start h0 total pre.
Proof.
  intros prog start h0 total pre post H p e q ->. apply (H p e (q ++ post)).
  rewrite <- app_assoc. reflexivity.
Qed.

(* initiate_block *)
Lemma ok_initiate_block : forall prog start h0 total pre k hgt post,
  ok_trace prog start h0 total (pre ++ MInit k hgt :: post) ->
  (k < length prog)%nat /\
  length (inits pre) = k /\ length (nexts pre) = k /\ length (waiters pre) = k /\
  length (waits pre) = S (S k) /\ nth_error (waits pre) (S k) = Some (nominal prog start k) /\
  nominal prog start k <= hgt /\ dones pre = [].
Proof.
  intros prog start h0 total pre k hgt post H.
  pose proof (H _ _ _ eq_refl) as E. cbn [ev_ok] in E. bools2.
  assert (Hw : exists x, nth_error (waits pre) (S k) = Some x).
  { destruct (nth_error (waits pre) (S k)) eqn:En; [eauto|]. apply nth_error_None in En. lia. }
  destruct Hw as [x Hx].
  destruct (ok_waits_closed _ _ _ _ _ (ok_prefix _ _ _ _ _ _ H) _ _ Hx) as [-> Hj].
  cbn [expected_wait] in *. repeat split; auto; try congruence.
Qed.

(* end_block *)
Lemma ok_end_block : forall prog start h0 total pre k h post,
  ok_trace prog start h0 total (pre ++ MDone (Final k h) :: post) ->
  S k = length prog /\ length (nexts pre) = length prog /\
  h = (start + sum_dur prog) mod two64 /\
  (forall T, total = Some T -> h = (start + T) mod two64) /\ dones pre = [].
Proof.
  intros prog start h0 total pre k h post H.
  pose proof (H _ _ _ eq_refl) as E. cbn [ev_ok] in E. bools2.
  repeat split; auto; try congruence.
  - subst h. now apply endk_last.
  - intros T ->. bools2. assumption.
Qed.

(* messages_to_current_only *)
Lemma ok_messages_to_current_only : forall prog start h0 total pre k m post,
  ok_trace prog start h0 total (pre ++ MRecv k m :: post) ->
  length (nexts pre) = k /\ length (waiters pre) = S k /\
  nth_error (accepted pre) (length (recvs pre)) = Some m /\ dones pre = [].
Proof.
  intros prog start h0 total pre k m post H.
  pose proof (H _ _ _ eq_refl) as E. cbn [ev_ok] in E. bools2.
  destruct (nth_error (accepted pre) (length (recvs pre))) as [m'|]; [|discriminate].
  bools2. subst. auto.
Qed.

Lemma ok_next_after_end : forall prog start h0 total pre k post,
  ok_trace prog start h0 total (pre ++ MNext k :: post) ->
  length (nexts pre) = k /\ length (waiters pre) = S k /\
  endk prog start k <= height_of h0 pre /\ dones pre = [].
Proof.
  intros prog start h0 total pre k post H.
  pose proof (H _ _ _ eq_refl) as E. cbn [ev_ok] in E. bools2. auto.
Qed.

Lemma ok_errors : forall prog start h0 total pre post,
  (forall k, ok_trace prog start h0 total (pre ++ MDone (ErrInit k) :: post) ->
             init_err (nth_st prog k) = true /\ length (inits pre) = S k /\ length (waiters pre) = k) /\
  (forall k, ok_trace prog start h0 total (pre ++ MDone (ErrNext k) :: post) ->
             next_err (nth_st prog k) = true /\ length (nexts pre) = S k).
Proof.
  intros; split; intros k H; pose proof (H _ _ _ eq_refl) as E; cbn [ev_ok] in E; bools2; auto.
Qed.

(* same_blocks_for_all_members: the blocks a member waits for do not depend on its schedule *)
Lemma ok_same_blocks : forall prog start h1 h2 t1 t2 evs1 evs2,
  ok_trace prog start h1 t1 evs1 -> ok_trace prog start h2 t2 evs2 ->
  (forall i a b, nth_error (waits evs1) i = Some a -> nth_error (waits evs2) i = Some b -> a = b) /\
  (forall i a b, nth_error (waiters evs1) i = Some a -> nth_error (waiters evs2) i = Some b -> a = b) /\
  (forall k1 e1 k2 e2, In (MDone (Final k1 e1)) evs1 -> In (MDone (Final k2 e2)) evs2 ->
                       k1 = k2 /\ e1 = e2).
Proof.
  intros prog start h1 h2 t1 t2 evs1 evs2 H1 H2. repeat split.
  - intros i a b Ha Hb.
    destruct (ok_waits_closed _ _ _ _ _ H1 _ _ Ha) as [-> _].
    destruct (ok_waits_closed _ _ _ _ _ H2 _ _ Hb) as [-> _]. reflexivity.
  - intros i a b Ha Hb.
    rewrite (ok_waiters_closed _ _ _ _ _ H1 _ _ Ha), (ok_waiters_closed _ _ _ _ _ H2 _ _ Hb). reflexivity.
  - apply in_split in H as (p1 & q1 & ->). apply in_split in H0 as (p2 & q2 & ->).
    destruct (ok_end_block _ _ _ _ _ _ _ _ H1) as (A & _). destruct (ok_end_block _ _ _ _ _ _ _ _ H2) as (B & _).
    lia.
  - apply in_split in H as (p1 & q1 & ->). apply in_split in H0 as (p2 & q2 & ->).
    destruct (ok_end_block _ _ _ _ _ _ _ _ H1) as (_ & _ & A & _).
    destruct (ok_end_block _ _ _ _ _ _ _ _ H2) as (_ & _ & B & _). congruence.
Qed.

(* no message lost, duplicated or reordered by the machine *)
Lemma fifo_no_loss : forall prog start h0 evs s,
  run prog start h0 evs = Some s -> map snd (recvs evs) ++ buf s = accepted evs.
Proof. intros. apply (inv_buf _ _ _ _ _ (run_inv _ _ _ _ _ H)). Qed.

(* ------------------------------------------------------------------ the real state lists *)
Lemma gjkr_total_duration :
  sum_dur gjkr_states = Z.to_N gjkr_ProtocolBlocks /\ (0 <= gjkr_ProtocolBlocks)%Z.
Proof. vm_compute. split; [reflexivity | discriminate]. Qed.
Lemma result_total_duration :
  sum_dur result_states = Z.to_N result_PrePublicationBlocks /\ (0 <= result_PrePublicationBlocks)%Z.
Proof. vm_compute. split; [reflexivity | discriminate]. Qed.

(* ------------------------------------------------------------------ exact heights on eager,
   timely schedules *)
Definition J (start : N) (s : mstate) : Prop :=
  match ctl_ s with
  | CStartWait => height s <= start
  | CDelayWait _ t => height s <= t
  | CLoop _ w => height s <= w
  | _ => True
  end.

Lemma step_eager_step : forall prog start s e s',
  step_eager prog start s e = Some s' -> step prog start s e = Some s'.
Proof.
  intros prog start s e s' H. destruct e; cbn [step_eager] in H; try exact H.
  destruct (machine_enabled start s); [discriminate|exact H].
Qed.

Lemma step_height : forall prog start s e s',
  step prog start s e = Some s' ->
  height s' = match e with EBlock h => N.max (height s) h | _ => height s end.
Proof.
  intros prog start s e s' H.
  destruct e as [h|m acc|t|k hgt|w|k m|k|o]; cbn [step] in H.
  - injection H as <-. reflexivity.
  - destr_if H. injection H as <-. destruct acc; reflexivity.
  - destruct (ctl_ s); try discriminate.
    + destr_if H. injection H as <-. reflexivity.
    + destruct prog; [discriminate|]. destr_if H. injection H as <-. reflexivity.
    + destruct (nth_error prog (S k)); [|discriminate]. destr_if H. injection H as <-. reflexivity.
  - destruct (ctl_ s); try discriminate. destr_if H. injection H as <-. reflexivity.
  - destruct (ctl_ s); try discriminate. destr_if H. injection H as <-. reflexivity.
  - destruct (ctl_ s); try discriminate. destruct (buf s); [discriminate|]. destr_if H.
    injection H as <-. reflexivity.
  - destruct (ctl_ s); try discriminate. destr_if H. injection H as <-. reflexivity.
  - destruct (ctl_ s); try discriminate; destruct o; try discriminate; destr_if H;
      injection H as <-; reflexivity.
Qed.

Definition timely1 (h : N) (e : event) : bool :=
  match e with
  | EBlock h' => h' <=? h + 1
  | MWait x | MWaiter x => h <=? x
  | _ => true
  end.

Lemma timely_cons : forall h e t,
  timely_from h (e :: t) =
  timely1 h e && timely_from (match e with EBlock h' => N.max h h' | _ => h end) t.
Proof. intros h e t; destruct e; reflexivity. Qed.

Lemma step_J : forall prog start s e s',
  J start s -> step_eager prog start s e = Some s' -> timely1 (height s) e = true -> J start s'.
Proof.
  intros prog start s e s' HJ H HT. unfold J in *.
  destruct e as [h|m acc|t|k hgt|w|k m|k|o]; cbn [step_eager step timely1] in *.
  - destruct (machine_enabled start s) eqn:En; [discriminate|]. injection H as <-.
    cbn [ctl_ height]. unfold machine_enabled in En. apply N.leb_le in HT.
    destruct (ctl_ s); auto.
    + apply N.leb_gt in En. lia.
    + apply N.leb_gt in En. lia.
    + apply orb_false_iff in En as [_ En]. apply N.leb_gt in En. lia.
  - destr_if H. injection H as <-. destruct acc; cbn [ctl_ height]; exact HJ.
  - apply N.leb_le in HT. destruct (ctl_ s); try discriminate.
    + destr_if H. bools. injection H as <-. cbn [with_ctl ctl_ height]. subst. assumption.
    + destruct prog; [discriminate|]. destr_if H. injection H as <-. cbn [with_ctl ctl_ height]. assumption.
    + destruct (nth_error prog (S k)); [|discriminate]. destr_if H. injection H as <-.
      cbn [with_ctl ctl_ height]. assumption.
  - destruct (ctl_ s); try discriminate. destr_if H. injection H as <-. exact I.
  - apply N.leb_le in HT. destruct (ctl_ s); try discriminate. destr_if H. injection H as <-.
    cbn [with_ctl ctl_ height]. assumption.
  - destruct (ctl_ s) eqn:Ec; try discriminate. destruct (buf s); [discriminate|]. destr_if H.
    injection H as <-. cbn [ctl_ height]. first [exact HJ | rewrite Ec; exact HJ].
  - destruct (ctl_ s); try discriminate. destr_if H. injection H as <-. exact I.
  - destruct (ctl_ s); try discriminate; destruct o; try discriminate; destr_if H;
      injection H as <-; exact I.
Qed.

Lemma step_exact : forall prog start h0 pre s e s',
  Inv prog start h0 pre s -> J start s -> step prog start s e = Some s' ->
  ev_exact prog start h0 pre e = true.
Proof.
  intros prog start h0 pre s e s' [Hh Hb Hc] HJ H. unfold J in HJ. unfold ctl_inv in Hc.
  destruct e as [h|m acc|t|k hgt|w|k m|k|o]; cbn [ev_exact]; auto; cbn [step] in H.
  - destruct (ctl_ s); try discriminate. destr_if H. bools. subst.
    destruct Hc as (_ & -> & _). apply N.eqb_eq. lia.
  - destruct (ctl_ s); try discriminate. destr_if H. bools. subst.
    destruct Hc as (_ & Hw & _). rewrite <- Hh. apply N.eqb_eq. subst. lia.
Qed.

Lemma eager_exact_from : forall prog start h0 rest pre s s',
  Inv prog start h0 pre s -> J start s ->
  run_eager_from prog start s rest = Some s' -> timely_from (height s) rest = true ->
  all_ok (ev_exact prog start h0) pre rest = true.
Proof.
  induction rest as [|e t IH]; intros pre s s' HI HJ H HT; cbn [all_ok]; [reflexivity|].
  cbn [run_eager_from] in H. destruct (step_eager prog start s e) as [s1|] eqn:E; [|discriminate].
  rewrite timely_cons in HT. apply andb_prop in HT as [HT1 HT2].
  pose proof (step_eager_step _ _ _ _ _ E) as Es.
  apply andb_true_intro; split.
  - eapply step_exact; eauto.
  - apply (IH (pre ++ [e]) s1 s').
    + eapply step_inv; eassumption.
    + eapply step_J; eassumption.
    + exact H.
    + rewrite (step_height _ _ _ _ _ Es). exact HT2.
Qed.

Lemma run_eager_run : forall prog start evs s s',
  run_eager_from prog start s evs = Some s' -> run_from prog start s evs = Some s'.
Proof.
  induction evs as [|e t IH]; intros s s' H; cbn [run_eager_from run_from] in *; [exact H|].
  destruct (step_eager prog start s e) as [s1|] eqn:E; [|discriminate].
  rewrite (step_eager_step _ _ _ _ _ E). now apply IH.
Qed.

Lemma eager_timely_exact : forall prog start h0 evs s,
  run_eager prog start h0 evs = Some s -> timely_from h0 evs = true ->
  all_ok (ev_exact prog start h0) [] evs = true.
Proof.
  intros prog start h0 evs s H HT.
  eapply (eager_exact_from prog start h0 evs [] (init_state h0)); eauto using inv_init.
  exact I.
Qed.

Lemma exact_facts : forall prog start h0 evs,
  all_ok (ev_exact prog start h0) [] evs = true ->
  (forall pre k hgt post, evs = pre ++ MInit k hgt :: post -> hgt = nominal prog start k) /\
  (forall pre k post, evs = pre ++ MNext k :: post -> height_of h0 pre = endk prog start k).
Proof.
  intros prog start h0 evs H; split; intros; pose proof (all_ok_elim _ _ _ H _ _ _ H0) as E;
    cbn [app ev_exact] in E; now apply N.eqb_eq.
Qed.

(* every trace the eager model produces passes the whole executable property *)
Lemma model_passes_spec : forall prog start h0 total evs s settled,
  total_ok prog total ->
  run_eager prog start h0 evs = Some s ->
  spec_trace {| c_prog := prog; c_start := start; c_h0 := h0; c_total := total; c_eager := true;
                c_settled := settled; c_events := evs |} = true.
Proof.
  intros prog start h0 total evs s settled HT H. unfold spec_trace. cbn.
  apply andb_true_intro; split.
  - apply (valid_all_ok prog start h0 total evs s HT). unfold run. apply run_eager_run. exact H.
  - destruct (timely_from h0 evs) eqn:E; [|reflexivity]. eapply eager_timely_exact; eauto.
Qed.

(* ------------------------------------------------------------------ statements for valid traces *)
Lemma initiate_block : forall prog start h0 pre k hgt post s,
  run prog start h0 (pre ++ MInit k hgt :: post) = Some s ->
  (k < length prog)%nat /\
  length (inits pre) = k /\ length (nexts pre) = k /\ length (waiters pre) = k /\
  length (waits pre) = S (S k) /\ nth_error (waits pre) (S k) = Some (nominal prog start k) /\
  nominal prog start k <= hgt /\ dones pre = [].
Proof.
  intros. eapply ok_initiate_block. eapply (valid_ok_trace _ _ _ None); [exact I | eassumption].
Qed.

Lemma end_block : forall prog start h0 pre k h post s,
  run prog start h0 (pre ++ MDone (Final k h) :: post) = Some s ->
  S k = length prog /\ length (nexts pre) = length prog /\
  h = (start + sum_dur prog) mod two64 /\
  (start + sum_dur prog < two64 -> h = start + sum_dur prog).
Proof.
  intros prog start h0 pre k h post s H.
  destruct (ok_end_block prog start h0 None pre k h post) as (A & B & C & _).
  { eapply valid_ok_trace; [exact I | eassumption]. }
  repeat split; auto. intros Hs. rewrite C. now apply N.mod_small.
Qed.

Lemma messages_to_current_only : forall prog start h0 pre k m post s,
  run prog start h0 (pre ++ MRecv k m :: post) = Some s ->
  length (nexts pre) = k /\ length (waiters pre) = S k /\
  nth_error (accepted pre) (length (recvs pre)) = Some m /\ dones pre = [].
Proof.
  intros. eapply ok_messages_to_current_only. eapply (valid_ok_trace _ _ _ None); [exact I | eassumption].
Qed.

Lemma next_only_after_end_block : forall prog start h0 pre k post s,
  run prog start h0 (pre ++ MNext k :: post) = Some s ->
  length (nexts pre) = k /\ length (waiters pre) = S k /\ endk prog start k <= height_of h0 pre.
Proof.
  intros. edestruct ok_next_after_end as (A & B & C & _);
    [eapply (valid_ok_trace _ _ _ None); [exact I | eassumption] | auto].
Qed.

Lemma same_blocks_for_all_members : forall prog start h1 h2 evs1 evs2 s1 s2,
  run prog start h1 evs1 = Some s1 -> run prog start h2 evs2 = Some s2 ->
  (forall i a b, nth_error (waits evs1) i = Some a -> nth_error (waits evs2) i = Some b -> a = b) /\
  (forall i a b, nth_error (waiters evs1) i = Some a -> nth_error (waiters evs2) i = Some b -> a = b) /\
  (forall k1 e1 k2 e2, In (MDone (Final k1 e1)) evs1 -> In (MDone (Final k2 e2)) evs2 ->
                       k1 = k2 /\ e1 = e2).
Proof.
  intros. eapply (ok_same_blocks prog start h1 h2 None None);
    (eapply valid_ok_trace; [exact I | eassumption]).
Qed.

Lemma initiate_height_exact : forall prog start h0 evs s,
  run_eager prog start h0 evs = Some s -> timely_from h0 evs = true ->
  (forall pre k hgt post, evs = pre ++ MInit k hgt :: post -> hgt = nominal prog start k) /\
  (forall pre k post, evs = pre ++ MNext k :: post -> height_of h0 pre = endk prog start k).
Proof. intros. apply exact_facts. eapply eager_timely_exact; eauto. Qed.

Lemma real_protocol_duration : forall proto start h0 pre k h post s,
  run (real_states proto) start h0 (pre ++ MDone (Final k h) :: post) = Some s ->
  h = (start + Z.to_N (real_total proto)) mod two64.
Proof.
  intros proto start h0 pre k h post s H.
  destruct (end_block _ _ _ _ _ _ _ _ H) as (_ & _ & -> & _).
  destruct proto as [|p]; cbn [real_states real_total].
  - now rewrite (proj1 gjkr_total_duration).
  - now rewrite (proj1 result_total_duration).
Qed.

(* ------------------------------------------------------------------ soundness of the executable
   form: what an observed trace that passes [spec_trace] satisfies *)
Lemma spec_sound : forall c, spec_trace c = true ->
  let prog := c_prog c in let start := c_start c in
  (forall pre k hgt post, c_events c = pre ++ MInit k hgt :: post ->
     (k < length prog)%nat /\ length (inits pre) = k /\ length (nexts pre) = k /\
     nth_error (waits pre) (S k) = Some (nominal prog start k) /\ nominal prog start k <= hgt /\
     (c_eager c = true -> timely_from (c_h0 c) (c_events c) = true -> hgt = nominal prog start k)) /\
  (forall pre k h post, c_events c = pre ++ MDone (Final k h) :: post ->
     S k = length prog /\ h = (start + sum_dur prog) mod two64 /\
     (forall T, c_total c = Some T -> h = (start + T) mod two64)) /\
  (forall pre k m post, c_events c = pre ++ MRecv k m :: post ->
     length (nexts pre) = k /\ length (waiters pre) = S k /\
     nth_error (accepted pre) (length (recvs pre)) = Some m) /\
  (forall pre k post, c_events c = pre ++ MNext k :: post ->
     length (nexts pre) = k /\ endk prog start k <= height_of (c_h0 c) pre).
Proof.
  intros c H prog start. unfold spec_trace in H. apply andb_prop in H as [H1 H2].
  apply spec_ok_trace in H1. fold prog start in H1. repeat split.
  1-5: rewrite H in H1; destruct (ok_initiate_block _ _ _ _ _ _ _ _ H1) as (A1 & A2 & A3 & A4 & A5 & A6 & A7 & A8); auto.
  - intros He Ht. rewrite He, Ht in H2. cbn [andb] in H2.
    destruct (exact_facts _ _ _ _ H2) as [E _]. eapply E; eassumption.
  - rewrite H in H1. now destruct (ok_end_block _ _ _ _ _ _ _ _ H1).
  - rewrite H in H1. now destruct (ok_end_block _ _ _ _ _ _ _ _ H1) as (_ & _ & ? & _).
  - rewrite H in H1. now destruct (ok_end_block _ _ _ _ _ _ _ _ H1) as (_ & _ & _ & ? & _).
  - rewrite H in H1. now destruct (ok_messages_to_current_only _ _ _ _ _ _ _ _ H1).
  - rewrite H in H1. now destruct (ok_messages_to_current_only _ _ _ _ _ _ _ _ H1) as (_ & ? & _).
  - rewrite H in H1. now destruct (ok_messages_to_current_only _ _ _ _ _ _ _ _ H1) as (_ & _ & ? & _).
  - rewrite H in H1. now destruct (ok_next_after_end _ _ _ _ _ _ _ H1).
  - rewrite H in H1. now destruct (ok_next_after_end _ _ _ _ _ _ _ H1) as (_ & _ & ? & _).
Qed.

(* ------------------------------------------------------------------ the hypotheses are
   satisfiable: a complete eager, timely run with a silent state and a message *)
Definition ex_prog : program :=
  [ {| delay := 1; active := 2; init_err := false; next_err := false |};
    {| delay := 0; active := 0; init_err := false; next_err := false |};
    {| delay := 1; active := 1; init_err := false; next_err := false |} ].
Definition ex_events : list event :=
  [ MWait 10; EBlock 10; MWait 11; EMsg 1 true; EBlock 11; MInit 0 11; MWaiter 13; MRecv 0 1;
    EBlock 12; EBlock 13; MNext 0; MWait 13; MInit 1 13; MWaiter 13; MNext 1; MWait 14; EBlock 14;
    MInit 2 14; MWaiter 15; EMsg 2 true; MRecv 2 2; EBlock 15; MNext 2; MDone (Final 2 15) ].
Example ex_run :
  (exists s, run_eager ex_prog 10 9 ex_events = Some s /\ ctl_ s = CDone (Final 2 15)) /\
  timely_from 9 ex_events = true /\ 10 + sum_dur ex_prog = 15.
Proof. vm_compute. split; [eexists; split; reflexivity | split; reflexivity]. Qed.

(* ------------------------------------------------------------------ re-execution of one machine *)
Lemma exec_state_nil : forall h0, exec_state [] h0 = init_state h0.
Proof. reflexivity. Qed.

(* executions of one machine are independent: a history is possible iff every execution in it
   is a behaviour of a FRESH machine (nothing is carried from one Execute to the next) *)
Lemma hist_independent : forall rs ss,
  run_history rs = Some ss <->
  Forall2 (fun r s => run (c_prog r) (c_start r) (c_h0 r) (c_events r) = Some s) rs ss.
Proof.
  unfold run_history. induction rs as [|r t IH]; intros ss; cbn [run_hist_from].
  - split.
    + intros H. inversion H. constructor.
    + intros H. inversion H. reflexivity.
  - rewrite exec_state_nil. fold (run (c_prog r) (c_start r) (c_h0 r) (c_events r)).
    destruct (run (c_prog r) (c_start r) (c_h0 r) (c_events r)) as [s|] eqn:E.
    + cbn [carried]. destruct (run_hist_from false [] t) as [ss'|] eqn:Et.
      * split.
        -- intros H. inversion H; subst. constructor; [exact E|]. apply IH. reflexivity.
        -- intros H. inversion H as [|r' s' t' ss'' Hr Ht]; subst.
           apply IH in Ht. rewrite E in Hr. inversion Hr; subst. inversion Ht; subst. reflexivity.
      * split; [discriminate|].
        intros H. inversion H as [|r' s' t' ss'' Hr Ht]; subst. apply IH in Ht. discriminate.
    + split; [discriminate|]. intros H. inversion H as [|r' s' t' ss'' Hr Ht]; subst.
      rewrite E in Hr. discriminate.
Qed.

Lemma hist_run_of : forall rs ss r, run_history rs = Some ss -> In r rs ->
  exists s, run (c_prog r) (c_start r) (c_h0 r) (c_events r) = Some s.
Proof.
  intros rs ss r H. apply hist_independent in H. induction H as [|r' s' t ss' Hr Ht IH]; intros Hin.
  - destruct Hin.
  - destruct Hin as [<-|Hin]; [exists s'; exact Hr|apply IH; exact Hin].
Qed.

(* a message handed to a state was accepted from the channel during THAT execution, while the
   machine that runs this execution had it as its oldest unhanded message *)
Lemma hist_messages_stay : forall rs ss r pre k m post,
  run_history rs = Some ss -> In r rs -> c_events r = pre ++ MRecv k m :: post ->
  length (nexts pre) = k /\ length (waiters pre) = S k /\
  nth_error (accepted pre) (length (recvs pre)) = Some m /\ dones pre = [].
Proof.
  intros rs ss r pre k m post H Hin E. destruct (hist_run_of rs ss r H Hin) as [s Hs].
  rewrite E in Hs. exact (messages_to_current_only _ _ _ _ _ _ _ _ Hs).
Qed.

Lemma hist_end_block : forall rs ss r pre k h post,
  run_history rs = Some ss -> In r rs -> c_events r = pre ++ MDone (Final k h) :: post ->
  S k = length (c_prog r) /\ h = (c_start r + sum_dur (c_prog r)) mod two64.
Proof.
  intros rs ss r pre k h post H Hin E. destruct (hist_run_of rs ss r H Hin) as [s Hs].
  rewrite E in Hs. destruct (end_block _ _ _ _ _ _ _ _ Hs) as [A [_ [B _]]]. split; assumption.
Qed.

(* a machine that kept ONE receive buffer for its whole life would hand the first state of a
   later execution a message that arrived during an earlier, aborted one *)
Definition reuse_run1 : trace_case :=
  {| c_prog := [ {| delay := 1; active := 1; init_err := true; next_err := false |} ];
     c_start := 10; c_h0 := 9; c_total := None; c_eager := true; c_settled := true;
     c_events := [ MWait 10; EMsg 1 true; EBlock 10; MWait 11; EBlock 11; MInit 0 11;
                   MDone (ErrInit 0) ] |}.
Definition reuse_run2 : trace_case :=
  {| c_prog := [ {| delay := 0; active := 1; init_err := false; next_err := false |} ];
     c_start := 12; c_h0 := 11; c_total := None; c_eager := true; c_settled := true;
     c_events := [ MWait 12; EBlock 12; MWait 12; MInit 0 12; MWaiter 13; MRecv 0 1;
                   EBlock 13; MNext 0; MDone (Final 0 13) ] |}.
Lemma reused_buffer_refuted :
  (exists ss, run_hist_from true [] [reuse_run1; reuse_run2] = Some ss) /\
  In (MRecv 0 1) (c_events reuse_run2) /\ ~ In 1 (accepted (c_events reuse_run2)) /\
  run_history [reuse_run1; reuse_run2] = None /\ spec_hist [reuse_run1; reuse_run2] = false.
Proof.
  split; [eexists; vm_compute; reflexivity|].
  split; [vm_compute; tauto|]. split; [vm_compute; tauto|]. split; vm_compute; reflexivity.
Qed.

(* soundness of the executable form over a history *)
Lemma spec_hist_sound : forall rs, spec_hist rs = true ->
  forall r, In r rs ->
  (forall pre k m post, c_events r = pre ++ MRecv k m :: post ->
     length (nexts pre) = k /\ length (waiters pre) = S k /\
     nth_error (accepted pre) (length (recvs pre)) = Some m) /\
  (forall pre k h post, c_events r = pre ++ MDone (Final k h) :: post ->
     S k = length (c_prog r) /\ h = (c_start r + sum_dur (c_prog r)) mod two64).
Proof.
  intros rs H r Hin. unfold spec_hist in H. rewrite forallb_forall in H. specialize (H r Hin).
  destruct (spec_sound r H) as [_ [B [C _]]]. split.
  - exact C.
  - intros pre k h post E. destruct (B pre k h post E) as [B1 [B2 _]]. split; assumption.
Qed.

Lemma model_passes_spec_hist : forall rs,
  (forall r, In r rs -> c_eager r = true /\ total_ok (c_prog r) (c_total r) /\
     exists s, run_eager (c_prog r) (c_start r) (c_h0 r) (c_events r) = Some s) ->
  spec_hist rs = true.
Proof.
  intros rs H. unfold spec_hist. apply forallb_forall. intros r Hin.
  destruct (H r Hin) as [He [Ht [s Hs]]]. destruct r as [p st h0 tot eg se evs].
  cbn in He, Ht, Hs. subst eg. exact (model_passes_spec p st h0 tot evs s se Ht Hs).
Qed.

Example hist_example :
  exists ss, run_history [reuse_run1;
    {| c_prog := c_prog reuse_run2; c_start := 12; c_h0 := 11; c_total := None; c_eager := true;
       c_settled := true;
       c_events := [ MWait 12; EBlock 12; MWait 12; MInit 0 12; MWaiter 13; EMsg 2 true;
                     MRecv 0 2; EBlock 13; MNext 0; MDone (Final 0 13) ] |}] = Some ss.
Proof. eexists. vm_compute. reflexivity. Qed.
