(* Lemmas for C27 (and, through the shared interpreter, C28). *)
From Coq Require Import ZArith NArith List Bool Lia.
From Coq Require Import ZifyBool ZifyNat ZifyN.
From KV Require Import Common.Verdict Model.C27.
Import ListNotations.
Open Scope N_scope.

Ltac Zify.zify_post_hook ::= Z.div_mod_to_equations.

(* ------------------------------------------------------------------ bytes *)
Lemma bytes_eqb_refl : forall a, bytes_eqb a a = true.
Proof. induction a as [|x a IH]; cbn; [reflexivity|]. now rewrite N.eqb_refl, IH. Qed.

Lemma bytes_eqb_eq : forall a b, bytes_eqb a b = true <-> a = b.
Proof.
  induction a as [|x a IH]; destruct b as [|y b]; cbn; split; intro H; try congruence; try discriminate.
  - apply andb_prop in H as [H1 H2]. apply N.eqb_eq in H1. apply IH in H2. congruence.
  - injection H as -> ->. now rewrite N.eqb_refl, bytes_eqb_refl.
Qed.

Lemma bytes_eqb_neq : forall a b, bytes_eqb a b = false <-> a <> b.
Proof.
  intros a b. split; intro H.
  - intro E. apply bytes_eqb_eq in E. congruence.
  - destruct (bytes_eqb a b) eqn:E; [|reflexivity]. apply bytes_eqb_eq in E. contradiction.
Qed.

Lemma unsnoc_app : forall {A} (l : list A) a, unsnoc (l ++ [a]) = Some (l, a).
Proof.
  induction l as [|x l IH]; intro a; [reflexivity|].
  cbn [app unsnoc]. rewrite IH. destruct (l ++ [a]) eqn:E; [destruct l; discriminate|reflexivity].
Qed.

Lemma unsnoc_some : forall {A} (l : list A) i a, unsnoc l = Some (i, a) -> l = i ++ [a].
Proof.
  induction l as [|x l IH]; intros i a H; [discriminate|].
  cbn [unsnoc] in H. destruct l as [|y l'].
  - injection H as <- <-. reflexivity.
  - destruct (unsnoc (y :: l')) as [[i' a']|] eqn:E; [|discriminate].
    injection H as <- <-. cbn. f_equal. now apply IH.
Qed.

Lemma unsnoc_none : forall {A} (l : list A), unsnoc l = None -> l = [].
Proof.
  induction l as [|x l IH]; intro H; [reflexivity|].
  cbn [unsnoc] in H. destruct l as [|y l']; [discriminate|].
  destruct (unsnoc (y :: l')) as [[i' a']|] eqn:E; [discriminate|]. specialize (IH eq_refl). discriminate.
Qed.

Lemma take_app : forall d r, take (length d) (d ++ r) = Some (d, r).
Proof.
  intros d r. unfold take. rewrite app_length.
  destruct (Nat.ltb_spec (length d + length r) (length d)) as [H|H]; [lia|].
  now rewrite firstn_app, Nat.sub_diag, firstn_all, firstn_O, app_nil_r, skipn_app, skipn_all,
    Nat.sub_diag.
Qed.

Lemma nlen_nat : forall {A} (l : list A), N.to_nat (nlen l) = length l.
Proof. intros. unfold nlen. apply Nat2N.id. Qed.

(* ------------------------------------------------------------------ parse (ser s) = s *)
Definition wf_op (o : op) : Prop :=
  match o with
  | OPush ESmall d => d = [] \/ exists v, d = [v] /\ ((1 <= v /\ v <= 16) \/ v = 129)
  | OPush EDirect d => 1 <= nlen d /\ nlen d <= 75
  | OPush EPD1 d => nlen d <= 255
  | OPush EPD2 d => nlen d <= 65535
  | OPush EPD4 d => nlen d < 4294967296
  | OOther b => 78 < b /\ simple_op b = OOther b
  | _ => True
  end.

Lemma simple_small : forall v, 1 <= v <= 16 -> simple_op (80 + v) = OPush ESmall [v].
Proof.
  intros v H.
  assert (E : v = 1 \/ v = 2 \/ v = 3 \/ v = 4 \/ v = 5 \/ v = 6 \/ v = 7 \/ v = 8 \/ v = 9 \/ v = 10
              \/ v = 11 \/ v = 12 \/ v = 13 \/ v = 14 \/ v = 15 \/ v = 16) by lia.
  repeat (destruct E as [->|E]; [reflexivity|]). subst; reflexivity.
Qed.

Lemma parse_step_simple : forall b f t,
    78 < b -> parse_aux (S f) (b :: t) = option_map (cons (simple_op b)) (parse_aux f t).
Proof.
  intros b f t H. cbn [parse_aux].
  destruct (N.eqb_spec b 0); [lia|]. destruct (N.leb_spec b 75); [lia|].
  destruct (N.eqb_spec b 76); [lia|]. destruct (N.eqb_spec b 77); [lia|].
  destruct (N.eqb_spec b 78); [lia|]. reflexivity.
Qed.

Lemma le_val_2 : forall n, n <= 65535 -> le_val (le_bytes 2 n) = n.
Proof. intros n H. cbn [le_bytes le_val]. lia. Qed.
Lemma le_val_4 : forall n, n < 4294967296 -> le_val (le_bytes 4 n) = n.
Proof. intros n H. cbn [le_bytes le_val]. lia. Qed.

Lemma parse_ser_op : forall o f rest,
    wf_op o -> parse_aux (S f) (ser_op o ++ rest) = option_map (cons o) (parse_aux f rest).
Proof.
  intros o f rest W. destruct o as [e d| | | | | | | | | | |b]; try reflexivity.
  - destruct e; cbn [wf_op] in W.
    + destruct W as [-> | [v [-> [W | ->]]]]; [reflexivity | | reflexivity].
      cbn [ser_op]. destruct (N.eqb_spec v 129); [lia|].
      cbn [app]. rewrite parse_step_simple by lia. now rewrite simple_small.
    + cbn [ser_op app parse_aux].
      destruct (N.eqb_spec (nlen d) 0); [lia|]. destruct (N.leb_spec (nlen d) 75); [|lia].
      unfold push_rest. now rewrite nlen_nat, take_app.
    + cbn [ser_op app parse_aux N.eqb Pos.eqb N.leb N.compare Pos.compare Pos.compare_cont].
      unfold len_then, take. cbn [length Nat.ltb Nat.leb firstn skipn le_val].
      replace (N.to_nat (nlen d + 256 * 0)) with (length d) by (rewrite <- (nlen_nat d); lia).
      unfold push_rest. now rewrite take_app.
    + cbn [ser_op parse_aux N.eqb Pos.eqb N.leb N.compare Pos.compare Pos.compare_cont].
      change ((77 :: le_bytes 2 (nlen d) ++ d) ++ rest) with (77 :: (le_bytes 2 (nlen d) ++ d) ++ rest).
      cbn [parse_aux N.eqb Pos.eqb N.leb N.compare Pos.compare Pos.compare_cont].
      unfold len_then. rewrite <- app_assoc.
      change 2%nat with (length (le_bytes 2 (nlen d))) at 1. rewrite take_app, le_val_2 by assumption.
      unfold push_rest. now rewrite nlen_nat, take_app.
    + cbn [ser_op].
      change ((78 :: le_bytes 4 (nlen d) ++ d) ++ rest) with (78 :: (le_bytes 4 (nlen d) ++ d) ++ rest).
      cbn [parse_aux N.eqb Pos.eqb N.leb N.compare Pos.compare Pos.compare_cont].
      unfold len_then. rewrite <- app_assoc.
      change 4%nat with (length (le_bytes 4 (nlen d))) at 1. rewrite take_app, le_val_4 by assumption.
      unfold push_rest. now rewrite nlen_nat, take_app.
  - destruct W as [W1 W2]. cbn [ser_op app]. rewrite parse_step_simple by assumption. now rewrite W2.
Qed.

Lemma ser_op_nonempty : forall o, (1 <= length (ser_op o))%nat.
Proof.
  destruct o as [e d| | | | | | | | | | |b]; cbn; try lia.
  destruct e; cbn; try lia. destruct d as [|v [|w t]]; cbn; try lia. destruct (v =? 129); cbn; lia.
Qed.

Lemma parse_aux_ser : forall ops, Forall wf_op ops ->
    forall f, (length (ser ops) <= f)%nat -> parse_aux f (ser ops) = Some ops.
Proof.
  induction 1 as [|o ops W _ IH]; intros f Hf.
  - destruct f; reflexivity.
  - unfold ser in *. cbn [flat_map] in *. rewrite app_length in Hf.
    pose proof (ser_op_nonempty o) as Hn.
    destruct f as [|f]; [lia|]. rewrite parse_ser_op by assumption.
    rewrite IH by lia. reflexivity.
Qed.

Lemma parse_ser : forall ops, Forall wf_op ops -> parse (ser ops) = Some ops.
Proof. intros ops W. unfold parse. now apply parse_aux_ser. Qed.

(* ------------------------------------------------------------------ interpreter *)
Lemma minimal_canon : forall d, minimal_push (canon_enc d) d = true.
Proof. intro d. unfold minimal_push. destruct (canon_enc d); reflexivity. Qed.

Lemma canon_enc_direct : forall d, 2 <= nlen d -> nlen d <= 75 -> canon_enc d = EDirect.
Proof.
  intros d H1 H2. destruct d as [|a [|b t]]; [unfold nlen in H1; cbn in H1; lia..|].
  unfold canon_enc. destruct (N.leb_spec (nlen (a :: b :: t)) 75); [reflexivity|lia].
Qed.

Lemma minimal_direct : forall d, 2 <= nlen d -> nlen d <= 75 -> minimal_push EDirect d = true.
Proof. intros d H1 H2. rewrite <- (canon_enc_direct d H1 H2). apply minimal_canon. Qed.

Section InterpLemmas.
  Variable hash160 : bytes -> bytes.
  Variable sha256 : bytes -> bytes.
  Variable der_strict : bytes -> bool.
  Variable checksig : bytes -> bytes -> sighash -> bool.

  Notation step := (step hash160 der_strict checksig).
  Notation run := (run hash160 der_strict checksig).
  Notation run_script := (run_script hash160 der_strict checksig).
  Notation run_final := (run_final hash160 der_strict checksig).
  Notation op_checksig := (op_checksig der_strict checksig).
  Notation sig_accept := (sig_accept der_strict checksig).
  Notation deposit_cond := (deposit_cond hash160 der_strict checksig).

  Lemma step_push_exec : forall c e d s,
      nlen d <= 520 -> minimal_push e d = true -> branch_executing (cnd s) = true ->
      step c (OPush e d) s = Ok (with_stack s (d :: stk s)).
  Proof.
    intros c e d s H1 H2 H3. unfold C27.step.
    destruct (N.ltb_spec 520 (nlen d)); [lia|]. now rewrite H3, H2.
  Qed.

  Lemma step_push_skip : forall c e d s,
      nlen d <= 520 -> branch_executing (cnd s) = false -> step c (OPush e d) s = Ok s.
  Proof.
    intros c e d s H1 H3. unfold C27.step.
    destruct (N.ltb_spec 520 (nlen d)); [lia|]. now rewrite H3.
  Qed.

  Lemma sig_enc_len : forall der, sig_enc_ok der_strict der = true -> (8 <= length der <= 72)%nat.
  Proof. intros der H. unfold sig_enc_ok in H. lia. Qed.

  Lemma op_checksig_spec : forall c pk sig rest cn n,
      op_checksig c {| stk := pk :: sig :: rest; cnd := cn; nops := n |} =
      match unsnoc sig with
      | None => Ok {| stk := [] :: rest; cnd := cn; nops := n |}
      | Some _ => if sig_accept c pk sig then Ok {| stk := [1] :: rest; cnd := cn; nops := n |}
                  else Fail
      end.
  Proof.
    intros. unfold C27.op_checksig, C27.sig_accept. cbn [stk cnd nops].
    destruct (unsnoc sig) as [[der ht]|]; [|reflexivity].
    destruct (hashtype_ok ht); [|reflexivity]. cbn [negb andb].
    destruct (sig_enc_ok der_strict der) eqn:E; [|reflexivity]. cbn [negb andb].
    destruct (pk_enc_ok (c_ver c) pk); [|reflexivity]. cbn [negb andb].
    apply sig_enc_len in E.
    destruct (checksig pk der _); cbn [negb andb of_bool]; [reflexivity|].
    destruct (Nat.ltb_spec 0 (length der)); [reflexivity|lia].
  Qed.

  Lemma run_cons : forall c o t s,
      run c (o :: t) s = match step c o s with Ok s' => run c t s' | Fail => Fail | Unsup => Unsup end.
  Proof. reflexivity. Qed.
  Lemma run_nil : forall c s, run c [] s = Ok s.
  Proof. reflexivity. Qed.

  Lemma if_bool_of_bool : forall v b, if_bool v (of_bool b) = Some b.
  Proof. intros [|] [|]; reflexivity. Qed.

  Lemma bytes_eqb_sym : forall a b, bytes_eqb a b = bytes_eqb b a.
  Proof.
    intros a b. destruct (bytes_eqb a b) eqn:E.
    - apply bytes_eqb_eq in E. subst. now rewrite bytes_eqb_refl.
    - apply bytes_eqb_neq in E. symmetry. apply bytes_eqb_neq. congruence.
  Qed.

  Lemma op_cltv_spec : forall c top rest cn n,
      op_cltv c {| stk := top :: rest; cnd := cn; nops := n |} =
      if cltv_pass c top then Ok {| stk := top :: rest; cnd := cn; nops := n |} else Fail.
  Proof.
    intros. unfold op_cltv, cltv_pass. cbn [stk]. destruct (script_num 5 top); reflexivity.
  Qed.

  Local Arguments minimal_push : simpl never.
  Local Arguments bytes_eqb : simpl never.
  Local Arguments nlen : simpl never.
  Local Arguments C27.op_checksig : simpl never.
  Local Arguments op_cltv : simpl never.
  Local Arguments N.ltb : simpl never.
  Local Arguments C27.run : simpl never.
  Local Arguments if_bool : simpl never.
  Local Arguments of_bool : simpl never.

  Ltac fin := repeat match goal with
    | H : (520 <? nlen ?x) = false |- context [520 <? nlen ?x] => rewrite H
    | H : minimal_push ?e ?x = true |- context [minimal_push ?e ?x] => rewrite H
    end.
  Ltac stp := rewrite run_cons; cbn; fin; cbn; fin; cbn; rewrite ?if_bool_of_bool; cbn.

  Lemma deposit_run_final : forall c d pk sig, dep_wf d ->
     run_final c (deposit_ops d) [pk; sig] = if deposit_cond c d pk sig then Accept else Reject.
  Proof.
    intros c [dep ex bl w r lk] pk sig W. unfold dep_wf in W; cbn in W.
    destruct W as (W1&W2&W3&W4&W5&W6).
    assert (Hs : forall x n, length x = n -> (2 <= n <= 75)%nat ->
                 (520 <? nlen x) = false /\ minimal_push EDirect x = true).
    { intros x n Hx Hn. split.
      - apply N.ltb_ge. unfold nlen. lia.
      - apply minimal_direct; unfold nlen; lia. }
    destruct (Hs _ _ W1 ltac:(lia)) as [S1 M1]. destruct (Hs _ _ W2 ltac:(lia)) as [S2 M2].
    destruct (Hs _ _ W3 ltac:(lia)) as [S3 M3]. destruct (Hs _ _ W4 ltac:(lia)) as [S4 M4].
    destruct (Hs _ _ W5 ltac:(lia)) as [S5 M5].
    assert (S6M6 : match ex with Some x => (520 <? nlen x) = false /\ minimal_push EDirect x = true
                   | None => True end).
    { destruct ex; [apply (Hs _ _ W6); lia|exact I]. }
    clear Hs.
    unfold C27.run_final, C27.run_script, deposit_ops, C27.deposit_cond.
    cbn [dp_depositor dp_extra dp_blinding dp_wpkh dp_rpkh dp_lock].
    rewrite (bytes_eqb_sym (hash160 pk) w), (bytes_eqb_sym (hash160 pk) r).
    destruct ex as [x|]; [destruct S6M6 as [S6 M6]|]; cbn [app].
    all: repeat stp.
    all: destruct (bytes_eqb w (hash160 pk)) eqn:Ew; destruct (bytes_eqb r (hash160 pk)) eqn:Er;
      destruct (cltv_pass c lk) eqn:EC;
      destruct (C27.sig_accept der_strict checksig c pk sig) eqn:SA;
      destruct (unsnoc sig) as [[dr ht]|] eqn:U;
      try (unfold C27.sig_accept in SA; rewrite U in SA; discriminate SA);
      cbn;
      repeat (rewrite ?op_checksig_spec, ?op_cltv_spec, ?U, ?SA, ?EC, ?Er; cbn; try stp);
      try reflexivity.
  Qed.

  (* ---- canonical pushes ---- *)
  Lemma wf_canon_push : forall d, nlen d <= 520 -> wf_op (canon_push d).
  Proof.
    intros d H. unfold canon_push, canon_enc.
    destruct d as [|a [|b t]].
    - left; reflexivity.
    - destruct (((1 <=? a) && (a <=? 16)) || (a =? 129)) eqn:E; cbn [wf_op].
      + right. exists a. split; [reflexivity|]. lia.
      + unfold nlen; cbn; lia.
    - destruct (N.leb_spec (nlen (a :: b :: t)) 75); cbn [wf_op].
      + unfold nlen in *; cbn [length] in *; lia.
      + destruct (N.leb_spec (nlen (a :: b :: t)) 255); cbn [wf_op]; [assumption|].
        destruct (N.leb_spec (nlen (a :: b :: t)) 65535); cbn [wf_op]; lia.
  Qed.

  Lemma step_canon_push : forall c d s,
      nlen d <= 520 -> branch_executing (cnd s) = true ->
      step c (canon_push d) s = Ok (with_stack s (d :: stk s)).
  Proof. intros. unfold canon_push. apply step_push_exec; auto using minimal_canon. Qed.

  Lemma ser_canon_len : forall d, nlen d <= 520 -> nlen (ser_op (canon_push d)) <= nlen d + 3.
  Proof.
    intros d H. unfold canon_push, canon_enc.
    destruct d as [|a [|b t]].
    - unfold nlen; cbn; lia.
    - destruct (((1 <=? a) && (a <=? 16)) || (a =? 129)); cbn [ser_op].
      + destruct (a =? 129); unfold nlen; cbn; lia.
      + unfold nlen; cbn; lia.
    - destruct (N.leb_spec (nlen (a :: b :: t)) 75); cbn [ser_op].
      + unfold nlen in *; cbn [length] in *; lia.
      + destruct (N.leb_spec (nlen (a :: b :: t)) 255); cbn [ser_op].
        * unfold nlen in *; cbn [length] in *; lia.
        * destruct (N.leb_spec (nlen (a :: b :: t)) 65535); cbn [ser_op];
            unfold nlen in *; cbn [length le_bytes] in *; rewrite ?app_length; cbn [length]; lia.
  Qed.

  Lemma run_pushes : forall c l st,
      Forall (fun d => nlen d <= 520) l ->
      run_script c (map canon_push l) st = Ok (rev l ++ st).
  Proof.
    intros c l st H. unfold C27.run_script.
    assert (G : forall n, run c (map canon_push l) {| stk := st; cnd := []; nops := n |}
                          = Ok {| stk := rev l ++ st; cnd := []; nops := n |}).
    { revert st. induction H as [|d l Hd _ IH]; intros st n; [reflexivity|].
      cbn [map]. rewrite run_cons, step_canon_push by (assumption || reflexivity).
      unfold with_stack. cbn [stk cnd nops]. rewrite IH. cbn [rev]. now rewrite <- app_assoc. }
    now rewrite G.
  Qed.

  (* ---- the deposit script: well-formed opcodes, length ---- *)
  Lemma deposit_ops_wf : forall d, dep_wf d -> Forall wf_op (deposit_ops d).
  Proof.
    intros [dep ex bl w r lk] W. unfold dep_wf in W; cbn in W. destruct W as (W1&W2&W3&W4&W5&W6).
    unfold deposit_ops. cbn [dp_depositor dp_extra dp_blinding dp_wpkh dp_rpkh dp_lock].
    destruct ex as [x|]; cbn [app]; repeat constructor; cbn [wf_op]; unfold nlen; lia.
  Qed.

  Lemma ser_cons : forall o t, ser (o :: t) = ser_op o ++ ser t.
  Proof. reflexivity. Qed.

  Lemma deposit_ser_len : forall d, dep_wf d ->
      nlen (ser (deposit_ops d)) = match dp_extra d with Some _ => 126 | None => 92 end.
  Proof.
    intros [dep ex bl w r lk] W. unfold dep_wf in W; cbn in W. destruct W as (W1&W2&W3&W4&W5&W6).
    unfold deposit_ops. cbn [dp_depositor dp_extra dp_blinding dp_wpkh dp_rpkh dp_lock].
    destruct ex as [x|]; cbn [app]; unfold nlen; repeat rewrite ser_cons; cbn [ser ser_op flat_map];
      repeat (rewrite app_length; cbn [length]); unfold nlen; lia.
  Qed.

  Notation verify_input := (verify_input hash160 sha256 der_strict checksig).
  Notation verify_witness := (verify_witness hash160 sha256 der_strict checksig).

  Lemma p2pkh_run_final : forall c h pk sig, length h = 20%nat ->
      run_final c (p2pkh h) [pk; sig] =
      if sig_accept c pk sig && bytes_eqb (hash160 pk) h then Accept else Reject.
  Proof.
    intros c h pk sig Hh.
    assert (S1 : (520 <? nlen h) = false) by (apply N.ltb_ge; unfold nlen; lia).
    assert (M1 : minimal_push EDirect h = true) by (apply minimal_direct; unfold nlen; lia).
    unfold C27.run_final, C27.run_script, p2pkh.
    rewrite (bytes_eqb_sym (hash160 pk) h).
    repeat stp.
    destruct (bytes_eqb h (hash160 pk)) eqn:E; rewrite ?andb_false_r; cbn; [|reflexivity].
    rewrite andb_true_r.
    destruct (C27.sig_accept der_strict checksig c pk sig) eqn:SA;
      destruct (unsnoc sig) as [[dr ht]|] eqn:U;
      try (unfold C27.sig_accept in SA; rewrite U in SA; discriminate SA);
      repeat (rewrite ?op_checksig_spec, ?U, ?SA; cbn; try stp); reflexivity.
  Qed.

  Lemma nlen_ser_p2sh : forall h, length h = 20%nat -> nlen (ser (p2sh h)) = 23.
  Proof. intros h H. unfold nlen, p2sh. cbn. rewrite app_length. cbn. lia. Qed.
  Lemma nlen_ser_p2wsh : forall h, nlen (ser (p2wsh h)) = 2 + nlen h.
  Proof. intros h. unfold p2wsh. rewrite !ser_cons. cbn [ser_op ser flat_map]. unfold nlen. rewrite !app_length. cbn [length]. lia. Qed.
  Lemma nlen_ser_p2pkh : forall h, length h = 20%nat -> nlen (ser (p2pkh h)) = 25.
  Proof. intros h H. unfold nlen, p2pkh. cbn. rewrite app_length. cbn. lia. Qed.

  Lemma parse_p2sh : forall h, length h = 20%nat -> parse (ser (p2sh h)) = Some (p2sh h).
  Proof. intros h H. apply parse_ser. repeat (apply Forall_cons || apply Forall_nil); cbn [wf_op]; try exact I; unfold nlen; lia. Qed.
  Lemma parse_p2pkh : forall h, length h = 20%nat -> parse (ser (p2pkh h)) = Some (p2pkh h).
  Proof. intros h H. apply parse_ser. repeat (apply Forall_cons || apply Forall_nil); cbn [wf_op]; try exact I; unfold nlen; lia. Qed.
  Lemma parse_p2wsh : forall h, (2 <= length h <= 40)%nat -> parse (ser (p2wsh h)) = Some (p2wsh h).
  Proof. intros h H. apply parse_ser. repeat (apply Forall_cons || apply Forall_nil); cbn [wf_op]; try exact I; [now left|unfold nlen; lia]. Qed.

  Lemma nlen_unlock : forall l, Forall (fun d => nlen d <= 520) l -> (length l <= 3)%nat ->
      nlen (ser (map canon_push l)) <= 1569.
  Proof.
    intros l H L.
    assert (G : nlen (ser (map canon_push l)) <= 523 * N.of_nat (length l)).
    { clear L. induction H as [|d l Hd _ IH]; [unfold nlen; cbn; lia|].
      cbn [map length]. rewrite ser_cons. pose proof (ser_canon_len d Hd).
      unfold nlen in *. rewrite app_length. lia. }
    lia.
  Qed.

  Lemma ser_nonempty_cons : forall o t, (nlen (ser (o :: t)) =? 0) = false.
  Proof.
    intros. rewrite ser_cons. apply N.eqb_neq. unfold nlen. rewrite app_length.
    pose proof (ser_op_nonempty o). lia.
  Qed.

  (* the engine on a P2SH output locked to the deposit script *)
  Lemma p2sh_deposit_verify : forall tx i sig pk d amount,
      dep_wf d -> (i < length (tx_ins tx))%nat -> nlen sig <= 520 -> nlen pk <= 520 ->
      length (hash160 (ser (deposit_ops d))) = 20%nat ->
      verify_input tx i (deposit_script_sig sig pk (ser (deposit_ops d))) []
                   (ser (p2sh (hash160 (ser (deposit_ops d))))) amount =
      if deposit_cond {| c_tx := tx; c_idx := i; c_amount := amount; c_ver := Legacy;
                         c_code := ser (deposit_ops d) |} d pk sig
      then Accept else Reject.
  Proof.
    intros tx i sig pk d amount W Hi Hsig Hpk Hh.
    remember (ser (deposit_ops d)) as script eqn:Escript.
    assert (Hscr : nlen script <= 520).
    { subst script. rewrite deposit_ser_len by assumption. destruct (dp_extra d); lia. }
    assert (Hall : Forall (fun x => nlen x <= 520) [sig; pk; script]) by (repeat (apply Forall_cons || apply Forall_nil); assumption).
    unfold C27.verify_input, deposit_script_sig.
    change [canon_push sig; canon_push pk; canon_push script] with (map canon_push [sig; pk; script]).
    destruct (Nat.leb_spec (length (tx_ins tx)) i); [lia|].
    rewrite nlen_ser_p2sh by assumption. rewrite andb_false_r.
    pose proof (nlen_unlock [sig; pk; script] Hall ltac:(cbn; lia)) as Hlen.
    unfold max_script_size.
    destruct (N.ltb_spec 10000 (nlen (ser (map canon_push [sig; pk; script])))); [lia|].
    cbn [orb].
    replace (10000 <? 23) with false by reflexivity.
    rewrite parse_ser by (cbn [map]; repeat (apply Forall_cons || apply Forall_nil); apply wf_canon_push; assumption).
    rewrite parse_p2sh by assumption.
    unfold p2sh at 1 2. cbn [classify_ops witness_program].
    rewrite Hh.
    replace (forallb is_push (map canon_push [sig; pk; script])) with true by reflexivity.
    cbn [Nat.eqb andb negb].
    rewrite run_pushes by assumption. cbn [rev app].
    (* pkScript *)
    assert (S1 : (520 <? nlen (hash160 script)) = false) by (apply N.ltb_ge; unfold nlen; lia).
    assert (M1 : minimal_push EDirect (hash160 script) = true) by (apply minimal_direct; unfold nlen; lia).
    unfold C27.run_script, p2sh. repeat stp. rewrite bytes_eqb_refl. cbn. rewrite run_nil. cbn. rewrite ?Hh. cbn. unfold of_bool. cbn [as_bool N.eqb negb andb].
    rewrite Escript at 1. rewrite parse_ser by (apply deposit_ops_wf; assumption).
    apply deposit_run_final. assumption.
  Qed.

  Lemma run_script_nil : forall c st, run_script c [] st = Ok st.
  Proof. reflexivity. Qed.

  Lemma existsb_big_false : forall l : list bytes, Forall (fun d => nlen d <= 520) l ->
      existsb (fun e => 520 <? nlen e) l = false.
  Proof.
    induction 1 as [|d l Hd _ IH]; [reflexivity|]. cbn [existsb]. rewrite IH.
    destruct (N.ltb_spec 520 (nlen d)); [lia|reflexivity].
  Qed.

  (* the engine on a P2WSH output locked to the deposit script *)
  Lemma p2wsh_deposit_verify : forall tx i sig pk d amount,
      dep_wf d -> (i < length (tx_ins tx))%nat -> nlen sig <= 520 -> nlen pk <= 520 ->
      length (sha256 (ser (deposit_ops d))) = 32%nat ->
      verify_input tx i [] (deposit_witness sig pk (ser (deposit_ops d)))
                   (ser (p2wsh (sha256 (ser (deposit_ops d))))) amount =
      if deposit_cond {| c_tx := tx; c_idx := i; c_amount := amount; c_ver := Bip143;
                         c_code := ser (deposit_ops d) |} d pk sig
      then Accept else Reject.
  Proof.
    intros tx i sig pk d amount W Hi Hsig Hpk Hh.
    remember (ser (deposit_ops d)) as script eqn:Escript.
    assert (Hscr : nlen script <= 520).
    { subst script. rewrite deposit_ser_len by assumption. destruct (dp_extra d); lia. }
    unfold C27.verify_input, deposit_witness.
    destruct (Nat.leb_spec (length (tx_ins tx)) i); [lia|].
    rewrite nlen_ser_p2wsh. unfold max_script_size.
    replace (nlen (sha256 script)) with 32 by (unfold nlen; lia).
    replace (parse []) with (Some (@nil op)) by reflexivity.
    rewrite parse_p2wsh by lia.
    change (nlen (@nil N)) with 0.
    replace (10000 <? 0) with false by reflexivity.
    replace (10000 <? 2 + 32) with false by reflexivity. cbn [N.eqb andb orb].
    unfold p2wsh at 1 2. cbn [classify_ops witness_program].
    rewrite !Hh. cbn [Nat.eqb Nat.leb andb negb forallb penc_eqb].
    rewrite run_script_nil.
    assert (S1 : (520 <? nlen (sha256 script)) = false) by (apply N.ltb_ge; unfold nlen; lia).
    assert (M1 : minimal_push EDirect (sha256 script) = true) by (apply minimal_direct; unfold nlen; lia).
    assert (S0 : (520 <? nlen (@nil N)) = false) by reflexivity.
    assert (M0 : minimal_push ESmall [] = true) by reflexivity.
    unfold C27.run_script, p2wsh. repeat stp. rewrite run_nil. cbn.
    unfold C27.verify_witness. cbn. rewrite ?Hh. cbn.
    unfold max_script_size.
    destruct (N.ltb_spec 10000 (nlen script)); [lia|].
    rewrite bytes_eqb_refl. cbn [negb].
    replace (parse script) with (Some (deposit_ops d))
      by (rewrite Escript; symmetry; apply parse_ser, deposit_ops_wf; assumption).
    cbn [rev app].
    assert (Spk : (520 <? nlen pk) = false) by (apply N.ltb_ge; assumption).
    assert (Ssig : (520 <? nlen sig) = false) by (apply N.ltb_ge; assumption).
    fin. cbn [orb]. rewrite ?Hh. cbn [Nat.eqb].
    apply deposit_run_final. assumption.
  Qed.

  Lemma p2pkh_verify : forall tx i sig pk h amount,
      length h = 20%nat -> (i < length (tx_ins tx))%nat -> nlen sig <= 520 -> nlen pk <= 520 ->
      verify_input tx i (ser [canon_push sig; canon_push pk]) [] (ser (p2pkh h)) amount =
      if sig_accept {| c_tx := tx; c_idx := i; c_amount := amount; c_ver := Legacy;
                       c_code := ser (p2pkh h) |} pk sig && bytes_eqb (hash160 pk) h
      then Accept else Reject.
  Proof.
    intros tx i sig pk h amount Hh Hi Hsig Hpk.
    assert (Hall : Forall (fun x => nlen x <= 520) [sig; pk])
      by (repeat (apply Forall_cons || apply Forall_nil); assumption).
    unfold C27.verify_input.
    change [canon_push sig; canon_push pk] with (map canon_push [sig; pk]).
    destruct (Nat.leb_spec (length (tx_ins tx)) i); [lia|].
    rewrite nlen_ser_p2pkh by assumption. rewrite andb_false_r.
    pose proof (nlen_unlock [sig; pk] Hall ltac:(cbn; lia)) as Hlen.
    unfold max_script_size.
    destruct (N.ltb_spec 10000 (nlen (ser (map canon_push [sig; pk])))); [lia|].
    cbn [orb]. replace (10000 <? 25) with false by reflexivity.
    rewrite parse_ser by (cbn [map]; repeat (apply Forall_cons || apply Forall_nil); apply wf_canon_push; assumption).
    rewrite parse_p2pkh by assumption.
    replace (witness_program (p2pkh h)) with (@None (N * bytes)) by reflexivity.
    replace (classify_ops (p2pkh h)) with (CPubKeyHash h)
      by (unfold p2pkh; cbn [classify_ops]; rewrite Hh; reflexivity).
    cbn [andb negb].
    rewrite run_pushes by assumption. cbn [rev app].
    pose proof (p2pkh_run_final {| c_tx := tx; c_idx := i; c_amount := amount; c_ver := Legacy;
                                   c_code := ser (p2pkh h) |} h pk sig Hh) as R.
    unfold C27.run_final in R.
    first [exact R | rewrite <- R; reflexivity].
  Qed.

  Lemma p2wpkh_verify : forall tx i sig pk h amount,
      length h = 20%nat -> (i < length (tx_ins tx))%nat -> nlen sig <= 520 -> nlen pk <= 520 ->
      verify_input tx i [] [sig; pk] (ser (p2wpkh h)) amount =
      if sig_accept {| c_tx := tx; c_idx := i; c_amount := amount; c_ver := Bip143;
                       c_code := ser (p2pkh h) |} pk sig && bytes_eqb (hash160 pk) h
      then Accept else Reject.
  Proof.
    intros tx i sig pk h amount Hh Hi Hsig Hpk.
    unfold C27.verify_input.
    destruct (Nat.leb_spec (length (tx_ins tx)) i); [lia|].
    change (p2wpkh h) with (p2wsh h).
    rewrite nlen_ser_p2wsh. unfold max_script_size.
    replace (nlen h) with 20 by (unfold nlen; lia).
    replace (parse []) with (Some (@nil op)) by reflexivity.
    rewrite parse_p2wsh by lia.
    change (nlen (@nil N)) with 0.
    replace (10000 <? 0) with false by reflexivity.
    replace (10000 <? 2 + 20) with false by reflexivity. cbn [N.eqb andb orb].
    unfold p2wsh at 1 2. cbn [classify_ops witness_program].
    rewrite !Hh. cbn [Nat.eqb Nat.leb andb negb forallb penc_eqb].
    rewrite run_script_nil.
    assert (S1 : (520 <? nlen h) = false) by (apply N.ltb_ge; unfold nlen; lia).
    assert (M1 : minimal_push EDirect h = true) by (apply minimal_direct; unfold nlen; lia).
    assert (S0 : (520 <? nlen (@nil N)) = false) by reflexivity.
    assert (M0 : minimal_push ESmall [] = true) by reflexivity.
    unfold C27.run_script, p2wsh. repeat stp. rewrite run_nil. cbn.
    unfold C27.verify_witness. cbn. rewrite ?Hh. cbn.
    assert (Spk : (520 <? nlen pk) = false) by (apply N.ltb_ge; assumption).
    assert (Ssig : (520 <? nlen sig) = false) by (apply N.ltb_ge; assumption).
    fin. cbn [orb]. rewrite ?Hh. cbn [Nat.eqb].
    apply p2pkh_run_final. assumption.
  Qed.
End InterpLemmas.
