(* Lemmas for C27 (and, through the shared interpreter, C28). *)
From Coq Require Import ZArith NArith List Bool Lia.
From Coq Require Import ZifyBool ZifyNat ZifyN.
From KV Require Import Common.Verdict Model.C27.
Import ListNotations.
Open Scope N_scope.

Ltac Zify.zify_post_hook ::= Z.div_mod_to_equations.

(* ------------------------------------------------------------------ bytes *)
Lemma bytes_eqb_refl : forall a, bytes_eqb a a = true.
Proof. induction a as [|x a IH]; cbn; [reflexivity|]. now rewrite N.eqb_refl, IH. Qed.

Lemma bytes_eqb_eq : forall a b, bytes_eqb a b = true <-> a = b.
Proof.
  induction a as [|x a IH]; destruct b as [|y b]; cbn; split; intro H; try congruence; try discriminate.
  - apply andb_prop in H as [H1 H2]. apply N.eqb_eq in H1. apply IH in H2. congruence.
  - injection H as -> ->. now rewrite N.eqb_refl, bytes_eqb_refl.
Qed.

Lemma bytes_eqb_neq : forall a b, bytes_eqb a b = false <-> a <> b.
Proof.
  intros a b. split; intro H.
  - intro E. apply bytes_eqb_eq in E. congruence.
  - destruct (bytes_eqb a b) eqn:E; [|reflexivity]. apply bytes_eqb_eq in E. contradiction.
Qed.

Lemma unsnoc_app : forall {A} (l : list A) a, unsnoc (l ++ [a]) = Some (l, a).
Proof.
  induction l as [|x l IH]; intro a; [reflexivity|].
  cbn [app unsnoc]. rewrite IH. destruct (l ++ [a]) eqn:E; [destruct l; discriminate|reflexivity].
Qed.

Lemma unsnoc_some : forall {A} (l : list A) i a, unsnoc l = Some (i, a) -> l = i ++ [a].
Proof.
  induction l as [|x l IH]; intros i a H; [discriminate|].
  cbn [unsnoc] in H. destruct l as [|y l'].
  - injection H as <- <-. reflexivity.
  - destruct (unsnoc (y :: l')) as [[i' a']|] eqn:E; [|discriminate].
    injection H as <- <-. cbn. f_equal. now apply IH.
Qed.

Lemma unsnoc_none : forall {A} (l : list A), unsnoc l = None -> l = [].
Proof.
  induction l as [|x l IH]; intro H; [reflexivity|].
  cbn [unsnoc] in H. destruct l as [|y l']; [discriminate|].
  destruct (unsnoc (y :: l')) as [[i' a']|] eqn:E; [discriminate|]. specialize (IH eq_refl). discriminate.
Qed.

Lemma take_app : forall d r, take (length d) (d ++ r) = Some (d, r).
Proof.
  intros d r. unfold take. rewrite app_length.
  destruct (Nat.ltb_spec (length d + length r) (length d)) as [H|H]; [lia|].
  now rewrite firstn_app, Nat.sub_diag, firstn_all, firstn_O, app_nil_r, skipn_app, skipn_all,
    Nat.sub_diag.
Qed.

Lemma nlen_nat : forall {A} (l : list A), N.to_nat (nlen l) = length l.
Proof. intros. unfold nlen. apply Nat2N.id. Qed.

(* ------------------------------------------------------------------ parse (ser s) = s *)
Definition wf_op (o : op) : Prop :=
  match o with
  | OPush ESmall d => d = [] \/ exists v, d = [v] /\ ((1 <= v /\ v <= 16) \/ v = 129)
  | OPush EDirect d => 1 <= nlen d /\ nlen d <= 75
  | OPush EPD1 d => nlen d <= 255
  | OPush EPD2 d => nlen d <= 65535
  | OPush EPD4 d => nlen d < 4294967296
  | OOther b => 78 < b /\ simple_op b = OOther b
  | _ => True
  end.

Lemma simple_small : forall v, 1 <= v <= 16 -> simple_op (80 + v) = OPush ESmall [v].
Proof.
  intros v H.
  assert (E : v = 1 \/ v = 2 \/ v = 3 \/ v = 4 \/ v = 5 \/ v = 6 \/ v = 7 \/ v = 8 \/ v = 9 \/ v = 10
              \/ v = 11 \/ v = 12 \/ v = 13 \/ v = 14 \/ v = 15 \/ v = 16) by lia.
  repeat (destruct E as [->|E]; [reflexivity|]). subst; reflexivity.
Qed.

Lemma parse_step_simple : forall b f t,
    78 < b -> parse_aux (S f) (b :: t) = option_map (cons (simple_op b)) (parse_aux f t).
Proof.
  intros b f t H. cbn [parse_aux].
  destruct (N.eqb_spec b 0); [lia|]. destruct (N.leb_spec b 75); [lia|].
  destruct (N.eqb_spec b 76); [lia|]. destruct (N.eqb_spec b 77); [lia|].
  destruct (N.eqb_spec b 78); [lia|]. reflexivity.
Qed.

Lemma le_val_2 : forall n, n <= 65535 -> le_val (le_bytes 2 n) = n.
Proof. intros n H. cbn [le_bytes le_val]. lia. Qed.
Lemma le_val_4 : forall n, n < 4294967296 -> le_val (le_bytes 4 n) = n.
Proof. intros n H. cbn [le_bytes le_val]. lia. Qed.

Lemma nlen_app_ge : forall (d rest : bytes), (nlen (d ++ rest) <? nlen d) = false.
Proof. intros d rest. apply N.ltb_ge. unfold nlen. rewrite app_length. lia. Qed.

Lemma parse_ser_op : forall o f rest,
    wf_op o -> parse_aux (S f) (ser_op o ++ rest) = option_map (cons o) (parse_aux f rest).
Proof.
  intros o f rest W. destruct o as [e d| | | | | | | | | | |b]; try reflexivity.
  - destruct e; cbn [wf_op] in W.
    + destruct W as [-> | [v [-> [W | ->]]]]; [reflexivity | | reflexivity].
      cbn [ser_op]. destruct (N.eqb_spec v 129); [lia|].
      cbn [app]. rewrite parse_step_simple by lia. now rewrite simple_small.
    + cbn [ser_op app parse_aux].
      destruct (N.eqb_spec (nlen d) 0); [lia|]. destruct (N.leb_spec (nlen d) 75); [|lia].
      unfold push_rest. now rewrite nlen_nat, take_app.
    + cbn [ser_op app parse_aux N.eqb Pos.eqb N.leb N.compare Pos.compare Pos.compare_cont].
      unfold len_then, take. cbn [length Nat.ltb Nat.leb firstn skipn le_val].
      replace (nlen d + 256 * 0) with (nlen d) by lia. rewrite nlen_app_ge, nlen_nat.
      unfold push_rest. now rewrite take_app.
    + cbn [ser_op parse_aux N.eqb Pos.eqb N.leb N.compare Pos.compare Pos.compare_cont].
      change ((77 :: le_bytes 2 (nlen d) ++ d) ++ rest) with (77 :: (le_bytes 2 (nlen d) ++ d) ++ rest).
      cbn [parse_aux N.eqb Pos.eqb N.leb N.compare Pos.compare Pos.compare_cont].
      unfold len_then. rewrite <- app_assoc.
      change 2%nat with (length (le_bytes 2 (nlen d))) at 1. rewrite take_app, le_val_2 by assumption. rewrite nlen_app_ge.
      unfold push_rest. now rewrite nlen_nat, take_app.
    + cbn [ser_op].
      change ((78 :: le_bytes 4 (nlen d) ++ d) ++ rest) with (78 :: (le_bytes 4 (nlen d) ++ d) ++ rest).
      cbn [parse_aux N.eqb Pos.eqb N.leb N.compare Pos.compare Pos.compare_cont].
      unfold len_then. rewrite <- app_assoc.
      change 4%nat with (length (le_bytes 4 (nlen d))) at 1. rewrite take_app, le_val_4 by assumption. rewrite nlen_app_ge.
      unfold push_rest. now rewrite nlen_nat, take_app.
  - destruct W as [W1 W2]. cbn [ser_op app]. rewrite parse_step_simple by assumption. now rewrite W2.
Qed.

Lemma ser_op_nonempty : forall o, (1 <= length (ser_op o))%nat.
Proof.
  destruct o as [e d| | | | | | | | | | |b]; cbn; try lia.
  destruct e; cbn; try lia. destruct d as [|v [|w t]]; cbn; try lia. destruct (v =? 129); cbn; lia.
Qed.

Lemma parse_aux_ser : forall ops, Forall wf_op ops ->
    forall f, (length (ser ops) <= f)%nat -> parse_aux f (ser ops) = Some ops.
Proof.
  induction 1 as [|o ops W _ IH]; intros f Hf.
  - destruct f; reflexivity.
  - unfold ser in *. cbn [flat_map] in *. rewrite app_length in Hf.
    pose proof (ser_op_nonempty o) as Hn.
    destruct f as [|f]; [lia|]. rewrite parse_ser_op by assumption.
    rewrite IH by lia. reflexivity.
Qed.

Lemma parse_ser : forall ops, Forall wf_op ops -> parse (ser ops) = Some ops.
Proof. intros ops W. unfold parse. now apply parse_aux_ser. Qed.

(* ------------------------------------------------------------------ interpreter *)
Lemma minimal_canon : forall d, minimal_push (canon_enc d) d = true.
Proof. intro d. unfold minimal_push. destruct (canon_enc d); reflexivity. Qed.

Lemma canon_enc_direct : forall d, 2 <= nlen d -> nlen d <= 75 -> canon_enc d = EDirect.
Proof.
  intros d H1 H2. destruct d as [|a [|b t]]; [unfold nlen in H1; cbn in H1; lia..|].
  unfold canon_enc. destruct (N.leb_spec (nlen (a :: b :: t)) 75); [reflexivity|lia].
Qed.

Lemma minimal_direct : forall d, 2 <= nlen d -> nlen d <= 75 -> minimal_push EDirect d = true.
Proof. intros d H1 H2. rewrite <- (canon_enc_direct d H1 H2). apply minimal_canon. Qed.

Local Arguments minimal_push : simpl never.
Local Arguments bytes_eqb : simpl never.
Local Arguments nlen : simpl never.
Local Arguments N.ltb : simpl never.
Local Arguments of_bool : simpl never.

Lemma bytes_eqb_sym : forall a b, bytes_eqb a b = bytes_eqb b a.
Proof.
  intros a b. destruct (bytes_eqb a b) eqn:E.
  - apply bytes_eqb_eq in E. subst. now rewrite bytes_eqb_refl.
  - apply bytes_eqb_neq in E. symmetry. apply bytes_eqb_neq. congruence.
Qed.

Lemma if_bool_of_bool : forall v b, if_bool v (of_bool b) = Some b.
Proof. intros [|] [|]; reflexivity. Qed.

Lemma ser_cons : forall o t, ser (o :: t) = ser_op o ++ ser t.
Proof. reflexivity. Qed.

Lemma wf_canon_push : forall d, nlen d <= 520 -> wf_op (canon_push d).
Proof.
  intros d H. unfold canon_push, canon_enc.
  destruct d as [|a [|b t]].
  - left; reflexivity.
  - destruct (((1 <=? a) && (a <=? 16)) || (a =? 129)) eqn:E; cbn [wf_op].
    + right. exists a. split; [reflexivity|]. lia.
    + unfold nlen; cbn; lia.
  - destruct (N.leb_spec (nlen (a :: b :: t)) 75); cbn [wf_op].
    + unfold nlen in *; cbn [length] in *; lia.
    + destruct (N.leb_spec (nlen (a :: b :: t)) 255); cbn [wf_op]; [assumption|].
      destruct (N.leb_spec (nlen (a :: b :: t)) 65535); cbn [wf_op]; lia.
Qed.

Lemma ser_canon_len : forall d, nlen d <= 520 -> nlen (ser_op (canon_push d)) <= nlen d + 3.
Proof.
  intros d H. unfold canon_push, canon_enc.
  destruct d as [|a [|b t]].
  - unfold nlen; cbn; lia.
  - destruct (((1 <=? a) && (a <=? 16)) || (a =? 129)); cbn [ser_op].
    + destruct (a =? 129); unfold nlen; cbn; lia.
    + unfold nlen; cbn; lia.
  - destruct (N.leb_spec (nlen (a :: b :: t)) 75); cbn [ser_op].
    + unfold nlen in *; cbn [length] in *; lia.
    + destruct (N.leb_spec (nlen (a :: b :: t)) 255); cbn [ser_op].
      * unfold nlen in *; cbn [length] in *; lia.
      * destruct (N.leb_spec (nlen (a :: b :: t)) 65535); cbn [ser_op];
          unfold nlen in *; cbn [length le_bytes] in *; rewrite ?app_length; cbn [length]; lia.
Qed.

Lemma deposit_ops_wf : forall d, dep_wf d -> Forall wf_op (deposit_ops d).
Proof.
  intros [dep ex bl w r lk] W. unfold dep_wf in W; cbn in W. destruct W as (W1&W2&W3&W4&W5&W6).
  unfold deposit_ops. cbn [dp_depositor dp_extra dp_blinding dp_wpkh dp_rpkh dp_lock].
  destruct ex as [x|]; cbn [app]; repeat constructor; cbn [wf_op]; unfold nlen; lia.
Qed.

Lemma deposit_ser_len : forall d, dep_wf d ->
    nlen (ser (deposit_ops d)) = match dp_extra d with Some _ => 126 | None => 92 end.
Proof.
  intros [dep ex bl w r lk] W. unfold dep_wf in W; cbn in W. destruct W as (W1&W2&W3&W4&W5&W6).
  unfold deposit_ops. cbn [dp_depositor dp_extra dp_blinding dp_wpkh dp_rpkh dp_lock].
  destruct ex as [x|]; cbn [app]; unfold nlen; repeat rewrite ser_cons; cbn [ser ser_op flat_map];
    repeat (rewrite app_length; cbn [length]); unfold nlen; lia.
Qed.

Lemma nlen_ser_p2sh : forall h, length h = 20%nat -> nlen (ser (p2sh h)) = 23.
Proof. intros h H. unfold nlen, p2sh. cbn. rewrite app_length. cbn. lia. Qed.

Lemma nlen_ser_p2wsh : forall h, nlen (ser (p2wsh h)) = 2 + nlen h.
Proof. intros h. unfold p2wsh. rewrite !ser_cons. cbn [ser_op ser flat_map]. unfold nlen. rewrite !app_length. cbn [length]. lia. Qed.

Lemma nlen_ser_p2pkh : forall h, length h = 20%nat -> nlen (ser (p2pkh h)) = 25.
Proof. intros h H. unfold nlen, p2pkh. cbn. rewrite app_length. cbn. lia. Qed.

Lemma parse_p2sh : forall h, length h = 20%nat -> parse (ser (p2sh h)) = Some (p2sh h).
Proof. intros h H. apply parse_ser. repeat (apply Forall_cons || apply Forall_nil); cbn [wf_op]; try exact I; unfold nlen; lia. Qed.

Lemma parse_p2pkh : forall h, length h = 20%nat -> parse (ser (p2pkh h)) = Some (p2pkh h).
Proof. intros h H. apply parse_ser. repeat (apply Forall_cons || apply Forall_nil); cbn [wf_op]; try exact I; unfold nlen; lia. Qed.

Lemma parse_p2wsh : forall h, (2 <= length h <= 40)%nat -> parse (ser (p2wsh h)) = Some (p2wsh h).
Proof. intros h H. apply parse_ser. repeat (apply Forall_cons || apply Forall_nil); cbn [wf_op]; try exact I; [now left|unfold nlen; lia]. Qed.

Lemma nlen_unlock : forall l, Forall (fun d => nlen d <= 520) l -> (length l <= 3)%nat ->
    nlen (ser (map canon_push l)) <= 1569.
Proof.
  intros l H L.
  assert (G : nlen (ser (map canon_push l)) <= 523 * N.of_nat (length l)).
  { clear L. induction H as [|d l Hd _ IH]; [unfold nlen; cbn; lia|].
    cbn [map length]. rewrite ser_cons. pose proof (ser_canon_len d Hd).
    unfold nlen in *. rewrite app_length. lia. }
  lia.
Qed.

Lemma ser_nonempty_cons : forall o t, (nlen (ser (o :: t)) =? 0) = false.
Proof.
  intros. rewrite ser_cons. apply N.eqb_neq. unfold nlen. rewrite app_length.
  pose proof (ser_op_nonempty o). lia.
Qed.

Lemma existsb_big_false : forall l : list bytes, Forall (fun d => nlen d <= 520) l ->
    existsb (fun e => 520 <? nlen e) l = false.
Proof.
  induction 1 as [|d l Hd _ IH]; [reflexivity|]. cbn [existsb]. rewrite IH.
  destruct (N.ltb_spec 520 (nlen d)); [lia|reflexivity].
Qed.

Section InterpLemmas.
  Variable hash160 : bytes -> bytes.
  Variable der_strict : bytes -> bool.
  Variable checksig : bytes -> bytes -> sighash -> bool.

  Notation step := (step hash160 der_strict checksig).
  Notation run := (run hash160 der_strict checksig).
  Notation run_script := (run_script hash160 der_strict checksig).
  Notation run_final := (run_final hash160 der_strict checksig).
  Notation op_checksig := (op_checksig der_strict checksig).
  Notation sig_accept := (sig_accept der_strict checksig).
  Notation deposit_cond := (deposit_cond hash160 der_strict checksig).

  Lemma step_push_exec : forall c e d s,
      nlen d <= 520 -> minimal_push e d = true -> branch_executing (cnd s) = true ->
      step c (OPush e d) s = Ok (with_stack s (d :: stk s)).
  Proof.
    intros c e d s H1 H2 H3. unfold C27.step.
    destruct (N.ltb_spec 520 (nlen d)); [lia|]. now rewrite H3, H2.
  Qed.

  Lemma step_push_skip : forall c e d s,
      nlen d <= 520 -> branch_executing (cnd s) = false -> step c (OPush e d) s = Ok s.
  Proof.
    intros c e d s H1 H3. unfold C27.step.
    destruct (N.ltb_spec 520 (nlen d)); [lia|]. now rewrite H3.
  Qed.

  Lemma sig_enc_len : forall der, sig_enc_ok der_strict der = true -> (8 <= length der <= 72)%nat.
  Proof. intros der H. unfold sig_enc_ok in H. lia. Qed.

  Lemma op_checksig_spec : forall c pk sig rest cn n,
      op_checksig c {| stk := pk :: sig :: rest; cnd := cn; nops := n |} =
      match unsnoc sig with
      | None => Ok {| stk := [] :: rest; cnd := cn; nops := n |}
      | Some _ => if sig_accept c pk sig then Ok {| stk := [1] :: rest; cnd := cn; nops := n |}
                  else Fail
      end.
  Proof.
    intros. unfold C27.op_checksig, C27.sig_accept. cbn [stk cnd nops].
    destruct (unsnoc sig) as [[der ht]|]; [|reflexivity].
    destruct (hashtype_ok ht); [|reflexivity]. cbn [negb andb].
    destruct (sig_enc_ok der_strict der) eqn:E; [|reflexivity]. cbn [negb andb].
    destruct (pk_enc_ok (c_ver c) pk); [|reflexivity]. cbn [negb andb].
    apply sig_enc_len in E.
    destruct (checksig pk der _); cbn [negb andb of_bool]; [reflexivity|].
    destruct (Nat.ltb_spec 0 (length der)); [reflexivity|lia].
  Qed.

  Lemma run_cons : forall c o t s,
      run c (o :: t) s = match step c o s with Ok s' => run c t s' | Fail => Fail | Unsup => Unsup end.
  Proof. reflexivity. Qed.
  Lemma run_nil : forall c s, run c [] s = Ok s.
  Proof. reflexivity. Qed.



  Lemma op_cltv_spec : forall c top rest cn n,
      op_cltv c {| stk := top :: rest; cnd := cn; nops := n |} =
      if cltv_pass c top then Ok {| stk := top :: rest; cnd := cn; nops := n |} else Fail.
  Proof.
    intros. unfold op_cltv, cltv_pass. cbn [stk]. destruct (script_num 5 top); reflexivity.
  Qed.


  Local Arguments C27.op_checksig : simpl never.
  Local Arguments op_cltv : simpl never.
  Local Arguments C27.run : simpl never.
  Local Arguments if_bool : simpl never.

  Ltac fin := repeat match goal with
    | H : (520 <? nlen ?x) = false |- context [520 <? nlen ?x] => rewrite H
    | H : minimal_push ?e ?x = true |- context [minimal_push ?e ?x] => rewrite H
    end.
  Ltac stp := rewrite run_cons; cbn; fin; cbn; fin; cbn; rewrite ?if_bool_of_bool; cbn.

  Lemma deposit_run_final : forall c d pk sig, dep_wf d ->
     run_final c (deposit_ops d) [pk; sig] = if deposit_cond c d pk sig then Accept else Reject.
  Proof.
    intros c [dep ex bl w r lk] pk sig W. unfold dep_wf in W; cbn in W.
    destruct W as (W1&W2&W3&W4&W5&W6).
    assert (Hs : forall x n, length x = n -> (2 <= n <= 75)%nat ->
                 (520 <? nlen x) = false /\ minimal_push EDirect x = true).
    { intros x n Hx Hn. split.
      - apply N.ltb_ge. unfold nlen. lia.
      - apply minimal_direct; unfold nlen; lia. }
    destruct (Hs _ _ W1 ltac:(lia)) as [S1 M1]. destruct (Hs _ _ W2 ltac:(lia)) as [S2 M2].
    destruct (Hs _ _ W3 ltac:(lia)) as [S3 M3]. destruct (Hs _ _ W4 ltac:(lia)) as [S4 M4].
    destruct (Hs _ _ W5 ltac:(lia)) as [S5 M5].
    assert (S6M6 : match ex with Some x => (520 <? nlen x) = false /\ minimal_push EDirect x = true
                   | None => True end).
    { destruct ex; [apply (Hs _ _ W6); lia|exact I]. }
    clear Hs.
    unfold C27.run_final, C27.run_script, deposit_ops, C27.deposit_cond.
    cbn [dp_depositor dp_extra dp_blinding dp_wpkh dp_rpkh dp_lock].
    rewrite (bytes_eqb_sym (hash160 pk) w), (bytes_eqb_sym (hash160 pk) r).
    destruct ex as [x|]; [destruct S6M6 as [S6 M6]|]; cbn [app].
    all: repeat stp.
    all: destruct (bytes_eqb w (hash160 pk)) eqn:Ew; destruct (bytes_eqb r (hash160 pk)) eqn:Er;
      destruct (cltv_pass c lk) eqn:EC;
      destruct (C27.sig_accept der_strict checksig c pk sig) eqn:SA;
      destruct (unsnoc sig) as [[dr ht]|] eqn:U;
      try (unfold C27.sig_accept in SA; rewrite U in SA; discriminate SA);
      cbn;
      repeat (rewrite ?op_checksig_spec, ?op_cltv_spec, ?U, ?SA, ?EC, ?Er; cbn; try stp);
      try reflexivity.
  Qed.

  (* ---- canonical pushes ---- *)

  Lemma step_canon_push : forall c d s,
      nlen d <= 520 -> branch_executing (cnd s) = true ->
      step c (canon_push d) s = Ok (with_stack s (d :: stk s)).
  Proof. intros. unfold canon_push. apply step_push_exec; auto using minimal_canon. Qed.


  Lemma run_pushes : forall c l st,
      Forall (fun d => nlen d <= 520) l ->
      run_script c (map canon_push l) st = Ok (rev l ++ st).
  Proof.
    intros c l st H. unfold C27.run_script.
    assert (G : forall n, run c (map canon_push l) {| stk := st; cnd := []; nops := n |}
                          = Ok {| stk := rev l ++ st; cnd := []; nops := n |}).
    { revert st. induction H as [|d l Hd _ IH]; intros st n; [reflexivity|].
      cbn [map]. rewrite run_cons, step_canon_push by (assumption || reflexivity).
      unfold with_stack. cbn [stk cnd nops]. rewrite IH. cbn [rev]. now rewrite <- app_assoc. }
    now rewrite G.
  Qed.

  (* ---- the deposit script: well-formed opcodes, length ---- *)



  Variable sha256 : bytes -> bytes.
  Notation verify_input := (verify_input hash160 sha256 der_strict checksig).
  Notation verify_witness := (verify_witness hash160 sha256 der_strict checksig).

  Lemma p2pkh_run_final : forall c h pk sig, length h = 20%nat ->
      run_final c (p2pkh h) [pk; sig] =
      if sig_accept c pk sig && bytes_eqb (hash160 pk) h then Accept else Reject.
  Proof.
    intros c h pk sig Hh.
    assert (S1 : (520 <? nlen h) = false) by (apply N.ltb_ge; unfold nlen; lia).
    assert (M1 : minimal_push EDirect h = true) by (apply minimal_direct; unfold nlen; lia).
    unfold C27.run_final, C27.run_script, p2pkh.
    rewrite (bytes_eqb_sym (hash160 pk) h).
    repeat stp.
    destruct (bytes_eqb h (hash160 pk)) eqn:E; rewrite ?andb_false_r; cbn; [|reflexivity].
    rewrite andb_true_r.
    destruct (C27.sig_accept der_strict checksig c pk sig) eqn:SA;
      destruct (unsnoc sig) as [[dr ht]|] eqn:U;
      try (unfold C27.sig_accept in SA; rewrite U in SA; discriminate SA);
      repeat (rewrite ?op_checksig_spec, ?U, ?SA; cbn; try stp); reflexivity.
  Qed.





  (* the engine on a P2SH output locked to the deposit script *)
  Lemma p2sh_deposit_verify : forall tx i sig pk d amount,
      dep_wf d -> (i < length (tx_ins tx))%nat -> nlen sig <= 520 -> nlen pk <= 520 ->
      length (hash160 (ser (deposit_ops d))) = 20%nat ->
      verify_input tx i (deposit_script_sig sig pk (ser (deposit_ops d))) []
                   (ser (p2sh (hash160 (ser (deposit_ops d))))) amount =
      if deposit_cond {| c_tx := tx; c_idx := i; c_amount := amount; c_ver := Legacy;
                         c_code := ser (deposit_ops d) |} d pk sig
      then Accept else Reject.
  Proof.
    intros tx i sig pk d amount W Hi Hsig Hpk Hh.
    remember (ser (deposit_ops d)) as script eqn:Escript.
    assert (Hscr : nlen script <= 520).
    { subst script. rewrite deposit_ser_len by assumption. destruct (dp_extra d); lia. }
    assert (Hall : Forall (fun x => nlen x <= 520) [sig; pk; script]) by (repeat (apply Forall_cons || apply Forall_nil); assumption).
    unfold C27.verify_input, deposit_script_sig.
    change [canon_push sig; canon_push pk; canon_push script] with (map canon_push [sig; pk; script]).
    destruct (Nat.leb_spec (length (tx_ins tx)) i); [lia|].
    rewrite nlen_ser_p2sh by assumption. rewrite andb_false_r.
    pose proof (nlen_unlock [sig; pk; script] Hall ltac:(cbn; lia)) as Hlen.
    unfold max_script_size.
    destruct (N.ltb_spec 10000 (nlen (ser (map canon_push [sig; pk; script])))); [lia|].
    cbn [orb].
    replace (10000 <? 23) with false by reflexivity.
    rewrite parse_ser by (cbn [map]; repeat (apply Forall_cons || apply Forall_nil); apply wf_canon_push; assumption).
    rewrite parse_p2sh by assumption.
    unfold p2sh at 1 2. cbn [classify_ops witness_program].
    rewrite Hh.
    replace (forallb is_push (map canon_push [sig; pk; script])) with true by reflexivity.
    cbn [Nat.eqb andb negb].
    rewrite run_pushes by assumption. cbn [rev app].
    (* pkScript *)
    assert (S1 : (520 <? nlen (hash160 script)) = false) by (apply N.ltb_ge; unfold nlen; lia).
    assert (M1 : minimal_push EDirect (hash160 script) = true) by (apply minimal_direct; unfold nlen; lia).
    unfold C27.run_script, p2sh. repeat stp. rewrite bytes_eqb_refl. cbn. rewrite run_nil. cbn. rewrite ?Hh. cbn. unfold of_bool. cbn [as_bool N.eqb negb andb].
    rewrite Escript at 1. rewrite parse_ser by (apply deposit_ops_wf; assumption).
    apply deposit_run_final. assumption.
  Qed.

  Lemma run_script_nil : forall c st, run_script c [] st = Ok st.
  Proof. reflexivity. Qed.


  (* the engine on a P2WSH output locked to the deposit script *)
  Lemma p2wsh_deposit_verify : forall tx i sig pk d amount,
      dep_wf d -> (i < length (tx_ins tx))%nat -> nlen sig <= 520 -> nlen pk <= 520 ->
      length (sha256 (ser (deposit_ops d))) = 32%nat ->
      verify_input tx i [] (deposit_witness sig pk (ser (deposit_ops d)))
                   (ser (p2wsh (sha256 (ser (deposit_ops d))))) amount =
      if deposit_cond {| c_tx := tx; c_idx := i; c_amount := amount; c_ver := Bip143;
                         c_code := ser (deposit_ops d) |} d pk sig
      then Accept else Reject.
  Proof.
    intros tx i sig pk d amount W Hi Hsig Hpk Hh.
    remember (ser (deposit_ops d)) as script eqn:Escript.
    assert (Hscr : nlen script <= 520).
    { subst script. rewrite deposit_ser_len by assumption. destruct (dp_extra d); lia. }
    unfold C27.verify_input, deposit_witness.
    destruct (Nat.leb_spec (length (tx_ins tx)) i); [lia|].
    rewrite nlen_ser_p2wsh. unfold max_script_size.
    replace (nlen (sha256 script)) with 32 by (unfold nlen; lia).
    replace (parse []) with (Some (@nil op)) by reflexivity.
    rewrite parse_p2wsh by lia.
    change (nlen (@nil N)) with 0.
    replace (10000 <? 0) with false by reflexivity.
    replace (10000 <? 2 + 32) with false by reflexivity. cbn [N.eqb andb orb].
    unfold p2wsh at 1 2. cbn [classify_ops witness_program].
    rewrite !Hh. cbn [Nat.eqb Nat.leb andb negb forallb penc_eqb].
    rewrite run_script_nil.
    assert (S1 : (520 <? nlen (sha256 script)) = false) by (apply N.ltb_ge; unfold nlen; lia).
    assert (M1 : minimal_push EDirect (sha256 script) = true) by (apply minimal_direct; unfold nlen; lia).
    assert (S0 : (520 <? nlen (@nil N)) = false) by reflexivity.
    assert (M0 : minimal_push ESmall [] = true) by reflexivity.
    unfold C27.run_script, p2wsh. repeat stp. rewrite run_nil. cbn.
    unfold C27.verify_witness. cbn. rewrite ?Hh. cbn.
    unfold max_script_size.
    destruct (N.ltb_spec 10000 (nlen script)); [lia|].
    rewrite bytes_eqb_refl. cbn [negb].
    replace (parse script) with (Some (deposit_ops d))
      by (rewrite Escript; symmetry; apply parse_ser, deposit_ops_wf; assumption).
    cbn [rev app].
    assert (Spk : (520 <? nlen pk) = false) by (apply N.ltb_ge; assumption).
    assert (Ssig : (520 <? nlen sig) = false) by (apply N.ltb_ge; assumption).
    fin. cbn [orb]. rewrite ?Hh. cbn [Nat.eqb].
    apply deposit_run_final. assumption.
  Qed.

  Lemma p2pkh_verify : forall tx i sig pk h amount,
      length h = 20%nat -> (i < length (tx_ins tx))%nat -> nlen sig <= 520 -> nlen pk <= 520 ->
      verify_input tx i (ser [canon_push sig; canon_push pk]) [] (ser (p2pkh h)) amount =
      if sig_accept {| c_tx := tx; c_idx := i; c_amount := amount; c_ver := Legacy;
                       c_code := ser (p2pkh h) |} pk sig && bytes_eqb (hash160 pk) h
      then Accept else Reject.
  Proof.
    intros tx i sig pk h amount Hh Hi Hsig Hpk.
    assert (Hall : Forall (fun x => nlen x <= 520) [sig; pk])
      by (repeat (apply Forall_cons || apply Forall_nil); assumption).
    unfold C27.verify_input.
    change [canon_push sig; canon_push pk] with (map canon_push [sig; pk]).
    destruct (Nat.leb_spec (length (tx_ins tx)) i); [lia|].
    rewrite nlen_ser_p2pkh by assumption. rewrite andb_false_r.
    pose proof (nlen_unlock [sig; pk] Hall ltac:(cbn; lia)) as Hlen.
    unfold max_script_size.
    destruct (N.ltb_spec 10000 (nlen (ser (map canon_push [sig; pk])))); [lia|].
    cbn [orb]. replace (10000 <? 25) with false by reflexivity.
    rewrite parse_ser by (cbn [map]; repeat (apply Forall_cons || apply Forall_nil); apply wf_canon_push; assumption).
    rewrite parse_p2pkh by assumption.
    replace (witness_program (p2pkh h)) with (@None (N * bytes)) by reflexivity.
    replace (classify_ops (p2pkh h)) with (CPubKeyHash h)
      by (unfold p2pkh; cbn [classify_ops]; rewrite Hh; reflexivity).
    cbn [andb negb].
    rewrite run_pushes by assumption. cbn [rev app].
    pose proof (p2pkh_run_final {| c_tx := tx; c_idx := i; c_amount := amount; c_ver := Legacy;
                                   c_code := ser (p2pkh h) |} h pk sig Hh) as R.
    unfold C27.run_final in R.
    first [exact R | rewrite <- R; reflexivity].
  Qed.

  Lemma p2wpkh_verify : forall tx i sig pk h amount,
      length h = 20%nat -> (i < length (tx_ins tx))%nat -> nlen sig <= 520 -> nlen pk <= 520 ->
      verify_input tx i [] [sig; pk] (ser (p2wpkh h)) amount =
      if sig_accept {| c_tx := tx; c_idx := i; c_amount := amount; c_ver := Bip143;
                       c_code := ser (p2pkh h) |} pk sig && bytes_eqb (hash160 pk) h
      then Accept else Reject.
  Proof.
    intros tx i sig pk h amount Hh Hi Hsig Hpk.
    unfold C27.verify_input.
    destruct (Nat.leb_spec (length (tx_ins tx)) i); [lia|].
    change (p2wpkh h) with (p2wsh h).
    rewrite nlen_ser_p2wsh. unfold max_script_size.
    replace (nlen h) with 20 by (unfold nlen; lia).
    replace (parse []) with (Some (@nil op)) by reflexivity.
    rewrite parse_p2wsh by lia.
    change (nlen (@nil N)) with 0.
    replace (10000 <? 0) with false by reflexivity.
    replace (10000 <? 2 + 20) with false by reflexivity. cbn [N.eqb andb orb].
    unfold p2wsh at 1 2. cbn [classify_ops witness_program].
    rewrite !Hh. cbn [Nat.eqb Nat.leb andb negb forallb penc_eqb].
    rewrite run_script_nil.
    assert (S1 : (520 <? nlen h) = false) by (apply N.ltb_ge; unfold nlen; lia).
    assert (M1 : minimal_push EDirect h = true) by (apply minimal_direct; unfold nlen; lia).
    assert (S0 : (520 <? nlen (@nil N)) = false) by reflexivity.
    assert (M0 : minimal_push ESmall [] = true) by reflexivity.
    unfold C27.run_script, p2wsh. repeat stp. rewrite run_nil. cbn.
    unfold C27.verify_witness. cbn. rewrite ?Hh. cbn.
    assert (Spk : (520 <? nlen pk) = false) by (apply N.ltb_ge; assumption).
    assert (Ssig : (520 <? nlen sig) = false) by (apply N.ltb_ge; assumption).
    fin. cbn [orb]. rewrite ?Hh. cbn [Nat.eqb].
    apply p2pkh_run_final. assumption.
  Qed.
End InterpLemmas.

(* ------------------------------------------------------------------ builder *)
Definition pre_of (i : input) : pre_in :=
  match in_kind_ i with
  | KPkh => {| pi_txid := u_txid (in_utxo i); pi_vout := u_vout (in_utxo i);
               pi_script := []; pi_witness := [] |}
  | KSh r => {| pi_txid := u_txid (in_utxo i); pi_vout := u_vout (in_utxo i);
                pi_script := if is_witness_program (in_script i) then [] else r;
                pi_witness := if is_witness_program (in_script i) then [r] else [] |}
  end.
Definition args_of (i : input) : sigargs :=
  {| sa_value := u_value (in_utxo i);
     sa_code := match in_kind_ i with KPkh => in_script i | KSh r => r end;
     sa_witness := is_witness_program (in_script i) |}.

Lemma add_input_shape : forall b i b', add_input b i = Some b' ->
    b_ins b' = b_ins b ++ [pre_of i] /\ b_args b' = b_args b ++ [args_of i] /\
    b_outs b' = b_outs b /\ b_hashes b' = b_hashes b.
Proof.
  intros b i b' H. unfold add_input, pre_of, args_of in *. destruct (in_kind_ i) as [|r].
  - unfold add_pkh_input in H. destruct (classify (in_script i)); inversion H; subst; cbn; auto.
  - unfold add_sh_input in H. destruct (classify (in_script i)); inversion H; subst; cbn; auto.
Qed.

Lemma add_inputs_shape : forall l b b', add_inputs b l = Some b' ->
    b_ins b' = b_ins b ++ map pre_of l /\ b_args b' = b_args b ++ map args_of l /\
    b_outs b' = b_outs b /\ b_hashes b' = b_hashes b.
Proof.
  induction l as [|i l IH]; intros b b' H; cbn [add_inputs] in H.
  - inversion H; subst. cbn. now rewrite !app_nil_r.
  - destruct (add_input b i) as [b1|] eqn:E; [|discriminate].
    apply add_input_shape in E as (E1&E2&E3&E4). apply IH in H as (H1&H2&H3&H4).
    cbn [map]. rewrite H1, H2, H3, H4, E1, E2, E3, E4, <- !app_assoc. auto.
Qed.

Lemma fold_outputs_shape : forall outs b,
    let b' := fold_left (fun b o => add_output b (fst o) (snd o)) outs b in
    b_ins b' = b_ins b /\ b_args b' = b_args b /\ b_outs b' = b_outs b ++ outs /\
    b_hashes b' = b_hashes b.
Proof.
  induction outs as [|[v s] outs IH]; intro b; cbn.
  - now rewrite app_nil_r.
  - destruct (IH (add_output b v s)) as (H1&H2&H3&H4). cbn in *.
    rewrite H1, H2, H3, H4, <- app_assoc. auto.
Qed.

Lemma build_shape : forall ins outs b, build ins outs = Some b ->
    b_ins b = map pre_of ins /\ b_args b = map args_of ins /\ b_outs b = outs /\ b_hashes b = [].
Proof.
  intros ins outs b H. unfold build in H.
  destruct (add_inputs new_builder ins) as [b0|] eqn:E; [|discriminate].
  cbn in H. inversion H; subst. apply add_inputs_shape in E as (E1&E2&E3&E4).
  destruct (fold_outputs_shape outs b0) as (H1&H2&H3&H4). cbn in *.
  rewrite H1, H2, H3, H4, E1, E2, E3, E4. auto.
Qed.

Lemma hashes_from_nth : forall args tx k hs, hashes_from tx k args = Some hs ->
    forall i a, nth_error args i = Some a ->
      exists code, effective_code (sa_witness a) (sa_code a) = Some code /\
                   nth_error hs i = Some (mk_sighash (if sa_witness a then Bip143 else Legacy) tx
                                                     (k + i) code (sa_value a) sighash_all).
Proof.
  induction args as [|a0 args IH]; intros tx k hs H i a Hi.
  - destruct i; discriminate.
  - cbn [hashes_from] in H.
    destruct (effective_code (sa_witness a0) (sa_code a0)) as [code|] eqn:E; [|discriminate].
    destruct (hashes_from tx (S k) args) as [r|] eqn:R; [|discriminate].
    inversion H; subst. destruct i as [|i].
    + cbn in Hi. inversion Hi; subst. exists code. rewrite Nat.add_0_r. auto.
    + cbn in Hi. destruct (IH _ _ _ R _ _ Hi) as [c [H1 H2]]. exists c. split; [assumption|].
      replace (k + S i)%nat with (S k + i)%nat by lia. exact H2.
Qed.

Lemma hashes_from_length : forall args tx k hs, hashes_from tx k args = Some hs -> length hs = length args.
Proof.
  induction args as [|a0 args IH]; intros tx k hs H; cbn in H.
  - inversion H. reflexivity.
  - destruct (effective_code _ _); [|discriminate].
    destruct (hashes_from tx (S k) args) eqn:R; [|discriminate]. inversion H. cbn. f_equal. eauto.
Qed.

Section BuilderLemmas.
  Variable sigT : Type.
  Variable der : sigT -> bytes.
  Variable ecdsa_verify : bytes -> sighash -> sigT -> bool.
  Notation sign_input := (sign_input sigT der ecdsa_verify).
  Notation sign_inputs := (sign_inputs sigT der ecdsa_verify).
  Notation add_signatures := (add_signatures sigT der ecdsa_verify).

  Lemma sign_inputs_nth : forall ins args hs sigs l,
      sign_inputs ins args hs sigs = Some l ->
      forall i p, nth_error ins i = Some p ->
        exists a h sg pk si, nth_error args i = Some a /\ nth_error hs i = Some h /\
          nth_error sigs i = Some (sg, pk) /\ sign_input p a h sg pk = Some si /\
          nth_error l i = Some si.
  Proof.
    induction ins as [|p0 ins IH]; intros args hs sigs l H i p Hi; [destruct i; discriminate|].
    cbn [C27.sign_inputs] in H.
    destruct args as [|a0 args]; [discriminate|]. destruct hs as [|h0 hs]; [discriminate|].
    destruct sigs as [|[sg0 pk0] sigs]; [discriminate|].
    destruct (sign_input p0 a0 h0 sg0 pk0) as [si0|] eqn:E; [|discriminate].
    destruct (sign_inputs ins args hs sigs) as [l'|] eqn:R; [|discriminate].
    cbn in H. inversion H; subst. destruct i as [|i].
    - cbn in Hi. inversion Hi; subst. exists a0, h0, sg0, pk0, si0. cbn. auto.
    - cbn in Hi. destruct (IH _ _ _ _ R _ _ Hi) as (a&h&sg&pk&si&H1&H2&H3&H4&H5).
      exists a, h, sg, pk, si. cbn. auto.
  Qed.

  (* the count and every signature are checked before anything is returned *)
  Lemma sign_inputs_all_verified : forall ins args hs sigs l,
      sign_inputs ins args hs sigs = Some l ->
      forall i h sg pk, (i < length ins)%nat -> nth_error hs i = Some h ->
        nth_error sigs i = Some (sg, pk) -> ecdsa_verify pk h sg = true.
  Proof.
    intros ins args hs sigs l H i h sg pk Hi Hh Hs.
    destruct (nth_error ins i) as [p|] eqn:Ep; [|apply nth_error_None in Ep; lia].
    destruct (sign_inputs_nth _ _ _ _ _ H _ _ Ep) as (a&h'&sg'&pk'&si&H1&H2&H3&H4&H5).
    rewrite Hh in H2. rewrite Hs in H3. inversion H2; inversion H3; subst.
    unfold C27.sign_input in H4. destruct (ecdsa_verify pk' h' sg'); [reflexivity|discriminate].
  Qed.

  Lemma add_signatures_some : forall b sigs tx,
      add_signatures b sigs = Some tx ->
      b_hashes b <> [] /\ length sigs = length (b_ins b) /\
      exists l, sign_inputs (b_ins b) (b_args b) (b_hashes b) sigs = Some l /\
                tx = {| st_skel := skeleton b; st_ins := l |}.
  Proof.
    intros b sigs tx H. unfold C27.add_signatures in H.
    destruct (b_hashes b) as [|h0 hs] eqn:E; [discriminate|].
    destruct (Nat.eqb_spec (length sigs) (length (b_ins b))) as [L|L]; [|discriminate].
    cbn [negb] in H.
    destruct (sign_inputs (b_ins b) (b_args b) (h0 :: hs) sigs) as [l|] eqn:R; [|discriminate].
    cbn in H. inversion H; subst. repeat split; [discriminate|assumption|]. exists l. auto.
  Qed.

  Lemma sign_input_witness : forall p a h sg pk si,
      sa_witness a = true -> sign_input p a h sg pk = Some si ->
      ecdsa_verify pk h sg = true /\
      si = {| si_script := pi_script p;
              si_witness := [der sg ++ [sighash_all]; pk] ++
                            match pi_witness p with [r] => [r] | _ => [] end |}.
  Proof.
    intros p a h sg pk si W H. unfold C27.sign_input in H.
    destruct (ecdsa_verify pk h sg); [|discriminate]. rewrite W in H. cbn in H. inversion H. auto.
  Qed.

  Lemma sign_input_legacy : forall p a h sg pk si,
      sa_witness a = false -> sign_input p a h sg pk = Some si ->
      ecdsa_verify pk h sg = true /\
      si = {| si_script := ser ([add_data (der sg ++ [sighash_all]); add_data pk] ++
                                match pi_script p with [] => [] | r => [add_data r] end);
              si_witness := pi_witness p |}.
  Proof.
    intros p a h sg pk si W H. unfold C27.sign_input in H.
    destruct (ecdsa_verify pk h sg); [|discriminate]. rewrite W in H. cbn [negb] in H.
    match type of H with (if ?c then _ else _) = _ => destruct c end; [discriminate|].
    inversion H. auto.
  Qed.
End BuilderLemmas.

(* ------------------------------------------------------------------ facts about the four scripts *)
Lemma length_ser_eq : forall s n, nlen (ser s) = n -> length (ser s) = N.to_nat n.
Proof. intros s n H. rewrite <- H. unfold nlen. now rewrite Nat2N.id. Qed.

Lemma iwp_p2pkh : forall h, length h = 20%nat -> is_witness_program (ser (p2pkh h)) = false.
Proof.
  intros h H. unfold is_witness_program. rewrite parse_p2pkh by assumption.
  cbn [witness_program p2pkh]. apply andb_false_r.
Qed.
Lemma iwp_p2sh : forall h, length h = 20%nat -> is_witness_program (ser (p2sh h)) = false.
Proof.
  intros h H. unfold is_witness_program. rewrite parse_p2sh by assumption.
  cbn [witness_program p2sh]. apply andb_false_r.
Qed.
Lemma iwp_p2wsh : forall h, (length h = 20 \/ length h = 32)%nat ->
    is_witness_program (ser (p2wsh h)) = true.
Proof.
  intros h H. unfold is_witness_program. rewrite parse_p2wsh by lia.
  rewrite (length_ser_eq _ _ (nlen_ser_p2wsh h)).
  unfold p2wsh. cbn [witness_program penc_eqb]. unfold nlen.
  destruct H as [H|H]; rewrite H; reflexivity.
Qed.

Lemma classify_p2pkh : forall h, length h = 20%nat -> classify (ser (p2pkh h)) = CPubKeyHash h.
Proof. intros h H. unfold classify. rewrite parse_p2pkh by assumption. cbn. now rewrite H. Qed.
Lemma classify_p2wpkh : forall h, length h = 20%nat -> classify (ser (p2wpkh h)) = CWitnessPubKeyHash h.
Proof.
  intros h H. unfold classify. change (p2wpkh h) with (p2wsh h). rewrite parse_p2wsh by lia.
  cbn. now rewrite H.
Qed.
Lemma classify_p2sh : forall h, length h = 20%nat -> classify (ser (p2sh h)) = CScriptHash h.
Proof. intros h H. unfold classify. rewrite parse_p2sh by assumption. cbn. now rewrite H. Qed.
Lemma classify_p2wsh : forall h, length h = 32%nat -> classify (ser (p2wsh h)) = CWitnessScriptHash h.
Proof.
  intros h H. unfold classify. rewrite parse_p2wsh by lia. cbn. now rewrite H.
Qed.

Lemma eff_p2pkh : forall h, length h = 20%nat ->
    effective_code false (ser (p2pkh h)) = Some (ser (p2pkh h)).
Proof. intros h H. unfold effective_code. now rewrite parse_p2pkh. Qed.
Lemma eff_p2wpkh : forall h, length h = 20%nat ->
    effective_code true (ser (p2wpkh h)) = Some (ser (p2pkh h)).
Proof.
  intros h H. unfold effective_code. change (p2wpkh h) with (p2wsh h). rewrite parse_p2wsh by lia.
  cbn [p2wsh classify_ops]. now rewrite H.
Qed.
Lemma classify_deposit : forall d, classify_ops (deposit_ops d) = COther.
Proof. intro d. unfold deposit_ops. destruct (dp_extra d); reflexivity. Qed.
Lemma eff_deposit : forall w d, dep_wf d ->
    effective_code w (ser (deposit_ops d)) = Some (ser (deposit_ops d)).
Proof.
  intros w d W. unfold effective_code. rewrite parse_ser by (apply deposit_ops_wf; assumption).
  rewrite classify_deposit. destruct w; reflexivity.
Qed.

Lemma add_data_canon : forall d, (2 <= length d)%nat -> add_data d = canon_push d.
Proof. intros [|a [|b t]] H; cbn in H; try lia; reflexivity. Qed.

Lemma compressed_len : forall pk, compressed_pk pk = true -> length pk = 33%nat.
Proof.
  intros [|x t] H; [discriminate|]. unfold compressed_pk in H.
  apply andb_prop in H as [H _]. now apply Nat.eqb_eq in H.
Qed.

(* every well-formed list of wallet / deposit inputs is accepted by the builder *)
Lemma add_inputs_ok : forall hash160 sha256,
    (forall x, length (hash160 x) = 20%nat) -> (forall x, length (sha256 x) = 32%nat) ->
    forall ins b, Forall (fun w => wkind_wf (wi_kind w)) ins ->
      exists b', add_inputs b (map (to_input hash160 sha256) ins) = Some b'.
Proof.
  intros hash160 sha256 H1 H2 ins. induction ins as [|w ins IH]; intros b W.
  - exists b. reflexivity.
  - inversion W as [|? ? Ww Wr]; subst. cbn [map add_inputs].
    assert (E : exists b1, add_input b (to_input hash160 sha256 w) = Some b1).
    { unfold to_input, add_input. destruct (wi_kind w) as [[|] h|[|] d]; cbn [wkind_wf] in Ww;
        cbn [in_kind_ in_script in_utxo]; unfold add_pkh_input, add_sh_input.
      - rewrite classify_p2wpkh by assumption. eauto.
      - rewrite classify_p2pkh by assumption. eauto.
      - rewrite classify_p2wsh by apply H2. eauto.
      - rewrite classify_p2sh by apply H1. eauto. }
    destruct E as [b1 E]. rewrite E. apply IH. assumption.
Qed.

(* ------------------------------------------------------------------ main theorems *)
Lemma sig_enc_len' : forall ds der, sig_enc_ok ds der = true -> (8 <= length der <= 72)%nat.
Proof. intros ds der H. unfold sig_enc_ok in H. lia. Qed.

Lemma hashtype_all_ok : hashtype_ok sighash_all = true.
Proof. reflexivity. Qed.

Lemma sig_accept_built : forall der_strict checksig c pk der,
    sig_enc_ok der_strict der = true -> compressed_pk pk = true ->
    checksig pk der (mk_sighash (c_ver c) (c_tx c) (c_idx c) (c_code c) (c_amount c) sighash_all) = true ->
    sig_accept der_strict checksig c pk (der ++ [sighash_all]) = true.
Proof.
  intros der_strict checksig c pk der H1 H2 H3. unfold sig_accept. rewrite unsnoc_app.
  rewrite hashtype_all_ok, H1, H3. unfold pk_enc_ok. rewrite H2. destruct (c_ver c); reflexivity.
Qed.

(* per input kind: which digest the builder computes *)
Theorem builder_digest_choice :
  forall (hash160 sha256 : bytes -> bytes),
    (forall x, length (hash160 x) = 20%nat) -> (forall x, length (sha256 x) = 32%nat) ->
    forall (ins : list winput) (outs : list (Z * bytes)) b b',
      Forall (fun w => wkind_wf (wi_kind w)) ins ->
      build (map (to_input hash160 sha256) ins) outs = Some b ->
      compute_hashes b = Some b' ->
      skeleton b' = skeleton b /\ tx_outs (skeleton b) = outs /\
      length (b_hashes b') = length ins /\
      forall i w, nth_error ins i = Some w ->
        nth_error (b_hashes b') i = Some (expected_digest (skeleton b) i w).
Proof.
  intros hash160 sha256 Hh Hs ins outs b b' Wf Hb Hc.
  apply build_shape in Hb as (B1&B2&B3&B4).
  unfold compute_hashes in Hc. destruct (hashes_from (skeleton b) 0 (b_args b)) as [hs|] eqn:HF; [|discriminate].
  inversion Hc; subst b'; clear Hc. cbn [b_hashes].
  split; [reflexivity|]. split; [exact B3|].
  split; [rewrite (hashes_from_length _ _ _ _ HF), B2, !map_length; reflexivity|].
  intros i w Hi.
  assert (A1 : nth_error (b_args b) i = Some (args_of (to_input hash160 sha256 w))).
  { rewrite B2, map_map. exact (map_nth_error (fun x => args_of (to_input hash160 sha256 x)) _ _ Hi). }
  destruct (hashes_from_nth _ _ _ _ HF _ _ A1) as (code&C1&C2). rewrite C2. cbn [Nat.add].
  pose proof (Forall_forall (fun w => wkind_wf (wi_kind w)) ins) as [FF _].
  specialize (FF Wf w (nth_error_In _ _ Hi)). cbn beta in FF.
  unfold expected_digest, args_of, to_input in *.
  destruct (wi_kind w) as [[|] ph|[|] d]; cbn [wkind_wf] in FF;
    cbn [in_kind_ in_script in_utxo sa_witness sa_code sa_value] in *.
  - change (p2wpkh ph) with (p2wsh ph) in C1 |- *.
    rewrite iwp_p2wsh in C1 |- * by lia. change (p2wsh ph) with (p2wpkh ph) in C1.
    rewrite eff_p2wpkh in C1 by assumption. inversion C1; reflexivity.
  - rewrite iwp_p2pkh in C1 |- * by assumption. rewrite eff_p2pkh in C1 by assumption.
    inversion C1; reflexivity.
  - rewrite iwp_p2wsh in C1 |- * by (right; apply Hs). rewrite eff_deposit in C1 by assumption.
    inversion C1; reflexivity.
  - rewrite iwp_p2sh in C1 |- * by apply Hh. rewrite eff_deposit in C1 by assumption.
    inversion C1; reflexivity.
Qed.

Lemma add_data_sig : forall d, add_data (d ++ [sighash_all]) = canon_push (d ++ [sighash_all]).
Proof.
  intros [|a [|b t]]; reflexivity.
Qed.

(* per input kind: where the signature and the key are put, and that the signature was verified
   against the digest above before that *)
Theorem signature_placement :
  forall (hash160 sha256 : bytes -> bytes)
         (sigT : Type) (der : sigT -> bytes) (ecdsa_verify : bytes -> sighash -> sigT -> bool),
    (forall x, length (hash160 x) = 20%nat) -> (forall x, length (sha256 x) = 32%nat) ->
    forall (ins : list winput) (outs : list (Z * bytes)) (sigs : list (sigT * bytes)) b b' tx,
      Forall (fun w => wkind_wf (wi_kind w)) ins ->
      build (map (to_input hash160 sha256) ins) outs = Some b ->
      compute_hashes b = Some b' ->
      add_signatures sigT der ecdsa_verify b' sigs = Some tx ->
      st_skel tx = skeleton b /\ length (st_ins tx) = length ins /\
      forall i w, nth_error ins i = Some w ->
        exists sg pk, nth_error sigs i = Some (sg, pk) /\
          ecdsa_verify pk (expected_digest (skeleton b) i w) sg = true /\
          ((2 <= length pk)%nat ->
           nth_error (st_ins tx) i = Some (expected_signed_input w (der sg ++ [sighash_all]) pk)).
Proof.
  intros hash160 sha256 sigT der ecdsa_verify Hh Hs ins outs sigs b b' tx Wf Hb Hc Ha.
  destruct (builder_digest_choice hash160 sha256 Hh Hs ins outs b b' Wf Hb Hc) as (SK&_&HL0&DC).
  apply build_shape in Hb as (B1&B2&B3&B4).
  assert (Eb' : b_ins b' = b_ins b /\ b_args b' = b_args b).
  { unfold compute_hashes in Hc. destruct (hashes_from (skeleton b) 0 (b_args b)); [|discriminate].
    inversion Hc; subst; auto. }
  destruct Eb' as [Ei Ea].
  apply add_signatures_some in Ha as (_&HL&l&HSI&->). cbn [st_skel st_ins].
  rewrite Ei, Ea in HSI. rewrite Ei in HL.
  split; [exact SK|].
  split.
  { assert (G : forall ins0 args hs sgs l0, sign_inputs sigT der ecdsa_verify ins0 args hs sgs = Some l0 ->
                 length l0 = length ins0).
    { induction ins0 as [|p0 ins0 IH]; intros args hs sgs l0 H; cbn [sign_inputs] in H.
      - inversion H; reflexivity.
      - destruct args; [discriminate|]. destruct hs; [discriminate|]. destruct sgs as [|[? ?] ?]; [discriminate|].
        destruct (sign_input _ _ _ _ _ _ _ _); [|discriminate].
        destruct (sign_inputs sigT der ecdsa_verify ins0 args hs sgs) eqn:R; [|discriminate].
        cbn in H. inversion H. cbn. f_equal. eauto. }
    rewrite (G _ _ _ _ _ HSI), B1, !map_length. reflexivity. }
  intros i w Hi.
  assert (Hp : nth_error (b_ins b) i = Some (pre_of (to_input hash160 sha256 w))).
  { rewrite B1, map_map. exact (map_nth_error (fun x => pre_of (to_input hash160 sha256 x)) _ _ Hi). }
  destruct (sign_inputs_nth _ _ _ _ _ _ _ _ HSI _ _ Hp) as (a&h&sg&pk&si&A1&A2&A3&A4&A5).
  assert (Ea' : a = args_of (to_input hash160 sha256 w)).
  { rewrite B2, map_map in A1. rewrite (map_nth_error (fun x => args_of (to_input hash160 sha256 x)) _ _ Hi) in A1. now inversion A1. }
  rewrite (DC _ _ Hi) in A2. inversion A2; subst h; clear A2.
  exists sg, pk. split; [exact A3|].
  pose proof (Forall_forall (fun w => wkind_wf (wi_kind w)) ins) as [FF _].
  specialize (FF Wf w (nth_error_In _ _ Hi)). cbn beta in FF.
  subst a. rewrite A5. unfold expected_signed_input, args_of, pre_of, to_input in *.
  destruct (wi_kind w) as [[|] ph|[|] d]; cbn [wkind_wf] in FF;
    cbn [in_kind_ in_script in_utxo sa_witness sa_code sa_value] in *.
  - change (p2wpkh ph) with (p2wsh ph) in A4. rewrite iwp_p2wsh in A4 by lia.
    apply sign_input_witness in A4 as [V ->]; [|reflexivity]. split; [exact V|reflexivity].
  - rewrite iwp_p2pkh in A4 by assumption.
    apply sign_input_legacy in A4 as [V ->]; [|reflexivity]. split; [exact V|]. intro Lpk.
    cbn [pi_script pi_witness app]. rewrite add_data_sig, (add_data_canon pk) by assumption. reflexivity.
  - rewrite iwp_p2wsh in A4 by (right; apply Hs).
    apply sign_input_witness in A4 as [V ->]; [|reflexivity]. split; [exact V|reflexivity].
  - rewrite iwp_p2sh in A4 by apply Hh.
    apply sign_input_legacy in A4 as [V ->]; [|reflexivity]. split; [exact V|]. intro Lpk.
    cbn [pi_script pi_witness].
    pose proof (deposit_ser_len d FF) as Ld.
    assert (Ld2 : (92 <= length (ser (deposit_ops d)))%nat).
    { unfold nlen in Ld. destruct (dp_extra d); lia. }
    destruct (ser (deposit_ops d)) as [|x0 t0] eqn:Escr; [cbn in Ld2; lia|]. rewrite <- Escr in *.
    cbn [app]. rewrite add_data_sig, (add_data_canon pk), (add_data_canon (ser (deposit_ops d))) by lia.
    reflexivity.
Qed.

Theorem all_inputs_accepted :
  forall (hash160 sha256 : bytes -> bytes) (der_strict : bytes -> bool)
         (checksig : bytes -> bytes -> sighash -> bool)
         (sigT : Type) (der : sigT -> bytes) (ecdsa_verify : bytes -> sighash -> sigT -> bool),
    (forall x, length (hash160 x) = 20%nat) -> (forall x, length (sha256 x) = 32%nat) ->
    (forall pk h sg, ecdsa_verify pk h sg = true ->
                     sig_enc_ok der_strict (der sg) = true /\ checksig pk (der sg) h = true) ->
    forall (ins : list winput) (outs : list (Z * bytes)) (sigs : list (sigT * bytes)) b b' tx,
      Forall (fun w => wkind_wf (wi_kind w)) ins ->
      build (map (to_input hash160 sha256) ins) outs = Some b ->
      compute_hashes b = Some b' ->
      add_signatures sigT der ecdsa_verify b' sigs = Some tx ->
      (forall i w sg pk, nth_error ins i = Some w -> nth_error sigs i = Some (sg, pk) ->
                         compressed_pk pk = true /\ hash160 pk = committed_pkh (wi_kind w)) ->
      forall i w, nth_error ins i = Some w ->
        exists si, nth_error (st_ins tx) i = Some si /\
          verify_input hash160 sha256 der_strict checksig (st_skel tx) i
                       (si_script si) (si_witness si)
                       (in_script (to_input hash160 sha256 w)) (u_value (wi_utxo w)) = Accept.
Proof.
  intros hash160 sha256 der_strict checksig sigT der ecdsa_verify Hh Hs Hlib
         ins outs sigs b b' tx Wf Hb Hc Ha Hkeys i w Hi.
  apply build_shape in Hb as (B1&B2&B3&B4).
  unfold compute_hashes in Hc. destruct (hashes_from (skeleton b) 0 (b_args b)) as [hs|] eqn:HF; [|discriminate].
  inversion Hc; subst b'; clear Hc.
  apply add_signatures_some in Ha as (_&HL&l&HSI&->). cbn [b_ins b_args b_hashes] in HSI, HL.
  cbn [st_skel st_ins].
  assert (SK : skeleton {| b_ins := b_ins b; b_args := b_args b; b_outs := b_outs b; b_hashes := hs |}
               = skeleton b) by reflexivity.
  rewrite SK.
  assert (Hp : nth_error (b_ins b) i = Some (pre_of (to_input hash160 sha256 w))).
  { rewrite B1, map_map. exact (map_nth_error (fun x => pre_of (to_input hash160 sha256 x)) _ _ Hi). }
  destruct (sign_inputs_nth _ _ _ _ _ _ _ _ HSI _ _ Hp) as (a&h&sg&pk&si&A1&A2&A3&A4&A5).
  assert (Ea : a = args_of (to_input hash160 sha256 w)).
  { rewrite B2, map_map in A1. rewrite (map_nth_error (fun x => args_of (to_input hash160 sha256 x)) _ _ Hi) in A1. now inversion A1. }
  destruct (hashes_from_nth _ _ _ _ HF _ _ A1) as (code&C1&C2). rewrite A2 in C2. inversion C2; subst h; clear C2.
  cbn [Nat.add] in A4.
  destruct (Hkeys _ _ _ _ Hi A3) as [Kc Kh].
  assert (Ilt : (i < length (tx_ins (skeleton b)))%nat).
  { unfold skeleton. cbn [tx_ins]. rewrite map_length. apply nth_error_Some. congruence. }
  pose proof (Forall_forall (fun w => wkind_wf (wi_kind w)) ins) as [FF _].
  specialize (FF Wf w (nth_error_In _ _ Hi)). cbn beta in FF.
  pose proof (compressed_len _ Kc) as Lpk.
  assert (Npk : nlen pk <= 520) by (unfold nlen; lia).
  exists si. split; [assumption|].
  subst a. unfold args_of, pre_of, to_input in *.
  destruct (wi_kind w) as [[|] ph|[|] d]; cbn [wkind_wf committed_pkh] in FF, Kh;
    cbn [in_kind_ in_script in_utxo sa_witness sa_code sa_value] in *.
  - (* P2WPKH *)
    change (p2wpkh ph) with (p2wsh ph) in A4, C1.
    rewrite iwp_p2wsh in A4, C1 by lia. change (p2wsh ph) with (p2wpkh ph) in C1.
    rewrite eff_p2wpkh in C1 by assumption. inversion C1; subst code; clear C1.
    apply sign_input_witness in A4 as [V ->]; [|reflexivity].
    destruct (Hlib _ _ _ V) as [L1 L2]. pose proof (sig_enc_len' _ _ L1) as Ls.
    cbn [si_script si_witness pi_script pi_witness app].
    rewrite p2wpkh_verify; try assumption; [|unfold nlen; rewrite app_length; cbn [length]; lia].
    rewrite sig_accept_built by assumption. rewrite Kh, bytes_eqb_refl. reflexivity.
  - (* P2PKH *)
    rewrite iwp_p2pkh in A4, C1 by assumption. rewrite eff_p2pkh in C1 by assumption.
    inversion C1; subst code; clear C1.
    apply sign_input_legacy in A4 as [V ->]; [|reflexivity].
    destruct (Hlib _ _ _ V) as [L1 L2]. pose proof (sig_enc_len' _ _ L1) as Ls.
    cbn [si_script si_witness pi_script pi_witness app].
    rewrite !add_data_canon by (rewrite ?app_length; cbn [length]; lia).
    rewrite p2pkh_verify; try assumption; [|unfold nlen; rewrite app_length; cbn [length]; lia].
    rewrite sig_accept_built by assumption. rewrite Kh, bytes_eqb_refl. reflexivity.
  - (* P2WSH deposit *)
    rewrite iwp_p2wsh in A4, C1 by (right; apply Hs). rewrite eff_deposit in C1 by assumption.
    inversion C1; subst code; clear C1.
    apply sign_input_witness in A4 as [V ->]; [|reflexivity].
    destruct (Hlib _ _ _ V) as [L1 L2]. pose proof (sig_enc_len' _ _ L1) as Ls.
    cbn [si_script si_witness pi_script pi_witness app].
    change [der sg ++ [sighash_all]; pk; ser (deposit_ops d)]
      with (deposit_witness (der sg ++ [sighash_all]) pk (ser (deposit_ops d))).
    rewrite p2wsh_deposit_verify; try assumption; try apply Hs;
      [|unfold nlen; rewrite app_length; cbn [length]; lia].
    unfold deposit_cond. rewrite sig_accept_built by assumption.
    rewrite Kh, bytes_eqb_refl. reflexivity.
  - (* P2SH deposit *)
    rewrite iwp_p2sh in A4, C1 by apply Hh. rewrite eff_deposit in C1 by assumption.
    inversion C1; subst code; clear C1.
    apply sign_input_legacy in A4 as [V ->]; [|reflexivity].
    destruct (Hlib _ _ _ V) as [L1 L2]. pose proof (sig_enc_len' _ _ L1) as Ls.
    cbn [si_script si_witness pi_script pi_witness].
    pose proof (deposit_ser_len d FF) as Ld.
    assert (Ld2 : (92 <= length (ser (deposit_ops d)))%nat).
    { unfold nlen in Ld. destruct (dp_extra d); lia. }
    destruct (ser (deposit_ops d)) as [|x0 t0] eqn:Escr; [cbn in Ld2; lia|]. rewrite <- Escr in *.
    cbn [app].
    rewrite !add_data_canon by (rewrite ?app_length; cbn [length]; lia).
    change (ser [canon_push (der sg ++ [sighash_all]); canon_push pk; canon_push (ser (deposit_ops d))])
      with (deposit_script_sig (der sg ++ [sighash_all]) pk (ser (deposit_ops d))).
    rewrite p2sh_deposit_verify; try assumption; try apply Hh;
      [|unfold nlen; rewrite app_length; cbn [length]; lia].
    unfold deposit_cond. rewrite sig_accept_built by assumption.
    rewrite Kh, bytes_eqb_refl. reflexivity.
Qed.

Theorem mismatched_signature_rejected_before_tx :
  forall (sigT : Type) (der : sigT -> bytes) (ecdsa_verify : bytes -> sighash -> sigT -> bool)
         (b : builder) (sigs : list (sigT * bytes)),
    (length sigs <> length (b_ins b) \/
     exists i h sg pk, (i < length (b_ins b))%nat /\ nth_error (b_hashes b) i = Some h /\
                       nth_error sigs i = Some (sg, pk) /\ ecdsa_verify pk h sg = false) ->
    add_signatures sigT der ecdsa_verify b sigs = None.
Proof.
  intros sigT der ecdsa_verify b sigs H.
  destruct (add_signatures sigT der ecdsa_verify b sigs) as [tx|] eqn:E; [|reflexivity].
  apply add_signatures_some in E as (_&HL&l&HSI&_).
  destruct H as [H|(i&h&sg&pk&H1&H2&H3&H4)]; [contradiction|].
  rewrite (sign_inputs_all_verified _ _ _ _ _ _ _ _ HSI i h sg pk H1 H2 H3) in H4. discriminate.
Qed.

(* and nothing is produced before ComputeSignatureHashes has run *)
Lemma no_hashes_no_tx : forall sigT der ecdsa_verify b sigs,
    b_hashes b = [] -> add_signatures sigT der ecdsa_verify b sigs = None.
Proof. intros. unfold add_signatures. now rewrite H. Qed.

(* ------------------------------------------------------------------ the hypotheses are satisfiable *)
Module Witness.
  Definition h160 (_ : bytes) : bytes := repeat 7 20.
  Definition s256 (_ : bytes) : bytes := repeat 9 32.
  Definition pk : bytes := 2 :: repeat 1 32.
  Definition der (_ : unit) : bytes := repeat 48 9.
  Definition d : dep := {| dp_depositor := repeat 1 20; dp_extra := Some (repeat 2 32);
                           dp_blinding := repeat 3 8; dp_wpkh := repeat 7 20;
                           dp_rpkh := repeat 5 20; dp_lock := [0; 241; 83; 101] |}.
  Definition u (n : N) : utxo := {| u_txid := n; u_vout := 0; u_value := 5000 |}.
  Definition ins : list winput :=
    [ {| wi_utxo := u 1; wi_kind := WPkh false (repeat 7 20) |};
      {| wi_utxo := u 2; wi_kind := WPkh true (repeat 7 20) |};
      {| wi_utxo := u 3; wi_kind := WDeposit false d |};
      {| wi_utxo := u 4; wi_kind := WDeposit true d |} ].
  Definition sigs : list (unit * bytes) := repeat (tt, pk) 4.
  Definition yes3 (_ : bytes) (_ : sighash) (_ : unit) := true.
  Definition yes3' (_ _ : bytes) (_ : sighash) := true.
  Definition yes1 (_ : bytes) := true.
End Witness.

Example hypotheses_satisfiable :
  exists b b' tx,
    Forall (fun w => wkind_wf (wi_kind w)) Witness.ins /\
    build (map (to_input Witness.h160 Witness.s256) Witness.ins) [(9000%Z, ser (p2wpkh (repeat 7 20)))] = Some b /\
    compute_hashes b = Some b' /\
    add_signatures unit Witness.der Witness.yes3 b' Witness.sigs = Some tx /\
    (forall i w sg pk, nth_error Witness.ins i = Some w -> nth_error Witness.sigs i = Some (sg, pk) ->
                       compressed_pk pk = true /\ Witness.h160 pk = committed_pkh (wi_kind w)) /\
    (forall pk h sg, Witness.yes3 pk h sg = true ->
                     sig_enc_ok Witness.yes1 (Witness.der sg) = true /\ Witness.yes3' pk (Witness.der sg) h = true) /\
    length (st_ins tx) = 4%nat.
Proof.
  eexists. eexists. eexists.
  split; [repeat constructor|].
  split; [cbv; reflexivity|].
  split; [cbv; reflexivity|].
  split; [cbv; reflexivity|].
  split; [|split; [intros; split; reflexivity|reflexivity]].
  intros i w sg pk H H0.
  destruct i as [|[|[|[|i]]]]; cbn in H, H0; inversion H; inversion H0; subst; try (split; reflexivity).
  destruct i; discriminate.
Qed.

(* the theorem applies to the witness: all four inputs of the example are accepted *)
Example all_inputs_accepted_instance :
  forall b b' tx,
    build (map (to_input Witness.h160 Witness.s256) Witness.ins) [(9000%Z, ser (p2wpkh (repeat 7 20)))] = Some b ->
    compute_hashes b = Some b' ->
    add_signatures unit Witness.der Witness.yes3 b' Witness.sigs = Some tx ->
    forall i w, nth_error Witness.ins i = Some w ->
      exists si, nth_error (st_ins tx) i = Some si /\
        verify_input Witness.h160 Witness.s256 Witness.yes1 Witness.yes3' (st_skel tx) i
                     (si_script si) (si_witness si)
                     (in_script (to_input Witness.h160 Witness.s256 w)) (u_value (wi_utxo w)) = Accept.
Proof.
  intros b b' tx Hb Hc Ha.
  apply (all_inputs_accepted Witness.h160 Witness.s256 Witness.yes1 Witness.yes3' unit Witness.der
           Witness.yes3) with (outs := [(9000%Z, ser (p2wpkh (repeat 7 20)))]) (sigs := Witness.sigs)
           (b := b) (b' := b'); try assumption; try reflexivity.
  - intros; split; reflexivity.
  - repeat constructor.
  - intros i w sg pk H H0.
    destruct i as [|[|[|[|i]]]]; cbn in H, H0; inversion H; inversion H0; subst; try (split; reflexivity).
    destruct i; discriminate.
Qed.

(* ------------------------------------------------------------------ the executable form *)
Lemma forallb_In : forall {A} (f : A -> bool) l, forallb f l = true -> forall x, In x l -> f x = true.
Proof. intros A f l H x Hx. rewrite forallb_forall in H. auto. Qed.

Theorem spec_ok_sound : forall c : tx_case,
    Concrete.spec_ok c = true ->
    tc_panic c = false /\
    (tc_expect_valid c = true -> tc_build_ok c = true ->
     tc_tx_produced c = true /\ forall ic, In ic (tc_ins c) -> ic_engine ic = Some true) /\
    (tc_must_reject c = true -> tc_tx_produced c = false).
Proof.
  intros c H. unfold Concrete.spec_ok in H.
  apply andb_prop in H as [H H3]. apply andb_prop in H as [H1 H2].
  split; [destruct (tc_panic c); [discriminate|reflexivity]|]. split.
  - intros E B. rewrite E, B in H2. cbn in H2. apply andb_prop in H2 as [P Q]. split; [exact P|].
    intros ic Hic. pose proof (forallb_In _ _ Q ic Hic) as R. cbn beta in R.
    destruct (ic_engine ic) as [[|]|]; [reflexivity|discriminate|discriminate].
  - intro M. rewrite M in H3. destruct (tc_tx_produced c); [discriminate|reflexivity].
Qed.

Theorem judge_agree_sound : forall c : tx_case,
    Concrete.judge c = Agree -> Concrete.spec_ok c = true /\ Concrete.agree c = true.
Proof.
  intros c H. unfold Concrete.judge, decide in H.
  destruct (Concrete.unsupported c); [discriminate|].
  destruct (Concrete.spec_ok c); [|discriminate]. destruct (Concrete.agree c); [auto|discriminate].
Qed.

(* the instance of the model the correspondence check evaluates never yields a transaction when
   an observed signature fails the (observed) verification against the model's digest *)
Theorem concrete_model_rejects_mismatch : forall (c : tx_case) b,
    Concrete.model_hashes c = Some b ->
    (length (tc_sigs c) <> length (b_ins b) \/
     exists i h s, (i < length (b_ins b))%nat /\ nth_error (b_hashes b) i = Some h /\
                   nth_error (tc_sigs c) i = Some s /\
                   Concrete.ecdsa_verify c (so_pk s) h i = false) ->
    Concrete.model_tx c = None.
Proof.
  intros c b Hb H. unfold Concrete.model_tx. rewrite Hb.
  apply mismatched_signature_rejected_before_tx.
  destruct H as [H|(i&h&s&H1&H2&H3&H4)].
  - left. now rewrite map_length, seq_length.
  - right. exists i, h, i, (so_pk s). repeat split; try assumption.
    assert (L : (i < length (tc_sigs c))%nat) by (apply nth_error_Some; congruence).
    erewrite map_nth_error; [|rewrite nth_error_nth' with (d := O); [|now rewrite seq_length];
                               rewrite seq_nth by assumption; reflexivity].
    cbn. now rewrite H3.
Qed.

(* ------------------------------------------------------------------ oversized unlocking data *)
Lemma wf_canon_push_lt : forall d, nlen d < 4294967296 -> wf_op (canon_push d).
Proof.
  intros d H. unfold canon_push, canon_enc.
  destruct d as [|a [|b t]].
  - left; reflexivity.
  - destruct (((1 <=? a) && (a <=? 16)) || (a =? 129)) eqn:E; cbn [wf_op].
    + right. exists a. split; [reflexivity|]. lia.
    + unfold nlen; cbn; lia.
  - destruct (N.leb_spec (nlen (a :: b :: t)) 75); cbn [wf_op].
    + unfold nlen in *; cbn [length] in *; lia.
    + destruct (N.leb_spec (nlen (a :: b :: t)) 255); cbn [wf_op]; [assumption|].
      destruct (N.leb_spec (nlen (a :: b :: t)) 65535); cbn [wf_op]; lia.
Qed.

Lemma ser_canon_ge : forall d, nlen d <= nlen (ser_op (canon_push d)) \/ nlen d <= 1.
Proof.
  intros d. unfold canon_push. destruct (canon_enc d) eqn:E; cbn [ser_op]; unfold nlen;
    try (left; cbn [length]; rewrite ?app_length; cbn [length]; lia).
  right. unfold canon_enc in E. destruct d as [|a [|b t]]; cbn [length]; try lia.
  destruct (nlen (a :: b :: t) <=? 75); [discriminate|].
  destruct (nlen (a :: b :: t) <=? 255); [discriminate|].
  destruct (nlen (a :: b :: t) <=? 65535); discriminate.
Qed.

Lemma sig_accept_big : forall der_strict checksig c pk sig,
    520 < nlen sig \/ 520 < nlen pk -> sig_accept der_strict checksig c pk sig = false.
  Proof.
    intros der_strict checksig c pk sig H. unfold C27.sig_accept.
    destruct (unsnoc sig) as [[der ht]|] eqn:U; [|reflexivity].
    apply unsnoc_some in U. subst sig.
    destruct H as [H|H].
    - unfold sig_enc_ok. unfold nlen in H. rewrite app_length in H. cbn [length] in H.
      replace ((8 <=? length der)%nat && (length der <=? 72)%nat) with false by lia.
      now rewrite andb_false_r.
    - replace (pk_enc_ok (c_ver c) pk) with false; [now rewrite andb_false_r|].
      unfold nlen in H. symmetry. unfold pk_enc_ok, compressed_pk.
      destruct pk as [|x t]; [destruct (c_ver c); reflexivity|].
      replace (length (x :: t) =? 33)%nat with false by lia.
      replace (length (x :: t) =? 65)%nat with false by lia.
      destruct (c_ver c); reflexivity.
  Qed.


Section Big.
  Variable hash160 sha256 : bytes -> bytes.
  Variable der_strict : bytes -> bool.
  Variable checksig : bytes -> bytes -> sighash -> bool.
  Notation step := (step hash160 der_strict checksig).
  Notation run := (run hash160 der_strict checksig).
  Notation run_script := (run_script hash160 der_strict checksig).
  Notation verify_input := (verify_input hash160 sha256 der_strict checksig).
  Notation sig_accept := (sig_accept der_strict checksig).

  Lemma step_push_big : forall c e d s, 520 < nlen d -> step c (OPush e d) s = Fail.
  Proof. intros c e d s H. unfold C27.step. destruct (N.ltb_spec 520 (nlen d)); [reflexivity|lia]. Qed.

  Lemma run_pushes_big : forall c l st,
      Exists (fun d => 520 < nlen d) l -> run_script c (map canon_push l) st = Fail.
  Proof.
    intros c l st H. unfold C27.run_script.
    assert (G : forall s, branch_executing (cnd s) = true -> run c (map canon_push l) s = Fail).
    { induction H as [d l Hd|d l _ IH]; intros s Hs; cbn [map]; rewrite run_cons.
      - unfold canon_push. now rewrite step_push_big.
      - destruct (N.ltb_spec 520 (nlen d)) as [B|B].
        + unfold canon_push. now rewrite step_push_big.
        + rewrite step_canon_push by assumption. apply IH. exact Hs. }
    now rewrite G.
  Qed.

  Lemma p2sh_deposit_verify_big : forall tx i sig pk d amount,
      dep_wf d -> length (hash160 (ser (deposit_ops d))) = 20%nat ->
      520 < nlen sig \/ 520 < nlen pk ->
      verify_input tx i (deposit_script_sig sig pk (ser (deposit_ops d))) []
                   (ser (p2sh (hash160 (ser (deposit_ops d))))) amount = Reject.
  Proof.
    intros tx i sig pk d amount W Hh Hbig.
    remember (ser (deposit_ops d)) as script eqn:Escript.
    assert (Hscr : nlen script <= 520).
    { subst script. rewrite deposit_ser_len by assumption. destruct (dp_extra d); lia. }
    unfold C27.verify_input, deposit_script_sig.
    change [canon_push sig; canon_push pk; canon_push script] with (map canon_push [sig; pk; script]).
    destruct (length (tx_ins tx) <=? i)%nat; [reflexivity|].
    rewrite nlen_ser_p2sh by assumption. rewrite andb_false_r.
    unfold max_script_size.
    destruct (N.ltb_spec 10000 (nlen (ser (map canon_push [sig; pk; script])))) as [L|L]; [reflexivity|].
    cbn [orb]. replace (10000 <? 23) with false by reflexivity.
    assert (Ls : nlen sig <= 10000 /\ nlen pk <= 10000).
    { cbn [map] in L. rewrite !ser_cons in L. unfold nlen in L. rewrite !app_length in L.
      pose proof (ser_canon_ge sig). pose proof (ser_canon_ge pk). unfold nlen in *. lia. }
    rewrite parse_ser by (cbn [map]; repeat (apply Forall_cons || apply Forall_nil); apply wf_canon_push_lt; lia).
    rewrite parse_p2sh by assumption.
    unfold p2sh at 1 2. cbn [classify_ops witness_program]. rewrite Hh.
    replace (forallb is_push (map canon_push [sig; pk; script])) with true by reflexivity.
    cbn [Nat.eqb andb negb].
    rewrite run_pushes_big; [reflexivity|].
    destruct Hbig; [apply Exists_cons_hd|apply Exists_cons_tl, Exists_cons_hd]; assumption.
  Qed.

  Lemma p2wsh_deposit_verify_big : forall tx i sig pk d amount,
      dep_wf d -> length (sha256 (ser (deposit_ops d))) = 32%nat ->
      520 < nlen sig \/ 520 < nlen pk ->
      verify_input tx i [] (deposit_witness sig pk (ser (deposit_ops d)))
                   (ser (p2wsh (sha256 (ser (deposit_ops d))))) amount = Reject.
  Proof.
    intros tx i sig pk d amount W Hh Hbig.
    remember (ser (deposit_ops d)) as script eqn:Escript.
    assert (Hscr : nlen script <= 520).
    { subst script. rewrite deposit_ser_len by assumption. destruct (dp_extra d); lia. }
    unfold C27.verify_input, deposit_witness.
    destruct (length (tx_ins tx) <=? i)%nat; [reflexivity|].
    rewrite nlen_ser_p2wsh. unfold max_script_size.
    replace (nlen (sha256 script)) with 32 by (unfold nlen; lia).
    replace (parse []) with (Some (@nil op)) by reflexivity.
    rewrite parse_p2wsh by lia.
    change (nlen (@nil N)) with 0.
    replace (10000 <? 0) with false by reflexivity.
    replace (10000 <? 2 + 32) with false by reflexivity.
    replace (2 + 32 =? 0) with false by reflexivity. cbn [N.eqb andb orb].
    unfold p2wsh. cbn [classify_ops witness_program].
    rewrite !Hh. cbn [Nat.eqb Nat.leb andb negb forallb penc_eqb].
    rewrite run_script_nil.
    assert (S1 : (520 <? nlen (sha256 script)) = false) by (apply N.ltb_ge; unfold nlen; lia).
    assert (M1 : minimal_push EDirect (sha256 script) = true) by (apply minimal_direct; unfold nlen; lia).
    unfold C27.run_script.
    rewrite run_cons. rewrite step_push_exec by (try reflexivity; unfold nlen; cbn [length N.of_nat]; lia).
    rewrite run_cons. rewrite step_push_exec by (try reflexivity; try assumption; unfold nlen; lia).
    rewrite run_nil. cbn [with_stack cnd stk].
    unfold C27.verify_witness. cbn [N.eqb negb]. rewrite Hh. cbn [Nat.eqb].
    cbn [unsnoc]. unfold max_script_size.
    destruct (N.ltb_spec 10000 (nlen script)); [lia|].
    rewrite bytes_eqb_refl. cbn [negb].
    replace (parse script) with (Some (deposit_ops d))
      by (rewrite Escript; symmetry; apply parse_ser, deposit_ops_wf; assumption).
    cbn [rev app existsb].
    destruct Hbig as [B|B].
    - destruct (N.ltb_spec 520 (nlen sig)); [|lia]. now rewrite orb_true_r.
    - destruct (N.ltb_spec 520 (nlen pk)); [|lia]. reflexivity.
  Qed.
End Big.

(* ------------------------------------------------------------------ builder histories *)
Lemma input_args_eq : forall i, input_args i = args_of i.
Proof. reflexivity. Qed.

Definition outpt (p : pre_in) : N * N := (pi_txid p, pi_vout p).
Definition in_outpt (i : input) : N * N := (u_txid (in_utxo i), u_vout (in_utxo i)).

Lemma outpt_pre_of : forall i, outpt (pre_of i) = in_outpt i.
Proof. intro i. unfold outpt, pre_of, in_outpt. destruct (in_kind_ i); reflexivity. Qed.

Lemma skel_ins_of_inputs : forall (l : list pre_in) (l' : list input),
    map outpt l = map in_outpt l' ->
    map (fun i => {| ti_txid := pi_txid i; ti_vout := pi_vout i; ti_seq := max_seq |}) l =
    map (fun i => {| ti_txid := u_txid (in_utxo i); ti_vout := u_vout (in_utxo i);
                     ti_seq := max_seq |}) l'.
Proof.
  induction l as [|p l IH]; destruct l' as [|i l']; cbn; intro H; try discriminate; [reflexivity|].
  inversion H as [[H1 H2 H3]]. rewrite H1, H2. f_equal. auto.
Qed.

Lemma skel_ins_of_pre : forall (l l' : list pre_in),
    map outpt l = map outpt l' ->
    map (fun i => {| ti_txid := pi_txid i; ti_vout := pi_vout i; ti_seq := max_seq |}) l =
    map (fun i => {| ti_txid := pi_txid i; ti_vout := pi_vout i; ti_seq := max_seq |}) l'.
Proof.
  induction l as [|p l IH]; destruct l' as [|i l']; cbn; intro H; try discriminate; [reflexivity|].
  inversion H as [[H1 H2 H3]]. rewrite H1, H2. f_equal. auto.
Qed.

(* what every reachable builder state satisfies w.r.t. the transaction assembled so far *)
Definition hinv (b : builder) (ins : list input) (outs : list (Z * bytes)) : Prop :=
  map outpt (b_ins b) = map in_outpt ins /\ b_args b = map input_args ins /\ b_outs b = outs.

Lemma hinv_skeleton : forall b ins outs, hinv b ins outs -> skeleton b = tx_of ins outs.
Proof.
  intros b ins outs (H1&H2&H3). unfold skeleton, tx_of. rewrite H3.
  rewrite (skel_ins_of_inputs _ _ H1). reflexivity.
Qed.

Lemma add_input_accepted : forall b i,
    match add_input b i with
    | Some _ => input_accepted i = true
    | None => input_accepted i = false
    end.
Proof.
  intros b i. unfold input_accepted, add_input, add_pkh_input, add_sh_input.
  destruct (in_kind_ i); destruct (classify (in_script i)); reflexivity.
Qed.

Lemma compute_hashes_fields : forall b b', compute_hashes b = Some b' ->
    b_ins b' = b_ins b /\ b_args b' = b_args b /\ b_outs b' = b_outs b /\
    hashes_from (skeleton b) 0 (b_args b) = Some (b_hashes b').
Proof.
  intros b b' H. unfold compute_hashes in H.
  destruct (hashes_from (skeleton b) 0 (b_args b)) as [hs|]; [|discriminate].
  inversion H; subst. cbn. auto.
Qed.

Section HistoryLemmas.
  Variable sigT : Type.
  Variable der : sigT -> bytes.
  Variable ecdsa_verify : bytes -> sighash -> sigT -> bool.
  Notation hop := (hop sigT).
  Notation sign_mut := (sign_mut sigT der ecdsa_verify).
  Notation add_signatures_h := (add_signatures_h sigT der ecdsa_verify).
  Notation hstep := (hstep sigT der ecdsa_verify).
  Notation hrun := (hrun sigT der ecdsa_verify).
  Notation hist_ins := (@hist_ins sigT).
  Notation hist_outs := (@hist_outs sigT).

  Lemma as_signed_signed_pre : forall p si, as_signed (signed_pre p si) = si.
  Proof. intros p [s w]. reflexivity. Qed.

  Lemma sign_mut_outpt : forall ins args hs sigs,
      map outpt (fst (sign_mut ins args hs sigs)) = map outpt ins.
  Proof.
    induction ins as [|p ins IH]; intros args hs sigs; [reflexivity|].
    cbn [C27.sign_mut]. destruct args as [|a args]; [reflexivity|].
    destruct sigs as [|[sg pk] sigs]; [reflexivity|]. destruct hs as [|h hs]; [reflexivity|].
    destruct (sign_input sigT der ecdsa_verify p a h sg pk) as [si|]; [|reflexivity].
    specialize (IH args hs sigs). destruct (sign_mut ins args hs sigs) as [r f]. cbn in *.
    now rewrite IH.
  Qed.

  Lemma sign_mut_done : forall ins args hs sigs ins',
      sign_mut ins args hs sigs = (ins', FDone) ->
      sign_inputs sigT der ecdsa_verify ins args hs sigs = Some (map as_signed ins').
  Proof.
    induction ins as [|p ins IH]; intros args hs sigs ins' H.
    - cbn in H. inversion H; subst. reflexivity.
    - cbn [C27.sign_mut] in H. cbn [C27.sign_inputs].
      destruct args as [|a args]; [discriminate|].
      destruct sigs as [|[sg pk] sigs]; [discriminate|]. destruct hs as [|h hs]; [discriminate|].
      destruct (sign_input sigT der ecdsa_verify p a h sg pk) as [si|]; [|discriminate].
      destruct (sign_mut ins args hs sigs) as [r f] eqn:R. inversion H; subst.
      rewrite (IH _ _ _ _ R). cbn. now rewrite as_signed_signed_pre.
  Qed.

  Lemma sign_mut_done_len : forall ins args hs sigs ins',
      sign_mut ins args hs sigs = (ins', FDone) -> (length ins <= length hs)%nat.
  Proof.
    induction ins as [|p ins IH]; intros args hs sigs ins' H; [cbn; lia|].
    cbn [C27.sign_mut] in H.
    destruct args as [|a args]; [discriminate|].
    destruct sigs as [|[sg pk] sigs]; [discriminate|]. destruct hs as [|h hs]; [discriminate|].
    destruct (sign_input sigT der ecdsa_verify p a h sg pk) as [si|]; [|discriminate].
    destruct (sign_mut ins args hs sigs) as [r f] eqn:R. inversion H; subst.
    apply IH in R. cbn. lia.
  Qed.

  (* AddSignatures on the state record: fields *)
  Lemma add_signatures_h_fields : forall b sigs b' r, add_signatures_h b sigs = (b', r) ->
      map outpt (b_ins b') = map outpt (b_ins b) /\ b_args b' = b_args b /\
      b_outs b' = b_outs b /\ b_hashes b' = b_hashes b.
  Proof.
    intros b sigs b' r H. unfold C27.add_signatures_h in H.
    destruct (b_hashes b) as [|h0 hs] eqn:Eh; [inversion H; subst; auto|].
    destruct (negb (length sigs =? length (b_ins b))%nat); [inversion H; subst; auto|].
    pose proof (sign_mut_outpt (b_ins b) (b_args b) (h0 :: hs) sigs) as O.
    destruct (sign_mut (b_ins b) (b_args b) (h0 :: hs) sigs) as [ins' f].
    inversion H; subst. cbn in *. auto.
  Qed.

  (* a produced transaction is the one the pure [add_signatures] describes *)
  Lemma add_signatures_h_tx : forall b sigs b' tx, add_signatures_h b sigs = (b', RTx tx) ->
      add_signatures sigT der ecdsa_verify b sigs = Some tx.
  Proof.
    intros b sigs b' tx H. unfold C27.add_signatures_h in H. unfold add_signatures.
    destruct (b_hashes b) as [|h0 hs] eqn:Eh; [discriminate|].
    destruct (negb (length sigs =? length (b_ins b))%nat); [discriminate|].
    pose proof (sign_mut_outpt (b_ins b) (b_args b) (h0 :: hs) sigs) as O.
    destruct (sign_mut (b_ins b) (b_args b) (h0 :: hs) sigs) as [ins' f] eqn:R.
    destruct f; inversion H; subst. rewrite (sign_mut_done _ _ _ _ _ R). cbn. do 2 f_equal.
    unfold skeleton. cbn. f_equal. apply skel_ins_of_pre. cbn in O. now rewrite O.
  Qed.

  Lemma add_signatures_h_tx_len : forall b sigs b' tx, add_signatures_h b sigs = (b', RTx tx) ->
      (length (b_ins b) <= length (b_hashes b))%nat.
  Proof.
    intros b sigs b' tx H. unfold C27.add_signatures_h in H.
    destruct (b_hashes b) as [|h0 hs] eqn:Eh; [discriminate|].
    destruct (negb (length sigs =? length (b_ins b))%nat); [discriminate|].
    destruct (sign_mut (b_ins b) (b_args b) (h0 :: hs) sigs) as [ins' f] eqn:R.
    destruct f; inversion H; subst. exact (sign_mut_done_len _ _ _ _ _ R).
  Qed.

  Definition op_ins (o : hop) : list input :=
    match o with HAddIn i => if input_accepted i then [i] else [] | _ => [] end.
  Definition op_outs (o : hop) : list (Z * bytes) :=
    match o with HAddOut v s => [(v, s)] | _ => [] end.

  Lemma hist_ins_cons : forall o t, hist_ins (o :: t) = op_ins o ++ hist_ins t.
  Proof. intros [i|v s| |sg] t; cbn; [destruct (input_accepted i)|..]; reflexivity. Qed.
  Lemma hist_outs_cons : forall o t, hist_outs (o :: t) = op_outs o ++ hist_outs t.
  Proof. intros [i|v s| |sg] t; reflexivity. Qed.

  Lemma hstep_inv : forall b o b' r ins outs, hinv b ins outs -> hstep b o = (b', r) ->
      hinv b' (ins ++ op_ins o) (outs ++ op_outs o).
  Proof.
    intros b o b' r ins outs (H1&H2&H3) H. destruct o as [i|v s| |sg]; cbn in H |- *.
    - pose proof (add_input_accepted b i) as A.
      destruct (add_input b i) as [b1|] eqn:E; injection H as <- <-; rewrite A.
      + apply add_input_shape in E as (E1&E2&E3&E4). unfold hinv.
        rewrite E1, E2, E3, !map_app, H1, H2, H3. cbn. rewrite outpt_pre_of, app_nil_r. auto.
      + rewrite !app_nil_r. unfold hinv. auto.
    - injection H as <- <-. rewrite app_nil_r. unfold hinv. cbn. rewrite H1, H2, H3. auto.
    - rewrite !app_nil_r.
      destruct (compute_hashes b) as [b1|] eqn:E; injection H as <- <-; [|unfold hinv; auto].
      apply compute_hashes_fields in E as (E1&E2&E3&_). unfold hinv. rewrite E1, E2, E3. auto.
    - rewrite !app_nil_r. apply add_signatures_h_fields in H as (E1&E2&E3&_).
      unfold hinv. rewrite E1, E2, E3. auto.
  Qed.

  Lemma hrun_inv : forall ops b ins outs b' rs, hinv b ins outs -> hrun b ops = (b', rs) ->
      hinv b' (ins ++ hist_ins ops) (outs ++ hist_outs ops) /\ length rs = length ops.
  Proof.
    induction ops as [|o ops IH]; intros b ins outs b' rs I H.
    - cbn in H. inversion H; subst. cbn. rewrite !app_nil_r. auto.
    - cbn [C27.hrun] in H. destruct (hstep b o) as [b1 r] eqn:E.
      destruct (hrun b1 ops) as [b2 rs'] eqn:R. inversion H; subst.
      destruct (IH _ _ _ _ _ (hstep_inv _ _ _ _ _ _ I E) R) as [J L].
      rewrite hist_ins_cons, hist_outs_cons, !app_assoc. split; [exact J|cbn; lia].
  Qed.

  (* the result of ComputeSignatureHashes in a state that holds the transaction (ins, outs) *)
  Lemma hstep_compute : forall b ins outs, hinv b ins outs ->
      snd (hstep b HCompute) = match tx_sighashes ins outs with
                               | Some hs => RHashes hs
                               | None => RHashErr
                               end.
  Proof.
    intros b ins outs I. pose proof (hinv_skeleton _ _ _ I) as S. destruct I as (_&H2&_).
    cbn. unfold compute_hashes, tx_sighashes. rewrite S, H2.
    destruct (hashes_from (tx_of ins outs) 0 (map input_args ins)); reflexivity.
  Qed.

  Lemma hrun_compute : forall pre post b ins outs b' rs, hinv b ins outs ->
      hrun b (pre ++ HCompute :: post) = (b', rs) ->
      nth_error rs (length pre) =
      Some (match tx_sighashes (ins ++ hist_ins pre) (outs ++ hist_outs pre) with
            | Some hs => RHashes hs
            | None => RHashErr
            end).
  Proof.
    induction pre as [|o pre IH]; intros post b ins outs b' rs I H.
    - cbn [app] in H. cbn [C27.hrun] in H. pose proof (hstep_compute _ _ _ I) as C.
      destruct (hstep b HCompute) as [b1 r]. destruct (hrun b1 post) as [b2 rs'].
      inversion H; subst. cbn in C |- *. rewrite !app_nil_r. now rewrite C.
    - cbn [app] in H. cbn [C27.hrun] in H. destruct (hstep b o) as [b1 r] eqn:E.
      destruct (hrun b1 (pre ++ HCompute :: post)) as [b2 rs'] eqn:R. inversion H; subst.
      cbn [length nth_error]. rewrite (IH _ _ _ _ _ _ (hstep_inv _ _ _ _ _ _ I E) R).
      now rewrite hist_ins_cons, hist_outs_cons, !app_assoc.
  Qed.

  Lemma hinv_new : hinv new_builder [] [].
  Proof. unfold hinv. auto. Qed.

  (* EVERY ComputeSignatureHashes call of EVERY history returns exactly the signature hashes of
     the transaction as it is at that call: no fragment of an earlier computation survives *)
  Theorem history_sighashes_fresh : forall (pre post : list hop) b rs,
      hrun new_builder (pre ++ HCompute :: post) = (b, rs) ->
      nth_error rs (length pre) =
      Some (match tx_sighashes (hist_ins pre) (hist_outs pre) with
            | Some hs => RHashes hs
            | None => RHashErr
            end).
  Proof. intros pre post b rs H. exact (hrun_compute _ _ _ _ _ _ _ hinv_new H). Qed.

  Lemma hrun_app : forall a c b,
      hrun b (a ++ c) = let (b1, r1) := hrun b a in let (b2, r2) := hrun b1 c in (b2, r1 ++ r2).
  Proof.
    induction a as [|o a IH]; intros c b.
    - cbn. destruct (hrun b c); reflexivity.
    - cbn [app C27.hrun]. destruct (hstep b o) as [b1 r]. rewrite IH.
      destruct (hrun b1 a) as [b2 r1]. destruct (hrun b2 c) as [b3 r2]. reflexivity.
  Qed.

  Lemma hrun_length : forall ops b b' rs, hrun b ops = (b', rs) -> length rs = length ops.
  Proof.
    induction ops as [|o ops IH]; intros b b' rs H.
    - cbn in H. inversion H; subst. reflexivity.
    - cbn [C27.hrun] in H. destruct (hstep b o) as [b1 r] eqn:E.
      destruct (hrun b1 ops) as [b2 rs'] eqn:R. inversion H; subst. cbn. f_equal. eauto.
  Qed.

  (* ---- lengths: the stored hashes never outnumber the inputs ---- *)
  Definition linv (b : builder) : Prop :=
    length (b_args b) = length (b_ins b) /\ (length (b_hashes b) <= length (b_ins b))%nat.

  Lemma hstep_len : forall b o b' r, linv b -> hstep b o = (b', r) ->
      linv b' /\
      length (b_ins b') = (length (b_ins b) + length (op_ins o))%nat /\
      (is_compute sigT o = false -> b_hashes b' = b_hashes b).
  Proof.
    intros b o b' r [L1 L2] H. destruct o as [i|v s| |sg]; cbn in H.
    - pose proof (add_input_accepted b i) as A. cbn [op_ins].
      destruct (add_input b i) as [b1|] eqn:E; injection H as <- <-; rewrite A.
      + apply add_input_shape in E as (E1&E2&E3&E4). unfold linv.
        rewrite E1, E2, E4, !app_length. cbn. repeat split; auto; lia.
      + unfold linv. cbn. repeat split; auto; lia.
    - injection H as <- <-. unfold linv. cbn. repeat split; auto; lia.
    - destruct (compute_hashes b) as [b1|] eqn:E; injection H as <- <-; cbn.
      + apply compute_hashes_fields in E as (E1&E2&E3&E4). apply hashes_from_length in E4.
        unfold linv. rewrite E1, E2, E4. repeat split; try discriminate; lia.
      + unfold linv. repeat split; auto; lia.
    - apply add_signatures_h_fields in H as (E1&E2&E3&E4).
      assert (E : length (b_ins b') = length (b_ins b)).
      { rewrite <- (map_length outpt (b_ins b')), E1. apply map_length. }
      unfold linv. rewrite E2, E4, E. cbn. repeat split; auto; lia.
  Qed.

  Lemma hrun_len : forall ops b b' rs, linv b -> hrun b ops = (b', rs) -> linv b'.
  Proof.
    induction ops as [|o ops IH]; intros b b' rs L H.
    - cbn in H. inversion H; subst. exact L.
    - cbn [C27.hrun] in H. destruct (hstep b o) as [b1 r] eqn:E.
      destruct (hrun b1 ops) as [b2 rs'] eqn:R. inversion H; subst.
      destruct (hstep_len _ _ _ _ L E) as [L' _]. eauto.
  Qed.

  Lemma hrun_no_compute : forall ops b b' rs, linv b ->
      Forall (fun o => is_compute sigT o = false) ops -> hrun b ops = (b', rs) ->
      linv b' /\ b_hashes b' = b_hashes b /\
      length (b_ins b') = (length (b_ins b) + length (hist_ins ops))%nat.
  Proof.
    induction ops as [|o ops IH]; intros b b' rs L F H.
    - cbn in H. inversion H; subst. cbn. repeat split; try apply L; lia.
    - cbn [C27.hrun] in H. destruct (hstep b o) as [b1 r] eqn:E.
      destruct (hrun b1 ops) as [b2 rs'] eqn:R. inversion H; subst.
      inversion F as [|? ? Fo Fr]; subst.
      destruct (hstep_len _ _ _ _ L E) as (L'&N&K).
      destruct (IH _ _ _ L' Fr R) as (L''&K'&N').
      rewrite hist_ins_cons, app_length. repeat split; try apply L''.
      + rewrite K'. auto.
      + lia.
  Qed.

  Lemma linv_new : linv new_builder.
  Proof. unfold linv. cbn. lia. Qed.

  (* an input accepted after the last ComputeSignatureHashes: AddSignatures produces NO
     transaction, whatever the signatures are (it refuses, or - the count being right and all
     earlier signatures valid - indexes the stored hashes out of range) *)
  Theorem input_after_computation_no_tx : forall (pre mid : list hop) sigs b rs,
      Forall (fun o => is_compute sigT o = false) mid ->
      hist_ins mid <> [] ->
      hrun new_builder (pre ++ mid ++ [HSign sigs]) = (b, rs) ->
      exists r, nth_error rs (length pre + length mid) = Some r /\ forall tx, r <> RTx tx.
  Proof.
    intros pre mid sigs b rs F NE H.
    rewrite hrun_app in H. destruct (hrun new_builder pre) as [b1 r1] eqn:R1.
    rewrite hrun_app in H. destruct (hrun b1 mid) as [b2 r2] eqn:R2.
    cbn [C27.hrun C27.hstep] in H.
    destruct (add_signatures_h b2 sigs) as [b3 r] eqn:A. inversion H; subst.
    pose proof (hrun_len _ _ _ _ linv_new R1) as L1.
    destruct (hrun_no_compute _ _ _ _ L1 F R2) as (L2&K&N).
    pose proof (hrun_length _ _ _ _ R1) as Len1.
    pose proof (hrun_length _ _ _ _ R2) as Len2.
    exists r. split.
    - rewrite app_assoc, nth_error_app2 by (rewrite app_length; lia).
      rewrite app_length, Len1, Len2, Nat.sub_diag. reflexivity.
    - intros tx ->. apply add_signatures_h_tx_len in A. destruct L1 as [_ L1].
      rewrite K in A. destruct (hist_ins mid); [congruence|]. cbn in N. lia.
  Qed.
End HistoryLemmas.

(* ---- histories without an earlier AddSignatures: the inputs are as Add*Input left them ---- *)
Lemma builder_eta : forall b b', b_ins b = b_ins b' -> b_args b = b_args b' ->
    b_outs b = b_outs b' -> b_hashes b = b_hashes b' -> b = b'.
Proof. intros [a1 a2 a3 a4] [c1 c2 c3 c4]; cbn; intros; subst; reflexivity. Qed.

Definition hinv' (b : builder) (ins : list input) (outs : list (Z * bytes)) : Prop :=
  b_ins b = map pre_of ins /\ b_args b = map args_of ins /\ b_outs b = outs.

Lemma hinv'_hinv : forall b ins outs, hinv' b ins outs -> hinv b ins outs.
Proof.
  intros b ins outs (H1&H2&H3). unfold hinv. rewrite H1, H2, H3, map_map. repeat split.
  apply map_ext. apply outpt_pre_of.
Qed.

Section HistoryNoSign.
  Variable sigT : Type.
  Variable der : sigT -> bytes.
  Variable ecdsa_verify : bytes -> sighash -> sigT -> bool.
  Notation hop := (hop sigT).
  Notation hstep := (hstep sigT der ecdsa_verify).
  Notation hrun := (hrun sigT der ecdsa_verify).

  Lemma hstep_nosign_inv : forall b (o : hop) b' r ins outs, is_sign sigT o = false ->
      hinv' b ins outs -> hstep b o = (b', r) ->
      hinv' b' (ins ++ op_ins sigT o) (outs ++ op_outs sigT o).
  Proof.
    intros b o b' r ins outs NS (H1&H2&H3) H. destruct o as [i|v s| |sg]; cbn in H |- *.
    - pose proof (add_input_accepted b i) as A.
      destruct (add_input b i) as [b1|] eqn:E; injection H as <- <-; rewrite A.
      + apply add_input_shape in E as (E1&E2&E3&E4). unfold hinv'.
        rewrite E1, E2, E3, !map_app, H1, H2, H3. cbn. rewrite app_nil_r. auto.
      + rewrite !app_nil_r. unfold hinv'. auto.
    - injection H as <- <-. rewrite app_nil_r. unfold hinv'. cbn. rewrite H1, H2, H3. auto.
    - rewrite !app_nil_r.
      destruct (compute_hashes b) as [b1|] eqn:E; injection H as <- <-; [|unfold hinv'; auto].
      apply compute_hashes_fields in E as (E1&E2&E3&_). unfold hinv'. rewrite E1, E2, E3. auto.
    - discriminate.
  Qed.

  Lemma hrun_nosign_inv : forall (ops : list hop) b ins outs b' rs,
      Forall (fun o => is_sign sigT o = false) ops -> hinv' b ins outs ->
      hrun b ops = (b', rs) ->
      hinv' b' (ins ++ hist_ins sigT ops) (outs ++ hist_outs sigT ops).
  Proof.
    induction ops as [|o ops IH]; intros b ins outs b' rs F I H.
    - cbn in H. injection H as <- <-. cbn. now rewrite !app_nil_r.
    - cbn [C27.hrun] in H. destruct (hstep b o) as [b1 r] eqn:E.
      destruct (hrun b1 ops) as [b2 rs'] eqn:R. injection H as <- <-.
      inversion F as [|? ? Fo Fr]; subst.
      pose proof (IH _ _ _ _ _ Fr (hstep_nosign_inv _ _ _ _ _ _ Fo I E) R) as J.
      now rewrite hist_ins_cons, hist_outs_cons, !app_assoc.
  Qed.
End HistoryNoSign.

(* Any history of Add*Input / AddOutput / ComputeSignatureHashes calls in any order and number,
   then one more computation and AddSignatures: if a transaction comes out, the hashes that were
   signed are those of the final transaction and the engine accepts every input. *)
Theorem history_signed_accepted :
  forall (hash160 sha256 : bytes -> bytes) (der_strict : bytes -> bool)
         (checksig : bytes -> bytes -> sighash -> bool)
         (sigT : Type) (der : sigT -> bytes) (ecdsa_verify : bytes -> sighash -> sigT -> bool),
    (forall x, length (hash160 x) = 20%nat) -> (forall x, length (sha256 x) = 32%nat) ->
    (forall pk h sg, ecdsa_verify pk h sg = true ->
                     sig_enc_ok der_strict (der sg) = true /\ checksig pk (der sg) h = true) ->
    forall (pre : list (hop sigT)) (wins : list winput) (sigs : list (sigT * bytes)) b rs hs tx,
      Forall (fun o => is_sign sigT o = false) pre ->
      hist_ins sigT pre = map (to_input hash160 sha256) wins ->
      Forall (fun w => wkind_wf (wi_kind w)) wins ->
      hrun sigT der ecdsa_verify new_builder (pre ++ [HCompute; HSign sigs]) = (b, rs) ->
      nth_error rs (length pre) = Some (RHashes hs) ->
      nth_error rs (S (length pre)) = Some (RTx tx) ->
      (forall i w sg pk, nth_error wins i = Some w -> nth_error sigs i = Some (sg, pk) ->
                         compressed_pk pk = true /\ hash160 pk = committed_pkh (wi_kind w)) ->
      tx_sighashes (hist_ins sigT pre) (hist_outs sigT pre) = Some hs /\
      st_skel tx = tx_of (hist_ins sigT pre) (hist_outs sigT pre) /\
      forall i w, nth_error wins i = Some w ->
        exists si, nth_error (st_ins tx) i = Some si /\
          verify_input hash160 sha256 der_strict checksig (st_skel tx) i
                       (si_script si) (si_witness si)
                       (in_script (to_input hash160 sha256 w)) (u_value (wi_utxo w)) = Accept.
Proof.
  intros hash160 sha256 der_strict checksig sigT der ecdsa_verify Hh Hs Hlib
         pre wins sigs b rs hs tx NS Hins Wf H Nh Nt Hk.
  pose proof (history_sighashes_fresh _ _ _ _ _ _ _ H) as Fr. rewrite Nh in Fr.
  assert (Eh : tx_sighashes (hist_ins sigT pre) (hist_outs sigT pre) = Some hs).
  { destruct (tx_sighashes (hist_ins sigT pre) (hist_outs sigT pre)); inversion Fr; reflexivity. }
  clear Fr. rewrite hrun_app in H.
  destruct (hrun sigT der ecdsa_verify new_builder pre) as [b1 r1] eqn:R1.
  pose proof (hrun_length _ _ _ _ _ _ _ R1) as Len1.
  assert (I : hinv' b1 (hist_ins sigT pre) (hist_outs sigT pre)).
  { apply (hrun_nosign_inv _ _ _ _ _ [] [] _ _ NS) in R1; [exact R1|]. unfold hinv'. auto. }
  cbn [C27.hrun C27.hstep] in H.
  destruct (compute_hashes b1) as [b2|] eqn:C.
  2:{ destruct (add_signatures_h sigT der ecdsa_verify b1 sigs) as [b3 r]. injection H as <- <-.
      rewrite nth_error_app2, Len1, Nat.sub_diag in Nh by lia. discriminate. }
  destruct (add_signatures_h sigT der ecdsa_verify b2 sigs) as [b3 r] eqn:A. injection H as <- <-.
  rewrite nth_error_app2 in Nt by lia. rewrite Len1 in Nt.
  replace (S (length pre) - length pre)%nat with 1%nat in Nt by lia. cbn in Nt.
  injection Nt as ->. apply add_signatures_h_tx in A.
  destruct I as (I1&I2&I3).
  destruct (add_inputs_ok hash160 sha256 Hh Hs wins new_builder Wf) as [b0' B0].
  set (outs := hist_outs sigT pre) in *.
  set (b0 := fold_left (fun b o => add_output b (fst o) (snd o)) outs b0').
  assert (Bld : build (map (to_input hash160 sha256) wins) outs = Some b0).
  { unfold build. rewrite B0. reflexivity. }
  destruct (build_shape _ _ _ Bld) as (S1&S2&S3&S4). rewrite <- Hins in S1, S2.
  assert (Sk : skeleton b0 = skeleton b1).
  { unfold skeleton. now rewrite S1, S3, I1, I3. }
  assert (C0 : compute_hashes b0 = Some b2).
  { unfold compute_hashes in C |- *. rewrite Sk, S2, <- I2.
    destruct (hashes_from (skeleton b1) 0 (b_args b1)) as [hs'|]; [|discriminate].
    injection C as <-. f_equal. apply builder_eta; cbn; congruence. }
  split; [exact Eh|]. split.
  - apply add_signatures_some in A as (_&_&l&_&->). cbn.
    apply compute_hashes_fields in C as (E1&E2&E3&_).
    apply hinv_skeleton. apply hinv'_hinv. unfold hinv'. rewrite E1, E2, E3. auto.
  - exact (all_inputs_accepted hash160 sha256 der_strict checksig sigT der ecdsa_verify Hh Hs Hlib
             wins outs sigs b0 b2 tx Wf Bld C0 A Hk).
Qed.

(* ---- an output added after the last computation (code as written) ---- *)
Module StaleWitness.
  (* signatures that are valid exactly for digests of a transaction with ONE output *)
  Definition one_out (h : sighash) : bool := (length (tx_outs (sh_tx h)) =? 1)%nat.
  Definition ev (_ : bytes) (h : sighash) (_ : unit) : bool := one_out h.
  Definition cs (_ _ : bytes) (h : sighash) : bool := one_out h.
  Definition w : winput := {| wi_utxo := Witness.u 2; wi_kind := WPkh true (repeat 7 20) |}.
  Definition hist : list (hop unit) :=
    [HAddIn (to_input Witness.h160 Witness.s256 w); HAddOut 9000 (ser (p2wpkh (repeat 7 20)));
     HCompute; HAddOut 1000 (ser (p2wpkh (repeat 7 20))); HSign [(tt, Witness.pk)]].
End StaleWitness.

(* AddSignatures verifies the STORED hashes: with an output appended after the last computation
   it still produces a transaction, and the engine rejects its input *)
Theorem output_after_computation_refuted :
  (forall pk h sg, StaleWitness.ev pk h sg = true ->
                   sig_enc_ok Witness.yes1 (Witness.der sg) = true /\
                   StaleWitness.cs pk (Witness.der sg) h = true) /\
  exists b rs tx si,
    hrun unit Witness.der StaleWitness.ev new_builder StaleWitness.hist = (b, rs) /\
    nth_error rs 4 = Some (RTx tx) /\ nth_error (st_ins tx) 0 = Some si /\
    length (tx_outs (st_skel tx)) = 2%nat /\
    verify_input Witness.h160 Witness.s256 Witness.yes1 StaleWitness.cs (st_skel tx) 0
                 (si_script si) (si_witness si)
                 (in_script (to_input Witness.h160 Witness.s256 StaleWitness.w))
                 (u_value (wi_utxo StaleWitness.w)) = Reject.
Proof.
  split; [intros pk h sg H; split; [reflexivity|exact H]|].
  eexists. eexists. eexists. eexists.
  split; [vm_compute; reflexivity|]. split; [reflexivity|]. split; [reflexivity|].
  split; vm_compute; reflexivity.
Qed.

(* ---- the executable form for histories ---- *)
Theorem hist_spec_ok_sound : forall c : hist_case,
    Hist.spec_ok c = true ->
    (hc_expect_valid c = true ->
     Hist.last_is_tx (hc_obs c) = true /\ hc_final c <> [] /\
     forall fi, In fi (hc_final c) -> fi_engine fi = Some true) /\
    (hc_must_reject c = true -> Hist.last_is_tx (hc_obs c) = false) /\
    (In BPanic (hc_obs c) -> Hist.input_after_compute (hc_ops c) (hc_obs c) false = true).
Proof.
  intros c H. unfold Hist.spec_ok in H.
  apply andb_prop in H as [H H3]. apply andb_prop in H as [H1 H2]. split; [|split].
  - intro E. rewrite E in H1. apply andb_prop in H1 as [H1 Q]. apply andb_prop in H1 as [P N].
    split; [exact P|]. split; [destruct (hc_final c); [discriminate|discriminate]|].
    intros fi Hfi. pose proof (forallb_In _ _ Q fi Hfi) as R. cbn beta in R.
    destruct (fi_engine fi) as [[|]|]; [reflexivity|discriminate|discriminate].
  - intro M. rewrite M in H2. destruct (Hist.last_is_tx (hc_obs c)); [discriminate|reflexivity].
  - intro P.
    assert (X : existsb (fun o => match o with BPanic => true | _ => false end) (hc_obs c) = true).
    { apply existsb_exists. exists BPanic. auto. }
    rewrite X in H3. exact H3.
Qed.

Theorem judge_any_agree_sound : forall c : any_case,
    judge_any c = Agree ->
    match c with
    | CTx c => Concrete.spec_ok c = true /\ Concrete.agree c = true
    | CHist c => Hist.spec_ok c = true /\ Hist.agree c = true
    end.
Proof.
  intros [c|c] H; [exact (judge_agree_sound c H)|].
  unfold judge_any, Hist.judge, decide in H.
  destruct (Hist.unsupported c); [discriminate|].
  destruct (Hist.spec_ok c); [|discriminate]. destruct (Hist.agree c); [auto|discriminate].
Qed.
