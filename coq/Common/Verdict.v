(* Verdicts returned by every [judge] function of the correspondence check. *)
Inductive verdict := Agree | Mismatch | SpecFail | BadCase.
(* Agree    : model output = implementation output and spec_ok holds of the implementation output
   Mismatch : model and implementation differ, but spec_ok holds of the implementation output
   SpecFail : the executable form of the property is false on the implementation's output
   BadCase  : the case is outside the model's domain (harness bug / fuel) *)
Definition decide (spec_ok agree : bool) : verdict :=
  if spec_ok then (if agree then Agree else Mismatch) else SpecFail.
