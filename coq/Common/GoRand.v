(* Executable model of Go's math/rand (v1) seeded source + Rand.Shuffle, as in
   $GOROOT/src/math/rand/{rng.go,rand.go}.  The rngCooked table is regenerated from the
   toolchain by tools/gen_rngcooked.py.  All 64-bit values are kept unsigned (mod 2^64). *)
From Coq Require Import ZArith List Lia FMapPositive.
From KV Require Import Gen.RngCooked.
Import ListNotations.
Open Scope Z_scope.

Definition int32max : Z := 2147483647.
Definition two64 : Z := 18446744073709551616.
Definition two63 : Z := 9223372036854775808.
Definition two32 : Z := 4294967296.
Definition mask64 : Z := 18446744073709551615.
Definition mask63 : Z := 9223372036854775807.
Definition mask32 : Z := 4294967295.
Definition rngLen : Z := 607.
Definition rngTap : Z := 273.

Definition seedrand (x : Z) : Z :=
  let '(hi, lo) := Z.quotrem x 44488 in
  let x' := 48271 * lo - 3399 * hi in
  if x' <? 0 then x' + int32max else x'.

Module PM := PositiveMap.
Record rng := { tap : Z; feed : Z; vec : PM.t Z }.

Definition vget (v : PM.t Z) (i : Z) : Z :=
  match PM.find (Z.to_pos (i + 1)) v with Some x => x | None => 0 end.
Definition vset (v : PM.t Z) (i : Z) (x : Z) : PM.t Z := PM.add (Z.to_pos (i + 1)) x v.

(* the seeding loop: i runs over the cooked table *)
Fixpoint seed_fill (cooked : list Z) (i : Z) (x : Z) (v : PM.t Z) : PM.t Z :=
  match cooked with
  | [] => v
  | c :: rest =>
      let x1 := seedrand x in
      let x2 := seedrand x1 in
      let x3 := seedrand x2 in
      let u := Z.lxor (Z.lxor (Z.lxor (Z.land (Z.shiftl x1 40) mask64) (Z.shiftl x2 20)) x3) c in
      seed_fill rest (i + 1) x3 (vset v i u)
  end.

Fixpoint iter_seedrand (n : nat) (x : Z) : Z :=
  match n with O => x | S k => iter_seedrand k (seedrand x) end.

(* int64 seed, given as a mathematical integer in [-2^63, 2^63) *)
Definition rng_seed (seed : Z) : rng :=
  let s := Z.rem seed int32max in
  let s := if s <? 0 then s + int32max else s in
  let s := if s =? 0 then 89482311 else s in
  let x := iter_seedrand 20 s in
  {| tap := 0; feed := rngLen - rngTap; vec := seed_fill rngCooked 0 x (PM.empty Z) |}.

Definition rng_uint64 (r : rng) : Z * rng :=
  let t := tap r - 1 in let t := if t <? 0 then t + rngLen else t in
  let f := feed r - 1 in let f := if f <? 0 then f + rngLen else f in
  let x := Z.land (vget (vec r) f + vget (vec r) t) mask64 in
  (x, {| tap := t; feed := f; vec := vset (vec r) f x |}).

Definition rng_int63 (r : rng) : Z * rng :=
  let '(x, r') := rng_uint64 r in (Z.land x mask63, r').

Definition rng_uint32 (r : rng) : Z * rng :=
  let '(x, r') := rng_int63 r in (Z.shiftr x 31, r').

(* the rejection loop of int31n, on fuel; falls back to [v mod n] if fuel runs out
   (probability < 2^-fuel per draw); [ok] records that it did not. *)
Fixpoint int31n_loop (fuel : nat) (n thresh : Z) (r : rng) : Z * rng * bool :=
  let '(v, r') := rng_uint32 r in
  let prod := v * n in
  let low := Z.land prod mask32 in
  if low <? thresh then
    match fuel with
    | O => (v mod n, r', false)
    | S k => int31n_loop k n thresh r'
    end
  else (Z.shiftr prod 32, r', true).

Definition int31n (n : Z) (r : rng) : Z * rng * bool :=
  let '(v, r') := rng_uint32 r in
  let prod := v * n in
  let low := Z.land prod mask32 in
  if low <? n then
    let thresh := (two32 - n) mod n in
    if low <? thresh then int31n_loop 64 n thresh r'
    else (Z.shiftr prod 32, r', true)
  else (Z.shiftr prod 32, r', true).

(* ---- lists: swap two positions ---- *)
Section Swap.
Context {A : Type}.
Fixpoint set_nth (l : list A) (i : nat) (x : A) : list A :=
  match l, i with
  | [], _ => []
  | _ :: t, O => x :: t
  | h :: t, S k => h :: set_nth t k x
  end.
Definition swap (l : list A) (i j : nat) : list A :=
  match nth_error l i, nth_error l j with
  | Some a, Some b => set_nth (set_nth l i b) j a
  | _, _ => l
  end.

(* Fisher-Yates exactly as Rand.Shuffle for n < 2^31: i from n-1 down to 1, j := int31n(i+1) *)
Fixpoint shuffle_loop (i : nat) (l : list A) (r : rng) (ok : bool) : list A * rng * bool :=
  match i with
  | O => (l, r, ok)
  | S k =>
      let '(j, r', ok') := int31n (Z.of_nat i + 1) r in
      shuffle_loop k (swap l i (Z.to_nat j)) r' (ok && ok')
  end.
Definition shuffle_with (r : rng) (l : list A) : list A * rng * bool :=
  shuffle_loop (length l - 1) l r true.
End Swap.

(* rand.New(rand.NewSource(seed)).Shuffle(len(l), swap) on a fresh generator *)
Definition go_shuffle {A} (seed : Z) (l : list A) : list A :=
  fst (fst (shuffle_with (rng_seed seed) l)).
Definition go_shuffle_ok {A} (seed : Z) (l : list A) : bool :=
  snd (shuffle_with (rng_seed seed) l).
