(* C10 — Attempt member selection: every member derives the same exact participants.
   ONLY property statements; proofs are in Proofs/C10.v (on top of Proofs/C09.v, Proofs/GoRand.v).

   [signing_select] / [dkg_select] model signingRetryLoop.performMembersSelection and
   dkgRetryLoop.performMembersSelection (Model/C10.v).  They take the group's seat list, the
   threshold / quorum, the attempt seed, the attempt number and the ready list — and NO member
   index: every member of the wallet evaluates the same function.  [shuffle] is any permutation
   source (the concrete one is the model of Go's math/rand), [iter] any Go map iteration order. *)
From Coq Require Import ZArith NArith List Permutation.
From KV Require Import Common.GoRand Model.C09 Model.C10 Proofs.GoRand Proofs.C09 Proofs.C10.
Import ListNotations.
Open Scope Z_scope.

(* ---- all members compute the same lists: the result is a function of the ready SET; neither
   the order in which the ready members are reported nor the member's own map iteration order
   matters (duplicates in the list are allowed here) ---- *)
Theorem order_invariant :
  forall (rngT : Type) (mkrng : Z -> rngT) (shuffle : forall A : Type, rngT -> list A -> list A)
         (iter iter' : list N -> list N),
    (forall l, Permutation (iter l) l) ->
    (forall l, Permutation (iter' l) l) ->
    forall ops count seed att ready ready',
      Permutation ready ready' ->
      signing_select rngT mkrng shuffle iter ops count seed att ready =
      signing_select rngT mkrng shuffle iter' ops count seed att ready' /\
      dkg_select rngT mkrng shuffle iter ops count seed att ready =
      dkg_select rngT mkrng shuffle iter' ops count seed att ready'.
Proof. exact Proofs.C10.order_invariant. Qed.
Print Assumptions order_invariant.

(* ---- signing: on a duplicate-free ready list the selection never panics unless a ready index
   is outside the group, fails only when fewer than the threshold are ready, and otherwise the
   members left included (group members not in the excluded list) are EXACTLY thr many, all of
   them ready members sitting on operators qualified by the retry algorithm ---- *)
Theorem signing_exactly_threshold :
  forall (rngT : Type) (mkrng : Z -> rngT) (shuffle : forall A : Type, rngT -> list A -> list A)
         (iter : list N -> list N),
    (forall A g l, Permutation (shuffle A g l) l) ->
    (forall l, Permutation (iter l) l) ->
    forall ops thr seed att ready,
      NoDup ready ->
      match signing_select rngT mkrng shuffle iter ops thr seed att ready with
      | SOk ex =>
          len (included_of ops ex) = Z.of_N thr /\
          exists l, signing_qualified rngT mkrng shuffle iter ops thr seed att ready = Ok l /\
                    forall i, In i (included_of ops ex) ->
                              In i ready /\ exists o, op_of ops i = Some o /\ In o l
      | SErrTooMany => len ready < Z.of_N thr
      | SErrRetry => False
      | SPanic => exists i, In i ready /\ op_of ops i = None
      end.
Proof. exact Proofs.C10.signing_select_sound. Qed.
Print Assumptions signing_exactly_threshold.

(* included ⊆ ready, for both loops *)
Theorem included_subset_ready :
  forall (rngT : Type) (mkrng : Z -> rngT) (shuffle : forall A : Type, rngT -> list A -> list A)
         (iter : list N -> list N),
    (forall A g l, Permutation (shuffle A g l) l) ->
    (forall l, Permutation (iter l) l) ->
    forall ops count seed att ready ex,
      (NoDup ready -> signing_select rngT mkrng shuffle iter ops count seed att ready = SOk ex ->
       forall i, In i (included_of ops ex) -> In i ready) /\
      (dkg_select rngT mkrng shuffle iter ops count seed att ready = SOk ex ->
       forall i, In i (included_of ops ex) -> In i ready).
Proof. exact Proofs.C10.included_subset_ready. Qed.
Print Assumptions included_subset_ready.

(* ---- key generation: the included members are exactly the ready members of the qualified
   operators (first attempt: the ready members' operators; later: what the C09 retry selection
   returned, which is a subset of them) ---- *)
Theorem dkg_only_ready_of_qualified :
  forall (rngT : Type) (mkrng : Z -> rngT) (shuffle : forall A : Type, rngT -> list A -> list A)
         (iter : list N -> list N),
    (forall A g l, Permutation (shuffle A g l) l) ->
    (forall l, Permutation (iter l) l) ->
    forall ops quorum seed att ready ex,
      dkg_select rngT mkrng shuffle iter ops quorum seed att ready = SOk ex ->
      exists l, dkg_qualified rngT mkrng shuffle iter ops quorum seed att ready = Ok l /\
        (forall o, In o l -> exists i, In i ready /\ op_of ops i = Some o) /\
        (forall i, In i (members ops) ->
                   (~ In i ex <-> In i ready /\ exists o, op_of ops i = Some o /\ In o l)).
Proof. exact Proofs.C10.dkg_only_ready_of_qualified. Qed.
Print Assumptions dkg_only_ready_of_qualified.

(* ... and at least the quorum of them whenever the selection succeeds on a ready set of at
   least the quorum (the loop only selects after checking len(ready) >= GroupQuorum) *)
Theorem dkg_at_least_quorum_when_ok :
  forall (rngT : Type) (mkrng : Z -> rngT) (shuffle : forall A : Type, rngT -> list A -> list A)
         (iter : list N -> list N),
    (forall A g l, Permutation (shuffle A g l) l) ->
    (forall l, Permutation (iter l) l) ->
    forall ops quorum seed att ready ex,
      NoDup ready -> Z.of_N quorum <= len ready ->
      dkg_select rngT mkrng shuffle iter ops quorum seed att ready = SOk ex ->
      Z.of_N quorum <= len (included_of ops ex).
Proof. exact Proofs.C10.dkg_at_least_quorum_when_ok. Qed.
Print Assumptions dkg_at_least_quorum_when_ok.

(* the key-generation selection fails only on later attempts: too few ready members or the
   retries (singles, pairs, triplets) used up; it panics only on an index outside the group *)
Theorem dkg_failures :
  forall (rngT : Type) (mkrng : Z -> rngT) (shuffle : forall A : Type, rngT -> list A -> list A)
         (iter : list N -> list N),
    (forall A g l, Permutation (shuffle A g l) l) ->
    (forall l, Permutation (iter l) l) ->
    forall ops quorum seed att ready,
      match dkg_select rngT mkrng shuffle iter ops quorum seed att ready with
      | SOk _ => True
      | SErrTooMany => att <> 1%N /\ len ready < Z.of_N quorum
      | SErrRetry => att <> 1%N
      | SPanic => exists i, In i ready /\ op_of ops i = None
      end.
Proof. exact Proofs.C10.dkg_failures. Qed.
Print Assumptions dkg_failures.

(* ---- the executable form used by the correspondence check is sound ... ---- *)
Theorem spec_out_sound :
  forall ops count att ready qual ex,
    (spec_sign_out ops count ready qual (SOk ex) = true ->
     len (included_of ops ex) = Z.of_N count /\
     forall i, In i (included_of ops ex) ->
               In i ready /\ exists o, op_of ops i = Some o /\ In o qual) /\
    (spec_dkg_out ops count att ready qual (SOk ex) = true ->
     (forall i, In i (included_of ops ex) ->
                In i ready /\ exists o, op_of ops i = Some o /\ In o qual) /\
     (Z.of_N count <= len ready -> Z.of_N count <= len (included_of ops ex))).
Proof. exact Proofs.C10.spec_out_sound. Qed.
Print Assumptions spec_out_sound.

Theorem spec_ok_sound :
  forall c, spec_ok c = true -> ready_wf (c_ops c) (first_ready c) = true ->
    exists o, c_outs c = [o] /\ spec_out c o = true.
Proof. exact Proofs.C10.spec_ok_sound. Qed.
Print Assumptions spec_ok_sound.

(* ... and holds of every output of the concrete model (Go's math/rand shuffle) *)
Theorem model_outputs_pass_spec :
  forall k ops count seed att ready,
    let c0 := {| c_kind := k; c_ops := ops; c_count := count; c_seed := seed; c_att := att;
                 c_readys := [ready]; c_outs := []; c_qual := [] |} in
    let m := C10.Concrete.model c0 ready in
    spec_ok {| c_kind := k; c_ops := ops; c_count := count; c_seed := seed; c_att := att;
               c_readys := [ready]; c_outs := [fst m]; c_qual := snd m |} = true.
Proof. exact Proofs.C10.model_outputs_pass_spec. Qed.
Print Assumptions model_outputs_pass_spec.

(* ---- selection HISTORIES on one loop object per member ----
   [run_history l h]: the loop object [l] (seat list, threshold / quorum, attempt seed set by the
   constructor; attemptCounter) goes through the steps of [h]; each step carries the
   map-iteration order of that call, the attempt number the loop sets and the ready list. *)

(* history independence: whatever the object went through, the constructor's fields are what
   they were and the answers are the pure selection function of (ready list, attempt, seed)
   mapped over the steps *)
Theorem run_history_is_map :
  forall (rngT : Type) (mkrng : Z -> rngT) (shuffle : forall A : Type, rngT -> list A -> list A)
         (l : loop) (h : list hstep),
    same_wallet (fst (run_history rngT mkrng shuffle l h)) l /\
    snd (run_history rngT mkrng shuffle l h) = map (pure_sel rngT mkrng shuffle l) h.
Proof. exact Proofs.C10.run_history_is_map. Qed.
Print Assumptions run_history_is_map.

(* every member derives the same participants, whatever its own past: two loop objects of the
   same wallet (same seats, count, seed), each with ITS OWN history (one may have skipped early
   attempts, seen other ready sets, other attempt numbers), select the same lists wherever they
   select for the same attempt number on the same ready SET *)
Theorem members_agree_whatever_their_histories :
  forall (rngT : Type) (mkrng : Z -> rngT) (shuffle : forall A : Type, rngT -> list A -> list A)
         (l l' : loop) (h h' : list hstep) (i j : nat)
         (iter iter' : list N -> list N) (att : N) (ready ready' : list N),
    same_wallet l l' ->
    (forall x, Permutation (iter x) x) -> (forall x, Permutation (iter' x) x) ->
    nth_error h i = Some (iter, att, ready) ->
    nth_error h' j = Some (iter', att, ready') ->
    Permutation ready ready' ->
    exists o,
      nth_error (snd (run_history rngT mkrng shuffle l h)) i = Some o /\
      nth_error (snd (run_history rngT mkrng shuffle l' h')) j = Some o.
Proof. exact Proofs.C10.members_agree_whatever_their_histories. Qed.
Print Assumptions members_agree_whatever_their_histories.

(* the executable history property of the correspondence check is sound: at every step whose
   ready list is a set of group members, all members present returned ONE outcome and it
   satisfies the per-output property w.r.t. the ready set of THAT step (spec_out_sound above) *)
Theorem hspec_ok_sound :
  forall h, hspec_ok h = true ->
  forall j s, nth_error (h_steps h) j = Some s -> ready_wf (h_ops h) (hs_ready s) = true ->
    exists o, In o (outs_at (h_members h) j) /\
              (forall o', In o' (outs_at (h_members h) j) -> o' = o) /\
              spec_out (step_case h s) o = true.
Proof. exact Proofs.C10.hspec_ok_sound. Qed.
Print Assumptions hspec_ok_sound.

(* ... and holds of every history of the concrete model, for any members joining at any steps *)
Theorem model_histories_pass_spec :
  forall k ops count seed steps ms,
    existsb (fun m => Nat.eqb (snd m) 0) ms = true ->
    hspec_ok (C10.Concrete.model_hcase k ops count seed steps ms) = true.
Proof. exact Proofs.C10.model_histories_pass_spec. Qed.
Print Assumptions model_histories_pass_spec.
