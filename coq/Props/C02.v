(* C02 — Beacon DKG: honest key shares are consistent with the group public key.
   ONLY property statements; proofs are in Proofs/C02.v. *)
From Coq Require Import ZArith NArith List Bool.
From KV Require Import Common.Verdict Model.C02 Proofs.C02.
Import ListNotations.
Open Scope N_scope.

Theorem out_of_scope_ok : forall cs, in_scope cs = false -> spec_ok cs = true.
Proof. exact Proofs.C02.out_of_scope_ok. Qed.
Print Assumptions out_of_scope_ok.
