(* C02 — Beacon DKG: honest key shares are consistent with the group public key.
   ONLY property statements; proofs are in Proofs/C02.v (+ C02_arith.v, C02_lagrange.v).

   Notation of the statements (all from Proofs/C02.v, over the model Model/C01.v):
     poly k            the polynomial dealer k shared (a list of coefficients, lowest first)
     qual              QUAL, the list of qualified dealers
     D poly k i        = horner (poly k) i                 the share k dealt to i
     total poly qual i = sum over k in qual of D poly k i  (F(i), F the sum of the polynomials)
     secret poly qual  = sum over k in qual of poly k's constant term (F(0))
     recv_ok s         member s's view before phase 6 is consistent with the dealing
                       (its qualified shares are those of QUAL and equal D k (me s) mod q)
     pub_ok s i        member s's view before phase 12 is consistent for receiver i (for every k
                       in its QUAL it holds points that evaluate to D k i at i, or a revealed
                       share D k i)
     key_ok s          the accepted points' constant terms / reconstructed keys are f_k(0)
     commits_of s m    the commitments member s holds for member m ([] when none)
     revealed_consistent c s
                       every share in s's table of revealed shares lies on the polynomial its
                       dealer committed to: v = sum_k a_k * i^k (mod q) for the revealer's index i
   G2 points are discrete logarithms modulo q, so "share * G2 = public key share" reads
   "share = public key share (mod q)". *)
From Coq Require Import ZArith Znumtheory NArith List Bool Permutation.
From KV Require Import Common.Verdict Model.C02 Proofs.C02_arith Proofs.C02_lagrange Proofs.C02.
Import ListNotations.
Open Scope N_scope.

(* CombineMemberShares of member i and ComputeGroupPublicKeyShares of member j: whenever both
   views are consistent with one dealing (any n, t, polynomials, QUAL, iteration orders), j
   finishes phase 12 without a new failure and the public key share it stores for i is the image
   of i's private key share. *)
Theorem share_times_G_eq_pubshare : forall c poly qual si sj,
  recv_ok c poly qual si ->
  points sj <> [] ->
  (forall m, In m (operating c sj) -> m <> me sj -> pub_ok c poly qual sj m) ->
  In (me si) (operating c sj) -> me si <> me sj ->
  failed (phase12 c sj) = failed sj /\
  exists v, lookup (me si) (pubsh (phase12 c sj)) = Some v /\
            (v mod q c = share (phase6 c si) mod q c)%Z.
Proof. exact Proofs.C02.share_times_G_eq_pubshare. Qed.
Print Assumptions share_times_G_eq_pubshare.

(* Lagrange interpolation at 0 as computed by calculateLagrangeCoefficient /
   reconstructIndividualPrivateKeys: any t+1 points (distinct indices in [1,q)) whose values are
   the sums F(i) of the QUAL polynomials (each of at most t+1 coefficients) give F(0), the sum of
   the constant terms.  q prime. *)
Theorem t_plus_1_shares_interpolate :
  forall (Q : Z) (t : nat) (poly : N -> list Z) (qual : list N) (pts : list (N * Z)),
  prime Q ->
  (forall k, In k qual -> (length (poly k) <= S t)%nat) ->
  NoDup (map fst pts) -> length pts = S t ->
  (forall p, In p pts -> (0 < Z.of_N (fst p) < Q)%Z) ->
  (forall p, In p pts -> (snd p mod Q = total poly qual (fst p) mod Q)%Z) ->
  interpolate0 Q pts = (secret poly qual mod Q)%Z.
Proof. exact Proofs.C02.t_plus_1_interpolate. Qed.
Print Assumptions t_plus_1_shares_interpolate.

(* the same for the reconstruction of one misbehaved member's individual key from the revealed
   shares (phase 11): at least as many correct shares as the polynomial has coefficients *)
Theorem reconstructed_key_correct : forall (Q : Z) (f : list Z) (sh : list (N * Z)),
  prime Q ->
  NoDup (map fst sh) -> (forall p, In p sh -> (0 < Z.of_N (fst p) < Q)%Z) ->
  (length f <= length sh)%nat ->
  (forall p, In p sh -> (snd p mod Q = horner f (Z.of_N (fst p)) mod Q)%Z) ->
  interpolate0 Q sh = (nth 0 f 0 mod Q)%Z.
Proof. exact Proofs.C02.reconstructed_key_correct. Qed.
Print Assumptions reconstructed_key_correct.

(* big.Int.ModInverse as modelled (extended Euclid on fuel) is the inverse modulo a prime *)
Theorem inv_mod_correct : forall q a : Z, prime q -> (a mod q <> 0)%Z ->
  ((a * inv_mod q a) mod q = 1 /\ 0 <= inv_mod q a < q)%Z.
Proof. exact Proofs.C02_arith.inv_mod_correct. Qed.
Print Assumptions inv_mod_correct.

(* CombineGroupPublicKey: the group key is the image of the secret F(0) *)
Theorem group_key_is_image_of_secret : forall c poly qual s,
  key_ok c poly qual s -> (gkey (phase12 c s) mod q c = secret poly qual mod q c)%Z.
Proof. exact Proofs.C02.phase12_key. Qed.
Print Assumptions group_key_is_image_of_secret.

(* both halves together on the model: the phase-6 shares of any t+1 members with consistent
   views interpolate to the discrete log of the group key of any member with a consistent view *)
Theorem shares_interpolate_to_group_key : forall c poly qual (t : nat) (sts : list mstate) sj,
  prime (q c) ->
  (forall k, In k qual -> (length (poly k) <= S t)%nat) ->
  (forall s, In s sts -> recv_ok c poly qual s /\ (0 < Z.of_N (me s) < q c)%Z) ->
  NoDup (map me sts) -> length sts = S t ->
  key_ok c poly qual sj ->
  interpolate0 (q c) (map (fun s => (me s, share (phase6 c s))) sts) = (gkey (phase12 c sj) mod q c)%Z.
Proof. exact Proofs.C02.shares_interpolate_to_group_key. Qed.
Print Assumptions shares_interpolate_to_group_key.

(* soundness of the executable form evaluated on the implementation's outputs: when [spec_ok]
   answers true on a run in scope (at most t corrupt seats, agreement holds), every finished
   honest member's share is the certified discrete log of the public key share every other
   finished honest member holds for it, and every sub-list of t+1 finished honest members
   interpolates to the certified discrete log of everybody's group key *)
Theorem spec_ok_sound : forall cs, spec_ok cs = true -> in_scope cs = true ->
  consistent_shares (q (i_cfg (c_in cs))) (gt (i_cfg (c_in cs))) (finished (c_obs cs)).
Proof. exact Proofs.C02.spec_ok_sound. Qed.
Print Assumptions spec_ok_sound.

(* runs outside the premise of the property (more than t corrupt seats, or agreement itself
   fails - reported by C01) never raise an alarm here *)
Theorem out_of_scope_ok : forall cs, in_scope cs = false -> spec_ok cs = true.
Proof. exact Proofs.C02.out_of_scope_ok. Qed.
Print Assumptions out_of_scope_ok.

(* recoverMisbehavedShares (phase 11), one revealed ephemeral key, ANY revealer (honest, or a
   corrupt accomplice of the misbehaved member), any state: the table of revealed shares changes
   in one way only, by admitting the share decrypted with the revealed key AFTER it passed
   areSharesValidAgainstCommitments against the misbehaved member's commitments at the revealer's
   index; in every other branch (own key, operating member, key not matching, missing public key
   or shares message, undecryptable, inconsistent with the commitments) it is untouched. *)
Theorem revealed_share_admitted_only_if_consistent : forall c revealer s stop mis key,
  let r := recover11 c revealer (s, stop) (mis, key) in
  commits (fst r) = commits s /\
  (revealed (fst r) = revealed s \/
   exists sh mpk vs vt,
     lookup mis (log_sh s) = Some sh /\ find_pub s mis revealer = Some mpk /\
     decrypt sh revealer (ecdh key mpk) = Some (vs, vt) /\
     valid_g1 (q c) vs vt (commits_of s mis) revealer = true /\
     revealed (fst r) = add_share mis revealer vs (revealed s)).
Proof. exact Proofs.C02.recover11_admits_only_consistent. Qed.
Print Assumptions revealed_share_admitted_only_if_consistent.

(* hence, over the whole loop of recoverMisbehavedShares (any number of reveal messages, any keys
   in them, any order, any senders): every share in the table lies on the polynomial the
   misbehaved member committed to (revealed_consistent: v = sum_k a_k * i^k mod q for the
   commitments (a_k, b_k) held for that member) - the premise reconstructed_key_correct needs for
   the shares that come from other members' reveals. *)
Theorem revealed_shares_lie_on_committed_polynomial :
  forall c (msgs : list (N * list (N * ekey))) sb,
  revealed_consistent c (fst sb) ->
  revealed_consistent c (fst (fold_left (fun sb m => fold_left (recover11 c (fst m)) (snd m) sb) msgs sb)).
Proof. exact Proofs.C02.recover_all_keeps_consistent. Qed.
Print Assumptions revealed_shares_lie_on_committed_polynomial.

(* NOT PROVED (kept visible): that the hypotheses recv_ok / pub_ok / key_ok hold of the states
   reached by [run] for every adversary script with at most t corrupt seats in which agreement
   holds:
     forall i, covered i = true -> agreement (run i) -> exists poly qual,
       forall s, In s (run_states_before_phase12 i) -> failed s = false ->
         recv_ok .. s /\ key_ok .. s /\ forall m, operating m -> pub_ok .. s m.
   This is the referee invariant of C01 (Proofs/C01.v); Proofs/C02.v shows it on concrete runs
   (ex_views_consistent) and every generated run is checked against the real code. *)
