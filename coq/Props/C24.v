(* C24 — Coordination followers accept only the leader's valid proposal.
   ONLY property statements; proofs are in Proofs/C24.v.  The model (Model/C24.v) is
   coordinationExecutor.executeFollowerRoutine with wallet.membersByOperator and
   MembershipValidator.IsValidMembership, run over a HISTORY: the sequence of outcomes of the
   routine's select -- received messages (any payload type, claimed member index, network key
   owner [m_op], window, wallet, action, in any order) and [Timeout] = ctx.Done, the end of the
   active phase.  [follower c h] is [Accepted pid faults] (return proposal, faults, nil),
   [TimedOut faults] (return nil, faults, error), [Blocked] (no Timeout in the history yet) or
   [FPanic] (membersByOperator(leader)[0] on an empty list).  Every theorem quantifies over all
   configurations and all histories. *)
From Coq Require Import ZArith NArith List Bool Permutation.
From KV Require Import Common.Verdict Gen.Consts_C24 Model.C24 Proofs.C24.
Import ListNotations.
Open Scope Z_scope.

(* [lid] is the lowest member index (seat number, 1-based) held by the leader operator *)
Definition lowest_member_index (c : cfg) (lid : N) : Prop :=
  (1 <= lid)%N /\
  nth_error (f_seats c) (N.to_nat lid - 1) = Some (f_leader c) /\
  forall j : nat, (j < N.to_nat lid - 1)%nat -> nth_error (f_seats c) j <> Some (f_leader c).

(* the leader's valid proposal: a coordination message under member index [lid], whose network
   key really holds that seat, for this window and wallet, proposing an allowed action (and not
   an echo of the follower's own member indexes) *)
Definition leaders_valid_proposal (c : cfg) (lid : N) (m : msg) : Prop :=
  m_coord m = true /\ m_sender m = lid /\
  valid_membership (f_seats c) (m_sender m) (m_op m) = true /\
  m_block m = f_block c /\ m_wallet m = f_wallet c /\ In (m_action m) (f_allowed c) /\
  ~ In (m_sender m) (f_self c).

(* boolean form used by the model and in the hypotheses below *)
Definition accepts (c : cfg) (lid : N) (m : msg) : bool :=
  acceptable c lid m && negb (from_self c m).

Theorem accepts_iff :
  forall c lid m, accepts c lid m = true <-> leaders_valid_proposal c lid m.
Proof. exact Proofs.C24.accepts_iff. Qed.
Print Assumptions accepts_iff.

(* ---- the leader's identifier ---- *)

(* the identifier the routine compares senders with is the LOWEST member index of the leader
   (groups have at most 255 seats: member indexes are uint8) *)
Theorem leader_id_is_lowest_member_index :
  forall c lid, (length (f_seats c) <= 255)%nat ->
    leader_id c = Some lid -> lowest_member_index c lid /\ (lid <= 255)%N.
Proof. exact Proofs.C24.leader_id_lowest_seat. Qed.
Print Assumptions leader_id_is_lowest_member_index.

(* the routine panics exactly when the leader backs no seat of the wallet (the caller's
   precondition); otherwise it never panics *)
Theorem panics_iff_leader_backs_no_seat :
  forall c h, follower c h = FPanic <-> ~ In (f_leader c) (f_seats c).
Proof. exact Proofs.C24.panics_iff_leader_backs_no_seat. Qed.
Print Assumptions panics_iff_leader_backs_no_seat.

(* ---- a returned proposal is the leader's valid proposal ---- *)

(* If a proposal is returned, the history splits as  pre ++ [m] ++ post  with NO Timeout before
   [m] (it was received in the active phase), [m] carries the returned proposal, its sender index
   is the lowest member index of the leader, the membership is valid -- hence the network key is
   the leader's --, window and wallet are the follower's, the action is allowed; no earlier
   message qualified; and the returned faults are exactly the faults owed by the messages of
   [pre], in order (a function of the history prefix alone). *)
Theorem returned_proposal_is_leaders_valid_proposal :
  forall c h pid fs, (length (f_seats c) <= 255)%nat ->
    follower c h = Accepted pid fs ->
    exists lid pre m post,
      h = map Msg pre ++ Msg m :: post /\ m_pid m = pid /\
      lowest_member_index c lid /\ m_sender m = lid /\
      valid_membership (f_seats c) (m_sender m) (m_op m) = true /\ m_op m = f_leader c /\
      m_coord m = true /\ m_block m = f_block c /\ m_wallet m = f_wallet c /\
      In (m_action m) (f_allowed c) /\ ~ In (m_sender m) (f_self c) /\
      (forall x, In x pre -> accepts c lid x = false) /\
      fs = flat_map (fault_of c lid) pre.
Proof. exact Proofs.C24.returned_proposal_is_leaders_valid_proposal. Qed.
Print Assumptions returned_proposal_is_leaders_valid_proposal.

(* conversely the FIRST valid proposal of the leader received in the active phase is returned,
   with the faults of the messages before it *)
Theorem first_valid_proposal_is_accepted :
  forall c lid pre m post,
    leader_id c = Some lid ->
    (forall x, In x pre -> accepts c lid x = false) -> accepts c lid m = true ->
    follower c (map Msg pre ++ Msg m :: post) = Accepted (m_pid m) (flat_map (fault_of c lid) pre).
Proof. exact Proofs.C24.first_valid_proposal_is_accepted. Qed.
Print Assumptions first_valid_proposal_is_accepted.

(* ---- impersonation ---- *)

(* every recorded LeaderImpersonation fault blames the ACTUAL sender: the operator owning the
   network key of a message of the active phase that holds the seat it claims, for this window
   and wallet, under a member index different from the leader's *)
Theorem impersonation_fault_names_actual_sender :
  forall c h f,
    In f (faults_of_result (follower c h)) -> ftype f = FaultLeaderImpersonation ->
    exists lid m,
      leader_id c = Some lid /\ In m (active h) /\
      culprit f = m_op m /\
      valid_membership (f_seats c) (m_sender m) (m_op m) = true /\
      nth_error (f_seats c) (N.to_nat (N.modulo (m_sender m + 255) 256)) = Some (m_op m) /\
      m_sender m <> lid /\
      m_coord m = true /\ m_block m = f_block c /\ m_wallet m = f_wallet c.
Proof. exact Proofs.C24.impersonation_fault_names_actual_sender. Qed.
Print Assumptions impersonation_fault_names_actual_sender.

(* and every impersonating message processed before the routine returned is recorded, under its
   own operator *)
Theorem impersonators_are_recorded :
  forall c lid pre rest m,
    leader_id c = Some lid ->
    (forall x, In x pre -> accepts c lid x = false) ->
    In m pre -> impersonates c lid m = true ->
    In {| culprit := m_op m; ftype := FaultLeaderImpersonation |}
       (faults_of_result (follower c (map Msg pre ++ rest))).
Proof. exact Proofs.C24.impersonators_are_recorded. Qed.
Print Assumptions impersonators_are_recorded.

(* ---- the leader's mistakes ---- *)

(* a recorded LeaderMistake blames the leader and stems from an authentic message of the leader
   (his lowest index, his key) of the active phase, for this window and wallet, that proposes an
   action outside the checklist *)
Theorem mistake_fault_names_leader :
  forall c h f, (length (f_seats c) <= 255)%nat ->
    In f (faults_of_result (follower c h)) -> ftype f = FaultLeaderMistake ->
    culprit f = f_leader c /\
    exists lid m,
      leader_id c = Some lid /\ In m (active h) /\
      m_sender m = lid /\ valid_membership (f_seats c) (m_sender m) (m_op m) = true /\
      m_op m = f_leader c /\
      m_coord m = true /\ m_block m = f_block c /\ m_wallet m = f_wallet c /\
      ~ In (m_action m) (f_allowed c).
Proof. exact Proofs.C24.mistake_fault_names_leader. Qed.
Print Assumptions mistake_fault_names_leader.

Theorem leader_mistakes_are_recorded :
  forall c lid pre rest m,
    leader_id c = Some lid ->
    (forall x, In x pre -> accepts c lid x = false) ->
    In m pre -> mistaken c lid m = true ->
    In {| culprit := f_leader c; ftype := FaultLeaderMistake |}
       (faults_of_result (follower c (map Msg pre ++ rest))).
Proof. exact Proofs.C24.leader_mistakes_are_recorded. Qed.
Print Assumptions leader_mistakes_are_recorded.

(* ---- silence ---- *)

(* no valid proposal of the leader before the active phase ends: nil proposal + error, and the
   fault list is the faults of the processed messages followed by ONE LeaderIdleness fault of
   the leader *)
Theorem silent_leader_recorded_idle :
  forall c lid pre post,
    leader_id c = Some lid ->
    (forall x, In x pre -> accepts c lid x = false) ->
    follower c (map Msg pre ++ Timeout :: post) =
      TimedOut (flat_map (fault_of c lid) pre ++ [{| culprit := f_leader c; ftype := FaultLeaderIdleness |}]).
Proof. exact Proofs.C24.silent_leader_recorded_idle. Qed.
Print Assumptions silent_leader_recorded_idle.

(* and only then: the routine gives up only if nothing valid arrived during the active phase *)
Theorem gives_up_only_if_nothing_valid :
  forall c h fs,
    follower c h = TimedOut fs ->
    exists lid pre post,
      leader_id c = Some lid /\ h = map Msg pre ++ Timeout :: post /\
      (forall x, In x pre -> accepts c lid x = false) /\
      fs = flat_map (fault_of c lid) pre ++ [{| culprit := f_leader c; ftype := FaultLeaderIdleness |}].
Proof. exact Proofs.C24.timed_out_iff_nothing_valid. Qed.
Print Assumptions gives_up_only_if_nothing_valid.

(* a LeaderIdleness fault names the leader and appears only together with the error *)
Theorem idleness_fault_only_on_timeout :
  forall c h f,
    In f (faults_of_result (follower c h)) -> ftype f = FaultLeaderIdleness ->
    culprit f = f_leader c /\ exists fs, follower c h = TimedOut fs.
Proof. exact Proofs.C24.idleness_fault_only_on_timeout. Qed.
Print Assumptions idleness_fault_only_on_timeout.

(* ---- termination and finality ---- *)

(* once the routine returned (proposal or error) whatever arrives later is not consumed: the
   result, including the fault list, does not change *)
Theorem result_final :
  forall c h ext,
    match follower c h with
    | Blocked _ => True
    | r => follower c (h ++ ext) = r
    end.
Proof. exact Proofs.C24.result_final. Qed.
Print Assumptions result_final.

(* with a leader backing a seat, the routine has returned by the end of the active phase *)
Theorem returns_when_phase_ends :
  forall c h, In (f_leader c) (f_seats c) -> has_timeout h = true ->
    (exists p fs, follower c h = Accepted p fs) \/ (exists fs, follower c h = TimedOut fs).
Proof. exact Proofs.C24.returns_when_phase_ends. Qed.
Print Assumptions returns_when_phase_ends.

(* ---- the executable form of the property (what the per-run check evaluates on the real
   routine's output) ---- *)

Definition spec_prop (c : cfg) (h : list event) (o : obs) : Prop :=
  forall lid, leader_id c = Some lid ->
    o_panic o = false /\
    (forall p, o_pid o = Some p ->
       exists pre m post,
         active h = pre ++ m :: post /\ m_pid m = p /\ acceptable c lid m = true /\
         o_err o = false /\
         culprits_of FaultLeaderIdleness (o_faults o) = [] /\
         Permutation (culprits_of FaultLeaderImpersonation (o_faults o))
                     (map m_op (filter (impersonates c lid) pre)) /\
         culprits_of FaultLeaderMistake (o_faults o) =
           map (fun _ => f_leader c) (filter (mistaken c lid) pre) /\
         (forall f, In f (o_faults o) -> known_fault f = true)) /\
    (o_pid o = None ->
       o_err o = true /\
       culprits_of FaultLeaderIdleness (o_faults o) = [f_leader c] /\
       (forall m, In m (active h) -> acceptable c lid m = true -> from_self c m = true) /\
       Permutation (culprits_of FaultLeaderImpersonation (o_faults o))
                   (map m_op (filter (impersonates c lid) (active h))) /\
       culprits_of FaultLeaderMistake (o_faults o) =
         map (fun _ => f_leader c) (filter (mistaken c lid) (active h)) /\
       (forall f, In f (o_faults o) -> known_fault f = true)).

Theorem spec_ok_sound : forall c h o, spec_ok c h o = true -> spec_prop c h o.
Proof. exact Proofs.C24.spec_ok_sound. Qed.
Print Assumptions spec_ok_sound.

(* every output of the model passes it (proposal identities identify messages: [pids_ok]) *)
Theorem model_outputs_pass_spec :
  forall c h o, pids_ok (active h) = true ->
    obs_of (follower c h) = Some o -> spec_ok c h o = true.
Proof. exact Proofs.C24.model_outputs_pass_spec. Qed.
Print Assumptions model_outputs_pass_spec.

(* ---- non-vacuity: seats 2,1,3,1 (leader = operator 1 holds members 2 and 4), follower =
   member 1.  An impersonator under his own seat, the leader under his SECOND seat (blamed as an
   impersonation under his own name), an outsider claiming the leader's index with a wrong key
   (ignored), a disallowed action of the leader, then his valid proposal; and a valid proposal
   arriving after the phase ended is not accepted. ---- *)
Theorem follower_example :
  let c := {| f_seats := [2; 1; 3; 1]%N; f_self := [1]%N; f_leader := 1%N; f_block := 900;
              f_wallet := 1%N; f_allowed := [3; 0] |} in
  let mk (s o : N) (a : Z) (p : N) :=
    Msg {| m_coord := true; m_sender := s; m_op := o; m_block := 900;
           m_wallet := 1%N; m_action := a; m_pid := p |} in
  follower c [mk 3%N 3%N 3 1%N; mk 4%N 1%N 3 2%N; mk 2%N 3%N 3 3%N; mk 2%N 1%N 1 4%N;
              mk 2%N 1%N 3 5%N; Timeout] =
    Accepted 5%N [ {| culprit := 3%N; ftype := FaultLeaderImpersonation |};
                   {| culprit := 1%N; ftype := FaultLeaderImpersonation |};
                   {| culprit := 1%N; ftype := FaultLeaderMistake |} ] /\
  follower c [mk 3%N 3%N 3 1%N; Timeout; mk 2%N 1%N 3 5%N] =
    TimedOut [ {| culprit := 3%N; ftype := FaultLeaderImpersonation |};
               {| culprit := 1%N; ftype := FaultLeaderIdleness |} ].
Proof. exact Proofs.C24.follower_example. Qed.
Print Assumptions follower_example.
