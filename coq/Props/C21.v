(* C21 — Firewall admits exactly allowlisted or recognized operators.
   ONLY property statements; proofs are in Proofs/C21.v.

   Vocabulary (Model/C21.v): [validate allow st p answers] is one call of
   anyApplicationPolicy.Validate for peer [p] with cache state [st] when the applications would
   answer [answers] (in application order); [final allow empty pre] is the cache state after
   the validations [pre] on a fresh policy; [first_is x a]: the first answer of [a] that is not
   No is [x] (the loop over the applications stops there).  Every statement quantifies over
   ALL allow-lists, ALL earlier validation sequences [pre] and ALL application answers. *)
From Coq Require Import NArith List.
From KV Require Import Common.Verdict Model.C21 Proofs.C21.
Import ListNotations.

(* the model's [run] (used by the correspondence check) is [validate] applied to [final] *)
Theorem run_split : forall allow pre st p a post,
  run allow st (pre ++ (p, a) :: post) =
  run allow st pre
  ++ (final allow st pre, validate allow (final allow st pre) p a)
  :: run allow (o_after (validate allow (final allow st pre) p a)) post.
Proof. exact (fun allow pre => Proofs.C21.run_split allow pre). Qed.
Print Assumptions run_split.

(* admitted => allowlisted, or some application answered Yes in this call (before any failed
   check), or the peer is positively cached — and a positive cache entry always stems from an
   earlier validation of the same peer in which the applications were consulted and one
   answered Yes *)
Theorem admit_sound : forall allow pre p a,
  let st := final allow empty pre in
  o_result (validate allow st p a) = Admit ->
  In p allow \/ first_is Yes a \/
  (In p (pos st) /\
   exists pre1 a' pre2,
     pre = pre1 ++ (p, a') :: pre2 /\ first_is Yes a' /\
     let o' := validate allow (final allow empty pre1) p a' in
     o_result o' = Admit /\ (0 < o_calls o')%nat).
Proof. exact Proofs.C21.admit_sound. Qed.
Print Assumptions admit_sound.

(* rejected => not allowlisted, not positively cached, and negatively cached or a check failed
   or every application answered No *)
Theorem reject_sound : forall allow pre p a,
  let st := final allow empty pre in
  o_result (validate allow st p a) <> Admit ->
  ~ In p allow /\ ~ In p (pos st) /\
  (In p (neg st) \/ first_is Err a \/ Forall (eq No) a).
Proof. exact Proofs.C21.reject_sound. Qed.
Print Assumptions reject_sound.

(* no cache entry: the verdict follows the current answers; with no Err: admit <-> exists Yes *)
Theorem no_entry_follows_current_answers : forall allow pre p a,
  let st := final allow empty pre in
  let o := validate allow st p a in
  ~ In p allow -> ~ In p (pos st) -> ~ In p (neg st) ->
  (o_result o = Admit <-> first_is Yes a) /\
  (o_result o = Failed <-> first_is Err a) /\
  (o_result o = NotRecognized <-> Forall (eq No) a) /\
  (~ In Err a -> (o_result o = Admit <-> In Yes a)).
Proof. exact Proofs.C21.no_entry_follows_current_answers. Qed.
Print Assumptions no_entry_follows_current_answers.

(* a failed check is not remembered: a peer has no cache entry exactly when every earlier
   validation of it ran into a failed check (in particular when there was none) *)
Theorem no_entry_iff_every_earlier_check_failed : forall allow pre p,
  let st := final allow empty pre in
  ~ In p allow ->
  ((~ In p (pos st) /\ ~ In p (neg st)) <->
   (forall pre1 a' pre2, pre = pre1 ++ (p, a') :: pre2 -> first_is Err a')).
Proof. exact Proofs.C21.no_entry_iff_every_earlier_check_failed. Qed.
Print Assumptions no_entry_iff_every_earlier_check_failed.

(* Err: reject and both caches unchanged; and a Failed result only ever arises that way *)
Theorem err_rejects_and_keeps_caches : forall allow pre p a,
  let st := final allow empty pre in
  let o := validate allow st p a in
  (~ In p allow -> ~ In p (pos st) -> ~ In p (neg st) -> first_is Err a ->
   o_result o = Failed /\ o_after o = st) /\
  (o_result o = Failed -> o_after o = st /\ first_is Err a).
Proof. exact Proofs.C21.err_rejects_and_keeps_caches. Qed.
Print Assumptions err_rejects_and_keeps_caches.

(* cached verdicts are reused: no application is consulted, the caches do not change *)
Theorem cached_verdict_reused : forall allow pre p a,
  let st := final allow empty pre in
  (In p allow \/ In p (pos st) ->
   validate allow st p a = {| o_result := Admit; o_calls := 0; o_after := st |}) /\
  (~ In p allow -> In p (neg st) ->
   validate allow st p a = {| o_result := NotRecognized; o_calls := 0; o_after := st |}).
Proof. exact Proofs.C21.cached_verdict_reused. Qed.
Print Assumptions cached_verdict_reused.

(* once a validation of [p] ended without a failed check, every later validation of [p]
   (within the caching period) returns the same verdict without consulting any application,
   whatever the applications would answer by then *)
Theorem verdict_sticky : forall allow pre1 p a1 pre2 a2,
  let o1 := validate allow (final allow empty pre1) p a1 in
  let st2 := final allow empty (pre1 ++ (p, a1) :: pre2) in
  o_result o1 <> Failed ->
  validate allow st2 p a2 = {| o_result := o_result o1; o_calls := 0; o_after := st2 |}.
Proof. exact Proofs.C21.verdict_sticky. Qed.
Print Assumptions verdict_sticky.

(* ---- the executable form used by the correspondence check is sound and holds of the model ---- *)
(* [step_prop allow napps hist o] (Model/C21.v) is the property of one OBSERVED validation [o]
   given the earlier observed validations [hist]: a failed check given in this call never
   admits; admitted => allowlisted or a Yes was given now or a Yes was given for this peer
   earlier (with no failed check); rejected => not allowlisted, and a check failed now, or all
   applications were asked and said No now, or earlier for this peer *)
Theorem spec_ok_sound : forall allow napps l,
  spec_ok allow napps l = true ->
  forall pre o post, l = pre ++ o :: post -> step_prop allow napps pre o.
Proof. exact Proofs.C21.spec_ok_sound. Qed.
Print Assumptions spec_ok_sound.

(* the in-order part ([order_prop], Model/C21.v): the verdict follows the answers the applications
   WOULD give in application order — not only those the implementation chose to collect: an
   allowlisted peer is admitted; a peer whose first answer that is not No is a Yes is admitted
   unless an earlier "not recognised" verdict for it is reused; any other peer is not admitted
   unless an earlier admission of it is reused.  (An error collected AFTER an application has
   already recognised the peer therefore does not justify a rejection.) *)
Theorem spec_ok_order_sound : forall allow napps l,
  spec_ok allow napps l = true ->
  forall pre o post, l = pre ++ o :: post -> order_prop allow pre o.
Proof. exact Proofs.C21.spec_ok_order_sound. Qed.
Print Assumptions spec_ok_order_sound.

(* first validation of a peer that is not allowlisted: admitted iff there is a Yes before any
   Err in application order *)
Theorem spec_ok_first_visit : forall allow napps l,
  spec_ok allow napps l = true ->
  forall pre o post, l = pre ++ o :: post ->
    ~ In (ob_peer o) allow -> (forall e, In e pre -> ob_peer e <> ob_peer o) ->
    (ob_result o = Admit <-> first_is Yes (ob_answers o)).
Proof. exact Proofs.C21.spec_ok_first_visit. Qed.
Print Assumptions spec_ok_first_visit.

(* every admission of a peer that is not allowlisted goes back to a validation of the same peer
   (this one or an earlier one) that was admitted with a Yes before any Err in order *)
Theorem spec_ok_admit_justified : forall allow napps l,
  spec_ok allow napps l = true ->
  forall pre o post, l = pre ++ o :: post -> ob_result o = Admit ->
    In (ob_peer o) allow \/
    exists e, In e (pre ++ [o]) /\ ob_peer e = ob_peer o /\ ob_result e = Admit
              /\ first_is Yes (ob_answers e).
Proof. exact Proofs.C21.spec_ok_admit_justified. Qed.
Print Assumptions spec_ok_admit_justified.

Theorem model_passes_spec : forall allow napps steps,
  Forall (fun s => length (snd s) = napps) steps ->
  spec_ok allow napps (model_trace allow empty steps) = true /\
  judge {| c_allow := allow; c_napps := napps; c_obs := model_trace allow empty steps |} = Agree.
Proof. exact Proofs.C21.model_passes_spec. Qed.
Print Assumptions model_passes_spec.
