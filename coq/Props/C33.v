(* C33 — Proposal discovery selects exactly the eligible requests, oldest first.
   ONLY property statements; proofs are in Proofs/C33.v.  The model (Model/C33.v) takes every
   chain call as a function argument and Go's map iteration as the argument [iter]; the theorems
   hold for ALL of them: all event histories (duplicates per key, out-of-order blocks, ties),
   request states, ages, confirmation counts, limits, task lists and checklists. *)
From Coq Require Import ZArith NArith List Permutation Sorted.
From KV Require Import Common.Verdict Gen.Consts_C33 Model.C33 Proofs.C33.
Import ListNotations.
Open Scope Z_scope.

(* ================================================================== *)
(* vocabulary                                                          *)
(* ================================================================== *)
(* deposit events revealed for the wallet, in reveal order (stable sort by reveal block) *)
Definition dep_sorted (wallet : N) (evs : list dep_event) : list dep_event :=
  stable_sort de_block (filter (dep_visible wallet) evs).
(* the maximum count: [max], or no limit when [max] <= 0 *)
Definition dep_cap (max : Z) (sorted : list dep_event) : Z :=
  if 0 <? max then max else len sorted.

(* redemption events of the wallet inside the looked-up block range, by block (stable) *)
Definition red_sorted (wallet : N) (cur tmo abt : Z) (evs : list red_event) : list red_event :=
  stable_sort re_block (filter (red_visible wallet (start_block cur tmo abt)) evs).
(* the limit: [limit], or the number of pending entries when [limit] = 0 *)
Definition red_cap (pending : N * N -> red_look) (limit : Z) (set : list (N * red_event)) : Z :=
  if 0 <? limit then limit else len (filter (is_pending pending) (map snd set)).
(* an eligible entry together with its request time *)
Definition elig_pend (pending : N * N -> red_look) (delay : N * N -> option Z)
           (now tmo ma : Z) (e : red_event) : option pend :=
  match red_eligible pending delay now tmo ma e with Some t => Some (e, t) | None => None end.
(* the last event of [evs] whose redemption key is [k] *)
Definition keyed (k : N) (e : red_event) : bool :=
  match re_key e with Some k' => N.eqb k k' | None => false end.
Definition last_with (k : N) (evs : list red_event) (init : option red_event) : option red_event :=
  fold_left (fun acc e => if keyed k e then Some e else acc) evs init.

(* a checklist action that yields nothing: unsupported, or its task completes without result *)
Definition skipsP (tasks : list task) (a : N) : Prop :=
  outcome tasks a = None \/ outcome tasks a = Some TNone.
Fixpoint upto_decisive (tasks : list task) (cl : list N) : list N :=
  match cl with
  | [] => []
  | a :: rest => if skips tasks a then a :: upto_decisive tasks rest else [a]
  end.

(* ================================================================== *)
(* deposits                                                            *)
(* ================================================================== *)

(* "reveal order": a permutation of the wallet's events, sorted by reveal block, events of the
   same block in the order the chain returned them — this determines the list uniquely *)
Theorem dep_sorted_spec :
  forall wallet evs,
    let sorted := dep_sorted wallet evs in
    (forall e, In e sorted <-> In e evs /\ dep_visible wallet e = true) /\
    Permutation sorted (filter (dep_visible wallet) evs) /\
    StronglySorted (fun a b => de_block a <= de_block b) sorted /\
    (forall b, filter (fun e => de_block e =? b) sorted
               = filter (fun e => de_block e =? b) (filter (dep_visible wallet) evs)).
Proof. exact Proofs.C33.dep_sorted_spec. Qed.
Print Assumptions dep_sorted_spec.

(* ... uniquely: any list sorted by reveal block whose per-block sub-lists are those of the
   wallet's events IS the reveal order used *)
Theorem dep_sorted_unique :
  forall wallet evs s,
    StronglySorted (fun a b => de_block a <= de_block b) s ->
    (forall b, filter (fun e => de_block e =? b) s
               = filter (fun e => de_block e =? b) (filter (dep_visible wallet) evs)) ->
    s = dep_sorted wallet evs.
Proof. exact Proofs.C33.dep_sorted_unique. Qed.
Print Assumptions dep_sorted_unique.

(* "eligible": the request is readable, old enough (RevealedAt + minAge < now), not swept (when
   swept ones are skipped), funding transaction confirmed often enough (when required) *)
Theorem dep_eligible_iff :
  forall dep_req confs now ma ss su e d,
    dep_eligible dep_req confs now ma ss su e = Some d <->
    exists revealed_at swept_at amount,
      dep_req (de_tx e, de_idx e) = DFound revealed_at swept_at amount /\
      revealed_at + ma < now /\
      (ss = true -> swept_at = 0) /\
      (su = true -> DepositSweepRequiredFundingTxConfirmations
                    <= match confs (de_tx e) with Some c => c | None => 0 end) /\
      d = {| d_tx := de_tx e; d_idx := de_idx e; d_block := de_block e; d_wallet := de_wallet e;
             d_swept := negb (swept_at =? 0); d_amount := amount;
             d_conf := match confs (de_tx e) with Some c => c | None => 0 end |}.
Proof. exact Proofs.C33.dep_eligible_iff. Qed.
Print Assumptions dep_eligible_iff.

(* the deposits found are exactly the first [max] eligible ones in reveal order *)
Theorem find_deposits_sound :
  forall dep_req confs now min_age events wallet max ss su l,
    find_deposits dep_req confs now min_age events wallet max ss su = DepOk l ->
    exists ma evs, min_age = Some ma /\ events = Some evs /\
      l = firstn (Z.to_nat (dep_cap max (dep_sorted wallet evs)))
                 (filter_map (dep_eligible dep_req confs now ma ss su) (dep_sorted wallet evs)).
Proof. exact Proofs.C33.find_deposits_sound. Qed.
Print Assumptions find_deposits_sound.

(* ... and a list is found whenever the chain answers *)
Theorem find_deposits_complete :
  forall dep_req confs now ma evs wallet max ss su,
    (forall e, In e evs -> dep_visible wallet e = true ->
               exists r s a, dep_req (de_tx e, de_idx e) = DFound r s a) ->
    exists l, find_deposits dep_req confs now (Some ma) (Some evs) wallet max ss su = DepOk l.
Proof. exact Proofs.C33.find_deposits_complete. Qed.
Print Assumptions find_deposits_complete.

(* an error is returned only when a chain call failed / a revealed deposit has no request *)
Theorem find_deposits_error :
  forall dep_req confs now min_age events wallet max ss su,
    match find_deposits dep_req confs now min_age events wallet max ss su with
    | DepErrChain =>
        min_age = None \/ events = None \/
        exists evs e, events = Some evs /\ In e evs /\ dep_visible wallet e = true /\
                      dep_req (de_tx e, de_idx e) = DLookErr
    | DepErrNoRequest =>
        exists evs e, events = Some evs /\ In e evs /\ dep_visible wallet e = true /\
                      dep_req (de_tx e, de_idx e) = DMissing
    | DepErrWallet | DepPanic => False
    | DepOk _ => True
    end.
Proof. exact Proofs.C33.find_deposits_error. Qed.
Print Assumptions find_deposits_error.

(* FindDepositsToSweep: the same list (unswept, confirmed), as references, for a non-zero wallet *)
Theorem find_deposits_to_sweep_sound :
  forall dep_req confs now min_age events wallet max l,
    find_deposits_to_sweep dep_req confs now min_age events wallet max = DepOk l ->
    wallet <> 0%N /\
    exists l', find_deposits dep_req confs now min_age events wallet max true true = DepOk l' /\
               l = map to_ref l'.
Proof. exact Proofs.C33.find_deposits_to_sweep_sound. Qed.
Print Assumptions find_deposits_to_sweep_sound.

(* ================================================================== *)
(* redemptions                                                         *)
(* ================================================================== *)

(* the de-duplicated event set: distinct keys, and (k, e) is an entry iff e is the LAST event
   with key k *)
Theorem build_set_entries :
  forall evs set,
    build_set evs [] = Some set ->
    NoDup (map fst set) /\
    (forall k e, In (k, e) set <-> last_with k evs None = Some e) /\
    (forall k e, In (k, e) set -> In e evs /\ re_key e = Some k).
Proof. exact Proofs.C33.build_set_entries. Qed.
Print Assumptions build_set_entries.

(* "eligible": still pending, and requested inside [now - timeout, now - max(minAge, delay)] *)
Theorem red_eligible_iff :
  forall pending delay now tmo ma e t,
    red_eligible pending delay now tmo ma e = Some t <->
    pending (re_wallet e, re_script e) = RFound t /\
    exists d, delay (re_wallet e, re_script e) = Some d /\
              now - tmo <= t <= now - Z.max ma d.
Proof. exact Proofs.C33.red_eligible_iff. Qed.
Print Assumptions red_eligible_iff.

(* for EVERY map iteration order: the redemptions found are the first [limit] entries of a list
   [el] that consists of exactly the eligible entries of the de-duplicated set (one per key),
   ordered oldest first — for some order of the entries requested at the same time *)
Theorem red_sound :
  forall pending delay (iter : list (N * red_event) -> list (N * red_event)),
    (forall m, Permutation (iter m) m) ->
    forall now current min_age timeout abt events wallet limit l,
      find_redemptions pending delay iter now current min_age timeout abt events wallet limit
        = RedOk l ->
      wallet <> 0%N /\ abt <> 0 /\
      exists cur ma tmo evs set,
        current = Some cur /\ min_age = Some ma /\ timeout = Some tmo /\ events = Some evs /\
        build_set (red_sorted wallet cur tmo abt evs) [] = Some set /\
        exists el : list pend,
          Permutation el (filter_map (elig_pend pending delay now tmo ma) (map snd set)) /\
          StronglySorted (fun a b : pend => snd a <= snd b) el /\
          l = map (fun p : pend => re_script (fst p))
                  (firstn (Z.to_nat (red_cap pending limit set)) el).
Proof. exact Proofs.C33.red_sound. Qed.
Print Assumptions red_sound.

(* an error is returned only when a chain call failed *)
Theorem red_error :
  forall pending delay (iter : list (N * red_event) -> list (N * red_event)),
    (forall m, Permutation (iter m) m) ->
    forall now current min_age timeout abt events wallet limit,
      find_redemptions pending delay iter now current min_age timeout abt events wallet limit
        = RedErrChain ->
      current = None \/ min_age = None \/ timeout = None \/ events = None \/
      exists evs e, events = Some evs /\ In e evs /\
                    (re_key e = None \/ pending (re_wallet e, re_script e) = RLookErr \/
                     delay (re_wallet e, re_script e) = None).
Proof. exact Proofs.C33.red_error. Qed.
Print Assumptions red_error.

(* ================================================================== *)
(* generator                                                           *)
(* ================================================================== *)

(* the generator returns the proposal (or the error) of the first checklist action that yields
   one, and the no-op proposal exactly when none does *)
Theorem generate_first_success :
  forall tasks cl,
    (forall p, fst (generate tasks cl) = GProp p <->
       exists pre a post, cl = pre ++ a :: post /\ Forall (skipsP tasks) pre /\
                          outcome tasks a = Some (TProp p)) /\
    (fst (generate tasks cl) = GErr <->
       exists pre a post, cl = pre ++ a :: post /\ Forall (skipsP tasks) pre /\
                          outcome tasks a = Some TErr) /\
    (fst (generate tasks cl) = GNoop <-> Forall (skipsP tasks) cl).
Proof. exact Proofs.C33.generate_first_success. Qed.
Print Assumptions generate_first_success.

(* the tasks run are those of the checklist actions up to the deciding one, in order *)
Theorem generate_trace :
  forall tasks cl,
    snd (generate tasks cl)
    = filter_map (fun a => option_map fst (index_of tasks a 0%N)) (upto_decisive tasks cl).
Proof. exact Proofs.C33.generate_trace. Qed.
Print Assumptions generate_trace.

(* ================================================================== *)
(* the executable forms used by the correspondence check               *)
(* ================================================================== *)
Theorem dep_spec_ok_sound :
  forall c l,
    dep_spec_ok c = true -> dc_out c = DepOk l ->
    exists ma evs, dc_min_age c = Some ma /\ dc_events c = Some evs /\
      let sorted := dep_sorted (dc_wallet c) evs in
      let ss := if dc_to_sweep c then true else dc_skip_swept c in
      let su := if dc_to_sweep c then true else dc_skip_unconf c in
      let want := firstn (Z.to_nat (dep_cap (dc_max c) sorted))
                    (filter_map (dep_eligible (dc_req c) (dc_conf c) (dc_now c) ma ss su) sorted) in
      l = if dc_to_sweep c then map to_ref want else want.
Proof. exact Proofs.C33.dep_spec_ok_sound'. Qed.
Print Assumptions dep_spec_ok_sound.

Theorem dep_model_passes :
  forall c, dc_out c = model_deposits c -> dep_spec_ok c = true.
Proof. exact Proofs.C33.dep_model_passes. Qed.
Print Assumptions dep_model_passes.

(* the property of a selected script list [l], in components: distinct scripts; each belongs to
   an eligible entry of the de-duplicated set ([times] are their request times); oldest first;
   and, when every delay lookup answers, their number is min(limit, #eligible) and no left-out
   eligible request is older than a selected one *)
Definition red_prop (pending : N * N -> red_look) (delay : N * N -> option Z)
           (now tmo ma : Z) (entries : list red_event) (cap : Z) (l : list N) : Prop :=
  NoDup l /\
  exists times : list Z,
    Forall2 (fun s t => exists e, In e entries /\ re_script e = s /\
                                  red_eligible pending delay now tmo ma e = Some t) l times /\
    StronglySorted Z.le times /\
    ((forall e, In e entries -> delay (re_wallet e, re_script e) <> None) ->
     len l = Z.min cap (len (filter (fun e => match red_eligible pending delay now tmo ma e with
                                              | Some _ => true | None => false end) entries)) /\
     forall e t, In e entries -> red_eligible pending delay now tmo ma e = Some t ->
                 In (re_script e) l \/ forall t', In t' times -> t' <= t).

Theorem red_spec_ok_sound :
  forall c l,
    red_spec_ok c = true -> rc_out c = RedOk l ->
    rc_wallet c <> 0%N /\ rc_abt c <> 0 /\
    exists cur ma tmo evs set,
      rc_current c = Some cur /\ rc_min_age c = Some ma /\ rc_timeout c = Some tmo /\
      rc_events c = Some evs /\
      build_set (red_sorted (rc_wallet c) cur tmo (rc_abt c) evs) [] = Some set /\
      red_prop (rc_pend c) (rc_del c) (rc_now c) tmo ma (map snd set)
               (red_cap (rc_pend c) (rc_limit c) set) l.
Proof. exact Proofs.C33.red_spec_ok_sound. Qed.
Print Assumptions red_spec_ok_sound.

(* the executable generator property pins the result down to the model's *)
Theorem gen_spec_ok_iff :
  forall c, gen_spec_ok c = true <-> gc_out c = fst (generate (gc_tasks c) (gc_checklist c)).
Proof. exact Proofs.C33.gen_spec_ok_iff. Qed.
Print Assumptions gen_spec_ok_iff.

(* ================================================================== *)
(* the production generator on one window                              *)
(* ================================================================== *)
(* NewProposalGenerator's task list (DepositSweep = action 2, Redemption = 3, Heartbeat = 1)
   run on one window's chain state: [pg_spec_ok] holds iff walking the checklist, every action
   before the deciding one yields nothing according to the deposit / redemption property (no
   eligible deposit, no eligible request) or has no task, and the observed proposal (or error)
   is the one the deciding action's property accepts; the no-op proposal iff no action decides *)
Definition pg_skipsP (c : pg_case) (a : N) : Prop :=
  (a = 2%N /\ dep_spec_ok (with_dout (pg_dep c) (DepOk [])) = true) \/
  (a = 3%N /\ red_spec_ok (with_rout (pg_red c) (RedOk [])) = true) \/
  (a <> 1%N /\ a <> 2%N /\ a <> 3%N).
Definition pg_decidesP (c : pg_case) (a : N) : Prop :=
  (a = 2%N /\
   ((exists l, pg_out c = PSweep l /\ l <> [] /\
               dep_spec_ok (with_dout (pg_dep c) (DepOk l)) = true) \/
    (pg_out c = PErr /\
     exists o, (o = DepErrChain \/ o = DepErrNoRequest \/ o = DepErrWallet) /\
               dep_spec_ok (with_dout (pg_dep c) o) = true))) \/
  (a = 3%N /\
   ((exists l, pg_out c = PRedeem l /\ l <> [] /\
               red_spec_ok (with_rout (pg_red c) (RedOk l)) = true) \/
    (pg_out c = PErr /\
     exists o, (o = RedErrChain \/ o = RedErrWallet) /\
               red_spec_ok (with_rout (pg_red c) o) = true))) \/
  (a = 1%N /\
   ((pg_out c = PHeartbeat /\ pg_hb_ok c = true) \/ (pg_out c = PErr /\ pg_hb_ok c = false))).

Theorem pg_spec_ok_iff :
  forall c,
    pg_spec_ok c = true <->
    (pg_out c = PNoop /\ Forall (pg_skipsP c) (pg_checklist c)) \/
    exists pre a post, pg_checklist c = pre ++ a :: post /\ Forall (pg_skipsP c) pre /\
                       pg_decidesP c a.
Proof. exact Proofs.C33.pg_spec_ok_iff. Qed.
Print Assumptions pg_spec_ok_iff.

(* a deposit sweep proposal returned by the generator carries exactly the first eligible
   deposits (old enough, not yet swept, confirmed — all AT THAT WINDOW) in reveal order, at most
   the maximum count of that window *)
Theorem pg_sweep_content :
  forall c l,
    pg_wf c = true -> pg_spec_ok c = true -> pg_out c = PSweep l ->
    l <> [] /\
    exists ma evs, dc_min_age (pg_dep c) = Some ma /\ dc_events (pg_dep c) = Some evs /\
      let sorted := dep_sorted (dc_wallet (pg_dep c)) evs in
      l = map to_ref
            (firstn (Z.to_nat (dep_cap (dc_max (pg_dep c)) sorted))
               (filter_map (dep_eligible (dc_req (pg_dep c)) (dc_conf (pg_dep c))
                              (dc_now (pg_dep c)) ma true true) sorted)).
Proof. exact Proofs.C33.pg_sweep_content. Qed.
Print Assumptions pg_sweep_content.

(* ================================================================== *)
(* window histories on the long-lived objects: no memory               *)
(* ================================================================== *)
(* One ProposalGenerator / DepositSweepTask / RedemptionTask lives as long as the node
   (cmd/start.go) and is run on every coordination window while the chain state evolves.  The
   model threads the object through the windows ([history_st]); the outputs of a history are the
   per-window discovery function mapped over the per-window chain states *)
Theorem history_no_memory : forall n ws, history_st n ws = map explain ws.
Proof. exact Proofs.C33.history_no_memory. Qed.
Print Assumptions history_no_memory.

(* ... so what a window returns does not depend on the windows before or after it *)
Theorem history_past_future_irrelevant :
  forall n before after w,
    nth_error (history_st n (before ++ w :: after)) (length before) = Some (explain w).
Proof. exact Proofs.C33.history_past_future_irrelevant. Qed.
Print Assumptions history_past_future_irrelevant.

(* the executable history property is the per-window property at every window, each evaluated
   against that window's own chain state (deposits not yet swept AT THAT WINDOW, requests
   pending AT THAT WINDOW, that window's parameters and limits) *)
Theorem hist_spec_iff :
  forall ws, hist_spec ws = true <-> forall i w, nth_error ws i = Some w -> spec_of w = true.
Proof. exact Proofs.C33.hist_spec_iff. Qed.
Print Assumptions hist_spec_iff.

(* the correspondence check of a history compares every observed window output with the
   threaded model's, which is the per-window comparison *)
Theorem hist_agree_iff : forall ws, hist_agree ws = forallb agree_of ws.
Proof. exact Proofs.C33.hist_agree_iff. Qed.
Print Assumptions hist_agree_iff.

(* a history is accepted iff every window, judged alone against its own state, is accepted *)
Theorem judge_hist_agree :
  forall ws,
    judge_any (CHist ws) = Agree <->
    ws <> [] /\ forall i w, nth_error ws i = Some w -> judge w = Agree.
Proof. exact Proofs.C33.judge_hist_agree. Qed.
Print Assumptions judge_hist_agree.

(* every model history of deposit searches and generator calls satisfies the history property *)
Theorem model_history_passes :
  forall ws,
    Forall (fun w => match w with
                     | CDep c => dc_out c = model_deposits c
                     | CGen c => gc_out c = fst (generate (gc_tasks c) (gc_checklist c))
                     | _ => False
                     end) ws ->
    hist_spec ws = true.
Proof. exact Proofs.C33.model_history_passes. Qed.
Print Assumptions model_history_passes.
