(* C20 — Connection handshake completes exactly for honest peers on the same protocol.
   ONLY property statements; proofs are in Proofs/C20.v.

   Vocabulary (Model/C20.v): [session challenge H ceqb p1 p2 n1 n2 t1 t2 t3] is one run of the
   three acts between an initiator on protocol [p1] drawing [n1] and a responder on protocol
   [p2] drawing [n2]; [t1 t2 t3] is the network (message sent -> message delivered, None =
   undecodable bytes; the honest network is [Some]; [intact t] = delivers what was sent).
   [H] stands for sha256(nonce1 || nonce2) and [ceqb] for == on challenges: they are
   quantified, with exactly the stated hypotheses (injectivity of [H] = no SHA-256 collision
   on the 16-byte nonce pairs). *)
From Coq Require Import NArith List.
From KV Require Import Common.Verdict Model.C20 Proofs.C20.
Import ListNotations.
Open Scope N_scope.

(* exact characterisation of completion, for ANY network behaviour: every act is delivered in
   decodable form, each side sees its own protocol identifier in the peer's act, act 2 carries
   the challenge derived from the initiator's nonce and the nonce2 it delivers, act 3 carries
   the challenge derived from the nonce1 the responder received and its own nonce2 *)
Theorem completed_iff :
  forall (challenge : Type) (H : N -> N -> challenge) (ceqb : challenge -> challenge -> bool),
    (forall x y, ceqb x y = true <-> x = y) ->
    forall p1 p2 n1 n2 t1 t2 t3,
      session challenge H ceqb p1 p2 n1 n2 t1 t2 t3 = Completed <->
      exists m1 m2 m3,
        t1 {| a1_nonce := n1; a1_proto := p1 |} = Some m1 /\ a1_proto m1 = p2 /\
        t2 {| a2_nonce := n2; a2_chal := H (a1_nonce m1) n2; a2_proto := p2 |} = Some m2 /\
        a2_proto _ m2 = p1 /\ a2_chal _ m2 = H n1 (a2_nonce _ m2) /\
        t3 {| a3_chal := a2_chal _ m2 |} = Some m3 /\
        a3_chal _ m3 = H (a1_nonce m1) n2.
Proof. exact Proofs.C20.completed_iff. Qed.
Print Assumptions completed_iff.

(* honest peers, honest network, all nonce values (also 0, 2^64-1, equal nonces): the
   handshake completes iff both run the same protocol identifier *)
Theorem honest_completes_iff_same_protocol :
  forall (challenge : Type) (H : N -> N -> challenge) (ceqb : challenge -> challenge -> bool),
    (forall x y, ceqb x y = true <-> x = y) ->
    forall p1 p2 n1 n2,
      session challenge H ceqb p1 p2 n1 n2 Some Some Some = Completed <-> p1 = p2.
Proof. exact Proofs.C20.honest_completes_iff_same_protocol. Qed.
Print Assumptions honest_completes_iff_same_protocol.

(* ... and otherwise it stops at act 1 with the protocol error *)
Theorem honest_run :
  forall (challenge : Type) (H : N -> N -> challenge) (ceqb : challenge -> challenge -> bool),
    (forall x y, ceqb x y = true <-> x = y) ->
    forall p1 p2 n1 n2,
      session challenge H ceqb p1 p2 n1 n2 Some Some Some =
      if N.eqb p1 p2 then Completed else FailedAt 1 ErrProtocol.
Proof. exact Proofs.C20.honest_run. Qed.
Print Assumptions honest_run.

(* any altered act: if exactly one of the three acts is not delivered as sent (any change of
   any field, a substituted message, or undecodable bytes) the handshake does not complete *)
Theorem any_single_alteration_fails :
  forall (challenge : Type) (H : N -> N -> challenge) (ceqb : challenge -> challenge -> bool),
    (forall x y, ceqb x y = true <-> x = y) ->
    (forall a b c d, H a b = H c d -> a = c /\ b = d) ->
    forall p1 p2 n1 n2 t1 t2 t3,
      let s1 := {| a1_nonce := n1; a1_proto := p1 |} in
      let s2 := {| a2_nonce := n2; a2_chal := H n1 n2; a2_proto := p2 |} in
      let s3 := {| a3_chal := H n1 n2 |} in
      (t1 s1 <> Some s1 /\ intact t2 /\ intact t3) \/
      (intact t1 /\ t2 s2 <> Some s2 /\ intact t3) \/
      (intact t1 /\ intact t2 /\ t3 s3 <> Some s3) ->
      session challenge H ceqb p1 p2 n1 n2 t1 t2 t3 <> Completed.
Proof. exact Proofs.C20.any_single_alteration_fails. Qed.
Print Assumptions any_single_alteration_fails.

(* field by field, between peers on the same protocol [p]: which step fails and how.
   nonce2 / challenge / protocol of act 2, protocol / nonce1 of act 1, challenge of act 3 *)
Theorem field_alterations_fail_at_their_act :
  forall (challenge : Type) (H : N -> N -> challenge) (ceqb : challenge -> challenge -> bool),
    (forall x y, ceqb x y = true <-> x = y) ->
    (forall a b c d, H a b = H c d -> a = c /\ b = d) ->
    forall p n1 n2,
      (forall n2', n2' <> n2 ->
         session challenge H ceqb p p n1 n2 Some
           (apply2 _ {| t2_drop := false; t2_nonce := Some n2'; t2_chal := None; t2_proto := None |})
           Some = FailedAt 2 ErrChallenge) /\
      (forall c', c' <> H n1 n2 ->
         session challenge H ceqb p p n1 n2 Some
           (apply2 _ {| t2_drop := false; t2_nonce := None; t2_chal := Some c'; t2_proto := None |})
           Some = FailedAt 2 ErrChallenge) /\
      (forall p', p' <> p ->
         session challenge H ceqb p p n1 n2 Some
           (apply2 _ {| t2_drop := false; t2_nonce := None; t2_chal := None; t2_proto := Some p' |})
           Some = FailedAt 2 ErrProtocol) /\
      (forall p', p' <> p ->
         session challenge H ceqb p p n1 n2
           (apply1 {| t1_drop := false; t1_nonce := None; t1_proto := Some p' |})
           Some Some = FailedAt 1 ErrProtocol) /\
      (forall n1', n1' <> n1 ->
         session challenge H ceqb p p n1 n2
           (apply1 {| t1_drop := false; t1_nonce := Some n1'; t1_proto := None |})
           Some Some = FailedAt 2 ErrChallenge) /\
      (forall c', c' <> H n1 n2 ->
         session challenge H ceqb p p n1 n2 Some Some
           (apply3 _ {| t3_drop := false; t3_chal := Some c' |}) = FailedAt 3 ErrChallenge).
Proof. exact Proofs.C20.field_alterations_fail_at_their_act. Qed.
Print Assumptions field_alterations_fail_at_their_act.

(* whatever happened to acts 1 and 2: if act 3 arrives as sent and the handshake completes,
   both nonces and the responder's challenge were delivered unaltered and each side saw its
   own protocol identifier *)
Theorem completed_agreement :
  forall (challenge : Type) (H : N -> N -> challenge) (ceqb : challenge -> challenge -> bool),
    (forall x y, ceqb x y = true <-> x = y) ->
    (forall a b c d, H a b = H c d -> a = c /\ b = d) ->
    forall p1 p2 n1 n2 t1 t2 t3,
      intact t3 ->
      session challenge H ceqb p1 p2 n1 n2 t1 t2 t3 = Completed ->
      exists m1 m2,
        t1 {| a1_nonce := n1; a1_proto := p1 |} = Some m1 /\
        t2 {| a2_nonce := n2; a2_chal := H (a1_nonce m1) n2; a2_proto := p2 |} = Some m2 /\
        a1_nonce m1 = n1 /\ a2_nonce _ m2 = n2 /\ a2_chal _ m2 = H n1 n2 /\
        a1_proto m1 = p2 /\ a2_proto _ m2 = p1.
Proof. exact Proofs.C20.completed_agreement. Qed.
Print Assumptions completed_agreement.

(* replay: act 2 of another session (nonce1 n1B <> n1) never completes this one, whatever else
   the network does *)
Theorem replayed_act2_fails :
  forall (challenge : Type) (H : N -> N -> challenge) (ceqb : challenge -> challenge -> bool),
    (forall x y, ceqb x y = true <-> x = y) ->
    (forall a b c d, H a b = H c d -> a = c /\ b = d) ->
    forall p1 p2 n1 n2 t1 t2 t3 n1B n2B pB,
      (forall m, t2 m = Some {| a2_nonce := n2B; a2_chal := H n1B n2B; a2_proto := pB |}) ->
      n1B <> n1 ->
      session challenge H ceqb p1 p2 n1 n2 t1 t2 t3 <> Completed.
Proof. exact Proofs.C20.replayed_act2_fails. Qed.
Print Assumptions replayed_act2_fails.

(* replay of act 3 of session B can only complete when the responder drew B's nonce2 again
   and was handed B's nonce1 in act 1 *)
Theorem replayed_act3_needs_repeated_nonces :
  forall (challenge : Type) (H : N -> N -> challenge) (ceqb : challenge -> challenge -> bool),
    (forall x y, ceqb x y = true <-> x = y) ->
    (forall a b c d, H a b = H c d -> a = c /\ b = d) ->
    forall p1 p2 n1 n2 t1 t2 t3 n1B n2B,
      (forall m, t3 m = Some {| a3_chal := H n1B n2B |}) ->
      session challenge H ceqb p1 p2 n1 n2 t1 t2 t3 = Completed ->
      n2 = n2B /\
      exists m1, t1 {| a1_nonce := n1; a1_proto := p1 |} = Some m1 /\ a1_nonce m1 = n1B.
Proof. exact Proofs.C20.replayed_act3_needs_repeated_nonces. Qed.
Print Assumptions replayed_act3_needs_repeated_nonces.

Theorem replayed_act3_fails :
  forall (challenge : Type) (H : N -> N -> challenge) (ceqb : challenge -> challenge -> bool),
    (forall x y, ceqb x y = true <-> x = y) ->
    (forall a b c d, H a b = H c d -> a = c /\ b = d) ->
    forall p1 p2 n1 n2 t1 t2 t3 n1B n2B,
      (forall m, t3 m = Some {| a3_chal := H n1B n2B |}) ->
      n2B <> n2 \/ (intact t1 /\ n1B <> n1) ->
      session challenge H ceqb p1 p2 n1 n2 t1 t2 t3 <> Completed.
Proof. exact Proofs.C20.replayed_act3_fails. Qed.
Print Assumptions replayed_act3_fails.

(* ---- the executable form used by the correspondence check ---- *)
(* the symbolic challenge type of the check satisfies the hypotheses above *)
Theorem concrete_challenges_ok :
  (forall x y, cch_eqb x y = true <-> x = y) /\
  (forall a b c d, CH a b = CH c d -> a = c /\ b = d).
Proof. exact (conj Proofs.C20.cch_eqb_spec Proofs.C20.CH_inj). Qed.
Print Assumptions concrete_challenges_ok.

(* [spec_ok] on an observed case implies the characterisation of completion, stated on the
   messages the implementation delivered ([d1 d2 d3] = its sent messages through the case's
   tampering) *)
Theorem spec_ok_sound : forall c,
  spec_ok c = true ->
  (c_out c = Completed <->
   exists m1 m2 m3,
     d1 c = Some m1 /\ d2 c = Some m2 /\ d3 c = Some m3 /\
     a1_proto m1 = c_p2 c /\ a2_proto _ m2 = c_p1 c /\
     a2_chal _ m2 = CH (c_n1 c) (a2_nonce _ m2) /\
     a3_chal _ m3 = CH (a1_nonce m1) (c_n2 c)).
Proof. exact Proofs.C20.spec_ok_sound. Qed.
Print Assumptions spec_ok_sound.

(* for all inputs, the case the model itself produces passes the executable property (and is
   judged Agree) *)
Theorem model_passes_spec : forall c, judge (model_case c) = Agree.
Proof. exact Proofs.C20.model_passes_spec. Qed.
Print Assumptions model_passes_spec.
