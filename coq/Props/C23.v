(* C23 — Each coordination window is triggered exactly once, in order.
   ONLY property statements; proofs are in Proofs/C23.v.
   [run F stream] is the model of watchCoordinationWindows (Model/C23.v): for each block the
   watcher consumed, the windows for which it executed `go onWindowFn(window)`;
   [fired F stream] is their concatenation, i.e. every window started, in start order.
   F is the Go constant coordinationFrequencyBlocks, regenerated from /repo on every run. *)
From Coq Require Import ZArith List Bool Sorted.
From KV Require Import Common.Verdict Gen.Consts_C23 Model.C23 Proofs.C23.
Import ListNotations.
Open Scope Z_scope.

Notation F := coordinationFrequencyBlocks.

(* obligation on the constant itself (block % 0 would panic) *)
Theorem frequency_is_positive : 0 < F.
Proof. exact Proofs.C23.freq_positive. Qed.
Print Assumptions frequency_is_positive.

(* ---- for EVERY finite stream of consumed blocks: duplicates, gaps, regressions ---- *)

(* coordination starts only for windows starting at a positive multiple of the frequency,
   and only for a block that was actually observed *)
Theorem started_only_for_positive_multiples :
  forall (stream : list Z) (w : Z),
    In w (fired F stream) -> (exists k, 0 < k /\ w = k * F) /\ In w stream.
Proof. exact Proofs.C23.c_only_window_starts. Qed.
Print Assumptions started_only_for_positive_multiples.

(* the started windows are strictly increasing in start order ... *)
Theorem started_windows_strictly_increasing :
  forall stream : list Z, StronglySorted Z.lt (fired F stream).
Proof. exact Proofs.C23.c_strictly_increasing. Qed.
Print Assumptions started_windows_strictly_increasing.

(* ... hence at most once per window ... *)
Theorem started_at_most_once :
  forall stream : list Z, NoDup (fired F stream).
Proof. exact Proofs.C23.c_at_most_once. Qed.
Print Assumptions started_at_most_once.

(* ... and never a window earlier than (or equal to) one already started *)
Theorem never_earlier_than_already_started :
  forall (stream : list Z) (i j : nat) (wi wj : Z),
    (i < j)%nat -> nth_error (fired F stream) i = Some wi ->
    nth_error (fired F stream) j = Some wj -> wi < wj.
Proof. exact Proofs.C23.c_never_earlier. Qed.
Print Assumptions never_earlier_than_already_started.

(* exactly-once, step by step: when block [b] is consumed after the blocks [pre], window [b]
   is started iff [b] is a window start later than every window start in [pre]; nothing else
   is started at that step *)
Theorem step_starts_exactly_the_new_latest_window :
  forall (pre : list Z) (b : Z) (post : list Z),
    exists rest,
      run F (pre ++ b :: post) =
      run F pre ++
      (if is_window_start F b && forallb (fun x => negb (is_window_start F x) || (x <? b)) pre
       then [b] else []) :: rest /\ length rest = length post.
Proof. exact Proofs.C23.c_step_characterisation. Qed.
Print Assumptions step_starts_exactly_the_new_latest_window.

Theorem is_window_start_meaning :
  forall b : Z, is_window_start F b = true <-> exists k, 0 < k /\ b = k * F.
Proof. exact Proofs.C23.c_is_window_start_spec. Qed.
Print Assumptions is_window_start_meaning.

Theorem new_latest_window_is_started :
  forall (pre : list Z) (b : Z) (post : list Z),
    (exists k, 0 < k /\ b = k * F) ->
    (forall x, In x pre -> (exists k, 0 < k /\ x = k * F) -> x < b) ->
    In b (fired F (pre ++ b :: post)).
Proof. exact Proofs.C23.c_new_latest_is_started. Qed.
Print Assumptions new_latest_window_is_started.

(* cancellation: what a watcher cancelled after consuming [s1] has started is exactly what
   the prefix starts, and any continuation only appends to it *)
Theorem cancellation_yields_a_prefix :
  forall s1 s2 : list Z, exists more, fired F (s1 ++ s2) = fired F s1 ++ more.
Proof. exact Proofs.C23.c_cancellation_prefix. Qed.
Print Assumptions cancellation_yields_a_prefix.

(* on a well-behaved (non-decreasing, possibly repeating or skipping) stream every window
   start that is observed is started exactly once *)
Theorem monotone_stream_every_window_exactly_once :
  forall (stream : list Z) (w : Z),
    Sorted Z.le stream -> In w stream -> (exists k, 0 < k /\ w = k * F) ->
    count_occ Z.eq_dec (fired F stream) w = 1%nat.
Proof. exact Proofs.C23.c_monotone_exactly_once. Qed.
Print Assumptions monotone_stream_every_window_exactly_once.

(* coordinationWindow.index: positive exactly on window starts, where it is block / F *)
Theorem index_positive_iff_window_start :
  forall b : Z, 0 <= b ->
    (0 < index F b <-> exists k, 0 < k /\ b = k * F) /\
    (0 < index F b -> index F b * F = b) /\ 0 <= index F b.
Proof. exact Proofs.C23.c_index_spec. Qed.
Print Assumptions index_positive_iff_window_start.

(* ---- the executable form used by the correspondence check ---- *)
(* soundness: if spec_ok accepts the implementation's observed steps, the observed starts are
   exactly the model's, strictly increasing, positive multiples of F, blocks of the stream *)
Theorem spec_ok_sound :
  forall steps : list (Z * list Z),
    spec_ok F (CStream steps) = true ->
    map snd steps = run F (map fst steps) /\
    StronglySorted Z.lt (concat (map snd steps)) /\
    (forall w, In w (concat (map snd steps)) ->
               (exists k, 0 < k /\ w = k * F) /\ In w (map fst steps)).
Proof. exact Proofs.C23.c_spec_sound. Qed.
Print Assumptions spec_ok_sound.

(* and it holds of every model output (the judge answers Agree on the model's own trace,
   BadCase only for blocks outside uint64) *)
Theorem model_outputs_pass_spec :
  forall stream : list Z,
    judge (CStream (combine stream (run F stream))) = Agree \/
    judge (CStream (combine stream (run F stream))) = BadCase.
Proof. exact Proofs.C23.c_model_passes_spec. Qed.
Print Assumptions model_outputs_pass_spec.

(* ---- the WHOLE LIFE of one watcher: the block source may close the channel and hand out
   further subscriptions.  [life F h] is the model of watchCoordinationWindows on the history
   [h] of the source (EBlock b = a block offered on the current subscription, EClose = the
   current channel is closed): per event, Some out = received, started out; None = never
   received.  [started_all] concatenates everything started over the whole history. ---- *)

(* as the code is written the watcher subscribes once: it receives the blocks offered before
   the first closure, then reads zero values from the closed channel (starting nothing) and
   never receives anything offered on a later subscription *)
Theorem whole_life_is_the_first_subscription :
  forall (s : list Z) (rest : list event),
    life F (map EBlock s ++ EClose :: rest) =
    map Some (run F s) ++ Some [] :: map (fun _ => None) rest.
Proof. exact Proofs.C23.c_life_shape. Qed.
Print Assumptions whole_life_is_the_first_subscription.

Theorem whole_life_without_closure :
  forall s : list Z, life F (map EBlock s) = map Some (run F s).
Proof. exact Proofs.C23.c_life_never_closed. Qed.
Print Assumptions whole_life_without_closure.

(* for EVERY history (closures, replayed / regressed / repeated blocks on later
   subscriptions): the windows started over the whole life are strictly increasing, positive
   multiples of the frequency, and blocks that were offered *)
Theorem whole_life_started_windows_strictly_increasing :
  forall h : list event,
    StronglySorted Z.lt (started_all (combine h (life F h))) /\
    forall w, In w (started_all (combine h (life F h))) ->
              (exists k, 0 < k /\ w = k * F) /\ In (EBlock w) h.
Proof. exact Proofs.C23.c_life_increasing. Qed.
Print Assumptions whole_life_started_windows_strictly_increasing.

(* a re-subscribing watcher is safe exactly as long as the watermark survives the
   re-subscription (then its received stream is the concatenation and the all-streams
   theorems apply) ... *)
Theorem kept_watermark_continues_the_stream :
  forall s1 s2 : list Z,
    fired F (s1 ++ s2) = fired F s1 ++ concat (run_from F (last_after F None s1) s2).
Proof. exact Proofs.C23.c_kept_watermark. Qed.
Print Assumptions kept_watermark_continues_the_stream.

(* ... and unsafe when each subscription starts from an empty watermark *)
Theorem forgotten_watermark_refuted :
  exists s1 s2 : list Z, ~ StronglySorted Z.lt (fired F s1 ++ fired F s2).
Proof. exact Proofs.C23.c_forgotten_watermark_refuted. Qed.
Print Assumptions forgotten_watermark_refuted.

(* executable form over the whole life: accepted observations have strictly increasing
   started windows over ALL subscriptions, each a positive multiple of F and a received block,
   and the received blocks started exactly what one continuous stream starts *)
Theorem life_spec_ok_sound :
  forall obs : list (event * option (list Z)),
    spec_ok F (CLife obs) = true ->
    StronglySorted Z.lt (started_all obs) /\
    (forall w, In w (started_all obs) ->
               (exists k, 0 < k /\ w = k * F) /\ In w (map fst (consumed obs))) /\
    map snd (consumed obs) = run F (map fst (consumed obs)).
Proof. exact Proofs.C23.c_life_spec_sound. Qed.
Print Assumptions life_spec_ok_sound.

Theorem life_model_outputs_pass_spec :
  forall h : list event,
    judge (CLife (combine h (life F h))) = Agree \/
    judge (CLife (combine h (life F h))) = BadCase.
Proof. exact Proofs.C23.c_life_model_passes_spec. Qed.
Print Assumptions life_model_outputs_pass_spec.
