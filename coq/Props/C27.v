(* C27 — Signed wallet transactions pass Bitcoin script validation.
   ONLY property statements; proofs are in Proofs/C27.v.

   Vocabulary (Model/C27.v): [verify_input] is the model of btcd's txscript engine under the
   standard verification flags, for one input; [build] / [compute_hashes] / [add_signatures] model
   TransactionBuilder.Add*Input+AddOutput / ComputeSignatureHashes / AddSignatures; a [sighash] is
   the record of everything a signature digest commits to; hashes, the DER serialiser, the
   builder's ecdsa.Verify, btcd's strict-DER/low-S test and btcec's signature check are arbitrary
   functions (premises state what is assumed about them). *)
From Coq Require Import ZArith NArith List Bool.
From KV Require Import Common.Verdict Model.C27 Proofs.C27.
Import ListNotations.
Open Scope N_scope.

(* For EVERY list of P2PKH / P2WPKH wallet inputs and P2SH / P2WSH deposit inputs (any key hashes,
   deposit parameters, outpoints, values), any outputs and any signatures: if AddSignatures returns
   a transaction, and each signature's key is a compressed key whose HASH160 the input's script
   commits to, then the engine accepts every input of that transaction.
   Library premise: a signature that passes the builder's ecdsa.Verify for a digest serialises to
   a DER string that passes btcd's encoding checks and btcec's verification of the same digest. *)
Theorem all_inputs_accepted :
  forall (hash160 sha256 : bytes -> bytes) (der_strict : bytes -> bool)
         (checksig : bytes -> bytes -> sighash -> bool)
         (sigT : Type) (der : sigT -> bytes) (ecdsa_verify : bytes -> sighash -> sigT -> bool),
    (forall x, length (hash160 x) = 20%nat) -> (forall x, length (sha256 x) = 32%nat) ->
    (forall pk h sg, ecdsa_verify pk h sg = true ->
                     sig_enc_ok der_strict (der sg) = true /\ checksig pk (der sg) h = true) ->
    forall (ins : list winput) (outs : list (Z * bytes)) (sigs : list (sigT * bytes)) b b' tx,
      Forall (fun w => wkind_wf (wi_kind w)) ins ->
      build (map (to_input hash160 sha256) ins) outs = Some b ->
      compute_hashes b = Some b' ->
      add_signatures sigT der ecdsa_verify b' sigs = Some tx ->
      (forall i w sg pk, nth_error ins i = Some w -> nth_error sigs i = Some (sg, pk) ->
                         compressed_pk pk = true /\ hash160 pk = committed_pkh (wi_kind w)) ->
      forall i w, nth_error ins i = Some w ->
        exists si, nth_error (st_ins tx) i = Some si /\
          verify_input hash160 sha256 der_strict checksig (st_skel tx) i
                       (si_script si) (si_witness si)
                       (in_script (to_input hash160 sha256 w)) (u_value (wi_utxo w)) = Accept.
Proof. exact Proofs.C27.all_inputs_accepted. Qed.
Print Assumptions all_inputs_accepted.

(* A wrong number of signatures, or one signature that does not verify against the digest of its
   own input, makes AddSignatures fail: no transaction is produced. *)
Theorem mismatched_signature_rejected_before_tx :
  forall (sigT : Type) (der : sigT -> bytes) (ecdsa_verify : bytes -> sighash -> sigT -> bool)
         (b : builder) (sigs : list (sigT * bytes)),
    (length sigs <> length (b_ins b) \/
     exists i h sg pk, (i < length (b_ins b))%nat /\ nth_error (b_hashes b) i = Some h /\
                       nth_error sigs i = Some (sg, pk) /\ ecdsa_verify pk h sg = false) ->
    add_signatures sigT der ecdsa_verify b sigs = None.
Proof. exact Proofs.C27.mismatched_signature_rejected_before_tx. Qed.
Print Assumptions mismatched_signature_rejected_before_tx.

(* ... and nothing is produced before ComputeSignatureHashes has run *)
Theorem no_hashes_no_tx :
  forall (sigT : Type) (der : sigT -> bytes) (ecdsa_verify : bytes -> sighash -> sigT -> bool)
         (b : builder) (sigs : list (sigT * bytes)),
    b_hashes b = [] -> add_signatures sigT der ecdsa_verify b sigs = None.
Proof. exact Proofs.C27.no_hashes_no_tx. Qed.
Print Assumptions no_hashes_no_tx.

(* Per input kind, the digest the builder computes ([expected_digest]): legacy algorithm for
   P2PKH / P2SH, BIP-143 for P2WPKH / P2WSH; script code = the P2PKH script of the key hash for
   both wallet kinds and the deposit script for both deposit kinds; the UTXO's own value;
   SIGHASH_ALL; over the skeleton with exactly the given outputs. *)
Theorem builder_digest_choice :
  forall (hash160 sha256 : bytes -> bytes),
    (forall x, length (hash160 x) = 20%nat) -> (forall x, length (sha256 x) = 32%nat) ->
    forall (ins : list winput) (outs : list (Z * bytes)) b b',
      Forall (fun w => wkind_wf (wi_kind w)) ins ->
      build (map (to_input hash160 sha256) ins) outs = Some b ->
      compute_hashes b = Some b' ->
      skeleton b' = skeleton b /\ tx_outs (skeleton b) = outs /\
      length (b_hashes b') = length ins /\
      forall i w, nth_error ins i = Some w ->
        nth_error (b_hashes b') i = Some (expected_digest (skeleton b) i w).
Proof. exact Proofs.C27.builder_digest_choice. Qed.
Print Assumptions builder_digest_choice.

(* Per input kind, where signature and key are put ([expected_signed_input]: scriptSig pushes for
   P2PKH / P2SH with an empty witness, witness stack for P2WPKH / P2WSH with an empty scriptSig,
   the deposit script last), and each signature was verified against the digest above. *)
Theorem signature_placement :
  forall (hash160 sha256 : bytes -> bytes)
         (sigT : Type) (der : sigT -> bytes) (ecdsa_verify : bytes -> sighash -> sigT -> bool),
    (forall x, length (hash160 x) = 20%nat) -> (forall x, length (sha256 x) = 32%nat) ->
    forall (ins : list winput) (outs : list (Z * bytes)) (sigs : list (sigT * bytes)) b b' tx,
      Forall (fun w => wkind_wf (wi_kind w)) ins ->
      build (map (to_input hash160 sha256) ins) outs = Some b ->
      compute_hashes b = Some b' ->
      add_signatures sigT der ecdsa_verify b' sigs = Some tx ->
      st_skel tx = skeleton b /\ length (st_ins tx) = length ins /\
      forall i w, nth_error ins i = Some w ->
        exists sg pk, nth_error sigs i = Some (sg, pk) /\
          ecdsa_verify pk (expected_digest (skeleton b) i w) sg = true /\
          ((2 <= length pk)%nat ->
           nth_error (st_ins tx) i = Some (expected_signed_input w (der sg ++ [sighash_all]) pk)).
Proof. exact Proofs.C27.signature_placement. Qed.
Print Assumptions signature_placement.

(* every well-formed list of such inputs is accepted by Add*Input (the premises [build = Some]
   above are not restrictive) *)
Theorem add_inputs_ok :
  forall hash160 sha256,
    (forall x, length (hash160 x) = 20%nat) -> (forall x, length (sha256 x) = 32%nat) ->
    forall ins b, Forall (fun w => wkind_wf (wi_kind w)) ins ->
      exists b', add_inputs b (map (to_input hash160 sha256) ins) = Some b'.
Proof. exact Proofs.C27.add_inputs_ok. Qed.
Print Assumptions add_inputs_ok.

(* ---- the executable form used by the correspondence check ---- *)
Theorem spec_ok_sound : forall c : tx_case,
    Concrete.spec_ok c = true ->
    tc_panic c = false /\
    (tc_expect_valid c = true -> tc_build_ok c = true ->
     tc_tx_produced c = true /\ forall ic, In ic (tc_ins c) -> ic_engine ic = Some true) /\
    (tc_must_reject c = true -> tc_tx_produced c = false).
Proof. exact Proofs.C27.spec_ok_sound. Qed.
Print Assumptions spec_ok_sound.

Theorem judge_agree_sound : forall c : tx_case,
    Concrete.judge c = Agree -> Concrete.spec_ok c = true /\ Concrete.agree c = true.
Proof. exact Proofs.C27.judge_agree_sound. Qed.
Print Assumptions judge_agree_sound.

(* the instance of the model that the check evaluates obeys the rejection theorem *)
Theorem concrete_model_rejects_mismatch : forall (c : tx_case) b,
    Concrete.model_hashes c = Some b ->
    (length (tc_sigs c) <> length (b_ins b) \/
     exists i h s, (i < length (b_ins b))%nat /\ nth_error (b_hashes b) i = Some h /\
                   nth_error (tc_sigs c) i = Some s /\
                   Concrete.ecdsa_verify c (so_pk s) h i = false) ->
    Concrete.model_tx c = None.
Proof. exact Proofs.C27.concrete_model_rejects_mismatch. Qed.
Print Assumptions concrete_model_rejects_mismatch.

(* ---- operation histories on ONE builder ----
   [hrun] runs a list of calls (HAddIn = AddPublicKeyHashInput / AddScriptHashInput, HAddOut,
   HCompute = ComputeSignatureHashes, HSign = AddSignatures) through the per-call step function
   [hstep] of the builder state record (inputs, sighash arguments, outputs, last computed hashes)
   and returns the final state and what every call returned.  [hist_ins] / [hist_outs] are the
   inputs the builder accepted / the outputs added by a list of calls; [tx_sighashes ins outs] are
   THE signature hashes of the unsigned transaction [tx_of ins outs]. *)

(* For EVERY history (any calls before, any calls after, including AddSignatures attempts that
   rewrote inputs in place): what a ComputeSignatureHashes call returns is exactly the signature
   hashes of the transaction as it is AT THAT CALL - a function of the inputs and outputs added so
   far, of nothing else (no fragment of an earlier computation survives). *)
Theorem history_sighashes_fresh :
  forall (sigT : Type) (der : sigT -> bytes) (ecdsa_verify : bytes -> sighash -> sigT -> bool)
         (pre post : list (hop sigT)) b rs,
    hrun sigT der ecdsa_verify new_builder (pre ++ HCompute :: post) = (b, rs) ->
    nth_error rs (length pre) =
    Some (match tx_sighashes (hist_ins sigT pre) (hist_outs sigT pre) with
          | Some hs => RHashes hs
          | None => RHashErr
          end).
Proof. exact Proofs.C27.history_sighashes_fresh. Qed.
Print Assumptions history_sighashes_fresh.

(* Any calls of Add*Input / AddOutput / ComputeSignatureHashes in any order and number, then a
   computation that returns hashes [hs] and AddSignatures right after it: [hs] are the hashes of
   the final transaction, the produced transaction is that transaction, and (wallet / deposit
   inputs, signatures by the committed keys, library premise as in all_inputs_accepted) the engine
   accepts every input. *)
Theorem history_signed_accepted :
  forall (hash160 sha256 : bytes -> bytes) (der_strict : bytes -> bool)
         (checksig : bytes -> bytes -> sighash -> bool)
         (sigT : Type) (der : sigT -> bytes) (ecdsa_verify : bytes -> sighash -> sigT -> bool),
    (forall x, length (hash160 x) = 20%nat) -> (forall x, length (sha256 x) = 32%nat) ->
    (forall pk h sg, ecdsa_verify pk h sg = true ->
                     sig_enc_ok der_strict (der sg) = true /\ checksig pk (der sg) h = true) ->
    forall (pre : list (hop sigT)) (wins : list winput) (sigs : list (sigT * bytes)) b rs hs tx,
      Forall (fun o => is_sign sigT o = false) pre ->
      hist_ins sigT pre = map (to_input hash160 sha256) wins ->
      Forall (fun w => wkind_wf (wi_kind w)) wins ->
      hrun sigT der ecdsa_verify new_builder (pre ++ [HCompute; HSign sigs]) = (b, rs) ->
      nth_error rs (length pre) = Some (RHashes hs) ->
      nth_error rs (S (length pre)) = Some (RTx tx) ->
      (forall i w sg pk, nth_error wins i = Some w -> nth_error sigs i = Some (sg, pk) ->
                         compressed_pk pk = true /\ hash160 pk = committed_pkh (wi_kind w)) ->
      tx_sighashes (hist_ins sigT pre) (hist_outs sigT pre) = Some hs /\
      st_skel tx = tx_of (hist_ins sigT pre) (hist_outs sigT pre) /\
      forall i w, nth_error wins i = Some w ->
        exists si, nth_error (st_ins tx) i = Some si /\
          verify_input hash160 sha256 der_strict checksig (st_skel tx) i
                       (si_script si) (si_witness si)
                       (in_script (to_input hash160 sha256 w)) (u_value (wi_utxo w)) = Accept.
Proof. exact Proofs.C27.history_signed_accepted. Qed.
Print Assumptions history_signed_accepted.

(* Something added AFTER the last computation, code as written.
   An input: AddSignatures never produces a transaction (it compares the count with the current
   inputs and then indexes the stored, shorter list: a refusal or a run-time panic). *)
Theorem input_after_computation_no_tx :
  forall (sigT : Type) (der : sigT -> bytes) (ecdsa_verify : bytes -> sighash -> sigT -> bool)
         (pre mid : list (hop sigT)) sigs b rs,
    Forall (fun o => is_compute sigT o = false) mid ->
    hist_ins sigT mid <> [] ->
    hrun sigT der ecdsa_verify new_builder (pre ++ mid ++ [HSign sigs]) = (b, rs) ->
    exists r, nth_error rs (length pre + length mid) = Some r /\ forall tx, r <> RTx tx.
Proof. exact Proofs.C27.input_after_computation_no_tx. Qed.
Print Assumptions input_after_computation_no_tx.

(* An output: AddSignatures verifies the STORED hashes (it recomputes nothing), so signatures over
   the last computation still yield a transaction - which now has the extra output and whose
   input the engine rejects.  The unrestricted claim "a produced transaction validates" is
   therefore false for such histories; witness (the library premise holds of the instance). *)
Theorem output_after_computation_refuted :
  (forall pk h sg, StaleWitness.ev pk h sg = true ->
                   sig_enc_ok Witness.yes1 (Witness.der sg) = true /\
                   StaleWitness.cs pk (Witness.der sg) h = true) /\
  exists b rs tx si,
    hrun unit Witness.der StaleWitness.ev new_builder StaleWitness.hist = (b, rs) /\
    nth_error rs 4 = Some (RTx tx) /\ nth_error (st_ins tx) 0 = Some si /\
    length (tx_outs (st_skel tx)) = 2%nat /\
    verify_input Witness.h160 Witness.s256 Witness.yes1 StaleWitness.cs (st_skel tx) 0
                 (si_script si) (si_witness si)
                 (in_script (to_input Witness.h160 Witness.s256 StaleWitness.w))
                 (u_value (wi_utxo StaleWitness.w)) = Reject.
Proof. exact Proofs.C27.output_after_computation_refuted. Qed.
Print Assumptions output_after_computation_refuted.

(* executable form for history cases *)
Theorem hist_spec_ok_sound : forall c : hist_case,
    Hist.spec_ok c = true ->
    (hc_expect_valid c = true ->
     Hist.last_is_tx (hc_obs c) = true /\ hc_final c <> [] /\
     forall fi, In fi (hc_final c) -> fi_engine fi = Some true) /\
    (hc_must_reject c = true -> Hist.last_is_tx (hc_obs c) = false) /\
    (In BPanic (hc_obs c) -> Hist.input_after_compute (hc_ops c) (hc_obs c) false = true).
Proof. exact Proofs.C27.hist_spec_ok_sound. Qed.
Print Assumptions hist_spec_ok_sound.

Theorem judge_any_agree_sound : forall c : any_case,
    judge_any c = Agree ->
    match c with
    | CTx c => Concrete.spec_ok c = true /\ Concrete.agree c = true
    | CHist c => Hist.spec_ok c = true /\ Hist.agree c = true
    end.
Proof. exact Proofs.C27.judge_any_agree_sound. Qed.
Print Assumptions judge_any_agree_sound.
