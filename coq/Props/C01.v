(* C01 — Beacon DKG: honest members agree on the group key and on who misbehaved.
   ONLY property statements; proofs are in Proofs/C01.v. *)
From Coq Require Import ZArith NArith List Bool.
From KV Require Import Common.Verdict Model.C01 Proofs.C01.
Import ListNotations.
Open Scope N_scope.

(* Soundness of the executable property evaluated on the implementation's observables. *)
Theorem spec01_sound :
  forall cs, spec01 cs = true -> covered (c_in cs) = true ->
    obs_agreement (c_obs cs) /\ obs_never_marked (honest_ids (c_in cs)) (c_obs cs).
Proof. exact Proofs.C01.spec01_sound. Qed.
Print Assumptions spec01_sound.
