(* C01 — Beacon DKG (pkg/beacon/gjkr): honest members agree on the group key and on who misbehaved;
   no honest member is ever marked inactive/disqualified by an honest member.
   ONLY property statements; proofs are in Proofs/C01.v.

   THE FULL STATEMENT (DESIGN.md section 6, C01), which is FALSE of the code as it is written, also
   after fix commits 852aee9 and 4ad62fd (see [agreement_refuted] below and findings/C01.json):

     forall i : input, well-formed i -> covered i (at most t corrupt seats) ->
       agreement (run i) /\ never_marked (honest_ids i) (run i)

   where [run] is the model of the twelve phases in Model/C01.v under an arbitrary adversary script
   and arbitrary per-member arrival orders.  What is proved instead (all closed, no axioms):
     1. soundness of the executable property [spec01] that every run of ./check evaluates on the
        REAL implementation's outputs;
     2. the refutation, with a concrete input;
     3. `_partial` results over all inputs: the inactivity half of the property per phase
        (a member whose message arrived is never marked inactive, a silent member is marked by
        everybody), irrelevance of the cross-sender interleaving for deduplicateBySender, arrival
        orders deliver exactly the published messages, and honest shares / points pass the receivers'
        checks.  Missing for the full statement: the referee argument for the disqualification
        steps of phases 2, 4/5, 8/9, 11 (which is exactly where the three recorded findings live)
        and the reconstruction (Lagrange) argument for the group key.
     4. END-TO-END agreement about [run] for CRASH (fail-silent) adversaries (section 4 below): every
        n, t, polynomials, arrival interleaving and any number of seats that stop at a phase outside
        4..7 (no faults / silent from the first phase / crash before sharing or after publishing
        points).  Open: seats that crash in phases 4..7 (reconstruction in phases 10-12); phase 12 is
        proved in general in Proofs/C01_crash_key.v (T12), phase 11's nested fold invariant is not. *)
From Coq Require Import ZArith NArith List Bool Permutation.
From KV Require Import Common.Verdict Model.C01 Model.C01_crash Proofs.C01 Proofs.C01_crash.
Import ListNotations.
Open Scope N_scope.

(* ---- 1. soundness of the executable property on the implementation's observables ---- *)
Theorem spec01_sound :
  forall cs, spec01 cs = true -> covered (c_in cs) = true ->
    obs_agreement (c_obs cs) /\ obs_never_marked (honest_ids (c_in cs)) (c_obs cs).
Proof. exact Proofs.C01.spec01_sound. Qed.
Print Assumptions spec01_sound.

(* ---- 2. the faithful model violates the full statement (finding C01-f; C01-g is its phase-8 form) ---- *)
Theorem agreement_refuted :
  exists i : input,
    well_formed {| c_in := i; c_obs := map (fun h => (h_id h, OFailed)) (i_honest i) |} = true /\
    corrupt_count i = 2 /\ covered i = true /\
    ~ agreement (run i) /\ ~ never_marked (honest_ids i) (run i).
Proof. exact Proofs.C01.agreement_refuted. Qed.
Print Assumptions agreement_refuted.

(* ---- 3. partial results, over all configurations, states, adversary messages and orders ---- *)

(* MarkInactiveMembers, exactly: the new inactive members are the operating members other than
   the member itself that are not in the list of senders heard; DQ list and identity untouched *)
Theorem mark_inactive_spec_partial :
  forall c active s,
    (forall m, In m (ia (mark_inactive c active s)) <->
               In m (ia s) \/ (is_operating c s m = true /\ m <> me s /\ ~ In m active))
    /\ dq (mark_inactive c active s) = dq s /\ me (mark_inactive c active s) = me s.
Proof. exact Proofs.C01.mark_inactive_spec. Qed.
Print Assumptions mark_inactive_spec_partial.

(* every message of the phase's type that arrives from an accepted sender reaches the inbox,
   whatever else arrives before or after it *)
Theorem delivered_partial :
  forall c p L s m,
    In m L -> kind_ok p (payload m) = true ->
    accepts c s (msg_sender (payload m)) (msg_sess (payload m)) (from_key m) = true ->
    inbox_has (payload m) (fold_left (receive c p) L s).
Proof. exact Proofs.C01.delivered. Qed.
Print Assumptions delivered_partial.

(* never-marked, inactivity half: a member whose message arrived is not marked inactive by the
   receiver in that phase (phases 2, 5, 8, 9, 11; [actives p] is the list the phase hands to
   MarkInactiveMembers, see [phases_mark_inactive_first]) *)
Theorem arrived_not_marked_inactive_partial :
  forall c p L s m,
    In m L -> kind_ok p (payload m) = true -> p <> 3 ->
    accepts c s (msg_sender (payload m)) (msg_sess (payload m)) (from_key m) = true ->
    ~ In (msg_sender (payload m))
         (ia (mark_inactive c (actives p (fold_left (receive c p) L s)) (fold_left (receive c p) L s))).
Proof. exact Proofs.C01.arrived_not_marked_inactive. Qed.
Print Assumptions arrived_not_marked_inactive_partial.

(* the same for phase 4, which needs the shares AND the commitments message of the sender *)
Theorem arrived_not_marked_inactive_phase4_partial :
  forall c L s m1 m2 a ss1 ss2 sh cs,
    In m1 L -> In m2 L -> payload m1 = Shares a ss1 sh -> payload m2 = Commits a ss2 cs ->
    accepts c s a ss1 (from_key m1) = true -> accepts c s a ss2 (from_key m2) = true ->
    ~ In a (ia (mark_inactive c (actives 3 (fold_left (receive c 3) L s)) (fold_left (receive c 3) L s))).
Proof. exact Proofs.C01.arrived_not_marked_inactive_phase4. Qed.
Print Assumptions arrived_not_marked_inactive_phase4_partial.

(* agreement, inactivity half: an operating member that nobody heard is marked inactive by every
   receiver alike *)
Theorem silent_marked_inactive_partial :
  forall c p s a,
    is_operating c s a = true -> a <> me s -> ~ In a (actives p s) ->
    In a (ia (mark_inactive c (actives p s) s)).
Proof. exact Proofs.C01.silent_marked_inactive. Qed.
Print Assumptions silent_marked_inactive_partial.

(* the phases start with MarkInactiveMembers on exactly that list *)
Theorem phases_mark_inactive_first :
  forall c s,
    phase2 c s = fold_left (phase2_step c) (dedup (in_eph (mark_inactive c (actives 1 s) s))) (mark_inactive c (actives 1 s) s)
    /\ phase5 c s = fst (fold_left (fun sb m => fold_left (resolve5 c (fst m)) (snd m) sb)
                                   (dedup (in_sacc (mark_inactive c (actives 4 s) s))) (mark_inactive c (actives 4 s) s, false))
    /\ phase9 c s = fst (fold_left (fun sb m => fold_left (resolve9 c (fst m)) (snd m) sb)
                                   (dedup (in_pacc (mark_inactive c (actives 8 s) s))) (mark_inactive c (actives 8 s) s, false)).
Proof. exact Proofs.C01.phases_mark_inactive_first. Qed.
Print Assumptions phases_mark_inactive_first.

(* deduplicateBySender keeps exactly the first message of every sender ... *)
Theorem dedup_first_message_wins :
  forall A (l : list (N * A)) s v, In (s, v) (dedup l) <-> lookup s l = Some v.
Proof. exact Proofs.C01.dedup_In. Qed.
Print Assumptions dedup_first_message_wins.

(* ... so two arrival orders with the same per-sender subsequences (consistent broadcast) give the
   same deduplicated messages, up to order *)
Theorem dedup_interleaving_irrelevant :
  forall A (l1 l2 : list (N * A)), same_per_sender l1 l2 -> Permutation (dedup l1) (dedup l2).
Proof. exact Proofs.C01.dedup_interleaving_irrelevant. Qed.
Print Assumptions dedup_interleaving_irrelevant.

(* an arrival order that is a permutation delivers exactly the published messages *)
Theorem arrival_delivers_all :
  forall A (all : list A) perm x,
    is_perm (length all) perm = true -> (In x (arrival all perm) <-> In x all).
Proof. exact Proofs.C01.arrival_In. Qed.
Print Assumptions arrival_delivers_all.

(* what an honest member publishes in phases 3 and 7 passes the receivers' checks of phases 4
   and 8/9, for every modulus, polynomial and receiver: no honest member can be accused with reason *)
Theorem honest_shares_valid :
  forall qq a b j,
    length a = length b -> a <> [] -> valid_g1 qq (eval qq a j) (eval qq b j) (combine a b) j = true.
Proof. exact Proofs.C01.honest_shares_valid. Qed.
Print Assumptions honest_shares_valid.

Theorem honest_points_valid :
  forall qq a j, a <> [] -> valid_g2 qq j (eval qq a j) a = true.
Proof. exact Proofs.C01.honest_points_valid. Qed.
Print Assumptions honest_points_valid.

(* one sending step of [run] ([exchange], phases 1,3,4,7,8,10): a message published by a live
   honest member reaches the inbox of every live honest member that accepts the sender, under any
   adversary messages and any permutation arrival order, and (single-message phases) that receiver
   does not mark the sender inactive at the start of the next phase *)
Theorem exchange_delivers_partial :
  forall c sc p f adv sts sd rc x,
    In sd sts -> In rc sts ->
    failed sd = false -> failed (fst (f sd)) = false -> In x (snd (f sd)) ->
    failed rc = false -> failed (fst (f rc)) = false ->
    kind_ok p x = true ->
    is_perm (length (published c f adv sts))
            (order_for sc (me (fst (f rc))) p (length (published c f adv sts))) = true ->
    accepts c (fst (f rc)) (msg_sender x) (msg_sess x) (from_key (wrap c x)) = true ->
    exists rc', In rc' (exchange c sc p f adv sts) /\ me rc' = me (fst (f rc)) /\ inbox_has x rc'
                /\ (p <> 3 -> ~ In (msg_sender x) (ia (mark_inactive c (actives p rc') rc'))).
Proof. exact Proofs.C01.exchange_delivers. Qed.
Print Assumptions exchange_delivers_partial.

(* ---- 4. END-TO-END agreement for CRASH (fail-silent) adversaries ----
   The adversary class (Model/C01_crash.v): the adversary holds the seats [cs]; each of them runs the
   honest phase functions on its own polynomials and with its own arrival orders up to its crash
   phase [cr_from] and publishes nothing from that phase on.  [crash_adversary c honest cs sc] says
   that [sc] is exactly the script such seats publish (computed by the joint run of all seats);
   [crash_orders_ok] that every arrival order of every live seat is a permutation of the messages
   published in the phase; [seats_ok] that honest and crashing seats together are the n seats of
   the group, each with polynomials of t+1 coefficients.  Every group size, threshold, modulus,
   polynomials, crash phases and arrival interleaving. *)

(* stages (i)+(ii): no seat crashes in phases 4..7 (after distributing shares, before publishing its
   public key share points); in particular no faults at all, or seats silent from the first phase.
   ALL honest members finish, with the inactive list [crash_inactive] (the crashed seats, in the
   order they fell silent), no disqualified member, and the group key [crash_key] (the sum of the
   constant coefficients of the seats not silent before phase 4).  No bound on the number of
   crashing seats is needed for this class. *)
Theorem crash_run_early_or_late :
  forall c honest cs sc,
    length (ops c) = N.to_nat (gn c) -> (0 < q c)%Z -> seats_ok c honest cs ->
    (forall x, In x cs -> cr_from x <= 3 \/ 7 < cr_from x) ->
    crash_adversary c honest cs sc -> crash_orders_ok c honest cs sc ->
    let r := run {| i_cfg := c; i_honest := honest; i_script := sc |} in
    map fst r = map h_id honest /\
    forall m o, In (m, o) r ->
      exists sh ps, o = Finished (crash_inactive c (crash_from cs)) []
                                 (crash_key c (crash_from cs) (coef_of (honest ++ map cr_member cs))) sh ps.
Proof. exact Proofs.C01_crash.crash_run_early_or_late. Qed.
Print Assumptions crash_run_early_or_late.

(* ... hence the property: same key, same IA+DQ set, no honest member marked, nobody fails *)
Theorem agreement_crash_early_or_late :
  forall c honest cs sc,
    length (ops c) = N.to_nat (gn c) -> (0 < q c)%Z -> seats_ok c honest cs ->
    (forall x, In x cs -> cr_from x <= 3 \/ 7 < cr_from x) ->
    crash_adversary c honest cs sc -> crash_orders_ok c honest cs sc ->
    let i := {| i_cfg := c; i_honest := honest; i_script := sc |} in
    agreement (run i) /\ never_marked (honest_ids i) (run i)
    /\ (forall m o, In (m, o) (run i) -> o <> Failed) /\ map fst (run i) = honest_ids i.
Proof. exact Proofs.C01_crash.agreement_crash_early_or_late. Qed.
Print Assumptions agreement_crash_early_or_late.

(* stage (i) on its own: no faults at all (every seat honest) *)
Theorem agreement_no_faults :
  forall c honest sc,
    length (ops c) = N.to_nat (gn c) -> (0 < q c)%Z -> seats_ok c honest [] ->
    crash_adversary c honest [] sc -> crash_orders_ok c honest [] sc ->
    let r := run {| i_cfg := c; i_honest := honest; i_script := sc |} in
    map fst r = map h_id honest /\
    forall m o, In (m, o) r ->
      exists sh ps, o = Finished [] [] (crash_key c (crash_from []) (coef_of (honest ++ []))) sh ps.
Proof.
  intros c honest sc H1 H2 H3 H4 H5.
  exact (Proofs.C01_crash.no_faults_run' c honest sc H1 H2 H3 H4 H5).
Qed.
Print Assumptions agreement_no_faults.

(* non-vacuity: n = 5, t = 2, BN254 order, honest seats 2,3,4, seat 1 silent from phase 1, seat 5
   silent from phase 8: the script is in the class and [run] gives the stated outcome *)
Theorem crash_early_or_late_nonvacuous :
  seats_ok wit_cfg ex_honest (ex_cs 8) /\ (forall x, In x (ex_cs 8) -> cr_from x <= 3 \/ 7 < cr_from x)
  /\ crash_adversary wit_cfg ex_honest (ex_cs 8) (ex_script 8)
  /\ crash_orders_ok wit_cfg ex_honest (ex_cs 8) (ex_script 8)
  /\ adv7 (ex_script 8) = [wrap wit_cfg (Points 5 1 wit_a5)] /\ adv8 (ex_script 8) = []
  /\ run {| i_cfg := wit_cfg; i_honest := ex_honest; i_script := ex_script 8 |}
     = [(2, Finished [1; 5] [] 95 701 [(3, 1304%Z); (4, 2107%Z)]);
        (3, Finished [1; 5] [] 95 1304 [(2, 701%Z); (4, 2107%Z)]);
        (4, Finished [1; 5] [] 95 2107 [(2, 701%Z); (3, 1304%Z)])].
Proof. exact Proofs.C01_crash.crash_early_or_late_example. Qed.
Print Assumptions crash_early_or_late_nonvacuous.
