(* C01 — Beacon DKG: honest members agree on the group key and on who misbehaved.
   ONLY property statements; proofs are in Proofs/C01.v. *)
From Coq Require Import ZArith NArith List Bool.
From KV Require Import Common.Verdict Model.C01 Proofs.C01.
Import ListNotations.
Open Scope N_scope.

Theorem dedup_nil : forall A, @dedup A [] = [].
Proof. exact Proofs.C01.placeholder_dedup_nil. Qed.
Print Assumptions dedup_nil.
