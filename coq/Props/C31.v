(* C31 — Assembled SPV proofs prove the transaction.
   ONLY property statements; proofs are in Proofs/C31.v.
   [assemble] is the model of AssembleSpvProof (Model/C31.v), [verify] the independent verifier
   (Merkle path with position bits against the first header's root, coinbase preimage and proof
   at position 0, equal proof lengths, 80-byte headers linked by previous-hash, required length).
   SHA-256 and all six chain queries are universally quantified; the first argument of a query is
   its sequence number, so the answers may come from a chain that grew between any two queries. *)
From Coq Require Import ZArith NArith List Bool.
From KV Require Import Model.C31 Proofs.C31.
Import ListNotations.

(* 1. MAIN THEOREM.  For every hash function, every server whose answers satisfy the oracle
   assumptions below, every transaction hash [x], every required count and every starting
   time: if assembly returns a proof, the independent verifier accepts it, and the proof's
   headers are [required] served headers of consecutive heights starting at a height [i] for
   which the server produced a Merkle branch of [x] (the transaction's block), the stated
   index being that branch's position. *)
Theorem assemble_sound :
  forall (sha256 : bytes -> bytes)
         (q_conf : nat -> bytes -> option Z) (q_tx : nat -> bytes -> option bytes)
         (q_latest : nat -> option Z) (q_header : nat -> Z -> option header)
         (q_merkle : nat -> bytes -> Z -> option merkle_branch) (q_cb : nat -> Z -> option bytes)
         (depth : Z -> nat) (t0 : nat) (x : bytes) (required : Z) (p : proof),
    (* -- oracle assumptions -- *)
    (* served headers carry 32-byte hashes ([32]byte in Go) *)
    (forall t i hd, q_header t i = Some hd ->
                    length (h_prev hd) = 32%nat /\ length (h_root hd) = 32%nat) ->
    (* headers served (at any two times) for consecutive heights are linked: no reorganisation *)
    (forall t t' i a b, q_header t i = Some a -> q_header t' (i + 1)%Z = Some b ->
                        h_prev b = sha256d sha256 (ser_header a)) ->
    (* get_merkle(x, i) succeeds only if x is in block i: the served nodes are the byte-reversed
       32-byte siblings that hash x up to the root of the header served for height i along the
       bits of the served position, which are all consumed; branches of one block have one depth *)
    (forall t t' x i br hd, q_merkle t x i = Some br -> q_header t' i = Some hd ->
       exists sibs : list bytes,
         mb_nodes br = map (fun s => Some (rev s)) sibs /\
         Forall (fun s : bytes => length s = 32%nat) sibs /\
         length sibs = depth i /\ (0 <= mb_pos br)%Z /\
         merkle_fold sha256 x sibs (mb_pos br) = (h_root hd, 0%Z)) ->
    (forall t x i br, q_merkle t x i = Some br -> (0 <= i < 2 ^ 63)%Z) ->
    (* the coinbase hash served for block i is the transaction at position 0 *)
    (forall t t' i c br, q_cb t i = Some c -> q_merkle t' c i = Some br -> mb_pos br = 0%Z) ->
    (* GetTransaction(c) returns the transaction whose hash is c *)
    (forall t c ser, q_tx t c = Some ser -> sha256d sha256 ser = c) ->
    (* -- guard -- *)
    (1 <= required < 2 ^ 63)%Z ->
    assemble sha256 q_conf q_tx q_latest q_header q_merkle q_cb t0 x required = Assembled p ->
    verify sha256 x required p = true /\
    exists (i : Z) (hds : list header),
      Z.of_nat (length hds) = required /\
      p_headers p = concat (map ser_header hds) /\
      (forall k hd, nth_error hds k = Some hd -> exists t, q_header t (i + Z.of_nat k)%Z = Some hd) /\
      (exists t br, q_merkle t x i = Some br /\ p_index p = mb_pos br).
Proof.
  intros sha256 q_conf q_tx q_latest q_header q_merkle q_cb depth t0 x required p H1 H2 H3 H4 H5 H6.
  exact (Proofs.C31.assemble_sound sha256 q_conf q_tx q_latest q_header q_merkle q_cb depth t0 x required p
           (conj H1 (conj H2 (conj H3 (conj H4 (conj H5 H6)))))).
Qed.
Print Assumptions assemble_sound.

(* 2. no proof without enough confirmations, whatever the server answers afterwards *)
Theorem assemble_insufficient :
  forall (sha256 : bytes -> bytes)
         (q_conf : nat -> bytes -> option Z) (q_tx : nat -> bytes -> option bytes)
         (q_latest : nat -> option Z) (q_header : nat -> Z -> option header)
         (q_merkle : nat -> bytes -> Z -> option merkle_branch) (q_cb : nat -> Z -> option bytes)
         (t0 : nat) (x : bytes) (required : Z),
    match q_conf t0 x with
    | None => assemble sha256 q_conf q_tx q_latest q_header q_merkle q_cb t0 x required = Failed
    | Some conf => (conf < required)%Z ->
                   assemble sha256 q_conf q_tx q_latest q_header q_merkle q_cb t0 x required
                   = NotEnoughConfirmations
    end.
Proof. exact Proofs.C31.assemble_insufficient. Qed.
Print Assumptions assemble_insufficient.

Theorem assembled_has_confirmations :
  forall (sha256 : bytes -> bytes)
         (q_conf : nat -> bytes -> option Z) (q_tx : nat -> bytes -> option bytes)
         (q_latest : nat -> option Z) (q_header : nat -> Z -> option header)
         (q_merkle : nat -> bytes -> Z -> option merkle_branch) (q_cb : nat -> Z -> option bytes)
         (t0 : nat) (x : bytes) (required : Z) (p : proof),
    assemble sha256 q_conf q_tx q_latest q_header q_merkle q_cb t0 x required = Assembled p ->
    exists conf, q_conf t0 x = Some conf /\ (required <= conf)%Z.
Proof. exact Proofs.C31.assembled_has_confirmations. Qed.
Print Assumptions assembled_has_confirmations.

(* 3. The oracle assumptions are what an honest server over a GROWING chain provides.  For
   every hash function with 32-byte outputs, every chain built from raw blocks (each with at
   least its coinbase; header roots and previous-hashes computed by Bitcoin's rules, odd Merkle
   levels repeating their last node), and EVERY visibility schedule [vis] (query number t sees
   the first [vis t] blocks: any growth between any two queries), a proof assembled against
   that server is accepted by the verifier, its first header is the header of a block of the
   chain that contains the transaction at the stated index. *)
Theorem honest_assemble_sound :
  forall (sha256 : bytes -> bytes),
    (forall b, length (sha256 b) = 32%nat) ->
    forall (prev0 : bytes) (raws : list raw_block) (vis : nat -> nat),
      length prev0 = 32%nat ->
      Forall (fun rb => rb_txs rb <> []) raws ->
      (Z.of_nat (length raws) < 2 ^ 63)%Z ->
      forall (t0 : nat) (x : bytes) (required : Z) (p : proof),
        (1 <= required < 2 ^ 63)%Z ->
        honest_assemble sha256 (build sha256 prev0 raws) vis t0 x required = Assembled p ->
        verify sha256 x required p = true /\
        exists (i : Z) (b : block) (rest : bytes),
          nth_error (build sha256 prev0 raws) (Z.to_nat i) = Some b /\ (0 <= i)%Z /\
          nth_error (b_ids b) (Z.to_nat (p_index p)) = Some x /\
          p_headers p = ser_header (b_hdr b) ++ rest.
Proof. exact Proofs.C31.honest_assemble_sound. Qed.
Print Assumptions honest_assemble_sound.

(* 4. Merkle branches: for every list of leaves and every position, hashing the leaf with the
   siblings of [branch] along the bits of the position gives the Merkle root and consumes
   every bit of the position (so the path length is the tree depth, ceil(log2 size)) *)
Theorem merkle_branch_correct :
  forall (sha256 : bytes -> bytes),
    (forall b, length (sha256 b) = 32%nat) ->
    forall (l : list bytes) (p : nat),
      (p < length l)%nat ->
      merkle_fold sha256 (nth p l []) (branch sha256 p l) (Z.of_nat p) = (merkle_root sha256 l, 0%Z).
Proof.
  intros sha256 H l p Hp. exact (Proofs.C31.branch_fold sha256 H (length l) l p Hp (le_n _)).
Qed.
Print Assumptions merkle_branch_correct.

(* 5. the executable verifier is sound for the Prop reading of the property: required >= 1
   headers of 80 bytes, the Merkle path leads from the transaction hash to the first header's
   root along the bits of the stated index (all consumed), the coinbase preimage hashes to a
   leaf that leads to the same root at position 0 through a path of the same length, and every
   header's previous-hash field is the double SHA-256 of the header before it *)
Theorem verify_sound :
  forall (sha256 : bytes -> bytes) (x : bytes) (required : Z) (p : proof),
    verify sha256 x required p = true ->
    (1 <= required)%Z /\ Z.of_nat (length (p_headers p)) = (80 * required)%Z /\
    exists h0 rest,
      chunks 80 (p_headers p) = h0 :: rest /\
      (0 <= p_index p)%Z /\
      merkle_fold sha256 x (chunks 32 (p_merkle p)) (p_index p) = (hdr_root h0, 0%Z) /\
      merkle_fold sha256 (sha256 (p_cb_preimage p)) (chunks 32 (p_cb_proof p)) 0 = (hdr_root h0, 0%Z) /\
      length (p_merkle p) = length (p_cb_proof p) /\
      linked_prop sha256 (h0 :: rest).
Proof. exact Proofs.C31.verify_sound. Qed.
Print Assumptions verify_sound.

(* 6. ... and it holds of every proof the per-run model ([Concrete.run]: the honest server with
   the case's chain shape and growth schedule) produces *)
Theorem concrete_run_verifies :
  forall (c : case) (p : proof),
    Concrete.well_formed c = true -> (1 <= c_required c)%Z ->
    Concrete.run c = Assembled p ->
    verify Concrete.toy (Concrete.txid_of c) (c_required c) p = true.
Proof. exact Proofs.C31.concrete_run_verifies. Qed.
Print Assumptions concrete_run_verifies.
