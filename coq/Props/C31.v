(* C31 — Assembled SPV proofs prove the transaction.
   ONLY property statements; proofs are in Proofs/C31.v.
   [assemble] is the model of AssembleSpvProof (Model/C31.v), [verify] the independent verifier
   (Merkle path with position bits against the first header's root, coinbase preimage and proof
   at position 0, equal proof lengths, 80-byte headers linked by previous-hash, required length).
   SHA-256 and all six chain queries are universally quantified; the first argument of a query is
   its sequence number, so the answers may come from a chain that grew between any two queries. *)
From Coq Require Import ZArith NArith List Bool.
From KV Require Import Model.C31 Proofs.C31.
Import ListNotations.

(* 1. MAIN THEOREM.  For every hash function, every server whose answers satisfy the oracle
   assumptions below, every transaction hash [x], every required count and every starting
   time: if assembly returns a proof, the independent verifier accepts it, and the proof's
   headers are [required] served headers of consecutive heights starting at a height [i] for
   which the server produced a Merkle branch of [x] (the transaction's block), the stated
   index being that branch's position. *)
Theorem assemble_sound :
  forall (sha256 : bytes -> bytes)
         (q_conf : nat -> bytes -> option Z) (q_tx : nat -> bytes -> option bytes)
         (q_latest : nat -> option Z) (q_header : nat -> Z -> option header)
         (q_merkle : nat -> bytes -> Z -> option merkle_branch) (q_cb : nat -> Z -> option bytes)
         (depth : Z -> nat) (t0 : nat) (x : bytes) (required : Z) (p : proof),
    (* -- oracle assumptions -- *)
    (* served headers carry 32-byte hashes ([32]byte in Go) *)
    (forall t i hd, q_header t i = Some hd ->
                    length (h_prev hd) = 32%nat /\ length (h_root hd) = 32%nat) ->
    (* headers served (at any two times) for consecutive heights are linked: no reorganisation *)
    (forall t t' i a b, q_header t i = Some a -> q_header t' (i + 1)%Z = Some b ->
                        h_prev b = sha256d sha256 (ser_header a)) ->
    (* get_merkle(x, i) succeeds only if x is in block i: the served nodes are the byte-reversed
       32-byte siblings that hash x up to the root of the header served for height i along the
       bits of the served position, which are all consumed; branches of one block have one depth *)
    (forall t t' x i br hd, q_merkle t x i = Some br -> q_header t' i = Some hd ->
       exists sibs : list bytes,
         mb_nodes br = map (fun s => Some (rev s)) sibs /\
         Forall (fun s : bytes => length s = 32%nat) sibs /\
         length sibs = depth i /\ (0 <= mb_pos br)%Z /\
         merkle_fold sha256 x sibs (mb_pos br) = (h_root hd, 0%Z)) ->
    (forall t x i br, q_merkle t x i = Some br -> (0 <= i < 2 ^ 63)%Z) ->
    (* the coinbase hash served for block i is the transaction at position 0 *)
    (forall t t' i c br, q_cb t i = Some c -> q_merkle t' c i = Some br -> mb_pos br = 0%Z) ->
    (* GetTransaction(c) returns the transaction whose hash is c *)
    (forall t c ser, q_tx t c = Some ser -> sha256d sha256 ser = c) ->
    (* -- guard -- *)
    (1 <= required < 2 ^ 63)%Z ->
    assemble sha256 q_conf q_tx q_latest q_header q_merkle q_cb t0 x required = Assembled p ->
    verify sha256 x required p = true /\
    exists (i : Z) (hds : list header),
      Z.of_nat (length hds) = required /\
      p_headers p = concat (map ser_header hds) /\
      (forall k hd, nth_error hds k = Some hd -> exists t, q_header t (i + Z.of_nat k)%Z = Some hd) /\
      (exists t br, q_merkle t x i = Some br /\ p_index p = mb_pos br).
Proof.
  intros sha256 q_conf q_tx q_latest q_header q_merkle q_cb depth t0 x required p H1 H2 H3 H4 H5 H6.
  exact (Proofs.C31.assemble_sound sha256 q_conf q_tx q_latest q_header q_merkle q_cb depth t0 x required p
           (conj H1 (conj H2 (conj H3 (conj H4 (conj H5 H6)))))).
Qed.
Print Assumptions assemble_sound.

(* 2. no proof without enough confirmations, whatever the server answers afterwards *)
Theorem assemble_insufficient :
  forall (sha256 : bytes -> bytes)
         (q_conf : nat -> bytes -> option Z) (q_tx : nat -> bytes -> option bytes)
         (q_latest : nat -> option Z) (q_header : nat -> Z -> option header)
         (q_merkle : nat -> bytes -> Z -> option merkle_branch) (q_cb : nat -> Z -> option bytes)
         (t0 : nat) (x : bytes) (required : Z),
    match q_conf t0 x with
    | None => assemble sha256 q_conf q_tx q_latest q_header q_merkle q_cb t0 x required = Failed
    | Some conf => (conf < required)%Z ->
                   assemble sha256 q_conf q_tx q_latest q_header q_merkle q_cb t0 x required
                   = NotEnoughConfirmations
    end.
Proof. exact Proofs.C31.assemble_insufficient. Qed.
Print Assumptions assemble_insufficient.

Theorem assembled_has_confirmations :
  forall (sha256 : bytes -> bytes)
         (q_conf : nat -> bytes -> option Z) (q_tx : nat -> bytes -> option bytes)
         (q_latest : nat -> option Z) (q_header : nat -> Z -> option header)
         (q_merkle : nat -> bytes -> Z -> option merkle_branch) (q_cb : nat -> Z -> option bytes)
         (t0 : nat) (x : bytes) (required : Z) (p : proof),
    assemble sha256 q_conf q_tx q_latest q_header q_merkle q_cb t0 x required = Assembled p ->
    exists conf, q_conf t0 x = Some conf /\ (required <= conf)%Z.
Proof. exact Proofs.C31.assembled_has_confirmations. Qed.
Print Assumptions assembled_has_confirmations.
