(* C03 — Threshold BLS recovery yields the unique group signature.
   ONLY property statements; proofs are in Proofs/C03*.v.
   Group elements are discrete logarithms modulo the group order r (Model/C03.v): the group
   signature on the message point M is f(0) * M, i.e. the logarithm f(0) mod r, and
   VerifyG1(pk, M, sig) is equality of logarithms mod r.  [eval cs x] is the polynomial of
   GetSecretKeyShare (cs = masterSecretKey), [nth 0 cs 0] = f(0) the group secret. *)
From Coq Require Import ZArith Znumtheory NArith List Permutation.
From KV Require Import Common.Verdict Model.C03 Proofs.C03.
Import ListNotations.
Open Scope Z_scope.

(* Main theorem.  For a prime group order, ANY share slice — any subset of members, in any
   order, with nil entries, nil values and negative indices anywhere — whose usable entries are
   correctly computed shares f(i) with pairwise distinct indices, at least [threshold] of them,
   for a polynomial with at most [threshold] coefficients: RecoverSignature and RecoverPublicKey
   return f(0) (times the base point) — never an error, never a panic. *)
Theorem recover_unique :
  forall r, prime r ->
  forall (cs : list Z) (entries : list entry) (threshold : Z),
  (forall s, In s (valid_shares entries) -> fst s < r /\ snd s mod r = eval cs (fst s) mod r) ->
  NoDup (map fst (valid_shares entries)) ->
  Z.of_nat (length cs) <= threshold <= Z.of_nat (length (valid_shares entries)) ->
  recover_signature r entries threshold = Ok (nth 0 cs 0 mod r) /\
  recover_public_key r entries threshold = Ok (nth 0 cs 0 mod r).
Proof. exact Proofs.C03.recover_unique. Qed.
Print Assumptions recover_unique.

(* Two admissible slices (different subsets, orders, interleavings) recover the same signature,
   and it verifies under the group public key f(0) * G2. *)
Theorem recover_same_and_verifies :
  forall r, prime r ->
  forall cs e1 e2 t,
  (forall s, In s (valid_shares e1) -> fst s < r /\ snd s mod r = eval cs (fst s) mod r) ->
  (forall s, In s (valid_shares e2) -> fst s < r /\ snd s mod r = eval cs (fst s) mod r) ->
  NoDup (map fst (valid_shares e1)) -> NoDup (map fst (valid_shares e2)) ->
  Z.of_nat (length cs) <= t <= Z.of_nat (length (valid_shares e1)) ->
  t <= Z.of_nat (length (valid_shares e2)) ->
  recover_signature r e1 t = recover_signature r e2 t /\
  exists s, recover_signature r e1 t = Ok s /\ verify_g1 r (nth 0 cs 0) s = true.
Proof. exact Proofs.C03.recover_same. Qed.
Print Assumptions recover_same_and_verifies.

(* the model of big.Int.ModInverse returns inverses, and always one modulo a prime *)
Theorem mod_inverse_correct :
  forall r, prime r -> forall g,
  (g mod r <> 0 -> exists inv, mod_inverse g r = Some inv) /\
  (forall inv, mod_inverse g r = Some inv -> (g * inv) mod r = 1 mod r /\ 0 <= inv < r).
Proof. exact Proofs.C03.mod_inverse_correct. Qed.
Print Assumptions mod_inverse_correct.

(* "A share that does not verify under its member's public key share is never used": whatever
   messages arrive, every entry of receivedValidShares other than the member's own share was
   accepted by extractAndValidateShare, i.e. it is well formed, its sender has a public key
   share and the pairing check passed. *)
Theorem unverified_share_never_used :
  forall r self share pks threshold msgs kv,
  In kv (receive r self pks threshold msgs [(self, share)]) ->
  (fst kv = self /\ snd kv = share) \/
  exists pk, lookup (fst kv) pks = Some pk /\ verify_g1 r pk (snd kv) = true.
Proof. exact Proofs.C03.unverified_share_never_used. Qed.
Print Assumptions unverified_share_never_used.

Theorem extract_only_verified :
  forall r pks m s, extract_and_validate r pks m = Some s ->
  m_wellformed m = true /\ s = m_share m /\
  exists pk, lookup (m_sender m) pks = Some pk /\ verify_g1 r pk s = true.
Proof. exact Proofs.C03.extract_validated. Qed.
Print Assumptions extract_only_verified.

(* End to end for the relay entry: when the members' public key shares are those of the DKG
   polynomial, then for every message sequence (valid, invalid, repeated, from outsiders) and
   every Go map iteration order, a signature that gets completed is the group signature. *)
Theorem entry_signature_unique :
  forall r, prime r ->
  forall (cs : list Z) self share pks t msgs (iter : list (N * Z) -> list (N * Z)),
  (forall l, Permutation (iter l) l) ->
  share mod r = eval cs (Z.of_N self) mod r -> Z.of_N self < r ->
  (forall k pk, lookup k pks = Some pk -> pk mod r = eval cs (Z.of_N k) mod r /\ Z.of_N k < r) ->
  let received := receive r self pks t msgs [(self, share)] in
  Z.of_nat (length cs) <= t <= Z.of_nat (length received) ->
  complete_signature r iter received t = Ok (nth 0 cs 0 mod r).
Proof. exact Proofs.C03.entry_signature_unique. Qed.
Print Assumptions entry_signature_unique.

(* ---- the executable form used by the correspondence check ---- *)
Theorem spec_sound :
  forall r c, spec_rec r c = true ->
  (forall s, In s (valid_shares (c_entries c)) ->
     fst s < r /\ snd s mod r = eval (c_coeffs c) (fst s) mod r) ->
  NoDup (map fst (valid_shares (c_entries c))) ->
  Z.of_nat (length (c_coeffs c)) <= c_threshold c <= Z.of_nat (length (valid_shares (c_entries c))) ->
  exists z, c_obs c = OPoint (Some z) true /\ z mod r = nth 0 (c_coeffs c) 0 mod r.
Proof. exact Proofs.C03.spec_sound. Qed.
Print Assumptions spec_sound.

Theorem model_passes_spec :
  forall r, prime r -> forall f entries t cs o,
  spec_rec r {| c_fn := f; c_entries := entries; c_threshold := t; c_coeffs := cs;
                c_obs := model_obs r cs (run_rec r {| c_fn := f; c_entries := entries;
                           c_threshold := t; c_coeffs := cs; c_obs := o |}) |} = true.
Proof. exact Proofs.C03.model_passes_spec. Qed.
Print Assumptions model_passes_spec.

(* ---- call histories: recoveries made one after the other in ONE long-lived process ----
   [run_history r st h] threads the process state through the calls of [h] (Model/C03.v: the
   state carries nothing, bls.go writes no package-level variable). *)

(* history independence: state unchanged, answers = the pure recovery mapped over the calls *)
Theorem run_history_is_map :
  forall r st h, run_history r st h = (st, map (run_rec r) h).
Proof. exact Proofs.C03.run_history_is_map. Qed.
Print Assumptions run_history_is_map.

(* the main theorem along histories: whatever was recovered before ([pre], arbitrary calls —
   other subsets, other thresholds, other polynomials, malformed lists) and whatever follows,
   an admissible call returns the unique group signature / group public key *)
Theorem history_recovers_unique :
  forall r, prime r ->
  forall st (pre post : list rec_case) (c : rec_case),
  (forall s, In s (valid_shares (c_entries c)) ->
     fst s < r /\ snd s mod r = eval (c_coeffs c) (fst s) mod r) ->
  NoDup (map fst (valid_shares (c_entries c))) ->
  Z.of_nat (length (c_coeffs c)) <= c_threshold c <= Z.of_nat (length (valid_shares (c_entries c))) ->
  nth_error (snd (run_history r st (pre ++ c :: post))) (length pre)
  = Some (Ok (nth 0 (c_coeffs c) 0 mod r)).
Proof. exact Proofs.C03.history_recovers_unique. Qed.
Print Assumptions history_recovers_unique.

(* the executable history property of the correspondence check judges every call separately
   and is sound ... *)
Theorem spec_hist_sound :
  forall r h, spec_hist r h = true ->
  forall c, In c h ->
  (forall s, In s (valid_shares (c_entries c)) ->
     fst s < r /\ snd s mod r = eval (c_coeffs c) (fst s) mod r) ->
  NoDup (map fst (valid_shares (c_entries c))) ->
  Z.of_nat (length (c_coeffs c)) <= c_threshold c <= Z.of_nat (length (valid_shares (c_entries c))) ->
  exists z, c_obs c = OPoint (Some z) true /\ z mod r = nth 0 (c_coeffs c) 0 mod r.
Proof. exact Proofs.C03.spec_hist_sound. Qed.
Print Assumptions spec_hist_sound.

(* ... and holds of every history the model produces *)
Theorem model_histories_pass_spec :
  forall r, prime r -> forall h, spec_hist r (map (with_model_obs r) h) = true.
Proof. exact Proofs.C03.model_histories_pass_spec. Qed.
Print Assumptions model_histories_pass_spec.
