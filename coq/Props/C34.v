(* C34 — Main UTXO lookup and chain-sync check reflect the wallet's real state.
   ONLY property statements; proofs are in Proofs/C34.v.  The model (Model/C34.v) takes the
   external calls as arguments: [hash] = BridgeChain.ComputeMainUtxoHash, [lookup] =
   bitcoin.Chain.GetTransaction (None = error), [is_dep] / [is_req] = GetDepositRequest /
   GetMovedFundsSweepRequest; every theorem holds for ALL of them, all histories, UTXO sets and
   registered hashes. *)
From Coq Require Import ZArith NArith List Bool.
From KV Require Import Model.C34 Proofs.C34.
Import ListNotations.

(* ---------- vocabulary of the statements ---------- *)
(* [s] is the wallet's P2PKH or P2WPKH script *)
Definition wallet_script (pkh s : list N) : Prop := s = p2pkh pkh \/ s = p2wpkh pkh.
(* [u] is the UTXO of an output of [t] that pays the wallet and whose bridge hash is [reg] *)
Definition cand_in (hash : utxo -> N) (pkh : list N) (reg : N) (t : tx) (u : utxo) : Prop :=
  exists idx o, nth_error (t_outs t) idx = Some o /\ wallet_script pkh (o_script o) /\
                u = {| u_tx := t_id t; u_idx := N.of_nat idx; u_val := o_value o |} /\ hash u = reg.
(* ... of a transaction of the wallet's transaction history [hs] *)
Definition candidate (hash : utxo -> N) (lookup : N -> option tx)
           (pkh : list N) (reg : N) (hs : list N) (u : utxo) : Prop :=
  exists h t, In h hs /\ lookup h = Some t /\ cand_in hash pkh reg t u.

(* the property for DetermineWalletMainUtxo, as a predicate on (inputs, result);
   [wallet] = registered main-UTXO hash (0 = nothing registered; None = GetWallet failed),
   [hashes] = the wallet's transaction history (None = the Bitcoin client failed) *)
Definition det_spec (hash : utxo -> N) (lookup : N -> option tx)
           (pkh : list N) (wallet : option N) (hashes : option (list N)) (r : det_res) : Prop :=
  match r with
  | DNone => wallet = Some 0%N
  | DUtxo u => exists reg hs, wallet = Some reg /\ reg <> 0%N /\ hashes = Some hs /\
                              candidate hash lookup pkh reg hs u
  | DNotFound => exists reg hs, wallet = Some reg /\ reg <> 0%N /\ hashes = Some hs /\
                                forall u, ~ candidate hash lookup pkh reg hs u
  | DChainErr => wallet = None \/
                 exists reg, wallet = Some reg /\ reg <> 0%N /\
                             (hashes = None \/
                              exists hs h, hashes = Some hs /\ In h hs /\ lookup h = None)
  | DPanic => False
  end.

(* [u] is not an output 0 of a transaction whose first input is a revealed deposit or a moved
   funds sweep request (and the lookups needed to tell so all answered) *)
Definition clean (lookup : N -> option tx) (is_dep is_req : N * N -> look) (u : utxo) : Prop :=
  u_idx u <> 0%N \/
  exists t op, lookup (u_tx u) = Some t /\ t_in0 t = Some op /\
               is_dep op = LNotFound /\ is_req op = LNotFound.

(* the property for EnsureWalletSyncedBetweenChains: [conf] / [mem] = confirmed / mempool UTXOs
   of the wallet (None = the Bitcoin client failed) *)
Definition sync_spec (lookup : N -> option tx) (is_dep is_req : N * N -> look)
           (main : option utxo) (conf mem : option (list utxo)) (r : sync_res) : Prop :=
  match conf with
  | None => r <> SOk
  | Some cu =>
      match main with
      | Some m => r = SOk <-> In m cu
      | None =>
          match mem with
          | None => r <> SOk
          | Some mu => r = SOk <-> forall u, In u (cu ++ mu) -> clean lookup is_dep is_req u
          end
      end
  end.

(* ---------- DetermineWalletMainUtxo ---------- *)

(* the result is None only when nothing is registered; a returned UTXO is an output of a
   transaction of the wallet's history that pays the wallet's P2PKH/P2WPKH script and whose hash
   equals the registered one; "not found" only when no such output exists; other errors only
   when a chain call failed; the function never panics *)
Theorem determine_spec :
  forall hash lookup pkh wallet hashes,
    det_spec hash lookup pkh wallet hashes (determine hash lookup pkh wallet hashes).
Proof. exact Proofs.C34.determine_spec. Qed.
Print Assumptions determine_spec.

(* None iff nothing is registered (zero hash) *)
Theorem determine_none_iff :
  forall hash lookup pkh reg hashes,
    determine hash lookup pkh (Some reg) hashes = DNone <-> reg = 0%N.
Proof. exact Proofs.C34.determine_none_iff. Qed.
Print Assumptions determine_none_iff.

(* with a registered hash and an answering Bitcoin client: a UTXO is returned iff such an
   output exists, and the error "main UTXO not found" iff there is none *)
Theorem determine_found_iff :
  forall hash lookup pkh reg hs,
    reg <> 0%N -> (forall h, In h hs -> lookup h <> None) ->
    ((exists u, determine hash lookup pkh (Some reg) (Some hs) = DUtxo u) <->
     (exists u, candidate hash lookup pkh reg hs u)) /\
    (determine hash lookup pkh (Some reg) (Some hs) = DNotFound <->
     (forall u, ~ candidate hash lookup pkh reg hs u)).
Proof. exact Proofs.C34.determine_found_iff. Qed.
Print Assumptions determine_found_iff.

(* if the bridge hash separates the wallet's outputs, the returned UTXO is THE registered one *)
Theorem determine_unique :
  forall hash lookup pkh reg hs u,
    (forall a b, candidate hash lookup pkh (hash a) hs a -> candidate hash lookup pkh (hash b) hs b ->
                 hash a = hash b -> a = b) ->
    determine hash lookup pkh (Some reg) (Some hs) = DUtxo u ->
    forall v, candidate hash lookup pkh reg hs v -> v = u.
Proof. exact Proofs.C34.determine_unique. Qed.
Print Assumptions determine_unique.

(* ---------- EnsureWalletSyncedBetweenChains ---------- *)

(* with a main UTXO the check passes exactly when it is among the confirmed unspent outputs;
   for a fresh wallet exactly when no confirmed or mempool UTXO is an output 0 of a transaction
   whose first input is a revealed deposit or a moved funds sweep request; it never passes when
   a chain call it needs failed *)
Theorem sync_sound :
  forall lookup is_dep is_req main conf mem,
    sync_spec lookup is_dep is_req main conf mem (sync lookup is_dep is_req main conf mem).
Proof. exact Proofs.C34.sync_sound. Qed.
Print Assumptions sync_sound.

(* the fresh-wallet rule spelled out when every lookup answers *)
Theorem sync_fresh_no_errors :
  forall lookup is_dep is_req cu mu,
    (forall u, In u (cu ++ mu) -> u_idx u = 0%N ->
       exists t op, lookup (u_tx u) = Some t /\ t_in0 t = Some op /\
                    is_dep op <> LErr /\ is_req op <> LErr) ->
    (sync lookup is_dep is_req None (Some cu) (Some mu) = SOk <->
     ~ exists u t op, In u (cu ++ mu) /\ u_idx u = 0%N /\ lookup (u_tx u) = Some t /\
                      t_in0 t = Some op /\ (is_dep op = LFound \/ is_req op = LFound)).
Proof. exact Proofs.C34.sync_fresh_no_errors. Qed.
Print Assumptions sync_fresh_no_errors.

(* the reported reason is the real one *)
Theorem sync_error_kinds :
  forall lookup is_dep is_req main conf mem,
    match sync lookup is_dep is_req main conf mem with
    | SErrNoUtxos => main <> None /\ conf = Some []
    | SErrSpent => exists m cu, main = Some m /\ conf = Some cu /\ cu <> [] /\ ~ In m cu
    | SErrDepositSweep =>
        main = None /\ exists cu mu u t op, conf = Some cu /\ mem = Some mu /\ In u (cu ++ mu) /\
          u_idx u = 0%N /\ lookup (u_tx u) = Some t /\ t_in0 t = Some op /\ is_dep op = LFound
    | SErrMovedSweep =>
        main = None /\ exists cu mu u t op, conf = Some cu /\ mem = Some mu /\ In u (cu ++ mu) /\
          u_idx u = 0%N /\ lookup (u_tx u) = Some t /\ t_in0 t = Some op /\
          is_dep op = LNotFound /\ is_req op = LFound
    | _ => True
    end.
Proof. exact Proofs.C34.sync_error_kinds. Qed.
Print Assumptions sync_error_kinds.

(* ---------- the executable form used by the correspondence check ---------- *)
Theorem det_ok_sound :
  forall hash lookup pkh wallet hashes r,
    det_ok hash lookup pkh wallet hashes r = true -> det_spec hash lookup pkh wallet hashes r.
Proof. exact Proofs.C34.det_ok_sound. Qed.
Print Assumptions det_ok_sound.

Theorem sync_ok_sound :
  forall lookup is_dep is_req main conf mem r,
    sync_ok lookup is_dep is_req main conf mem r = true ->
    sync_spec lookup is_dep is_req main conf mem r.
Proof. exact Proofs.C34.sync_ok_sound. Qed.
Print Assumptions sync_ok_sound.

(* ... and it holds of every model output (transactions have at least one input) *)
Theorem model_outputs_pass_spec :
  forall hash lookup is_dep is_req pkh wallet hashes main conf mem,
    (forall h t, lookup h = Some t -> t_in0 t <> None) ->
    det_ok hash lookup pkh wallet hashes (determine hash lookup pkh wallet hashes) = true /\
    sync_ok lookup is_dep is_req main conf mem (sync lookup is_dep is_req main conf mem) = true.
Proof. exact Proofs.C34.model_outputs_pass_spec. Qed.
Print Assumptions model_outputs_pass_spec.

(* ---------- per-call chain faults ---------- *)
(* A fault script says, for every kind of chain call (GetWallet, transaction history, confirmed
   UTXOs, mempool UTXOs, GetTransaction, GetDepositRequest, GetMovedFundsSweepRequest), which
   calls — the k-th of that kind during one run — fail.  [calls] counts the calls a run made,
   [faulted F c] says that one of the calls it CONSULTED failed.  All theorems hold for every
   script, every world and every UTXO set. *)

(* the sync check returns at the first failing call: its result is the fault-free one when no
   consulted call failed, a chain error otherwise *)
Theorem sync_under_faults :
  forall lookup is_dep is_req F main conf mem r c,
    sync_f lookup is_dep is_req F main conf mem = (r, c) ->
    (faulted F c = false /\ r = sync lookup is_dep is_req main conf mem) \/
    (faulted F c = true /\ r = SChainErr).
Proof. exact Proofs.C34.sync_f_cases. Qed.
Print Assumptions sync_under_faults.

(* pass => every consulted call succeeded: the check never passes over a failed lookup *)
Theorem sync_pass_means_every_consulted_call_succeeded :
  forall lookup is_dep is_req F main conf mem c,
    sync_f lookup is_dep is_req F main conf mem = (SOk, c) ->
    faulted F c = false /\ sync lookup is_dep is_req main conf mem = SOk.
Proof. exact Proofs.C34.sync_f_pass. Qed.
Print Assumptions sync_pass_means_every_consulted_call_succeeded.

(* ... and the wallet is in sync: the main UTXO is among the confirmed UTXOs, or the wallet is
   fresh and none of its unspent outputs comes from its own sweep transaction *)
Theorem sync_pass_under_faults_means_in_sync :
  forall lookup is_dep is_req F main conf mem c,
    sync_f lookup is_dep is_req F main conf mem = (SOk, c) ->
    faulted F c = false /\
    exists cu, conf = Some cu /\
      match main with
      | Some m => In m cu
      | None => exists mu, mem = Some mu /\
                           forall u, In u (cu ++ mu) -> clean lookup is_dep is_req u
      end.
Proof. exact Proofs.C34.sync_f_pass_in_sync. Qed.
Print Assumptions sync_pass_under_faults_means_in_sync.

Theorem determine_under_faults :
  forall hash lookup F pkh wallet hashes r c,
    determine_f hash lookup F pkh wallet hashes = (r, c) ->
    (faulted F c = false /\ r = determine hash lookup pkh wallet hashes) \/
    (faulted F c = true /\ r = DChainErr).
Proof. exact Proofs.C34.determine_f_cases. Qed.
Print Assumptions determine_under_faults.

(* a script without failures consults nothing that failed *)
Theorem no_faults_never_faulted : forall c, faulted no_faults c = false.
Proof. exact Proofs.C34.faulted_no_faults. Qed.
Print Assumptions no_faults_never_faulted.

(* executable forms under faults, evaluated on the implementation's result and call counts *)
Theorem sync_ok_f_sound :
  forall lookup is_dep is_req F c main conf mem r,
    sync_ok_f lookup is_dep is_req F c main conf mem r = true ->
    (r = SOk -> faulted F c = false) /\
    (faulted F c = false -> sync_spec lookup is_dep is_req main conf mem r).
Proof. exact Proofs.C34.sync_ok_f_sound. Qed.
Print Assumptions sync_ok_f_sound.

Theorem det_ok_f_sound :
  forall hash lookup F c pkh wallet hashes r,
    det_ok_f hash lookup F c pkh wallet hashes r = true ->
    (r = DChainErr /\ faulted F c = true) \/ det_spec hash lookup pkh wallet hashes r.
Proof. exact Proofs.C34.det_ok_f_sound. Qed.
Print Assumptions det_ok_f_sound.

Theorem faulty_model_outputs_pass_spec :
  forall hash lookup is_dep is_req F pkh wallet hashes main conf mem,
    (forall h t, lookup h = Some t -> t_in0 t <> None) ->
    (let (r, c) := determine_f hash lookup F pkh wallet hashes in
     det_ok_f hash lookup F c pkh wallet hashes r = true) /\
    (let (r, c) := sync_f lookup is_dep is_req F main conf mem in
     sync_ok_f lookup is_dep is_req F c main conf mem r = true).
Proof. exact Proofs.C34.faulty_model_passes. Qed.
Print Assumptions faulty_model_outputs_pass_spec.
