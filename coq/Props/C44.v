From Coq Require Import NArith List Bool.
From KV Require Import Model.C44 Proofs.C44.
Import ListNotations.
Open Scope N_scope.

Theorem contracts_resolution_idempotent : forall defs addrs,
  resolve_contracts defs (resolve_contracts defs addrs) = resolve_contracts defs addrs.
Proof. exact Proofs.C44.resolve_contracts_idem. Qed.
Print Assumptions contracts_resolution_idempotent.
