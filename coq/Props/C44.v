(* C44 — Explicit configuration is never overridden by network defaults.
   ONLY property statements; proofs are in Proofs/C44.v.  The model (Model/C44.v) is ReadConfig with
   resolveNetworks / resolveContractsAddresses / resolvePeers / resolveElectrum as written; an
   [input] is: the embedded defaults, the flag set (which network flags exist and their values),
   whether ReadConfig runs under a cobra command, the configuration file (absent / unreadable /
   read), per field the value in the file and the value given by flag (each optional), and the
   oracle for the random Electrum pick.  [explicit i zero s] is what the sources say for a field:
   the flag value if the flag was given, else the file value, else [zero] (empty). *)
From Coq Require Import NArith List Bool.
From KV Require Import Model.C44 Proofs.C44.
Import ListNotations.
Open Scope N_scope.

(* precedence of the sources, for every field alike: flag > file > unset *)
Theorem explicit_is_flag_then_file : forall (A : Type) (i : input) (zero : A) (s : src A),
  explicit i zero s =
  match (if has_flags i then s_flag s else None), (if file_read i then s_file s else None) with
  | Some v, _ => v
  | None, Some v => v
  | None, None => zero
  end.
Proof. exact Proofs.C44.explicit_precedence. Qed.
Print Assumptions explicit_is_flag_then_file.

(* For EVERY input on which ReadConfig gets to the resolution stage (it returns no error, or only
   the final validation error): a non-empty explicit peers list, a non-empty explicit Electrum
   URL and every non-empty explicit contract address are in the resulting Config verbatim --
   whatever the network, whatever the embedded defaults, whatever the random pick. *)
Theorem explicit_values_kept : forall i, reached (o_err (read_config i)) = true ->
  (explicit i [] (i_peers i) <> [] -> o_peers (read_config i) = explicit i [] (i_peers i)) /\
  (explicit i 0 (i_electrum i) <> 0 -> o_electrum (read_config i) = explicit i 0 (i_electrum i)) /\
  (forall k s d, nth_error (i_contracts i) k = Some s -> nth_error (e_contracts (i_env i)) k = Some d ->
                 explicit i 0 s <> 0 ->
                 nth_error (o_contracts (read_config i)) k = Some (explicit i 0 s)).
Proof. exact Proofs.C44.explicit_values_kept. Qed.
Print Assumptions explicit_values_kept.

(* A default appears only where the value was left unset, and it is the default of the selected
   network: peers of mainnet / testnet only (none for developer and unknown); an Electrum URL from
   the embedded list of the resolved Bitcoin network, mainnet / testnet only (none for regtest and
   unknown); the contract's own embedded address (the same for every network). *)
Theorem defaults_only_where_unset : forall i, reached (o_err (read_config i)) = true ->
  (explicit i [] (i_peers i) = [] ->
     if has_defaults (selected i) then e_peers (i_env i) (selected i) = Some (o_peers (read_config i))
     else o_peers (read_config i) = []) /\
  (explicit i 0 (i_electrum i) = 0 ->
     if btc_has_defaults (o_btc (read_config i))
     then exists l, e_urls (i_env i) (o_btc (read_config i)) = Some l /\ In (o_electrum (read_config i)) l
     else o_electrum (read_config i) = 0) /\
  (forall k s d, nth_error (i_contracts i) k = Some s -> nth_error (e_contracts (i_env i)) k = Some d ->
                 explicit i 0 s = 0 ->
                 nth_error (o_contracts (read_config i)) k = Some d).
Proof. exact Proofs.C44.defaults_only_where_unset. Qed.
Print Assumptions defaults_only_where_unset.

(* The Ethereum and the Bitcoin network are always the pair of ONE network type: of the selected
   one whenever there is a flag set (even when ReadConfig fails later); without a flag set
   (flagSet = nil, only the package's tests call it so) resolveNetworks is skipped, both stay
   "unknown" while the peers default to mainnet's. *)
Theorem networks_follow_selection : forall i,
  (has_flags i = true ->
     o_eth (read_config i) = net_eth (selected i) /\ o_btc (read_config i) = net_btc (selected i)) /\
  (has_flags i = false ->
     o_eth (read_config i) = net_eth NUnknown /\ o_btc (read_config i) = net_btc NUnknown /\
     selected i = NMainnet) /\
  (exists n, o_eth (read_config i) = net_eth n /\ o_btc (read_config i) = net_btc n).
Proof. exact Proofs.C44.networks_follow_selection. Qed.
Print Assumptions networks_follow_selection.

(* the pairs as coded, and each network of a pair determines the other *)
Theorem network_pairs :
  (net_eth NMainnet = EMainnet /\ net_btc NMainnet = BMainnet) /\
  (net_eth NTestnet = ESepolia /\ net_btc NTestnet = BTestnet) /\
  (net_eth NDeveloper = EDeveloper /\ net_btc NDeveloper = BRegtest) /\
  (net_eth NUnknown = EUnknown /\ net_btc NUnknown = BUnknown) /\
  (forall n n', net_eth n = net_eth n' <-> net_btc n = net_btc n').
Proof. exact Proofs.C44.network_table. Qed.
Print Assumptions network_pairs.

(* network selection as coded: testnet before developer before mainnet, --mainnet is never read,
   and with the three flags defined resolveNetworks cannot fail *)
Theorem selection_as_coded : forall i m t d,
  i_flags i = FSet m (Some t) (Some d) ->
  selected i = (if t then NTestnet else if d then NDeveloper else NMainnet) /\
  o_err (read_config i) <> EResolveNetworks.
Proof. exact Proofs.C44.selection_as_coded. Qed.
Print Assumptions selection_as_coded.

(* with at most one network flag given, the selected network is the one meant *)
Theorem unambiguous_selection : forall i m t d,
  i_flags i = FSet (Some m) (Some t) (Some d) -> (flags_given i <= 1)%nat ->
  candidates i = [selected i] /\
  selected i = (if m then NMainnet else if t then NTestnet else if d then NDeveloper else NMainnet).
Proof. exact Proofs.C44.unambiguous_candidates. Qed.
Print Assumptions unambiguous_selection.

(* the network flags are mutually exclusive: a command given two of them is refused (after its
   PreRun, where ReadConfig has already run, and before its Run), and only such a command is *)
Theorem ambiguous_selection_refused : forall i,
  o_refused (read_config i) = true <-> (i_cobra i = true /\ (2 <= flags_given i)%nat).
Proof. exact Proofs.C44.ambiguous_selection_refused. Qed.
Print Assumptions ambiguous_selection_refused.

(* idempotence: each resolve function is the identity on its own results (the embedded URL lists
   do not contain the empty string: cleanStrings) ... *)
Theorem resolve_functions_idempotent :
  (forall defs addrs, resolve_contracts defs (resolve_contracts defs addrs) = resolve_contracts defs addrs) /\
  (forall e n p p', resolve_peers e n p = POk p' -> resolve_peers e n p' = POk p') /\
  (forall e, env_wfb e = true -> forall k b u u', resolve_electrum e k b u = UOk u' ->
             forall k', resolve_electrum e k' b u' = UOk u').
Proof.
  exact (conj Proofs.C44.resolve_contracts_idem
              (conj Proofs.C44.resolve_peers_idem Proofs.C44.resolve_electrum_idem)).
Qed.
Print Assumptions resolve_functions_idempotent.

(* ... and resolving a Config that ReadConfig produced once more changes nothing, for every
   random pick of the second run *)
Theorem resolving_twice_is_resolving_once : forall i, env_wfb (i_env i) = true ->
  forall n2 k2, n2 = selected i \/ (i_flags i = FNil /\ n2 = NUnknown) ->
  re_resolve (i_env i) n2 k2 (read_config i) = read_config i.
Proof. exact Proofs.C44.re_resolve_fixpoint. Qed.
Print Assumptions resolving_twice_is_resolving_once.

(* the executable form evaluated on the implementation's Config is exactly the property ... *)
Theorem spec_read_sound : forall i o o2, spec_read i o o2 = true <-> read_property i o o2.
Proof. exact Proofs.C44.spec_read_sound. Qed.
Print Assumptions spec_read_sound.

Theorem unit_specs_sound :
  (forall e n p l r2, spec_peers e n p (POk l) r2 = true ->
     peers_prop p l (if has_defaults n then e_peers e n else None) /\ r2 = POk l) /\
  (forall e b u v r2, spec_electrum e b u (UOk v) r2 = true ->
     electrum_prop u v (if btc_has_defaults b then e_urls e b else None) /\ r2 = UOk v) /\
  (forall m t d n er eth btc, spec_nets (FSet m t d) (Some (n, er, eth, btc)) = true ->
     eth = net_eth n /\ btc = net_btc n /\ (er = false -> In n (candidates_of (FSet m t d)))).
Proof. exact Proofs.C44.unit_specs_sound. Qed.
Print Assumptions unit_specs_sound.

(* ... and holds of every model output *)
Theorem model_satisfies_property : forall i,
  env_wfb (i_env i) = true -> length (i_contracts i) = length (e_contracts (i_env i)) ->
  forall n2 k2, n2 = selected i \/ (i_flags i = FNil /\ n2 = NUnknown) ->
  read_property i (read_config i) (re_resolve (i_env i) n2 k2 (read_config i)).
Proof. exact Proofs.C44.model_satisfies_property. Qed.
Print Assumptions model_satisfies_property.

Theorem model_passes_spec : forall i,
  env_wfb (i_env i) = true -> length (i_contracts i) = length (e_contracts (i_env i)) ->
  forall n2 k2, n2 = selected i \/ (i_flags i = FNil /\ n2 = NUnknown) ->
  spec_read i (read_config i) (re_resolve (i_env i) n2 k2 (read_config i)) = true.
Proof. exact Proofs.C44.model_passes_spec. Qed.
Print Assumptions model_passes_spec.

Theorem model_passes_unit_specs :
  (forall e n p, match resolve_peers e n p with
                 | POk l => spec_peers e n p (POk l) (resolve_peers e n l) = true
                 | PErr => True | PPanic => False end) /\
  (forall e k b u, env_wfb e = true ->
                 match resolve_electrum e k b u with
                 | UOk v => forall k', spec_electrum e b u (UOk v) (resolve_electrum e k' b v) = true
                 | UErr => True | UPanic => e_urls e b = Some [] end) /\
  (forall m t d, spec_nets (FSet m t d) (model_nets (FSet m t d)) = true).
Proof. exact Proofs.C44.model_passes_unit_specs. Qed.
Print Assumptions model_passes_unit_specs.

(* ---------- resolution HISTORIES on ONE Config object ----------
   [run_hist e c0 steps] runs resolveNetworks alone (HNets), the resolution stage of ReadConfig
   (HResolve) or ReadConfig itself on a freshly parsed flag set (HRead) one after the other on a
   Config that starts as c0 (any pre-populated content).  [step_select s] is what the closure in
   resolveNetworks computes from the flag set of step s alone. *)

(* history = map: after EVERY step, for every initial Config and every earlier step, the Ethereum
   and the Bitcoin network are the pair of the network selected by THAT step *)
Theorem history_networks_are_map : forall e steps c0, forallb flagged steps = true ->
  map (fun o => (c_eth (h_cfg o), c_btc (h_cfg o))) (run_hist e c0 steps) =
  map (fun s => (net_eth (fst (step_select s)), net_btc (fst (step_select s)))) steps.
Proof. exact Proofs.C44.hist_networks_are_map. Qed.
Print Assumptions history_networks_are_map.

(* the last selection decides both networks: the last observation of a history is the step run on
   whatever state the earlier steps left, and its networks are the pair of its own selection *)
Theorem last_selection_wins : forall e c0 steps s, flagged s = true ->
  forall o, last (run_hist e c0 (steps ++ [s])) o =
            hstep_run e (last (map h_cfg (run_hist e c0 steps)) c0) s /\
  (c_eth (h_cfg (last (run_hist e c0 (steps ++ [s])) o)), c_btc (h_cfg (last (run_hist e c0 (steps ++ [s])) o)))
  = (net_eth (fst (step_select s)), net_btc (fst (step_select s))).
Proof. exact Proofs.C44.last_selection_wins. Qed.
Print Assumptions last_selection_wins.

(* as written, a pre-populated (or earlier resolved) network pair is overwritten: it has no
   influence on the outcome of a step *)
Theorem prepopulated_networks_overwritten : forall e c eth btc s, flagged s = true ->
  hstep_run e {| c_eth := eth; c_btc := btc; c_peers := c_peers c; c_electrum := c_electrum c;
                 c_contracts := c_contracts c |} s = hstep_run e c s.
Proof. exact Proofs.C44.prepopulated_networks_overwritten. Qed.
Print Assumptions prepopulated_networks_overwritten.

(* the executable per-step property evaluated on the observed Config before / after a step implies
   the statement: one network pair, the one selected at this step; what the Config (HNets,
   HResolve) or the sources (HRead) hold explicitly is kept, what was unset is unset or the
   default of this step's network *)
Theorem hstep_ok_sound : forall e pre s o, hstep_ok e pre s o = true -> hstep_prop e pre s o.
Proof. exact Proofs.C44.hstep_ok_sound. Qed.
Print Assumptions hstep_ok_sound.

Theorem hist_ok_sound : forall e steps obs c0, hist_ok e c0 steps obs = true ->
  length obs = length steps /\
  forall k s o, nth_error steps k = Some s -> nth_error obs k = Some o ->
    hstep_prop e (match k with O => c0 | S j => match nth_error obs j with Some p => h_cfg p | None => c0 end end) s o.
Proof. exact Proofs.C44.hist_ok_sound. Qed.
Print Assumptions hist_ok_sound.

(* ... and it holds of every model history, from every initial Config *)
Theorem model_history_passes_spec : forall e steps c0, env_wfb e = true ->
  forallb (hstep_wfb e) steps = true -> length (c_contracts c0) = length (e_contracts e) ->
  hist_ok e c0 steps (run_hist e c0 steps) = true.
Proof. exact Proofs.C44.model_history_passes_spec. Qed.
Print Assumptions model_history_passes_spec.
