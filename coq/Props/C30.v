(* C30 — Transaction size estimates never undershoot the real size.
   ONLY property statements; proofs are in Proofs/C30.v.  Model (Model/C30.v):
   [estimate ops] = NewTransactionSizeEstimator().<ops>.VirtualSize() of pkg/bitcoin/estimator.go
   as written (placeholder transaction of 72-byte signatures, 33-byte keys, all-zero redeem
   scripts, built with the model of txscript.ScriptBuilder, measured with btcd's
   ceil((3*base + total) / 4) on the byte-level serialiser of Model/C29.v);
   [build ins outs] = the signed transaction TransactionBuilder.AddSignatures produces for inputs
   of the four kinds with ARBITRARY signature values (r, s), keys, outpoints, redeem-script
   bytes and output scripts, the signature bytes being btcec's Signature.Serialize (low-S
   normalisation included) plus the hash type. *)
From Coq Require Import ZArith NArith List Bool Permutation.
From KV Require Import Model.C29 Model.C30 Proofs.C30.
Import ListNotations.
Open Scope N_scope.

(* THE PROPERTY.  For every sequence of estimator calls and every real signed transaction whose
   inputs and outputs can be matched injectively to announced ones ([in_covered]: same class and
   witness flag, redeem script not longer than announced; [out_covered]: script not longer than
   the announced standard script), in any order, whatever the signatures and keys are: the
   estimate is at least the virtual size of the real transaction.  No hypothesis on the signer:
   r, s range over all integers, the builder's own acceptance check is part of [build]. *)
Theorem estimate_ge_actual :
  forall (ops : list op) (ins : list rin) (outs : list txout) (T : tx) (e : N),
    estimate ops = VOk e -> build ins outs = Some T ->
    (exists ss rest, Permutation (ss ++ rest) (shape_ins ops)
                     /\ Forall2 (fun s i => in_covered s (ri_kind i) = true) ss ins) ->
    (exists os rest, Permutation (os ++ rest) (shape_outs ops)
                     /\ Forall2 (fun s o => out_covered s o = true) os outs) ->
    vsize T <= e.
Proof. exact Proofs.C30.estimate_ge_actual. Qed.
Print Assumptions estimate_ge_actual.

(* every signature the builder writes (DER + hash type) has between 9 and 72 bytes: the
   placeholder length is the maximum, 6 + 33 (r with pad) + 32 (low s) + 1 *)
Theorem signature_length :
  forall i : rin, sig_in_range i = true -> 9 <= len (sig_bytes_with der_serialize i) <= 72.
Proof. exact Proofs.C30.signature_length. Qed.
Print Assumptions signature_length.

(* THE PROPERTY ON WHAT THE JUDGE EVALUATES.  The per-run judge does not see a matching: it
   evaluates the boolean [covered] (Model/C30.v) on a case whose items pair each estimator call
   with run-length groups of the real inputs / outputs generated for it.  [describes items ins outs]
   (Proofs/C30.v, Part G) says what such a case asserts about the real transaction: up to the
   order of inputs and outputs (the wallet's order is not the estimator's), [ins] is the
   concatenation, item by item and group by group, of [ci_mult] real inputs whose kind (class,
   witness flag, redeem length, push length of the redeem script) is the group's, and [outs] of
   [m] outputs with an [n]-byte script for every pair (m, n); signature and key lengths are free.
   [covered_sound]: the executable check implies the existential matching premise of
   [estimate_ge_actual].  For a deposit-sweep case [covered] ignores the witness flag of the
   deposits (the sweeps the wallet makes include legacy P2SH deposits, known finding
   C30-sweep-p2sh-deposits); the implication then needs [flags_agree]: every real input has the
   announced witness flag, i.e. no legacy deposit is swept. *)
Theorem covered_sound :
  forall (c : case) (ins : list rin) (outs : list txout),
    covered c = true ->
    (is_sweep (c_caller c) = true -> forallb flags_agree (c_items c) = true) ->
    describes (c_items c) ins outs ->
    (exists ss rest, Permutation (ss ++ rest) (shape_ins (map it_op (c_items c)))
                     /\ Forall2 (fun s i => in_covered s (ri_kind i) = true) ss ins) /\
    (exists os rest, Permutation (os ++ rest) (shape_outs (map it_op (c_items c)))
                     /\ Forall2 (fun s o => out_covered s o = true) os outs).
Proof. exact Proofs.C30.covered_sound. Qed.
Print Assumptions covered_sound.

(* hence, directly on the judge's predicate: a covered case, any real transaction it describes
   that the builder produces, any signatures: estimate >= virtual size *)
Theorem covered_estimate_ge_actual :
  forall (c : case) (ins : list rin) (outs : list txout) (T : tx) (e : N),
    covered c = true ->
    (is_sweep (c_caller c) = true -> forallb flags_agree (c_items c) = true) ->
    describes (c_items c) ins outs ->
    estimate (map it_op (c_items c)) = VOk e -> build ins outs = Some T ->
    vsize T <= e.
Proof. exact Proofs.C30.covered_estimate_ge_actual. Qed.
Print Assumptions covered_estimate_ge_actual.

(* the premises above are satisfiable (one group of multiplicity 2, low and high S) *)
Theorem covered_premises_satisfiable :
  covered ex_case = true /\ is_sweep (c_caller ex_case) = false /\
  describes (c_items ex_case) ex_ins [out_of 22] /\
  exists T e, build ex_ins [out_of 22] = Some T /\ estimate (map it_op (c_items ex_case)) = VOk e /\
              (vsize T <=? e) = true.
Proof. exact Proofs.C30.covered_premises_satisfiable. Qed.
Print Assumptions covered_premises_satisfiable.

(* TIGHTNESS, in general.  [in_exact s k] = [in_covered s k], redeem script of exactly the
   announced length, and [s] is not a non-witness script-hash slot announced with an EMPTY
   redeem script.  Whenever the real transaction uses every announced slot exactly (same
   multiset of shapes, output scripts of the announced standard lengths) and every signature has
   the maximal 72-byte encoding, the estimate EQUALS the virtual size: the weights coincide, so
   there is no rounding slack. *)
Theorem estimate_exact_for_maximal_signatures :
  forall (ops : list op) (ins : list rin) (outs : list txout) (T : tx) (e : N),
    estimate ops = VOk e -> build ins outs = Some T ->
    (exists ss, Permutation ss (shape_ins ops)
                /\ Forall2 (fun s i => in_exact s (ri_kind i) = true) ss ins) ->
    (exists os, Permutation os (shape_outs ops)
                /\ Forall2 (fun s o => len (to_script o) = oshape_len s) os outs) ->
    Forall (fun i => len (sig_bytes_with der_serialize i) = 72) ins ->
    vsize T = e.
Proof. exact Proofs.C30.estimate_exact_for_maximal_signatures. Qed.
Print Assumptions estimate_exact_for_maximal_signatures.

(* its premises hold of [tight_ops] / [tight_ins] / [tight_outs] (all four input kinds, all four
   output kinds, inputs in another order than announced) *)
Theorem exact_premises_satisfiable :
  (exists ss, Permutation ss (shape_ins tight_ops)
              /\ Forall2 (fun s i => in_exact s (ri_kind i) = true) ss tight_ins) /\
  (exists os, Permutation os (shape_outs tight_ops)
              /\ Forall2 (fun s o => len (to_script o) = oshape_len s) os tight_outs) /\
  Forall (fun i => len (sig_bytes_with der_serialize i) = 72) tight_ins.
Proof. exact Proofs.C30.exact_premises_satisfiable. Qed.
Print Assumptions exact_premises_satisfiable.

(* the one excluded slot: a non-witness script-hash input announced with an empty redeem script
   is estimated with an OP_0 push the builder does not write; the transaction of exactly that
   shape with a maximal signature is STRICTLY (one vbyte) below the estimate *)
Theorem empty_redeem_overestimates :
  exists T e, build [mk_rin (KSh false []) r33 s_low32] [out_of 22] = Some T /\
              estimate [OShIn 1 0 false; OPkhOut 1 true] = VOk e /\
              ((vsize T + 1 =? e) && in_covered (SSh false 0) (KSh false [])
               && forallb (fun i => len (sig_bytes_with der_serialize i) =? 72)
                          [mk_rin (KSh false []) r33 s_low32]) = true.
Proof. exact Proofs.C30.empty_redeem_overestimates. Qed.
Print Assumptions empty_redeem_overestimates.

(* tightness by computation: the bound is reached (all four input kinds, all four output kinds, maximal
   signatures, two of them handed over with a high S) *)
Theorem estimate_tight :
  (* [tight_ops] announces one input of each of the four kinds (126-byte redeem scripts) and one
     output of each kind; [tight_ins], [tight_outs] are exactly that (Proofs/C30.v) *)
  exists T e, build tight_ins tight_outs = Some T /\ estimate tight_ops = VOk e /\
    ((vsize T =? e) && forallb (fun i => len (sig_bytes_with der_serialize i) =? 72) tight_ins) = true.
Proof. exact Proofs.C30.estimate_tight. Qed.
Print Assumptions estimate_tight.

(* companion: the low-S step of btcec's serialiser is what makes 72 the maximum.  With a
   serialiser that skips it a 73-byte signature exists and the real transaction of EXACTLY the
   announced shape is larger than the estimate *)
Theorem high_s_would_undershoot :
  exists T e, build_with der_raw high_ins [out_of 22] = Some T /\ estimate [OPkhIn 1 false; OPkhOut 1 true] = VOk e /\
    ((e <? vsize T) && forallb (fun i => len (sig_bytes_with der_raw i) =? 73) high_ins
     && in_covered (SPkh false) (KPkh false) && out_covered (TPkh true) (out_of 22)) = true.
Proof. exact Proofs.C30.high_s_would_undershoot. Qed.
Print Assumptions high_s_would_undershoot.

(* companion: why [in_covered] excludes one case — a non-witness script-hash input whose redeem
   script is ONE byte that is not a small integer: the all-zero placeholder is pushed as OP_0
   (1 byte), the real script needs 2 bytes, and the estimate is one vbyte short.  (tBTC redeem
   scripts are the 92 / 126 byte deposit scripts.) *)
Theorem one_byte_redeem_undershoots :
  exists T e, build [mk_rin (KSh false [81]) r33 s_low32] [out_of 22] = Some T /\
              estimate [OShIn 1 1 false; OPkhOut 1 true] = VOk e /\ (vsize T =? e + 1) = true.
Proof. exact Proofs.C30.one_byte_redeem_undershoots. Qed.
Print Assumptions one_byte_redeem_undershoots.

(* monotonicity: an estimate never decreases when more inputs / outputs are announced or a
   redeem script is announced longer ([ishape_le]); in particular appending calls never lowers
   it and the order of the calls is irrelevant *)
Theorem estimate_monotone :
  forall ops1 ops2 e1 e2,
    estimate ops1 = VOk e1 -> estimate ops2 = VOk e2 ->
    (exists ss rest, Permutation (ss ++ rest) (shape_ins ops2) /\ Forall2 ishape_le (shape_ins ops1) ss) ->
    (exists rest, Permutation (shape_outs ops1 ++ rest) (shape_outs ops2)) ->
    e1 <= e2.
Proof. exact Proofs.C30.estimate_monotone. Qed.
Print Assumptions estimate_monotone.

Theorem estimate_monotone_append :
  forall ops more e1 e2, estimate ops = VOk e1 -> estimate (ops ++ more) = VOk e2 -> e1 <= e2.
Proof. exact Proofs.C30.estimate_monotone_append. Qed.
Print Assumptions estimate_monotone_append.

Theorem estimate_order_irrelevant :
  forall ops1 ops2 e1 e2,
    estimate ops1 = VOk e1 -> estimate ops2 = VOk e2 -> Permutation ops1 ops2 -> e1 = e2.
Proof. exact Proofs.C30.estimate_order_irrelevant. Qed.
Print Assumptions estimate_order_irrelevant.

(* the arithmetic size function the judge evaluates is the byte-level model: for the estimator
   (including the error and panic outcomes) ... *)
Theorem estimate_fast_correct : forall ops, estimate_fast ops = estimate ops.
Proof. exact Proofs.C30.estimate_fast_correct. Qed.
Print Assumptions estimate_fast_correct.

(* ... and for the signed transaction: base size, total size and virtual size are the closed
   forms over (40 + script, witness stack, has witness) per input and script length per output *)
Theorem actual_size_formula :
  forall ins outs T, build ins outs = Some T ->
    let z := L_sizes (map real_trip ins) (map out_len outs) in
    base_size T = z_base z /\ total_size T = z_total z /\ vsize T = z_vsize z.
Proof. exact Proofs.C30.actual_size_formula. Qed.
Print Assumptions actual_size_formula.

(* callers (pkg/tbtcpg): what estimateDepositsSweepFee announces does not cover P2SH deposits;
   a sweep of two 126-byte P2SH deposits is more than 300 vbytes above the estimate *)
Theorem sweep_p2sh_deposits_exceed_estimate :
  exists T e, build p2sh_sweep_ins [out_of 22] = Some T /\ estimate (sweep_ops 2) = VOk e /\
              (e + 300 <? vsize T) = true.
Proof. exact Proofs.C30.sweep_p2sh_deposits_exceed_estimate. Qed.
Print Assumptions sweep_p2sh_deposits_exceed_estimate.

(* soundness of the executable form evaluated on the implementation's numbers *)
Theorem spec_ok_sound :
  forall c e r, spec_ok c = true -> covered c = true -> c_est c = VOk e -> c_real c = Some r ->
    r_vsize r <= e /\ vsize_of_weight (r_base r * 3 + r_total r) <= e.
Proof. exact Proofs.C30.spec_ok_sound. Qed.
Print Assumptions spec_ok_sound.
