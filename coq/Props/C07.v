From Coq Require Import ZArith NArith List Bool.
From KV Require Import Common.Verdict Model.C07 Proofs.C07.
Theorem stub : True. Proof. exact Proofs.C07.stub. Qed.
Print Assumptions stub.
