(* C07 — tECDSA DKG: operating members derive one wallet key and the same misbehaving-member list;
   excluded members are listed as misbehaving; messages from excluded members / other sessions
   never influence the outcome.
   ONLY property statements; proofs are in Proofs/C07.v.  tss-lib key generation is an ORACLE:
   it appears only as the explicit premise of [same_wallet_key]. *)
From Coq Require Import ZArith NArith List Bool Sorted Permutation.
From KV Require Import Common.Verdict Model.C07 Proofs.C07.
Import ListNotations.
Open Scope N_scope.

(* the members 1..size that are not in the exclusion list, ascending *)
Definition not_excluded (size : nat) (ex : list N) : list N :=
  filter (fun m => negb (memN m ex)) (map N.of_nat (seq 1 size)).

(* ---- every operating member builds the same group view, the same strictly sorted party-id list
        and the same misbehaved list from (seed, excluded); whatever its own index, operators
        table or session *)
Theorem same_party_set :
  forall size t seed i j ex ops_i ops_j s_i s_j,
    memN i ex = false -> memN j ex = false ->
    let mi := execute_member size t seed i ex ops_i s_i in
    let mj := execute_member size t seed j ex ops_j s_j in
    mb_group mi = mb_group mj /\ operating (mb_group mi) = operating (mb_group mj)
    /\ party_keys mi = party_keys mj /\ misbehaved (mb_group mi) = misbehaved (mb_group mj).
Proof. exact Proofs.C07.same_party_set. Qed.
Print Assumptions same_party_set.

(* ... and that list is exactly seed + m for the non-excluded m of 1..size, strictly ascending, so
   the excluded members never join the party set and every operating member is in it *)
Theorem party_set_exact :
  forall size t seed i ex ops s,
    (size <= 255)%nat -> memN i ex = false ->
    let mb := execute_member size t seed i ex ops s in
    operating (mb_group mb) = not_excluded size ex
    /\ party_keys mb = map (party_key seed) (not_excluded size ex)
    /\ StronglySorted Z.lt (party_keys mb)
    /\ (1 <= i <= N.of_nat size -> own_key mb = Some (party_key seed i) /\ In (party_key seed i) (party_keys mb)).
Proof. exact Proofs.C07.party_set_exact. Qed.
Print Assumptions party_set_exact.

(* ORACLE PREMISE: an honest tss-lib key generation run over a party set and threshold has one
   outcome ([keygen_run ps thr k] = "the run over parties ps with threshold thr yields key k").
   Under it any two operating members obtain the same wallet key. *)
Theorem same_wallet_key :
  forall (K : Type) (keygen_run : list Z -> Z -> K -> Prop),
    (forall ps thr k1 k2, keygen_run ps thr k1 -> keygen_run ps thr k2 -> k1 = k2) ->
    forall size t seed i j ex ops_i ops_j s_i s_j ki kj,
      memN i ex = false -> memN j ex = false ->
      let mi := execute_member size t seed i ex ops_i s_i in
      let mj := execute_member size t seed j ex ops_j s_j in
      keygen_run (party_keys mi) (honest_threshold (mb_group mi) - 1)%Z ki ->
      keygen_run (party_keys mj) (honest_threshold (mb_group mj) - 1)%Z kj ->
      ki = kj.
Proof. exact Proofs.C07.same_wallet_key. Qed.
Print Assumptions same_wallet_key.

(* ---- the misbehaved list of an operating member is strictly sorted and contains exactly the
        excluded members of the group *)
Theorem excluded_listed_as_misbehaving :
  forall size t seed i ex ops s,
    (size <= 255)%nat -> memN i ex = false ->
    let g := mb_group (execute_member size t seed i ex ops s) in
    StronglySorted N.lt (misbehaved g)
    /\ forall m, In m (misbehaved g) <-> (In m ex /\ 1 <= m <= N.of_nat size).
Proof. exact Proofs.C07.excluded_listed. Qed.
Print Assumptions excluded_listed_as_misbehaving.

Theorem misbehaved_list_same_for_all :
  forall size t seed_i seed_j i j ex ops_i ops_j s_i s_j,
    memN i ex = false -> memN j ex = false ->
    misbehaved (mb_group (execute_member size t seed_i i ex ops_i s_i))
    = misbehaved (mb_group (execute_member size t seed_j j ex ops_j s_j)).
Proof. exact Proofs.C07.misbehaved_same. Qed.
Print Assumptions misbehaved_list_same_for_all.

(* ---- admission.  [foreign] : the message comes from the member itself, from outside the group,
        from an excluded member, is signed by a key that does not hold the sender's seat, or
        belongs to another session *)
Definition foreign (size : nat) (self : N) (ex ops : list N) (session : N) (m : msg) : Prop :=
  m_sender m = self \/ ~ (1 <= m_sender m <= N.of_nat size) \/ In (m_sender m) ex
  \/ nth_error ops (N.to_nat (m_sender m - 1)) <> Some (m_op m) \/ m_session m <> session.

(* Receive is the same function in every key-generation state; a delivery is (state, message) *)
Definition deliver (mb : member) (h : history) (sm : N * msg) : history := receive mb h (snd sm).

(* a foreign message leaves the history unchanged, in every state and after any prefix of
   deliveries; hence the history (and everything computed from it: receivedMessages,
   CanTransition) after ANY delivery sequence equals the one obtained when the foreign messages
   are removed from the sequence *)
Theorem foreign_messages_never_stored :
  forall size t seed self ex ops session,
    (size <= 255)%nat ->
    let mb := execute_member size t seed self ex ops session in
    (forall h state m, foreign size self ex ops session m -> deliver mb h (state, m) = h)
    /\ (forall (keep : N * msg -> bool) h0 dels,
          (forall sm, In sm dels -> keep sm = false -> foreign size self ex ops session (snd sm)) ->
          fold_left (deliver mb) dels h0 = fold_left (deliver mb) (filter keep dels) h0)
    /\ (forall h0 dels m, In m (fold_left (deliver mb) dels h0) ->
          In m h0 \/ (~ foreign size self ex ops session m /\ exists st, In (st, m) dels)).
Proof. exact Proofs.C07.foreign_never_stored. Qed.
Print Assumptions foreign_messages_never_stored.

(* ---- a legitimate message is stored whatever state it is delivered to (so a message for a later
        phase arriving early is kept), stays stored, and its sender is represented in
        receivedMessages of its kind exactly once (duplicates are ignored) *)
Theorem history_keeps_future_messages :
  forall size t seed self ex ops session,
    (size <= 255)%nat ->
    let mb := execute_member size t seed self ex ops session in
    forall h0 state m later,
      ~ foreign size self ex ops session m ->
      let h := fold_left (deliver mb) later (deliver mb h0 (state, m)) in
      In m (all_received h (m_kind m))
      /\ In (m_sender m) (senders (received h (m_kind m)))
      /\ NoDup (senders (received h (m_kind m))).
Proof. exact Proofs.C07.history_keeps. Qed.
Print Assumptions history_keeps_future_messages.

(* ---- delivery order does not matter for what is stored (as a multiset) nor for CanTransition *)
Theorem delivery_order_irrelevant :
  forall mb dels dels' s,
    Permutation dels dels' ->
    Permutation (fold_left (deliver mb) dels []) (fold_left (deliver mb) dels' [])
    /\ can_transition mb (fold_left (deliver mb) dels []) s
       = can_transition mb (fold_left (deliver mb) dels' []) s.
Proof. exact Proofs.C07.order_irrelevant. Qed.
Print Assumptions delivery_order_irrelevant.

(* ---- party ids *)
Theorem partyid_roundtrip :
  forall seed m, m < 256 -> to_member_index seed (party_key seed m) = m.
Proof. exact Proofs.C07.partyid_roundtrip. Qed.
Print Assumptions partyid_roundtrip.

(* ---- soundness of the executable property evaluated on the implementation's outputs *)
(* probe: whatever the implementation stored for kind k comes from delivered, non-foreign
   messages of that kind; receivedMessages has one entry per stored sender *)
Theorem spec_probe_sound :
  forall c, spec_probe c = true ->
    forall k, k < 6 ->
      let hk := nth (N.to_nat k) (o_history c) [] in
      let rk := nth (N.to_nat k) (o_received c) [] in
      (forall x, In x hk -> exists st m, In (st, m) (p_msgs c) /\ m_sender m = x /\ m_kind m = k
          /\ m_sender m <> p_self c /\ 1 <= m_sender m <= p_size c
          /\ ~ In (m_sender m) (p_dq c) /\ ~ In (m_sender m) (p_ia c)
          /\ nth_error (p_ops c) (N.to_nat (m_sender m - 1)) = Some (m_op m)
          /\ m_session m = p_session c)
      /\ NoDup rk /\ (forall x, In x rk <-> In x hk).
Proof. exact Proofs.C07.spec_probe_sound. Qed.
Print Assumptions spec_probe_sound.

(* real runs: all members that completed report one key, one misbehaved list, one party set;
   every excluded group member is listed and its party id is not in the set; each finisher's own
   party id is seed + index and belongs to the common set *)
Theorem spec_run_sound :
  forall c, spec_run c = true ->
    forall o1 o2, In o1 (r_obs c) -> In o2 (r_obs c) -> is_done o1 = true -> is_done o2 = true ->
      mo_key o1 = mo_key o2 /\ mo_mis o1 = mo_mis o2 /\ mo_ks o1 = mo_ks o2
      /\ (forall e, In e (r_excluded c) -> 1 <= e <= r_size c ->
            In e (mo_mis o1) /\ ~ In (party_key (r_seed c) e) (mo_ks o1))
      /\ mo_share o1 = party_key (r_seed c) (mo_member o1) /\ In (mo_share o1) (mo_ks o2).
Proof. exact Proofs.C07.spec_run_sound. Qed.
Print Assumptions spec_run_sound.

(* ---- every model output satisfies the executable property *)
Theorem model_satisfies_spec_probe :
  forall c, p_size c < 256 -> length (p_ops c) = N.to_nat (p_size c) ->
    agree_probe c = true -> spec_probe c = true.
Proof. exact Proofs.C07.model_spec_probe. Qed.
Print Assumptions model_satisfies_spec_probe.

(* for runs the wallet key is the oracle's: premise = the key identifier is a function of the
   party set the member built *)
Theorem model_satisfies_spec_run :
  forall (keyid : list Z -> N) c,
    r_size c < 256 -> (0 <= r_seed c)%Z ->
    (forall o, In o (r_obs c) ->
       1 <= mo_member o <= r_size c /\ ~ In (mo_member o) (r_excluded c)
       /\ finished_ok o = true /\ mo_key o = keyid (mo_ks o)) ->
    agree_run c = true -> spec_run c = true.
Proof. exact Proofs.C07.model_spec_run. Qed.
Print Assumptions model_satisfies_spec_run.
