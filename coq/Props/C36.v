(* C36 — Heartbeat failures escalate to an inactivity claim only after repeated failures.
   ONLY property statements; proofs are in Proofs/C36.v.
   Vocabulary (Model/C36.v): an [input] is what the collaborators of one execute() answer;
   [lowact i]  = signing was reached (operator staked, proposal valid, expiry sane) and
                 succeeded with fewer active members than heartbeatSigningMinimumActiveMembers;
   [success i] = signing was reached and succeeded with enough active members;
   [run_rev w rh] = number of low-activity heartbeats of wallet w since w's last success, in
                 the history rh given most recent first (no counter involved);
   [i_wallet i] = the wallet's FULL public key (the integer 04‖X‖Y), the key of the counter map;
   [run] = the model of heartbeatAction.execute over a whole history of all wallets sharing one
           heartbeatFailureCounter. *)
From Coq Require Import ZArith NArith List Bool.
From KV Require Import Common.Verdict Gen.Consts_C36 Model.C36 Proofs.C36.
Import ListNotations.
Open Scope Z_scope.

(* For EVERY history of heartbeat outcomes over any number of wallets, every threshold and
   every event i of the history: an inactivity claim is submitted at i  iff  i is a
   low-activity heartbeat, the run of low-activity heartbeats of THAT wallet since its last
   success (including i) has reached the threshold, and the inactive set is non-empty; the claim
   names exactly the members that did not announce readiness and is flagged heartbeat-failed. *)
Theorem claim_iff_escalation :
  forall minActive thr claimValidity pre i post o,
    nth_error (run minActive thr claimValidity (pre ++ i :: post)) (length pre) = Some o ->
    (o_claim o <> None <->
       lowact minActive claimValidity i = true /\
       thr <= run_rev minActive claimValidity (i_wallet i) (i :: rev pre) /\
       inactive_of i <> []) /\
    (forall l f, o_claim o = Some (l, f) -> l = inactive_of i /\ f = true).
Proof. exact Proofs.C36.claim_iff_escalation. Qed.
Print Assumptions claim_iff_escalation.

(* no claim on the other outcomes: a low-activity heartbeat is one where the operator is not
   unstaking (eligible stake > 0), the proposal is valid and signing returned a signature *)
Theorem low_activity_means :
  forall minActive claimValidity i,
    lowact minActive claimValidity i = true ->
    i_stake i = StPos /\ i_valid i = true /\ claimValidity <= i_expiry i /\
    exists a l, i_sign i = SgOk a l /\ a < minActive.
Proof. exact Proofs.C36.lowact_inv. Qed.
Print Assumptions low_activity_means.

(* "consecutive": the run length is the number of low-activity heartbeats at the head of the
   wallet's signed heartbeats (successes and low-activity ones), most recent first; hence a
   success resets it and signing errors / unstaking / invalid proposals / other wallets
   neither extend nor reset it *)
Theorem run_is_consecutive :
  forall minActive claimValidity w rh,
    run_rev minActive claimValidity w rh =
    Z.of_nat (length (take_while (lowact minActive claimValidity)
                (filter (fun i => N.eqb (i_wallet i) w &&
                                  (success minActive claimValidity i || lowact minActive claimValidity i))
                        rh))).
Proof. exact Proofs.C36.run_is_consecutive. Qed.
Print Assumptions run_is_consecutive.

(* the shared failure counter of a wallet always equals that run length *)
Theorem counter_is_run_length :
  forall minActive thr claimValidity pre i post o,
    nth_error (run minActive thr claimValidity (pre ++ i :: post)) (length pre) = Some o ->
    o_count o = run_rev minActive claimValidity (i_wallet i) (i :: rev pre).
Proof. exact Proofs.C36.counter_is_run_length. Qed.
Print Assumptions counter_is_run_length.

(* wallets are independent: in any interleaving, the outputs of wallet w's heartbeats are
   those of w's heartbeats run alone *)
Theorem wallets_independent :
  forall minActive thr claimValidity w h,
    map snd (filter (fun p => N.eqb (i_wallet (fst p)) w)
                    (combine h (run minActive thr claimValidity h)))
    = run minActive thr claimValidity (filter (fun i => N.eqb (i_wallet i) w) h).
Proof. exact Proofs.C36.wallets_independent. Qed.
Print Assumptions wallets_independent.

(* wallets with different keys do not interfere, for ANY two different keys a b (however much
   they resemble each other: P and −P, shared coordinates, shared prefixes): erasing all of b's
   heartbeats from any history changes nothing of what a's heartbeats output (claims, errors,
   counter values), and erasing a's changes nothing for b *)
Theorem different_keys_do_not_interfere :
  forall minActive thr claimValidity (a b : N) h,
    a <> b ->
    let outs_of w h :=
      map snd (filter (fun p => N.eqb (i_wallet (fst p)) w)
                      (combine h (run minActive thr claimValidity h))) in
    let without w h := filter (fun i => negb (N.eqb (i_wallet i) w)) h in
    outs_of a h = outs_of a (without b h) /\ outs_of b h = outs_of b (without a h).
Proof. exact Proofs.C36.different_keys_do_not_interfere. Qed.
Print Assumptions different_keys_do_not_interfere.

(* more generally a wallet's outputs depend on its own heartbeats only *)
Theorem own_history_only :
  forall minActive thr claimValidity w h h',
    filter (fun i => N.eqb (i_wallet i) w) h = filter (fun i => N.eqb (i_wallet i) w) h' ->
    map snd (filter (fun p => N.eqb (i_wallet (fst p)) w)
                    (combine h (run minActive thr claimValidity h)))
    = map snd (filter (fun p => N.eqb (i_wallet (fst p)) w)
                      (combine h' (run minActive thr claimValidity h'))).
Proof. exact Proofs.C36.own_history_only. Qed.
Print Assumptions own_history_only.

(* the threshold regenerated from heartbeat.go: "at least three" *)
Theorem threshold_at_least_three : 3 <= Concrete.thr.
Proof. exact Proofs.C36.threshold_at_least_three. Qed.
Print Assumptions threshold_at_least_three.

(* ---- the executable form used by the correspondence check ---- *)
(* it is sound: if it accepts the implementation's observed claims, every observed claim (and
   every absence of a claim) is the one the property demands, members compared as sets *)
Theorem spec_ok_sound :
  forall c,
    Concrete.spec_ok c = true ->
    forall pre i post o,
      c_inputs c = pre ++ i :: post ->
      nth_error (c_observed c) (length pre) = Some o ->
      let escalates :=
        lowact Concrete.minActive Concrete.claimValidity i = true /\
        Concrete.thr <= run_rev Concrete.minActive Concrete.claimValidity (i_wallet i) (i :: rev pre) /\
        inactive_of i <> [] in
      match o_claim o with
      | Some (l, f) => escalates /\ f = true /\ (forall x, In x l <-> In x (inactive_of i))
      | None => ~ escalates
      end.
Proof. exact Proofs.C36.spec_ok_sound. Qed.
Print Assumptions spec_ok_sound.

(* and it holds of every output of the model *)
Theorem model_passes_spec :
  forall h, Concrete.spec_ok {| c_inputs := h; c_observed := Concrete.run h |} = true.
Proof. exact Proofs.C36.model_passes_spec. Qed.
Print Assumptions model_passes_spec.
