(* C12 — Protocol messages are only accepted from the member index the sender controls.
   ONLY property statements; proofs are in Proofs/C12.v.
   [addr_of] is chain.Signing.PublicKeyBytesToAddress (an oracle: every theorem holds for every
   such function).  [holds_index ops idx a]: 1 <= idx and seat idx of the group belongs to a. *)
From Coq Require Import ZArith NArith List Bool.
From KV Require Import Model.C12 Proofs.C12.
Import ListNotations.
Open Scope N_scope.

(* ---- MembershipValidator.IsValidMembership, with the uint8 wrap of idx-1 written out ---- *)
Theorem valid_membership_exact :
  forall (addr_of : N -> N) ops idx key,
    valid_membership addr_of ops idx key = true <->
    nth_error ops (N.to_nat ((idx + 255) mod 256)) = Some (addr_of key).
Proof. exact Proofs.C12.valid_membership_exact. Qed.
Print Assumptions valid_membership_exact.

(* for groups of at most 255 seats it accepts exactly the (index, key) pairs where the key's
   operator holds that seat; operators with several seats are accepted with each of them *)
Theorem valid_membership_holds_index :
  forall (addr_of : N -> N) ops idx key,
    (length ops <= 255)%nat -> idx < 256 ->
    (valid_membership addr_of ops idx key = true <-> holds_index ops idx (addr_of key)).
Proof. exact Proofs.C12.valid_membership_holds_index. Qed.
Print Assumptions valid_membership_holds_index.

Theorem index0_never_valid :
  forall (addr_of : N -> N) ops key,
    (length ops <= 255)%nat -> valid_membership addr_of ops 0 key = false.
Proof. exact Proofs.C12.index0_never_valid. Qed.
Print Assumptions index0_never_valid.

Theorem index_above_size_never_valid :
  forall (addr_of : N -> N) ops idx key,
    (length ops <= 255)%nat -> idx < 256 -> N.of_nat (length ops) < idx ->
    valid_membership addr_of ops idx key = false.
Proof. exact Proofs.C12.index_above_size_never_valid. Qed.
Print Assumptions index_above_size_never_valid.

(* ---- every protocol step (all 30 call sites), every receiver state, every message ---- *)
Theorem admitted_implies_holds_index :
  forall (addr_of : N -> N) (s : step) (x : ctx) (m : msg),
    (length (x_ops x) <= 255)%nat -> m_idx m < 256 ->
    acted (admission addr_of s x m) = true ->
    holds_index (x_ops x) (m_idx m) (addr_of (m_key m)).
Proof. exact Proofs.C12.admitted_implies_holds_index. Qed.
Print Assumptions admitted_implies_holds_index.

(* without the bound on the group size: the seat at the wrapped position *)
Theorem admitted_implies_seat_wrapped :
  forall (addr_of : N -> N) (s : step) (x : ctx) (m : msg),
    acted (admission addr_of s x m) = true ->
    nth_error (x_ops x) (N.to_nat (wrap_pred (m_idx m))) = Some (addr_of (m_key m)).
Proof. exact Proofs.C12.admitted_implies_seat_wrapped. Qed.
Print Assumptions admitted_implies_seat_wrapped.

(* whole histories of arrivals at one step (the done check remembers who is done, the follower
   stops at the first proposal): nothing acted upon comes from a foreign index *)
Theorem never_acts_on_foreign_index :
  forall (addr_of : N -> N) (s : step) (msgs : list msg) (x : ctx) (m : msg) (o : outcome),
    (length (x_ops x) <= 255)%nat ->
    (forall m', In m' msgs -> m_idx m' < 256) ->
    In (m, o) (run addr_of s x msgs) -> acted o = true ->
    holds_index (x_ops x) (m_idx m) (addr_of (m_key m)).
Proof. exact Proofs.C12.run_sound. Qed.
Print Assumptions never_acts_on_foreign_index.

(* ---- "ignored as documented for each step" ---- *)
(* own index: every step except the signing-done check (which counts the member's own done
   message); the coordination follower ignores all indexes of its operator *)
Theorem ignored_self :
  forall (addr_of : N -> N) (s : step) (x : ctx) (m : msg),
    documents_self s = true ->
    match kind_of s with
    | KFollower => In (m_idx m) (x_self x)
    | _ => m_idx m = self1 x
    end ->
    acted (admission addr_of s x m) = false.
Proof. exact Proofs.C12.ignored_self. Qed.
Print Assumptions ignored_self.

Theorem done_check_counts_self :
  exists x m, In (m_idx m) (x_self x) /\ admission (fun k => k) SigningDoneCheck x m = Stored.
Proof. exact Proofs.C12.done_check_counts_self. Qed.
Print Assumptions done_check_counts_self.

(* another session (session id; announcer: protocol and session; follower: coordination block
   and wallet; done check: signed message and attempt): every step *)
Theorem ignored_other_session :
  forall (addr_of : N -> N) (s : step) (x : ctx) (m : msg),
    same_session x m = false -> acted (admission addr_of s x m) = false.
Proof. exact Proofs.C12.ignored_other_session. Qed.
Print Assumptions ignored_other_session.

(* excluded members: inactive, disqualified, or not a member index at the 27 steps that go
   through shouldAcceptMessage; not included in the signing attempt at the signing-done check;
   the announcer and the coordination follower document no exclusion *)
Theorem ignored_excluded :
  forall (addr_of : N -> N) (s : step) (x : ctx) (m : msg),
    match kind_of s with
    | KPlain | KKeyed => is_operating (x_grp x) (m_idx m) = false
    | KDone => ~ In (m_idx m) (x_attempt x)
    | KAnnounce | KFollower => False
    end ->
    acted (admission addr_of s x m) = false.
Proof. exact Proofs.C12.ignored_excluded_prop. Qed.
Print Assumptions ignored_excluded.

Theorem excluded_not_operating :
  forall g idx, In idx (g_ia g) \/ In idx (g_dq g) -> is_operating g idx = false.
Proof. exact Proofs.C12.excluded_not_operating. Qed.
Print Assumptions excluded_not_operating.

(* ---- the executable form used by the correspondence check is sound and holds of every
        model output ---- *)
Theorem spec_ok_sound :
  forall (s : step) (x : ctx) (m : msg) (a : N) (o : outcome),
    spec_ok s x m a o = true -> acted o = true ->
    holds_index (x_ops x) (m_idx m) a /\
    (documents_self s = true -> ~ In (m_idx m) (x_self x)) /\
    same_session x m = true /\
    excluded_at s x (m_idx m) = false.
Proof. exact Proofs.C12.spec_ok_sound. Qed.
Print Assumptions spec_ok_sound.

Theorem model_outputs_pass_spec :
  forall (addr_of : N -> N) (s : step) (x : ctx) (m : msg),
    (length (x_ops x) <= 255)%nat -> m_idx m < 256 ->
    (kind_of s <> KFollower -> x_self x = [self1 x]) ->
    admission addr_of s x m <> Malformed ->
    spec_ok s x m (addr_of (m_key m)) (admission addr_of s x m) = true.
Proof. exact Proofs.C12.model_outputs_pass_spec. Qed.
Print Assumptions model_outputs_pass_spec.

(* ---- the validator has no memory: histories of validations on ONE shared object ---- *)
(* [new_validator ops] is the members map as NewMembershipValidator fills it; [validator_run]
   threads the object through a history of (claimed index, sender key) calls.  The answers of
   ANY history are the map of the pure function [valid_membership] over the calls. *)
Theorem validator_history_independent :
  forall (addr_of : N -> N) (ops : list N) (calls : list (N * N)),
    validator_run addr_of (new_validator ops) calls =
    map (fun c => valid_membership addr_of ops (fst c) (snd c)) calls.
Proof. exact Proofs.C12.validator_history_independent. Qed.
Print Assumptions validator_history_independent.

(* per call: the answer does not depend on what was validated before or after it on the same
   object (hence on no interleaving of the member goroutines' calls, every call being one
   atomic step of the object — the atomicity itself is the assumption the concurrent stream
   of the driver validates) *)
Theorem validator_answer_independent :
  forall (addr_of : N -> N) (ops : list N) (pre post : list (N * N)) (idx key : N),
    nth_error (validator_run addr_of (new_validator ops) (pre ++ (idx, key) :: post)) (length pre)
    = Some (valid_membership addr_of ops idx key).
Proof. exact Proofs.C12.validator_answer_independent. Qed.
Print Assumptions validator_answer_independent.

Theorem validator_history_sound :
  forall (addr_of : N -> N) (ops : list N) (calls : list (N * N)) (idx key : N),
    (length ops <= 255)%nat -> idx < 256 ->
    In ((idx, key), true) (combine calls (validator_run addr_of (new_validator ops) calls)) ->
    holds_index ops idx (addr_of key).
Proof. exact Proofs.C12.validator_history_sound. Qed.
Print Assumptions validator_history_sound.

(* the receiving states: at every step but the done check and the follower the outcome of a
   message does not depend on the messages received before it *)
Theorem run_history_independent :
  forall (addr_of : N -> N) (s : step) (x : ctx),
    kind_of s <> KDone -> kind_of s <> KFollower ->
    forall msgs, run addr_of s x msgs = map (fun m => (m, admission addr_of s x m)) msgs.
Proof. exact Proofs.C12.run_history_independent. Qed.
Print Assumptions run_history_independent.

(* soundness of the executable history specs, and: observations that agree with the model
   call by call pass it *)
Theorem hist_spec_ok_sound :
  forall (ops : list N) (tab : list (N * N)) (calls : list vcall),
    hist_spec_ok ops tab calls = true ->
    forall c, In c calls -> 0 < v_acc c -> holds_index ops (v_idx c) (tab_addr tab (v_key c)).
Proof. exact Proofs.C12.hist_spec_ok_sound. Qed.
Print Assumptions hist_spec_ok_sound.

Theorem hist_agree_passes_spec :
  forall (ops : list N) (tab : list (N * N)) (calls : list vcall),
    (length ops <= 255)%nat ->
    (forall c, In c calls -> v_idx c < 256) ->
    hist_agree (validator_run (tab_addr tab) (new_validator ops)
                              (map (fun c => (v_idx c, v_key c)) calls)) calls = true ->
    hist_spec_ok ops tab calls = true.
Proof. exact Proofs.C12.hist_agree_passes_spec. Qed.
Print Assumptions hist_agree_passes_spec.

Theorem run_spec_ok_sound :
  forall (r : run_case),
    run_spec_ok r = true ->
    forall m o, In (m, o) (r_msgs r) -> acted o = true ->
    holds_index (x_ops (r_ctx r)) (m_idx m) (tab_addr (r_tab r) (m_key m)) /\
    (documents_self (r_step r) = true -> ~ In (m_idx m) (x_self (r_ctx r))) /\
    same_session (r_ctx r) m = true /\
    excluded_at (r_step r) (r_ctx r) (m_idx m) = false.
Proof. exact Proofs.C12.run_spec_ok_sound. Qed.
Print Assumptions run_spec_ok_sound.

(* ---- admission AFTER the production result pipeline, on ONE group object ----
   [apply_marks size marks] is the group after NewGroup and the MarkMemberAsInactive /
   MarkMemberAsDisqualified calls in the given order; [pipe_run g steps] threads the group through
   the result-preparation steps that only read it (conversion to the misbehaved list, the operating
   view, result signing). *)

(* the group is immutable under read-only steps: whatever the steps, the group that comes out is
   the group that went in ... *)
Theorem pipeline_leaves_group_unchanged : forall steps g, fst (pipe_run g steps) = g.
Proof. exact Proofs.C12.pipe_run_group. Qed.
Print Assumptions pipeline_leaves_group_unchanged.

(* ... and what each step returns is a function of that group alone (history = map) *)
Theorem pipeline_outputs_are_map :
  forall steps g, snd (pipe_run g steps) = map (fun s => snd (pstep_run s g)) steps.
Proof. exact Proofs.C12.pipe_run_outputs. Qed.
Print Assumptions pipeline_outputs_are_map.

(* every member named by a mark is excluded in the resulting group (it was marked, or it was not
   operating already: not a member index, or marked before) *)
Theorem marked_member_excluded : forall size marks d i,
  In (d, i) marks -> is_operating (apply_marks size marks) i = false.
Proof. exact Proofs.C12.marked_member_excluded. Qed.
Print Assumptions marked_member_excluded.

(* a message claiming the index of a member excluded by a mark is not acted on by any
   shouldAcceptMessage step whose group went through any read-only pipeline after the marks *)
Theorem pipe_excluded_never_admitted : forall (addr_of : N -> N) s x m size marks steps,
  match kind_of s with KPlain | KKeyed => True | _ => False end ->
  x_grp x = fst (pipe_run (apply_marks size marks) steps) ->
  In (m_idx m) (map snd marks) ->
  acted (admission addr_of s x m) = false.
Proof. exact Proofs.C12.pipe_excluded_never_admitted. Qed.
Print Assumptions pipe_excluded_never_admitted.

(* soundness of the executable pipeline spec, evaluated on the implementation's outcomes with the
   group AS MARKED: whatever the state acted on came from a member the marks did not exclude, under
   a key that holds the claimed index, and not from the receiver itself *)
Theorem pipe_spec_ok_sound : forall q,
  pipe_well_formed q = true -> pipe_spec_ok q = true ->
  forall m o sn, In (m, o, sn) (q_msgs q) -> acted o = true ->
  holds_index (q_ops q) (m_idx m) (tab_addr (q_tab q) (m_key m)) /\
  m_idx m <> q_self q /\
  is_operating (pipe_grp q) (m_idx m) = true /\
  ~ In (m_idx m) (map snd (q_marks q)).
Proof. exact Proofs.C12.pipe_spec_ok_sound. Qed.
Print Assumptions pipe_spec_ok_sound.
