(* C46 — Wallet action deadlines nest inside the proposal validity window.
   ONLY property statements; proofs are in Proofs/C46.v.  Every number is a Go constant
   regenerated from /repo on every run (Gen/Consts_C46.v): a changed constant re-opens
   [action_constants_nest] (closed by computation).  Statements quantify over every action type
   and every start block for which start + validity does not wrap uint64. *)
From Coq Require Import ZArith List Bool.
From KV Require Import Common.Verdict Gen.Consts_C46 Model.C46 Proofs.C46.
Import ListNotations.
Open Scope Z_scope.

(* the obligation on the constants, for every action type *)
Theorem action_constants_nest :
  forall a : action,
    constants_ok (is_tx a) (validity a) (signing_end_offset a) (safety_margin a)
                 (signing_delay a + loop_blocks) (broadcast_timeout_ns a) = true.
Proof. exact Proofs.C46.constants_nest. Qed.
Print Assumptions action_constants_nest.

(* meaning of the executable form *)
Theorem constants_ok_meaning :
  forall tx v off mg lp bt,
    constants_ok tx v off mg lp bt = true ->
    0 <= mg <= off /\ off <= v /\ lp <= v - off /\
    (tx = true -> blocks_of_ns bt <= off) /\ (tx = false -> 0 < mg).
Proof. exact Proofs.C46.constants_ok_sound. Qed.
Print Assumptions constants_ok_meaning.

Theorem one_signing_loop_is_attempts_times_attempt_blocks :
  loop_blocks = signingAttemptsLimit * attempt_max_blocks.
Proof. exact Proofs.C46.loop_blocks_no_wrap. Qed.
Print Assumptions one_signing_loop_is_attempts_times_attempt_blocks.

(* the action starts when the coordination window ends *)
Theorem action_starts_at_window_end :
  forall cb, 0 <= cb < 4611686018427387904 ->
    action_start cb = cb + coordinationDurationBlocks /\ cb <= action_start cb.
Proof. exact Proofs.C46.action_start_val. Qed.
Print Assumptions action_starts_at_window_end.

Theorem expiry_is_start_plus_validity :
  forall a start, 0 <= start -> start + validity a < two64 ->
    expiry a start = start + validity a.
Proof. exact Proofs.C46.expiry_val. Qed.
Print Assumptions expiry_is_start_plus_validity.

(* for every action type and start block: the signing phase exists (the "invalid proposal
   expiry block" guard does not fire), starts no earlier than the action start (moving funds:
   movingFundsCommitmentConfirmationBlocks later, as execute() hands it to signTransaction), ends at least
   the documented safety margin before the expiry, and one complete retry loop of a single
   message (attempts limit x attempt maximum blocks) fits into it *)
Theorem signing_phase_nests_in_validity_window :
  forall a start, 0 <= start -> start + validity a < two64 ->
    exists se,
      signing_end a (expiry a start) = Some se /\
      start <= action_signing_start a start /\ action_signing_start a start <= se /\
      action_signing_start a start = start + signing_delay a /\
      se <= expiry a start - safety_margin a /\
      action_signing_start a start + signingAttemptsLimit * attempt_max_blocks <= se /\
      loop_timeout (action_signing_start a start) <= se.
Proof. exact Proofs.C46.signing_window_nests. Qed.
Print Assumptions signing_phase_nests_in_validity_window.

(* transaction actions: even when signing finishes at the last block of the signing phase, the
   broadcast step (bounded by its timeout) ends before the expiry at 12 s per block *)
Theorem broadcast_ends_before_expiry :
  forall a start se,
    is_tx a = true -> 0 <= start -> start + validity a < two64 ->
    signing_end a (expiry a start) = Some se ->
    se + blocks_of_ns (broadcast_timeout_ns a) <= expiry a start.
Proof. exact Proofs.C46.broadcast_ends_before_expiry. Qed.
Print Assumptions broadcast_ends_before_expiry.

Theorem broadcast_check_delay_within_timeout :
  forall a, is_tx a = true -> 0 < broadcast_check_delay_ns a < broadcast_timeout_ns a.
Proof. exact Proofs.C46.check_delay_within_timeout. Qed.
Print Assumptions broadcast_check_delay_within_timeout.

(* heartbeat: the inactivity claim window follows the signing phase and ends the documented
   safety margin before the expiry *)
Theorem heartbeat_claim_window_ends_before_expiry :
  forall start se,
    0 <= start -> start + validity Heartbeat < two64 ->
    signing_end Heartbeat (expiry Heartbeat start) = Some se ->
    se <= claim_end (expiry Heartbeat start) /\
    claim_end (expiry Heartbeat start) = expiry Heartbeat start - heartbeatTimeoutSafetyMarginBlocks /\
    claim_end (expiry Heartbeat start) < expiry Heartbeat start.
Proof. exact Proofs.C46.heartbeat_claim_window. Qed.
Print Assumptions heartbeat_claim_window_ends_before_expiry.

(* ---- the executable forms used by the correspondence check ---- *)
Theorem windows_ok_sound :
  forall start exp mg lp ss se pe,
    windows_ok start exp mg lp ss se pe = true ->
    start <= ss /\ se <= exp - mg /\ lp <= se - start /\
    match pe with None => True | Some p => se <= p <= exp end.
Proof. exact Proofs.C46.windows_ok_sound. Qed.
Print Assumptions windows_ok_sound.

(* they hold of every model output: the judge answers Agree on the model's own numbers *)
Theorem model_static_cases_pass :
  forall a start,
    is_tx a = true -> 0 <= start -> start + validity a < two64 ->
    judge (CStatic a start (start + validity a)
             {| s_validity := validity a; s_offset := signing_end_offset a;
                s_bt := broadcast_timeout_ns a; s_cd := broadcast_check_delay_ns a;
                s_start := start; s_expiry := start + validity a;
                s_limit := signingAttemptsLimit; s_attempt := attempt_max_blocks;
                s_loop := loop_blocks |}) = Agree.
Proof. exact Proofs.C46.static_model_passes. Qed.
Print Assumptions model_static_cases_pass.

Theorem model_heartbeat_cases_pass :
  forall start exp claims,
    0 <= start < two64 -> 0 <= exp < two64 ->
    judge (CHeartbeat start exp claims (heartbeat_model start exp claims)) = Agree.
Proof. exact Proofs.C46.heartbeat_model_passes. Qed.
Print Assumptions model_heartbeat_cases_pass.

(* ================= the deadlines are ENFORCED (node.go withCancelOnBlock) ================= *)

(* the derived context as a machine, rule of the code as written: for EVERY event history it
   is closed exactly when a closing event (parent done, block reached, waiter error) occurred *)
Theorem derived_context_closed_iff_closing_event :
  forall h : list event,
    ctx_run code_on_error CtxOpen h = CtxCancelled <->
    exists e, In e h /\ (e = EvParentDone \/ e = EvBlockReached \/ e = EvWaiterError).
Proof. exact Proofs.C46.ctx_closed_iff_named_event. Qed.
Print Assumptions derived_context_closed_iff_closing_event.

(* ... and no later than the FIRST of them: closed right after it, and for ever after *)
Theorem derived_context_closed_at_first_closing_event :
  forall s pre e post,
    e = EvParentDone \/ e = EvBlockReached \/ e = EvWaiterError ->
    ctx_run code_on_error s (pre ++ [e]) = CtxCancelled /\
    ctx_run code_on_error s (pre ++ e :: post) = CtxCancelled.
Proof. exact Proofs.C46.ctx_closed_at_first_named_event. Qed.
Print Assumptions derived_context_closed_at_first_closing_event.

Theorem derived_context_never_open_after_waiter_error :
  forall s h, In EvWaiterError h -> ctx_run code_on_error s h = CtxCancelled.
Proof. exact Proofs.C46.ctx_never_open_after_waiter_error. Qed.
Print Assumptions derived_context_never_open_after_waiter_error.

(* it is the fail-closed rule that carries this: a rule cancelling only after a successful wait
   leaves the context open after a waiter error, for every history without the block / parent *)
Theorem cancel_only_on_success_rule_refuted :
  forall h, (forall e, In e h -> e = EvWaiterError \/ e = EvQuiet) ->
    ctx_run false CtxOpen h = CtxOpen.
Proof. exact Proofs.C46.lenient_rule_stays_open_after_error. Qed.
Print Assumptions cancel_only_on_success_rule_refuted.

(* in the scripted world (block clock + scripted waiter, any script): closed exactly when the
   waiter has returned — nil or error — or the parent is done *)
Theorem world_context_closed_iff_waiter_returned_or_parent_done :
  forall m armed target steps,
    let st := world_run code_on_error m armed target w_init steps in
    is_closed (w_ctx st) = w_parent st || returned (w_ret st).
Proof. exact Proofs.C46.world_closed_iff_event. Qed.
Print Assumptions world_context_closed_iff_waiter_returned_or_parent_done.

(* every action type, every start block, every block at which the deadline is armed, every
   waiter that returns by the deadline block (nil at the block, or an error at any block up to
   it), every clock script before and after: the signing context is closed once the clock shows
   a block >= the deadline, and the deadline is <= expiry - safety margin *)
Theorem signing_phase_ends_by_deadline_for_every_waiter :
  forall a start armed m pre b post,
    0 <= start -> start + validity a < two64 ->
    exists se,
      signing_end a (expiry a start) = Some se /\
      se <= expiry a start - safety_margin a /\
      (waiter_live m armed se -> se <= b ->
       w_ctx (world_run code_on_error m armed se w_init (pre ++ [SAdvance b])) = CtxCancelled /\
       w_ctx (world_run code_on_error m armed se w_init (pre ++ SAdvance b :: post)) = CtxCancelled).
Proof. exact Proofs.C46.signing_phase_enforced. Qed.
Print Assumptions signing_phase_ends_by_deadline_for_every_waiter.

(* any waiter return closes the context at the block of the return (an error: fail-closed,
   possibly before the deadline) *)
Theorem context_closed_when_waiter_returns :
  forall m armed target tr pre b post,
    trigger m armed target = Some tr -> tr <= b ->
    w_ctx (world_run code_on_error m armed target w_init (pre ++ [SAdvance b])) = CtxCancelled /\
    w_ctx (world_run code_on_error m armed target w_init (pre ++ SAdvance b :: post)) = CtxCancelled.
Proof. exact Proofs.C46.deadline_enforced. Qed.
Print Assumptions context_closed_when_waiter_returns.

(* a healthy waiter does not cut the phase short: open while the clock is below the deadline,
   so the complete retry loop of a single message still fits *)
Theorem signing_phase_not_cut_short_by_healthy_waiter :
  forall a start armed steps,
    0 <= start -> start + validity a < two64 ->
    exists se,
      signing_end a (expiry a start) = Some se /\
      action_signing_start a start + signingAttemptsLimit * attempt_max_blocks <= se /\
      ((forall d, In d steps -> exists b, d = SAdvance b /\ b < se) ->
       w_ctx (world_run code_on_error WOk armed se w_init steps) = CtxOpen).
Proof. exact Proofs.C46.signing_phase_not_cut_short. Qed.
Print Assumptions signing_phase_not_cut_short_by_healthy_waiter.

(* with the lenient rule a block counter failing while the deadline is armed leaves the
   signing context open for every clock script: the phase is unbounded *)
Theorem lenient_rule_unbounded_signing_phase :
  forall armed target steps,
    existsb is_cancel steps = false ->
    w_ctx (world_run false (WErrAfter 0) armed target w_init (all_steps armed steps)) = CtxOpen /\
    w_ret (world_run false (WErrAfter 0) armed target w_init (all_steps armed steps)) = RetErr.
Proof. exact Proofs.C46.lenient_world_stays_open. Qed.
Print Assumptions lenient_rule_unbounded_signing_phase.

(* meaning of the executable form used on the observations *)
Theorem enforce_ok_meaning :
  forall steps obs pd,
    enforce_ok pd steps obs = true ->
    length obs = length steps /\
    forall i d o, nth_error steps i = Some d -> nth_error obs i = Some o ->
      o_closed o = (pd || existsb is_cancel (firstn (S i) steps)) || returned (o_ret o).
Proof. exact Proofs.C46.enforce_ok_sound. Qed.
Print Assumptions enforce_ok_meaning.

(* it holds of every model output *)
Theorem model_enforce_cases_pass :
  forall ar armed m steps t,
    well_formed (CEnforce ar armed m steps (armer_sign_start ar) (armer_target ar) []) = true ->
    armer_target ar = Some t ->
    judge (CEnforce ar armed m steps (armer_sign_start ar) (armer_target ar) (model_obs m armed t steps)) = Agree.
Proof. exact Proofs.C46.enforce_model_passes. Qed.
Print Assumptions model_enforce_cases_pass.

(* ---------------- the signing executor OBEYS the deadline ----------------
   signingExecutor.sign for a message starting at block [s], called when the block clock shows
   [c0] with a caller context that is cancelled at the deadline block [d] (the action's signing
   context), every attempt failing as scripted (announcement ends with a minority ready, or the
   loop's own block wait fails), for EVERY start block, deadline, call time and failure script:
   sign() returns, with an error, no later than the clock value max(c0, min(s + one loop, d)) —
   i.e. by the deadline when it was called before it — and every attempt it started (announced on a
   live context) was started strictly before the deadline block. *)
Theorem signing_ends_by_deadline :
  forall s d c0 script,
    0 <= c0 ->
    let o := sign_model true s d c0 script in
    0 <= l_end o <= Z.max c0 (Z.min (s + loop_blocks) d) /\
    Forall (fun x : Z * bool => snd x = true -> fst x < d) (l_sends o) /\
    l_err o = true.
Proof. exact Proofs.C46.signing_ends_by_deadline_lemma. Qed.
Print Assumptions signing_ends_by_deadline.

(* the retry loop always returns (with or without a parent context): the model never runs out of fuel *)
Theorem signing_loop_returns :
  forall par s d c0 script, 0 <= c0 -> 0 <= l_end (sign_model par s d c0 script).
Proof. exact Proofs.C46.sign_model_returns. Qed.
Print Assumptions signing_loop_returns.

(* meaning of the executable form used on the observations *)
Theorem loop_spec_ok_meaning :
  forall s d c0 o,
    loop_spec_ok s d c0 o = true ->
    0 <= l_end o <= Z.max c0 (Z.min (s + loop_blocks) d) /\
    (forall b, In (b, true) (l_sends o) -> b < d) /\ l_err o = true.
Proof. exact Proofs.C46.loop_spec_ok_sound. Qed.
Print Assumptions loop_spec_ok_meaning.

(* it holds of every model output, and the model's own output is judged Agree *)
Theorem model_loop_cases_pass :
  forall s d c0 script,
    well_formed (CLoop s d c0 script (sign_model true s d c0 script)) = true ->
    judge (CLoop s d c0 script (sign_model true s d c0 script)) = Agree.
Proof. exact Proofs.C46.loop_model_passes. Qed.
Print Assumptions model_loop_cases_pass.

(* a loop context that does not descend from the caller's context is NOT bounded by the deadline:
   a message starting 100 blocks before it keeps starting attempts after it and returns 105
   blocks late (the executable property is false on that output) *)
Theorem orphan_loop_context_overruns_deadline :
  let o := sign_model false 10000 10100 9998 [] in
  l_end o = 10205 /\ In (10124, true) (l_sends o) /\ loop_spec_ok 10000 10100 9998 o = false.
Proof. exact Proofs.C46.orphan_loop_overruns. Qed.
Print Assumptions orphan_loop_context_overruns_deadline.
