(* C46 — Wallet action deadlines nest inside the proposal validity window.
   ONLY property statements; proofs are in Proofs/C46.v.  Every number is a Go constant
   regenerated from /repo on every run (Gen/Consts_C46.v): a changed constant re-opens
   [action_constants_nest] (closed by computation).  Statements quantify over every action type
   and every start block for which start + validity does not wrap uint64. *)
From Coq Require Import ZArith List Bool.
From KV Require Import Common.Verdict Gen.Consts_C46 Model.C46 Proofs.C46.
Import ListNotations.
Open Scope Z_scope.

(* the obligation on the constants, for every action type *)
Theorem action_constants_nest :
  forall a : action,
    constants_ok (is_tx a) (validity a) (signing_end_offset a) (safety_margin a) loop_blocks
                 (broadcast_timeout_ns a) = true.
Proof. exact Proofs.C46.constants_nest. Qed.
Print Assumptions action_constants_nest.

(* meaning of the executable form *)
Theorem constants_ok_meaning :
  forall tx v off mg lp bt,
    constants_ok tx v off mg lp bt = true ->
    0 <= mg <= off /\ off <= v /\ lp <= v - off /\
    (tx = true -> blocks_of_ns bt <= off) /\ (tx = false -> 0 < mg).
Proof. exact Proofs.C46.constants_ok_sound. Qed.
Print Assumptions constants_ok_meaning.

Theorem one_signing_loop_is_attempts_times_attempt_blocks :
  loop_blocks = signingAttemptsLimit * attempt_max_blocks.
Proof. exact Proofs.C46.loop_blocks_no_wrap. Qed.
Print Assumptions one_signing_loop_is_attempts_times_attempt_blocks.

(* the action starts when the coordination window ends *)
Theorem action_starts_at_window_end :
  forall cb, 0 <= cb < 4611686018427387904 ->
    action_start cb = cb + coordinationDurationBlocks /\ cb <= action_start cb.
Proof. exact Proofs.C46.action_start_val. Qed.
Print Assumptions action_starts_at_window_end.

Theorem expiry_is_start_plus_validity :
  forall a start, 0 <= start -> start + validity a < two64 ->
    expiry a start = start + validity a.
Proof. exact Proofs.C46.expiry_val. Qed.
Print Assumptions expiry_is_start_plus_validity.

(* for every action type and start block: the signing phase exists (the "invalid proposal
   expiry block" guard does not fire), starts no earlier than the action start, ends at least
   the documented safety margin before the expiry, and one complete retry loop of a single
   message (attempts limit x attempt maximum blocks) fits into it *)
Theorem signing_phase_nests_in_validity_window :
  forall a start, 0 <= start -> start + validity a < two64 ->
    exists se,
      signing_end a (expiry a start) = Some se /\
      start <= signing_start start /\ signing_start start <= se /\
      se <= expiry a start - safety_margin a /\
      signing_start start + signingAttemptsLimit * attempt_max_blocks <= se /\
      loop_timeout start <= se.
Proof. exact Proofs.C46.signing_window_nests. Qed.
Print Assumptions signing_phase_nests_in_validity_window.

(* transaction actions: even when signing finishes at the last block of the signing phase, the
   broadcast step (bounded by its timeout) ends before the expiry at 12 s per block *)
Theorem broadcast_ends_before_expiry :
  forall a start se,
    is_tx a = true -> 0 <= start -> start + validity a < two64 ->
    signing_end a (expiry a start) = Some se ->
    se + blocks_of_ns (broadcast_timeout_ns a) <= expiry a start.
Proof. exact Proofs.C46.broadcast_ends_before_expiry. Qed.
Print Assumptions broadcast_ends_before_expiry.

Theorem broadcast_check_delay_within_timeout :
  forall a, is_tx a = true -> 0 < broadcast_check_delay_ns a < broadcast_timeout_ns a.
Proof. exact Proofs.C46.check_delay_within_timeout. Qed.
Print Assumptions broadcast_check_delay_within_timeout.

(* heartbeat: the inactivity claim window follows the signing phase and ends the documented
   safety margin before the expiry *)
Theorem heartbeat_claim_window_ends_before_expiry :
  forall start se,
    0 <= start -> start + validity Heartbeat < two64 ->
    signing_end Heartbeat (expiry Heartbeat start) = Some se ->
    se <= claim_end (expiry Heartbeat start) /\
    claim_end (expiry Heartbeat start) = expiry Heartbeat start - heartbeatTimeoutSafetyMarginBlocks /\
    claim_end (expiry Heartbeat start) < expiry Heartbeat start.
Proof. exact Proofs.C46.heartbeat_claim_window. Qed.
Print Assumptions heartbeat_claim_window_ends_before_expiry.

(* ---- the executable forms used by the correspondence check ---- *)
Theorem windows_ok_sound :
  forall start exp mg lp ss se pe,
    windows_ok start exp mg lp ss se pe = true ->
    start <= ss /\ se <= exp - mg /\ lp <= se - start /\
    match pe with None => True | Some p => se <= p <= exp end.
Proof. exact Proofs.C46.windows_ok_sound. Qed.
Print Assumptions windows_ok_sound.

(* they hold of every model output: the judge answers Agree on the model's own numbers *)
Theorem model_static_cases_pass :
  forall a start,
    is_tx a = true -> 0 <= start -> start + validity a < two64 ->
    judge (CStatic a start (start + validity a)
             {| s_validity := validity a; s_offset := signing_end_offset a;
                s_bt := broadcast_timeout_ns a; s_cd := broadcast_check_delay_ns a;
                s_start := start; s_expiry := start + validity a;
                s_limit := signingAttemptsLimit; s_attempt := attempt_max_blocks;
                s_loop := loop_blocks |}) = Agree.
Proof. exact Proofs.C46.static_model_passes. Qed.
Print Assumptions model_static_cases_pass.

Theorem model_heartbeat_cases_pass :
  forall start exp claims,
    0 <= start < two64 -> 0 <= exp < two64 ->
    judge (CHeartbeat start exp claims (heartbeat_model start exp claims)) = Agree.
Proof. exact Proofs.C46.heartbeat_model_passes. Qed.
Print Assumptions model_heartbeat_cases_pass.
