(* C14 — Block-synchronised state machine runs every phase in its block window.
   ONLY property statements; proofs are in Proofs/C14.v.

   A trace is a list of events (Model/C14.v): environment events [EBlock h], [EMsg m acc] and
   machine events [MWait t], [MInit k hgt], [MWaiter w], [MRecv k m], [MNext k], [MDone o].
   [run prog start h0 evs = Some s] says that evs is a possible behaviour of the machine started
   on the state list prog (delay, active per state; zero allowed) for start block [start] when the
   chain is at height h0: ANY interleaving of block arrivals, message deliveries, slow Initiate /
   Next calls and any resolution of Go's select between the receive buffer and the block waiter.
   Closed forms (uint64 arithmetic, 2^64 = two64):
     nominal prog start k = (start + sum_{j<k}(d_j+a_j) + d_k) mod 2^64
     endk    prog start k = (start + sum_{j<=k}(d_j+a_j))      mod 2^64 *)
From Coq Require Import ZArith NArith List Bool.
From KV Require Import Common.Verdict Gen.Consts_C14 Model.C14 Proofs.C14.
Import ListNotations.
Open Scope N_scope.

(* initiate_block: whenever Initiate of state k is entered, the states 0..k-1 have been initiated
   and ended, in order, the block the machine waited for just before is exactly nominal k, and
   the chain has reached it *)
Theorem initiate_block : forall prog start h0 pre k hgt post s,
  run prog start h0 (pre ++ MInit k hgt :: post) = Some s ->
  (k < length prog)%nat /\
  length (inits pre) = k /\ length (nexts pre) = k /\ length (waiters pre) = k /\
  length (waits pre) = S (S k) /\ nth_error (waits pre) (S k) = Some (nominal prog start k) /\
  nominal prog start k <= hgt /\ dones pre = [].
Proof. exact Proofs.C14.initiate_block. Qed.
Print Assumptions initiate_block.

(* ... and at EXACTLY that block (and every state ends exactly at its end block) when the machine
   is never outrun by the chain (eager: a block arrives only when the machine is blocked), blocks
   arrive one by one, the start block is not in the past and no Initiate overruns its state
   (timely: every wait is requested at a height that has not passed its target) *)
Theorem initiate_height_exact : forall prog start h0 evs s,
  run_eager prog start h0 evs = Some s -> timely_from h0 evs = true ->
  (forall pre k hgt post, evs = pre ++ MInit k hgt :: post -> hgt = nominal prog start k) /\
  (forall pre k post, evs = pre ++ MNext k :: post -> height_of h0 pre = endk prog start k).
Proof. exact Proofs.C14.initiate_height_exact. Qed.
Print Assumptions initiate_height_exact.

(* a state is left only once the chain reached its end block *)
Theorem next_only_after_end_block : forall prog start h0 pre k post s,
  run prog start h0 (pre ++ MNext k :: post) = Some s ->
  length (nexts pre) = k /\ length (waiters pre) = S k /\ endk prog start k <= height_of h0 pre.
Proof. exact Proofs.C14.next_only_after_end_block. Qed.
Print Assumptions next_only_after_end_block.

(* end_block: a successful Execute returns the last state and start + the total duration *)
Theorem end_block : forall prog start h0 pre k h post s,
  run prog start h0 (pre ++ MDone (Final k h) :: post) = Some s ->
  S k = length prog /\ length (nexts pre) = length prog /\
  h = (start + sum_dur prog) mod two64 /\
  (start + sum_dur prog < two64 -> h = start + sum_dur prog).
Proof. exact Proofs.C14.end_block. Qed.
Print Assumptions end_block.

(* messages_to_current_only: a message is handed to state k only while k is the current state
   (k states have ended, state k's Initiate has completed), and it is the oldest message accepted
   from the channel that has not been handed over yet *)
Theorem messages_to_current_only : forall prog start h0 pre k m post s,
  run prog start h0 (pre ++ MRecv k m :: post) = Some s ->
  length (nexts pre) = k /\ length (waiters pre) = S k /\
  nth_error (accepted pre) (length (recvs pre)) = Some m /\ dones pre = [].
Proof. exact Proofs.C14.messages_to_current_only. Qed.
Print Assumptions messages_to_current_only.

(* no accepted message is lost, duplicated or reordered by the machine *)
Theorem messages_fifo_no_loss : forall prog start h0 evs s,
  run prog start h0 evs = Some s -> map snd (recvs evs) ++ buf s = accepted evs.
Proof. exact Proofs.C14.fifo_no_loss. Qed.
Print Assumptions messages_fifo_no_loss.

(* same_blocks_for_all_members: two members started at the same block on the same state list wait
   for the same blocks in every phase and finish at the same block, whatever their schedules
   (message timing, block timing, Initiate durations, initial heights) *)
Theorem same_blocks_for_all_members : forall prog start h1 h2 evs1 evs2 s1 s2,
  run prog start h1 evs1 = Some s1 -> run prog start h2 evs2 = Some s2 ->
  (forall i a b, nth_error (waits evs1) i = Some a -> nth_error (waits evs2) i = Some b -> a = b) /\
  (forall i a b, nth_error (waiters evs1) i = Some a -> nth_error (waiters evs2) i = Some b -> a = b) /\
  (forall k1 e1 k2 e2, In (MDone (Final k1 e1)) evs1 -> In (MDone (Final k2 e2)) evs2 ->
                       k1 = k2 /\ e1 = e2).
Proof. exact Proofs.C14.same_blocks_for_all_members. Qed.
Print Assumptions same_blocks_for_all_members.

(* the real state lists (constants generated from /repo by tools/constgen): their total duration
   is the value of the Go functions ProtocolBlocks() / PrePublicationBlocks() *)
Theorem gjkr_total_duration :
  sum_dur gjkr_states = Z.to_N gjkr_ProtocolBlocks /\ (0 <= gjkr_ProtocolBlocks)%Z.
Proof. exact Proofs.C14.gjkr_total_duration. Qed.
Print Assumptions gjkr_total_duration.

Theorem result_total_duration :
  sum_dur result_states = Z.to_N result_PrePublicationBlocks /\ (0 <= result_PrePublicationBlocks)%Z.
Proof. exact Proofs.C14.result_total_duration. Qed.
Print Assumptions result_total_duration.

(* proto 0 = gjkr, otherwise dkg/result *)
Theorem real_protocol_duration : forall proto start h0 pre k h post s,
  run (real_states proto) start h0 (pre ++ MDone (Final k h) :: post) = Some s ->
  h = (start + Z.to_N (real_total proto)) mod two64.
Proof. exact Proofs.C14.real_protocol_duration. Qed.
Print Assumptions real_protocol_duration.

(* soundness of the executable form evaluated on the implementation's observed trace *)
Theorem spec_sound : forall c, spec_trace c = true ->
  let prog := c_prog c in let start := c_start c in
  (forall pre k hgt post, c_events c = pre ++ MInit k hgt :: post ->
     (k < length prog)%nat /\ length (inits pre) = k /\ length (nexts pre) = k /\
     nth_error (waits pre) (S k) = Some (nominal prog start k) /\ nominal prog start k <= hgt /\
     (c_eager c = true -> timely_from (c_h0 c) (c_events c) = true -> hgt = nominal prog start k)) /\
  (forall pre k h post, c_events c = pre ++ MDone (Final k h) :: post ->
     S k = length prog /\ h = (start + sum_dur prog) mod two64 /\
     (forall T, c_total c = Some T -> h = (start + T) mod two64)) /\
  (forall pre k m post, c_events c = pre ++ MRecv k m :: post ->
     length (nexts pre) = k /\ length (waiters pre) = S k /\
     nth_error (accepted pre) (length (recvs pre)) = Some m) /\
  (forall pre k post, c_events c = pre ++ MNext k :: post ->
     length (nexts pre) = k /\ endk prog start k <= height_of (c_h0 c) pre).
Proof. exact Proofs.C14.spec_sound. Qed.
Print Assumptions spec_sound.

(* ... and every trace of the (eager) model passes it *)
Theorem model_passes_spec : forall prog start h0 total evs s settled,
  match total with Some T => T = sum_dur prog | None => True end ->
  run_eager prog start h0 evs = Some s ->
  spec_trace {| c_prog := prog; c_start := start; c_h0 := h0; c_total := total; c_eager := true;
                c_settled := settled; c_events := evs |} = true.
Proof. exact Proofs.C14.model_passes_spec. Qed.
Print Assumptions model_passes_spec.

(* ------------------------------------------------------------------ re-execution of ONE machine
   [run_history rs = Some ss]: rs are the traces of successive Execute calls on the same
   SyncMachine instance (each with its own state list as it behaved in that call, start block
   and chain height at the call), as the code is written: Execute makes a fresh receive buffer
   and leaves nothing behind.  [run_hist_from true] is the machine that would keep one buffer
   for its whole life. *)

(* executions of one machine are independent: a history is possible iff every execution is a
   behaviour of a FRESH machine *)
Theorem executions_of_one_machine_are_independent : forall rs ss,
  run_history rs = Some ss <->
  Forall2 (fun r s => run (c_prog r) (c_start r) (c_h0 r) (c_events r) = Some s) rs ss.
Proof. exact Proofs.C14.hist_independent. Qed.
Print Assumptions executions_of_one_machine_are_independent.

(* every message handed to a state was accepted from the channel during THAT execution (it is
   the oldest message accepted in this execution and not yet handed over), while that state
   was current *)
Theorem messages_stay_in_their_execution : forall rs ss r pre k m post,
  run_history rs = Some ss -> In r rs -> c_events r = pre ++ MRecv k m :: post ->
  length (nexts pre) = k /\ length (waiters pre) = S k /\
  nth_error (accepted pre) (length (recvs pre)) = Some m /\ dones pre = [].
Proof. exact Proofs.C14.hist_messages_stay. Qed.
Print Assumptions messages_stay_in_their_execution.

(* every execution that finishes ends at ITS start block plus the total duration *)
Theorem every_execution_ends_at_its_own_end_block : forall rs ss r pre k h post,
  run_history rs = Some ss -> In r rs -> c_events r = pre ++ MDone (Final k h) :: post ->
  S k = length (c_prog r) /\ h = (c_start r + sum_dur (c_prog r)) mod two64.
Proof. exact Proofs.C14.hist_end_block. Qed.
Print Assumptions every_execution_ends_at_its_own_end_block.

(* what a machine-wide buffer would do: the first state of a later execution is handed a
   message that arrived during an earlier, aborted execution (accepted by that variant,
   rejected by the model of the code and by the executable property) *)
Theorem reused_buffer_refuted :
  (exists ss, run_hist_from true [] [reuse_run1; reuse_run2] = Some ss) /\
  In (MRecv 0 1) (c_events reuse_run2) /\ ~ In 1 (accepted (c_events reuse_run2)) /\
  run_history [reuse_run1; reuse_run2] = None /\ spec_hist [reuse_run1; reuse_run2] = false.
Proof. exact Proofs.C14.reused_buffer_refuted. Qed.
Print Assumptions reused_buffer_refuted.

Theorem spec_hist_sound : forall rs, spec_hist rs = true ->
  forall r, In r rs ->
  (forall pre k m post, c_events r = pre ++ MRecv k m :: post ->
     length (nexts pre) = k /\ length (waiters pre) = S k /\
     nth_error (accepted pre) (length (recvs pre)) = Some m) /\
  (forall pre k h post, c_events r = pre ++ MDone (Final k h) :: post ->
     S k = length (c_prog r) /\ h = (c_start r + sum_dur (c_prog r)) mod two64).
Proof. exact Proofs.C14.spec_hist_sound. Qed.
Print Assumptions spec_hist_sound.

Theorem model_passes_spec_hist : forall rs,
  (forall r, In r rs -> c_eager r = true /\
     match c_total r with Some T => T = sum_dur (c_prog r) | None => True end /\
     exists s, run_eager (c_prog r) (c_start r) (c_h0 r) (c_events r) = Some s) ->
  spec_hist rs = true.
Proof. exact Proofs.C14.model_passes_spec_hist. Qed.
Print Assumptions model_passes_spec_hist.
