(* C16 — Broadcast delivery is at-most-once per message and stops on cancellation.
   ONLY property statements; proofs are in Proofs/C16.v.
   [run]/[step]: the code as written (Model/C16.v): per goroutine, the context check [Check],
   the mutex section of WithRetransmissionSupport [Filter] and the delegate call [Call] are
   separate steps that interleave freely with other goroutines' steps and with [Cancel]. *)
From Coq Require Import ZArith NArith List Bool.
From KV Require Import Common.Verdict Model.C16 Proofs.C16.
Import ListNotations.
Open Scope N_scope.

(* No (sender, seqno) reaches the delegate twice: any number of goroutines sharing the
   filter, any schedule, any number of retransmissions, with or without cancellation. *)
Theorem at_most_once : forall (threads : nat) (ops : list op),
  NoDup (map snd (log (run (init threads) ops))).
Proof. exact Proofs.C16.at_most_once. Qed.
Print Assumptions at_most_once.

(* Nothing after cancel, at the granularity of the handler's context check.  The delegate
   calls made after the cancellation ([extra]) are calls for messages that had passed the
   context check before it (goroutine in state Checked/Calling at the cancellation: the window
   between `if ctx.Err() != nil` and `delegate(message)`, which the code does not close), at
   most one per goroutine, hence at most one for a channel's Recv (threads = 1); a goroutine
   that was idle delivers nothing more, whatever arrives later. *)
Theorem nothing_after_cancel : forall (threads : nat) (pre post : list op),
  let st1 := run (init threads) pre in
  let st2 := run st1 (Cancel :: post) in
  exists extra, log st2 = log st1 ++ extra /\
    NoDup (map fst extra) /\
    (forall t m, In (t, m) extra ->
       get_pc (pcs st1) t = Checked m \/ get_pc (pcs st1) t = Calling m) /\
    (length extra <= threads)%nat /\
    ((forall t, get_pc (pcs st1) t = Idle) -> extra = []).
Proof. exact Proofs.C16.nothing_after_cancel. Qed.
Print Assumptions nothing_after_cancel.

(* The atomic handler of the design (arrival = check + filter + call in one step): a message
   is delivered, exactly once, iff it arrives before the cancellation. *)
Theorem atomic_delivered_iff : forall ops : list aop,
  let d := snd (arun ainit ops) in
  NoDup d /\ forall m, In m d <-> In m (before_cancel ops).
Proof. exact Proofs.C16.atomic_delivered_iff. Qed.
Print Assumptions atomic_delivered_iff.

(* Each message sent on a channel gets a fresh sequence number (atomic.AddUint64 on a uint64
   counter): the first 2^64 sends get pairwise distinct numbers ... *)
Theorem fresh_seqno : forall (k : nat) (c : N), c < w64 -> N.of_nat k <= w64 -> NoDup (seqnos c k).
Proof. exact Proofs.C16.fresh_seqno. Qed.
Print Assumptions fresh_seqno.
(* ... and the bound is tight: send number 2^64 + 1 repeats the first number. *)
Theorem seqno_wraps : forall c, c < w64 -> (c + 1 + w64) mod w64 = (c + 1) mod w64.
Proof. exact Proofs.C16.seqno_wraps. Qed.
Print Assumptions seqno_wraps.

(* ---- Send under publish faults ----
   [crun (cinit c0) ops]: any history of Sends (Marshal fails / initial publish succeeds / initial
   publish fails) and retransmissions of already sent messages (publish succeeds / fails) on one
   channel; [wire] = every publish call (message, sequence number, publisher's answer);
   [sched] = the messages whose Send reached nextSeqno, with the number the schedule captured. *)

(* the counter only counts, whatever the publisher answers *)
Theorem counter_counts_sends : forall c0 ops, c0 < w64 ->
  let st := crun (cinit c0) ops in
  counter st = (c0 + N.of_nat (length (sched st))) mod w64.
Proof. exact Proofs.C16.counter_counts_sends. Qed.
Print Assumptions counter_counts_sends.

(* fresh_seqno under faults: over all histories with arbitrary publish faults (fewer than 2^64
   sends), two publish calls of one channel carry the same sequence number iff they carry the
   same message: different messages never share a number, a retransmission never changes it *)
Theorem wire_seqnos_fresh : forall c0 ops, c0 < w64 ->
  let st := crun (cinit c0) ops in
  N.of_nat (length (sched st)) <= w64 ->
  forall a b, In a (wire st) -> In b (wire st) ->
    (fst (fst a) = fst (fst b) <-> snd (fst a) = snd (fst b)).
Proof. exact Proofs.C16.wire_seqnos_fresh. Qed.
Print Assumptions wire_seqnos_fresh.

(* a receiver fed with everything that was published successfully (first publishes and
   retransmissions, in any order the history has them) calls its delegate for every message
   that had a successful publish, never twice for one (sender, seqno), only for published
   messages, and no message takes another one's place *)
Theorem delivered_exactly_once_under_faults : forall c0 ops sender, c0 < w64 ->
  let st := crun (cinit c0) ops in
  N.of_nat (length (sched st)) <= w64 ->
  let d := receiver_deliveries sender (wire st) in
  NoDup d /\
  (forall id s, In (id, s, true) (wire st) -> In (sender, s) d) /\
  (forall m, In m d -> fst m = sender /\ exists id, In (id, snd m, true) (wire st)) /\
  (forall id1 id2 s ok1 ok2, In (id1, s, ok1) (wire st) -> In (id2, s, ok2) (wire st) -> id1 = id2).
Proof. exact Proofs.C16.delivered_exactly_once_under_faults. Qed.
Print Assumptions delivered_exactly_once_under_faults.

(* ---- the executable forms used by the correspondence check ---- *)
Theorem filter_spec_sound : forall c, filter_spec c = true ->
  NoDup (map f_msg (filter f_delivered (fc_calls c))).
Proof. exact Proofs.C16.filter_spec_sound. Qed.
Print Assumptions filter_spec_sound.

Theorem handler_spec_sound : forall sends h, handler_spec sends h = true ->
  NoDup (map d_msg (h_deliveries h)) /\
  match h_cancel h with
  | None => True
  | Some (_, cret) =>
      forall pre d post, h_deliveries h = pre ++ d :: post -> cret < d_inv d ->
        (exists s, nth_error sends (d_send d) = Some s /\ s_inv s < cret) /\
        match last (map (fun x => Some (d_ret x)) pre) None with
        | None => True
        | Some r => r <> 0 /\ r < cret
        end
  end.
Proof. exact Proofs.C16.handler_spec_sound. Qed.
Print Assumptions handler_spec_sound.

Theorem model_log_nodup : forall threads ops,
  nodup_msgs (map snd (log (run (init threads) ops))) = true.
Proof. exact Proofs.C16.model_log_nodup. Qed.
Print Assumptions model_log_nodup.

Theorem fault_spec_sound : forall c, fault_spec c = true ->
  (forall a b, In a (fa_wire c) -> In b (fa_wire c) ->
     (fst (fst a) = fst (fst b) <-> snd (fst a) = snd (fst b))) /\
  NoDup (map snd (fa_delivered c)) /\
  (fa_flushed c = true -> forall e, In e (fa_wire c) ->
     count_id (fst (fst e)) (fa_delivered c) =
     if has_ok (fst (fst e)) (fa_wire c) then 1%nat else 0%nat).
Proof. exact Proofs.C16.fault_spec_sound. Qed.
Print Assumptions fault_spec_sound.

Theorem model_wire_fresh : forall c0 ops, c0 < w64 ->
  let st := crun (cinit c0) ops in
  N.of_nat (length (sched st)) <= w64 ->
  wire_fresh (map (fun e : nat * N * bool => (N.of_nat (fst (fst e)), snd (fst e), snd e)) (wire st)) = true.
Proof. exact Proofs.C16.model_wire_fresh. Qed.
Print Assumptions model_wire_fresh.
