From KV Require Import Model.C09.
