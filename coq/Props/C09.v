(* C09 — Retry participant selection respects seat bounds and is deterministic.
   ONLY property statements; proofs are in Proofs/C09.v and Proofs/GoRand.v. *)
From Coq Require Import ZArith NArith List Permutation Sorted.
From KV Require Import Common.GoRand Model.C09 Proofs.GoRand Proofs.C09.
Import ListNotations.
Open Scope Z_scope.

(* [l] is a sub-list of [seats] that keeps or drops each operator's seats together *)
Definition whole_operator_sublist (seats l : list N) : Prop :=
  exists keep : N -> bool, l = filter keep seats.

(* ---- for EVERY permutation source and EVERY map iteration order ---- *)

(* signing retry: never panics, errs exactly when too many seats are requested, otherwise
   returns a whole-operator sub-list with at least [count] seats *)
Theorem signing_sound :
  forall (rngT : Type) (mkrng : Z -> rngT) (shuffle : forall A : Type, rngT -> list A -> list A)
         (iter : list N -> list N),
    (forall A g l, Permutation (shuffle A g l) l) ->
    (forall l, Permutation (iter l) l) ->
    forall seats seed retry count,
      match signing rngT mkrng shuffle iter seats seed retry count with
      | Ok l => whole_operator_sublist seats l /\ Z.of_N count <= len l
      | ErrTooMany => len seats < Z.of_N count
      | ErrRetry | Panic => False
      end.
Proof. exact Proofs.C09.signing_sound. Qed.
Print Assumptions signing_sound.

(* key-generation retry: same, and the excluded operators are those of [exclusion] *)
Theorem keygen_sound :
  forall (rngT : Type) (mkrng : Z -> rngT) (shuffle : forall A : Type, rngT -> list A -> list A)
         (iter : list N -> list N),
    (forall A g l, Permutation (shuffle A g l) l) ->
    (forall l, Permutation (iter l) l) ->
    forall seats seed retry count,
      match keygen rngT mkrng shuffle iter seats seed retry count with
      | Ok l => whole_operator_sublist seats l /\ Z.of_N count <= len l /\
                exists ex, exclusion rngT shuffle iter seats (mkrng seed) retry (Z.of_N count) = Some ex /\
                           l = filter (fun o => negb (memN o ex)) seats
      | ErrTooMany => len seats < Z.of_N count
      | ErrRetry => exclusion rngT shuffle iter seats (mkrng seed) retry (Z.of_N count) = None
      | Panic => False
      end.
Proof. exact Proofs.C09.keygen_sound. Qed.
Print Assumptions keygen_sound.

(* enumeration: the exclusions at distinct retries are distinct sets (strictly sorted lists)
   of 1, 2 or 3 operators, sizes never decrease with the retry number, and once the retries
   are used up they stay used up *)
Theorem keygen_enumeration :
  forall (rngT : Type) (shuffle : forall A : Type, rngT -> list A -> list A)
         (iter : list N -> list N),
    (forall A g l, Permutation (shuffle A g l) l) ->
    (forall l, Permutation (iter l) l) ->
    forall seats g count r1 r2,
      (r1 < r2)%N ->
      match exclusion rngT shuffle iter seats g r1 count,
            exclusion rngT shuffle iter seats g r2 count with
      | Some e1, Some e2 =>
          StronglySorted N.lt e1 /\ StronglySorted N.lt e2 /\
          (1 <= length e1 <= 3)%nat /\ (length e1 <= length e2 <= 3)%nat /\ e1 <> e2
      | Some e1, None => StronglySorted N.lt e1 /\ (1 <= length e1 <= 3)%nat
      | None, Some _ => False
      | None, None => True
      end.
Proof. exact Proofs.C09.keygen_enumeration. Qed.
Print Assumptions keygen_enumeration.

(* every eligible single operator, pair and triplet is excluded at some retry *)
Theorem keygen_enumeration_complete :
  forall (rngT : Type) (shuffle : forall A : Type, rngT -> list A -> list A)
         (iter : list N -> list N),
    (forall A g l, Permutation (shuffle A g l) l) ->
    (forall l, Permutation (iter l) l) ->
    forall seats g count,
      (forall o, In o (singles iter seats count) ->
                 exists r, exclusion rngT shuffle iter seats g r count = Some [o]) /\
      (forall a b, In (a, b) (pairs iter seats count) ->
                   exists r, exclusion rngT shuffle iter seats g r count = Some [a; b]) /\
      (forall a b c, In (a, b, c) (triples iter seats count) ->
                     exists r, exclusion rngT shuffle iter seats g r count = Some [a; b; c]).
Proof. exact Proofs.C09.keygen_enumeration_complete. Qed.
Print Assumptions keygen_enumeration_complete.

(* "identical on every node": the only nondeterminism of the Go code is map iteration, and
   the result does not depend on it *)
Theorem map_order_irrelevant :
  forall (rngT : Type) (mkrng : Z -> rngT) (shuffle : forall A : Type, rngT -> list A -> list A)
         (iter iter' : list N -> list N),
    (forall l, Permutation (iter l) l) ->
    (forall l, Permutation (iter' l) l) ->
    forall seats seed retry count,
      signing rngT mkrng shuffle iter seats seed retry count =
      signing rngT mkrng shuffle iter' seats seed retry count /\
      keygen rngT mkrng shuffle iter seats seed retry count =
      keygen rngT mkrng shuffle iter' seats seed retry count.
Proof. exact Proofs.C09.map_order_irrelevant. Qed.
Print Assumptions map_order_irrelevant.

(* ---- the concrete permutation source: the model of Go's math/rand ---- *)
Theorem go_shuffle_is_permutation :
  forall (A : Type) (g : rng) (l : list A), Permutation (Concrete.shuffle A g l) l.
Proof. exact Proofs.GoRand.shuffle_with_perm. Qed.
Print Assumptions go_shuffle_is_permutation.

(* ---- the executable form used by the correspondence check is sound and holds of the model ---- *)
Theorem out_ok_sound :
  forall seats count l,
    out_ok seats count (Ok l) = true ->
    whole_operator_sublist seats l /\ Z.of_N count <= len l.
Proof. exact Proofs.C09.out_ok_sound. Qed.
Print Assumptions out_ok_sound.

Theorem model_outputs_pass_spec :
  forall seats seed retry count,
    out_ok seats count (Concrete.signing seats seed retry count) = true /\
    out_ok seats count (Concrete.keygen seats seed retry count) = true.
Proof. exact Proofs.C09.model_outputs_pass_spec. Qed.
Print Assumptions model_outputs_pass_spec.
