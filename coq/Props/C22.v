(* C22 — Coordination leader and action checklist are the same on every member.
   ONLY property statements; proofs are in Proofs/C22.v and Proofs/GoRand.v. *)
From Coq Require Import ZArith NArith List Permutation.
From KV Require Import Common.GoRand Gen.Consts_C22 Model.C22 Proofs.GoRand Proofs.C22.
Import ListNotations.
Open Scope Z_scope.

(* ---- for EVERY permutation source (seeded shuffle) and EVERY map iteration order ---- *)

(* the leader is one of the wallet's operators *)
Theorem leader_in_operators :
  forall (rngT : Type) (shuffle : rngT -> list N -> list N) (iter : list N -> list N),
    (forall g l, Permutation (shuffle g l) l) ->
    (forall l, Permutation (iter l) l) ->
    forall g ops, ops <> [] ->
      exists o, get_leader rngT shuffle iter g ops = Leader o /\ In o ops.
Proof. exact Proofs.C22.leader_in_operators. Qed.
Print Assumptions leader_in_operators.

(* any two local views with the same SET of operators -- any order, any repetition of seats,
   any two map iteration orders -- give the same leader for the same generator state *)
Theorem leader_invariant_under_permutation_and_repetition :
  forall (rngT : Type) (shuffle : rngT -> list N -> list N) (iter iter' : list N -> list N),
    (forall l, Permutation (iter l) l) -> (forall l, Permutation (iter' l) l) ->
    forall g ops ops', (forall x, In x ops <-> In x ops') ->
      get_leader rngT shuffle iter g ops = get_leader rngT shuffle iter' g ops'.
Proof. exact Proofs.C22.leader_invariant_under_permutation_and_repetition. Qed.
Print Assumptions leader_invariant_under_permutation_and_repetition.

(* getLeader fails (index out of range) exactly for a wallet without operators *)
Theorem leader_panics_iff_no_operators :
  forall (rngT : Type) (shuffle : rngT -> list N -> list N) (iter : list N -> list N),
    (forall g l, Permutation (shuffle g l) l) ->
    (forall l, Permutation (iter l) l) ->
    forall g ops, get_leader rngT shuffle iter g ops = LPanic <-> ops = [].
Proof. exact Proofs.C22.leader_panics_iff_no_operators. Qed.
Print Assumptions leader_panics_iff_no_operators.

(* the checklist of a valid window (index <> 0): Redemption first; deposit sweep, moved-funds
   sweep and moving funds exactly when the index is a multiple of 4; heartbeat exactly when the
   draw says so; nothing else; no action twice *)
Theorem checklist_shape :
  forall idx hb, idx <> 0 ->
    exists rest,
      checklist idx hb = ActionRedemption :: rest /\
      (In ActionDepositSweep rest <-> idx mod 4 = 0) /\
      (In ActionMovedFundsSweep rest <-> idx mod 4 = 0) /\
      (In ActionMovingFunds rest <-> idx mod 4 = 0) /\
      (In ActionHeartbeat rest <-> hb = true) /\
      (forall a, In a rest -> a = ActionDepositSweep \/ a = ActionMovedFundsSweep \/
                              a = ActionMovingFunds \/ a = ActionHeartbeat) /\
      NoDup (checklist idx hb).
Proof. exact Proofs.C22.checklist_shape. Qed.
Print Assumptions checklist_shape.

Theorem checklist_exact :
  forall idx hb, idx <> 0 ->
    checklist idx hb =
      ActionRedemption ::
      (if idx mod 4 =? 0 then [ActionDepositSweep; ActionMovedFundsSweep; ActionMovingFunds] else [])
      ++ (if hb then [ActionHeartbeat] else []).
Proof. exact Proofs.C22.checklist_exact. Qed.
Print Assumptions checklist_exact.

(* the window index is non-zero exactly at the positive multiples of the coordination
   frequency (generated constant), where it is the quotient *)
Theorem window_index_spec :
  forall block, 0 <= block ->
    (window_index block <> 0 <->
     exists k, 0 < k /\ block = k * coordinationFrequencyBlocks) /\
    (forall k, 0 <= k -> window_index (k * coordinationFrequencyBlocks) = k).
Proof. exact Proofs.C22.window_index_spec. Qed.
Print Assumptions window_index_spec.

(* "the same on every member": everything coordinate() derives for one member -- (leader,
   checklist) from the wallet key hash, the coordination block, the chain's block hashes and
   SHA-256 (oracles) -- is the same for any two members whose operator lists have the same set
   of operators; and it is (an operator of the wallet, a checklist starting with Redemption) *)
Theorem members_agree :
  forall (hash : list N -> list N) (block_hash : Z -> list N) (rngT : Type) (mkrng : Z -> rngT)
         (shuffle : rngT -> list N -> list N) (heartbeat_of : rngT -> bool)
         (iter iter' : list N -> list N),
    (forall l, Permutation (iter l) l) -> (forall l, Permutation (iter' l) l) ->
    forall pkh block ops ops', (forall x, In x ops <-> In x ops') ->
      member_view hash block_hash rngT mkrng shuffle heartbeat_of iter pkh block ops =
      member_view hash block_hash rngT mkrng shuffle heartbeat_of iter' pkh block ops'.
Proof. exact Proofs.C22.members_agree. Qed.
Print Assumptions members_agree.

Theorem member_view_sound :
  forall (hash : list N -> list N) (block_hash : Z -> list N) (rngT : Type) (mkrng : Z -> rngT)
         (shuffle : rngT -> list N -> list N) (heartbeat_of : rngT -> bool)
         (iter : list N -> list N),
    (forall g l, Permutation (shuffle g l) l) -> (forall l, Permutation (iter l) l) ->
    forall pkh block ops, ops <> [] -> window_index block <> 0 ->
      exists o rest,
        member_view hash block_hash rngT mkrng shuffle heartbeat_of iter pkh block ops =
          (Leader o, ActionRedemption :: rest) /\ In o ops.
Proof. exact Proofs.C22.member_view_sound. Qed.
Print Assumptions member_view_sound.

(* ---- the concrete generator: the model of Go's math/rand ---- *)

Theorem go_shuffle_is_permutation :
  forall (g : rng) (l : list N), Permutation (Concrete.shuffle g l) l.
Proof. exact Proofs.C22.concrete_shuffle_perm. Qed.
Print Assumptions go_shuffle_is_permutation.

Theorem concrete_leader :
  forall seed ops ops',
    ops <> [] -> (forall x, In x ops <-> In x ops') ->
    exists o, Concrete.get_leader seed ops = Leader o /\ Concrete.get_leader seed ops' = Leader o /\
              In o ops /\ In o ops'.
Proof. exact Proofs.C22.concrete_leader. Qed.
Print Assumptions concrete_leader.

(* the heartbeat is in the checklist exactly when the first Float64 of the generator seeded
   with the first 8 bytes of the coordination seed, f = draw / 2^63, is below the constant
   p = p_num / 2^p_log *)
Theorem heartbeat_by_seeded_draw :
  forall idx seed p_num p_log, idx <> 0 ->
    (In ActionHeartbeat (Concrete.get_actions_checklist idx seed p_num p_log) <->
     fst (float64_draw (rng_seed (seed_int64 seed))) * 2 ^ p_log < p_num * two63).
Proof. exact Proofs.C22.heartbeat_by_seeded_draw. Qed.
Print Assumptions heartbeat_by_seeded_draw.

(* ---- the executable form used by the correspondence check is sound and holds of the model ---- *)
Theorem spec_ok_sound :
  forall c, spec_ok c = true ->
    (forall v, In v (c_views c) -> v_ops v <> [] ->
       exists o, v_leader v = Leader o /\ In o (v_ops v)) /\
    (forall v v', In v (c_views c) -> In v' (c_views c) ->
       v_leader v = v_leader v' /\ v_checklist v = v_checklist v') /\
    (c_index c <> 0 ->
     forall v, In v (c_views c) ->
       exists rest,
         v_checklist v = ActionRedemption :: rest /\
         (In ActionDepositSweep rest <-> c_index c mod 4 = 0) /\
         (In ActionMovedFundsSweep rest <-> c_index c mod 4 = 0) /\
         (In ActionMovingFunds rest <-> c_index c mod 4 = 0) /\
         (In ActionHeartbeat rest <-> draw_lt (c_draw c) (c_p_num c) (c_p_log c) = true) /\
         (forall a, In a rest -> a = ActionDepositSweep \/ a = ActionMovedFundsSweep \/
                                 a = ActionMovingFunds \/ a = ActionHeartbeat)).
Proof. exact Proofs.C22.spec_ok_sound. Qed.
Print Assumptions spec_ok_sound.

Theorem model_outputs_pass_spec :
  forall block seed p_num p_log ops0 opss,
    (forall ops, In ops opss -> forall x, In x ops <-> In x ops0) ->
    spec_ok (model_case block seed p_num p_log (ops0 :: opss)) = true.
Proof. exact Proofs.C22.model_outputs_pass_spec. Qed.
Print Assumptions model_outputs_pass_spec.

(* ---- call histories on ONE executor instance: the answer is a function of (operators, window
        index, seed) only -- no memory.  The executor is a state machine over the wallet's
        operator list; every history entry carries its own map iteration order ---- *)

(* history independence: after ANY history the executor's state is the operator list it was
   created with, and its answers are the pure function answer_of mapped over the history *)
Theorem run_history_is_map :
  forall (rngT : Type) (mkrng : Z -> rngT) (shuffle : rngT -> list N -> list N)
         (heartbeat_of : rngT -> bool) (ops : list N) (h : list hentry),
    run_history rngT mkrng shuffle heartbeat_of ops h =
      (ops, map (answer_of rngT mkrng shuffle heartbeat_of ops) h).
Proof. exact Proofs.C22.run_history_is_map. Qed.
Print Assumptions run_history_is_map.

(* two members with the same SET of operators, each with its OWN history on its own executor
   (any lengths, any earlier windows, any map iteration orders at every call): round i of the
   one and round j of the other, if they are for the same window index and seed, give the same
   (leader, checklist); the leader is an operator of the wallet; the checklist of a valid
   window starts with Redemption.  With ops = ops', h = h' this is "the same member asked
   again repeats itself"; with h' = [e] it is "a freshly restarted member agrees with a
   long-running one". *)
Theorem members_agree_whatever_their_histories :
  forall (rngT : Type) (mkrng : Z -> rngT) (shuffle : rngT -> list N -> list N)
         (heartbeat_of : rngT -> bool),
    (forall g l, Permutation (shuffle g l) l) ->
    forall (ops ops' : list N) (h h' : list hentry),
      (forall x, In x ops <-> In x ops') ->
      (forall e l, In e h -> Permutation (e_iter e l) l) ->
      (forall e l, In e h' -> Permutation (e_iter e l) l) ->
      forall i j e e',
        nth_error h i = Some e -> nth_error h' j = Some e' ->
        e_idx e = e_idx e' -> e_seed e = e_seed e' ->
        exists a,
          nth_error (snd (run_history rngT mkrng shuffle heartbeat_of ops h)) i = Some a /\
          nth_error (snd (run_history rngT mkrng shuffle heartbeat_of ops' h')) j = Some a /\
          (ops <> [] -> exists o, fst a = Leader o /\ In o ops /\ In o ops') /\
          (e_idx e <> 0 -> exists rest, snd a = ActionRedemption :: rest).
Proof. exact Proofs.C22.members_agree_whatever_their_histories. Qed.
Print Assumptions members_agree_whatever_their_histories.

(* the concrete executor (Go's math/rand): its run over a history of (window index, seed)
   rounds leaves the operator list alone and answers each round as a fresh executor would *)
Theorem concrete_history_has_no_memory :
  forall pn pl ops h,
    concrete_run pn pl ops h =
      (ops, map (fun w => (Concrete.get_leader (snd w) ops,
                           Concrete.get_actions_checklist (fst w) (snd w) pn pl)) h).
Proof. exact Proofs.C22.concrete_history_has_no_memory. Qed.
Print Assumptions concrete_history_has_no_memory.

(* the executable history property used by the correspondence check is sound ... *)
Theorem hspec_ok_sound :
  forall h, hspec_ok h = true ->
    (forall m k, In m (h_members h) -> In k (m_calls m) -> m_ops m <> [] ->
       exists o, k_leader k = Leader o /\ In o (m_ops m)) /\
    (forall m m' k k', In m (h_members h) -> In m' (h_members h) ->
       In k (m_calls m) -> In k' (m_calls m') ->
       k_block k = k_block k' -> k_seed_exp k = k_seed_exp k' ->
       k_leader k = k_leader k' /\ k_checklist k = k_checklist k') /\
    (forall m k, In m (h_members h) -> In k (m_calls m) -> k_index k <> 0 ->
       exists rest,
         k_checklist k = ActionRedemption :: rest /\
         (In ActionDepositSweep rest <-> k_index k mod 4 = 0) /\
         (In ActionMovedFundsSweep rest <-> k_index k mod 4 = 0) /\
         (In ActionMovingFunds rest <-> k_index k mod 4 = 0) /\
         (In ActionHeartbeat rest <-> draw_lt (k_draw k) (h_p_num h) (h_p_log h) = true) /\
         (forall a, In a rest -> a = ActionDepositSweep \/ a = ActionMovedFundsSweep \/
                                 a = ActionMovingFunds \/ a = ActionHeartbeat)).
Proof. exact Proofs.C22.hspec_ok_sound. Qed.
Print Assumptions hspec_ok_sound.

(* ... and holds of every history case the model produces: members over the same operator
   set, each with its own list of (coordination block, seed) rounds *)
Theorem model_histories_pass_spec :
  forall p_num p_log (ms : list (list N * list (Z * list N))),
    (forall m m', In m ms -> In m' ms -> forall x, In x (fst m) <-> In x (fst m')) ->
    hspec_ok (model_hcase p_num p_log ms) = true.
Proof. exact Proofs.C22.model_histories_pass_spec. Qed.
Print Assumptions model_histories_pass_spec.
