(* C17 — Retransmission schedules are exact under any tick timing.
   ONLY property statements; proofs are in Proofs/C17.v.  The model (Model/C17.v) is the
   repaired code: BackoffStrategy.Tick updates its counters in one critical section. *)
From Coq Require Import ZArith NArith List Bool.
From KV Require Import Common.Verdict Model.C17 Proofs.C17.
Import ListNotations.
Open Scope N_scope.

(* The k-th Tick call on a fresh BackoffStrategy (uint64 counters, wrap-around modelled)
   retransmits exactly when k is 1, 3, 6, 11, 20, ... = 2^(n-1) + n - 1. *)
Theorem backoff_ticks : forall k, 1 <= k -> k < 2 ^ 62 ->
  (fires k = true <-> exists n, 1 <= n /\ k = 2 ^ (n - 1) + n - 1).
Proof. exact Proofs.C17.backoff_ticks. Qed.
Print Assumptions backoff_ticks.

(* Standard strategy under ANY interleaving of tick deliveries (OTick), per-tick goroutines
   actually calling Tick (ORun) and the cancellation (OCancel): every Tick call retransmits;
   Tick calls made + still pending = ticks delivered while the context was live; so once the
   goroutines have run, retransmissions = live ticks. *)
Theorem standard_every_tick : forall ops : list op,
  let st := srun (sys_init Std) ops in
  retx st = calls st /\ calls st + pending st = live_ticks ops /\
  (pending st = 0 -> retx st = live_ticks ops).
Proof. exact Proofs.C17.standard_every_tick. Qed.
Print Assumptions standard_every_tick.

(* Backoff strategy under ANY interleaving: the retransmissions made after c Tick calls are
   exactly the calls number 2^(n-1)+n-1 <= c, independent of how the callbacks were scheduled;
   calls made + pending = live ticks. *)
Theorem backoff_any_interleaving : forall ops : list op,
  let st := srun (sys_init (Back binit)) ops in
  let P := fst (fire_positions (Back binit) (N.to_nat (calls st)) 1) in
  retx st = N.of_nat (length P) /\
  calls st + pending st = live_ticks ops /\
  (calls st < 2 ^ 62 ->
   forall j, In j P <-> (1 <= j <= calls st /\ exists n, 1 <= n /\ j = 2 ^ (n - 1) + n - 1)).
Proof. exact Proofs.C17.backoff_any_interleaving. Qed.
Print Assumptions backoff_any_interleaving.

(* Retransmission stops once the context ends: after the cancel, ticks spawn nothing and the
   first one deregisters the handler; the only Tick calls (hence retransmissions) after the
   cancel are those of goroutines spawned by earlier ticks that had not run yet — the window
   between `go func()` in ScheduleRetransmissions and strategy.Tick, of size [pending st1] —
   and when there are none the counters never change again. *)
Theorem stops_after_cancel : forall (s : strategy) (pre post : list op),
  let st1 := srun (sys_init s) (pre ++ [OCancel]) in
  let st2 := srun st1 post in
  calls st2 + pending st2 = calls st1 + pending st1 /\
  retx st1 <= retx st2 <= retx st1 + (calls st2 - calls st1) /\
  (pending st1 = 0 -> calls st2 = calls st1 /\ retx st2 = retx st1) /\
  (In OTick post -> registered st2 = false).
Proof. exact Proofs.C17.stops_after_cancel. Qed.
Print Assumptions stops_after_cancel.

(* The defect that was repaired: with the counter update not atomic (the code before the fix:
   commit; [ustep] = load, store, compare, update as separate steps) two overlapping ticks
   repeat a retransmission, lose a tick and advance the schedule twice ... *)
Theorem unsync_backoff_refuted :
  exists ops, let st := urun {| ub := binit; upcs := [UStart; UStart] |} ops in
    upcs st = [UDone true; UDone true] /\ ub st = {| tc := 1; delay := 4; rt := 6 |} /\
    count_fires (Back binit) 2 = (1, Back {| tc := 2; delay := 2; rt := 3 |}).
Proof. exact Proofs.C17.unsync_backoff_refuted. Qed.
Print Assumptions unsync_backoff_refuted.
(* ... or just lose a tick: after four ticks of which the last two overlap the counter is 3
   where the atomic strategy has 4 (its next retransmission, tick 6, comes one tick late). *)
Theorem unsync_backoff_shifts :
  exists ops, let st := urun {| ub := binit; upcs := [UStart; UStart; UStart; UStart] |} ops in
    tc (ub st) = 3 /\ ufired st = 2 /\ rt (ub st) = 6 /\
    bafter binit 4 = {| tc := 4; delay := 4; rt := 6 |}.
Proof. exact Proofs.C17.unsync_backoff_shifts. Qed.
Print Assumptions unsync_backoff_shifts.

(* ---- the executable form used by the correspondence check ---- *)
(* the closed-form test used by spec_ok decides the schedule *)
Theorem is_sched_iff : forall k, 1 <= k -> k < 2 ^ 62 -> is_sched k = fires k.
Proof. exact Proofs.C17.is_sched_iff. Qed.
Print Assumptions is_sched_iff.

(* spec_ok numbers ticks absolutely from the strategy's tickCounter; that is right for the
   states it accepts as reachable *)
Theorem reachable_sound : forall b, reachable_b b = true -> tc b < 2 ^ 62 -> b = bafter binit (tc b).
Proof. exact Proofs.C17.reachable_sound. Qed.
Print Assumptions reachable_sound.

(* the model's own retransmitting positions pass the executable property *)
Theorem model_positions_pass_spec : forall b k, reachable_b b = true ->
  tc b + N.of_nat k < 2 ^ 62 ->
  fst (fire_positions (Back b) k 1) =
  filter (fun p => is_sched (tc b + p)) (map N.of_nat (seq 1 k)).
Proof. exact Proofs.C17.positions_closed_form. Qed.
Print Assumptions model_positions_pass_spec.

(* ================= ONE long-lived Ticker shared by many messages =================
   [rrun h] is the model of ticker.go's handler table (ids from the uint64 counter
   nextHandlerId, Go map assignment, lazy deletion of handlers whose context is done) under a
   history [h] of registrations (ScheduleRetransmissions of a new message), cancellations and
   ticks, observed in drained states.  [log_of (msgs st) m] = the tick numbers (counted over
   the ticker's whole life) at which message m was retransmitted. *)

(* For EVERY history: each message is retransmitted exactly at the positions of its OWN
   schedule counted from its OWN registration, up to its OWN first cancellation and never
   after it — the right-hand side mentions nothing else of the history (other messages'
   registrations and cancellations before, between and after are irrelevant). *)
Theorem registry_each_message_keeps_its_own_schedule :
  forall (pre : list rop) (m : N) (s : strategy) (post : list rop),
    NoDup (scheduled (pre ++ RSchedule m s :: post)) ->
    N.of_nat (length (scheduled (pre ++ RSchedule m s :: post))) < w64 ->
    log_of (msgs (rrun (pre ++ RSchedule m s :: post))) m =
    Some (map (N.add (ticks_in pre)) (fst (fire_positions s (live_len m post) 1))).
Proof. exact Proofs.C17.registry_exact. Qed.
Print Assumptions registry_each_message_keeps_its_own_schedule.

(* In closed form: standard = every tick since its registration; backoff = its own ticks
   1, 3, 6, 11, 20, ... ([is_sched], see is_sched_iff / backoff_ticks), while live. *)
Theorem registry_closed_form_schedules :
  forall (pre : list rop) (m : N) (s : strategy) (post : list rop) (sel : N -> bool),
    NoDup (scheduled (pre ++ RSchedule m s :: post)) ->
    N.of_nat (length (scheduled (pre ++ RSchedule m s :: post))) < w64 ->
    sel_of s = Some sel ->
    (match s with Std => 0 | Back b => tc b end) + N.of_nat (live_len m post) < 2 ^ 62 ->
    log_of (msgs (rrun (pre ++ RSchedule m s :: post))) m =
    Some (map (fun p => ticks_in pre + p)
              (filter sel (map N.of_nat (seq 1 (live_len m post))))).
Proof. exact Proofs.C17.registry_closed_form. Qed.
Print Assumptions registry_closed_form_schedules.

(* The handler table implements the table-free reference in which a tick reaches exactly the
   messages whose context is live (handler ids are never reused, so a registration never
   overwrites a live handler; every live message has exactly one handler). *)
Theorem registry_refines_independent_messages :
  forall h : list rop,
    NoDup (scheduled h) -> N.of_nat (length (scheduled h)) < w64 ->
    (msgs (rrun h), tickno (rrun h)) = frun h.
Proof. intros h H1 H2. exact (proj2 (Proofs.C17.registry_refines h H1 H2)). Qed.
Print Assumptions registry_refines_independent_messages.

(* ... and in the reference a message's record is a function of the history as that message
   sees it (all ticks, its own registration and cancellations). *)
Theorem reference_messages_are_independent :
  forall (m : N) (h : list rop),
    filter (fun r => m_id r =? m) (fst (frun h)) = fst (frun (only m h)).
Proof. intros m h. exact (proj1 (Proofs.C17.flat_projection m h [] 0)). Qed.
Print Assumptions reference_messages_are_independent.

(* executable form: an accepted observation gives every registered message its closed-form log *)
Theorem registry_spec_sound :
  forall (h : list rop) (logs : list (N * list N)), reg_spec [] h logs = true ->
  forall pre m s post, h = pre ++ RSchedule m s :: post ->
  exists l, In (m, l) logs /\
    forall sel, sel_of s = Some sel ->
      l = map (fun p => ticks_in pre + p) (filter sel (map N.of_nat (seq 1 (live_len m post)))).
Proof. intros h logs H pre m s post E. exact (Proofs.C17.reg_spec_sound h [] logs H pre m s post E). Qed.
Print Assumptions registry_spec_sound.
