(* C25 — A wallet never runs two actions at the same time.
   ONLY property statements; proofs are in Proofs/C25.v.
   Model (Model/C25.v): the atomic steps of walletDispatcher are [Dispatch w] (the body of
   dispatch() under actionsMutex), [Begin w] / [EndExec w] (the spawned goroutine enters / leaves
   action.execute()) and [Release w] (the deferred delete under the mutex).  The state counts,
   per wallet, the goroutines in each phase; every theorem quantifies over ALL sequences of
   steps, i.e. all interleavings of dispatches, executions of arbitrary duration and
   completions for any number of wallets (steps that are not enabled are no-ops). *)
From Coq Require Import ZArith NArith List Bool Arith.
From KV Require Import Common.Verdict Model.C25 Proofs.C25.
Import ListNotations.

(* at most one action executes per wallet at any moment; an executing action holds the entry *)
Theorem at_most_one_executing :
  forall ops w,
    running (run init ops w) <= 1 /\
    (running (run init ops w) >= 1 -> entry (run init ops w) = true).
Proof. exact Proofs.C25.at_most_one_executing. Qed.
Print Assumptions at_most_one_executing.

(* a dispatch for a busy wallet (an accepted action not yet released, in whatever phase) is
   refused and changes nothing; a dispatch for a wallet with no action is accepted *)
Theorem busy_refused :
  forall ops w,
    let s := run init ops in
    (pending (s w) + running (s w) + finishing (s w) >= 1 -> step s (Dispatch w) = (s, false)) /\
    (pending (s w) + running (s w) + finishing (s w) = 0 -> snd (step s (Dispatch w)) = true).
Proof. exact Proofs.C25.busy_refused. Qed.
Print Assumptions busy_refused.

(* actions of different wallets do not block or influence each other: the state of wallet w
   and the answers to w's operations are those of w's operations run alone *)
Theorem wallets_independent :
  forall ops w,
    run init ops w = run init (filter (fun o => N.eqb (op_wallet o) w) ops) w /\
    map snd (filter (fun p => N.eqb (op_wallet (fst p)) w) (combine ops (results init ops)))
    = results init (filter (fun o => N.eqb (op_wallet o) w) ops).
Proof. exact Proofs.C25.wallets_independent. Qed.
Print Assumptions wallets_independent.

(* a wallet is available again as soon as its action ends: when an action of w is executing,
   its end and the release are enabled whatever steps of OTHER wallets are interleaved, and the
   next dispatch for w is accepted *)
Theorem free_after_finish :
  forall ops w others,
    (forall o, In o others -> op_wallet o <> w) ->
    running (run init ops w) = 1 ->
    let s' := run (run init ops) (EndExec w :: others ++ [Release w]) in
    snd (step s' (Dispatch w)) = true /\
    map snd (filter (fun p => N.eqb (op_wallet (fst p)) w)
                    (combine (EndExec w :: others ++ [Release w])
                             (results (run init ops) (EndExec w :: others ++ [Release w]))))
    = [true; true].
Proof. exact Proofs.C25.free_after_finish. Qed.
Print Assumptions free_after_finish.

(* ---- the executable form used by the correspondence check ---- *)
(* an observed history accepted by spec_ok never had two simultaneous execute() of one wallet,
   nothing was blocked, and it is linearisable to the sequential dispatcher: the recorded order
   respects real time (no operation is placed before one that had returned before it was
   invoked) and the model, run in that order, answers every operation as the implementation
   did *)
Theorem spec_ok_sound :
  forall c,
    spec_ok c = true ->
    (forall w m, In (w, m) (c_overlap c) -> (m <= 1)%N) /\
    c_stuck c = false /\
    (forall i j a b, i < j -> nth_error (c_hist c) i = Some a -> nth_error (c_hist c) j = Some b ->
                     ~ (h_ret b < h_inv a)%N) /\
    model_results init (c_hist c) = map h_res (c_hist c).
Proof. exact Proofs.C25.spec_ok_sound. Qed.
Print Assumptions spec_ok_sound.

(* and every sequential run of the model, stamped in order, is accepted *)
Theorem model_passes_spec :
  forall n ops,
    spec_ok {| c_wallets := n; c_hist := mk_hist 0 init ops; c_overlap := []; c_stuck := false;
               c_busy := busy_set n (fst (replay init (mk_hist 0 init ops))) |} = true.
Proof. exact Proofs.C25.model_passes_spec. Qed.
Print Assumptions model_passes_spec.
