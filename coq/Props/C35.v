(* C35 — Signing completes only when every included member confirmed the same signature.
   ONLY property statements; proofs are in Proofs/C35.v.
   Model (Model/C35.v) of signing_done.go after the two fix: commits: [listen p h] is the
   doneSigners map after the listener goroutine processed the history h of network messages;
   [tick p order] is one check of waitUntilAllDone under the mutex, [order] being the order in
   which Go's map iteration visits the entries; [confirms p s mem c] says that message c is a
   done message whose sender is seat mem, authenticated by the operator controlling that seat,
   for the attempt's message and attempt number, with end block <= the attempt timeout and
   signature s (not nil). *)
From Coq Require Import ZArith NArith List Bool Permutation.
From KV Require Import Common.Verdict Model.C35 Proofs.C35.
Import ListNotations.
Open Scope N_scope.

(* For EVERY history of messages (included and excluded members, strangers, duplicates, wrong
   message / attempt, late end blocks, nil or mismatching signatures), every moment at which the
   check runs (h is what the listener has processed so far) and every map iteration order: a
   signature s with end block e is reported only if the counted confirmations come from exactly
   the attempt's included members, every included member has confirmed with that same
   signature within the timeout, and e is the latest of their end blocks. *)
Theorem done_only_when_all_confirmed :
  forall p h order s e,
    NoDup (p_members p) ->
    Permutation (listen p h) order ->
    tick p order = Done s e ->
    (forall x, In x (map fst order) <-> In x (p_members p)) /\
    (forall mem, In mem (p_members p) ->
                 exists c, In c h /\ confirms p s mem c = true /\ m_end c <= e) /\
    ((p_members p = [] /\ s = None /\ e = 0) \/
     (exists mem c, In mem (p_members p) /\ In c h /\ confirms p s mem c = true /\ m_end c = e)).
Proof. exact Proofs.C35.done_only_when_all_confirmed. Qed.
Print Assumptions done_only_when_all_confirmed.

(* what [confirms] means, field by field *)
Theorem confirms_means :
  forall p s mem c,
    confirms p s mem c = true ->
    m_done c = true /\ m_sender c = mem /\
    valid_membership (p_ops p) (m_sender c) (m_author c) = true /\
    m_message c = p_message p /\ m_attempt c = p_attempt p /\ m_end c <= p_timeout p /\
    s <> None /\ m_sig c = s.
Proof. exact Proofs.C35.confirms_inv. Qed.
Print Assumptions confirms_means.

(* the reported result does not depend on Go's map iteration order *)
Theorem iteration_order_irrelevant :
  forall p h order s e,
    NoDup (p_members p) ->
    Permutation (listen p h) order ->
    tick p order = Done s e ->
    forall order' s' e', Permutation (listen p h) order' -> tick p order' = Done s' e' ->
                         s' = s /\ e' = e.
Proof. exact Proofs.C35.iteration_order_irrelevant. Qed.
Print Assumptions iteration_order_irrelevant.

(* ---- the executable form used by the correspondence check ---- *)
Theorem result_ok_sound :
  forall p h s e,
    result_ok p h s e = true ->
    (forall mem, In mem (p_members p) ->
                 exists c, In c h /\ confirms p s mem c = true /\ m_end c <= e) /\
    ((p_members p = [] /\ s = None /\ e = 0) \/
     (exists mem c, In mem (p_members p) /\ In c h /\ confirms p s mem c = true /\ m_end c = e)).
Proof. exact Proofs.C35.result_ok_sound. Qed.
Print Assumptions result_ok_sound.

(* it holds of every outcome of the model, at whatever point of the history the check runs
   (concurrent arrival: [rest] is still to come), and the model never panics *)
Theorem model_passes_spec :
  forall p processed rest order,
    NoDup (p_members p) ->
    Permutation (listen p processed) order ->
    out_ok p (processed ++ rest) (tick p order) = true.
Proof. exact Proofs.C35.model_passes_spec. Qed.
Print Assumptions model_passes_spec.

(* ---- ONE signingDoneCheck used for several attempts (signing retry loop: one check per
   signing, listen() per attempt).  [sdc] is the object (arguments of the last listen(),
   doneSigners), [do_listen] / [do_msgs] its two operations as the code is written,
   [run_attempts d earlier] the object after a history of earlier attempts started in ANY
   state d. ---- *)

(* no state crosses attempts: at every point of an attempt doneSigners is what a fresh object
   would hold after the messages of this attempt alone *)
Theorem no_state_across_attempts :
  forall d earlier p h,
    d_store (do_msgs (do_listen p (run_attempts d earlier)) h) = listen p h.
Proof. exact Proofs.C35.no_state_across_attempts. Qed.
Print Assumptions no_state_across_attempts.

(* a multi-attempt history's stores = map of the single-attempt function *)
Theorem history_is_map :
  forall l d, stores_of d l = map (fun ph => listen (fst ph) (snd ph)) l.
Proof. exact Proofs.C35.history_is_map. Qed.
Print Assumptions history_is_map.

(* the correspondence check runs the object model over the whole history; that equals checking
   every attempt against the single-attempt function *)
Theorem agree_from_is_map :
  forall l d, agree_from d l = forallb agree1 l.
Proof. exact Proofs.C35.agree_from_is_map. Qed.
Print Assumptions agree_from_is_map.

(* the property for every attempt of every history on one object: a result is reported for THIS
   attempt only if exactly its included members confirmed, among the messages delivered during
   this attempt, with this attempt's number / message / that signature within its timeout;
   the end block is the latest of theirs *)
Theorem history_done_only_when_all_confirmed :
  forall d earlier p h order s e,
    NoDup (p_members p) ->
    Permutation (d_store (do_msgs (do_listen p (run_attempts d earlier)) h)) order ->
    tick p order = Done s e ->
    (forall x, In x (map fst order) <-> In x (p_members p)) /\
    (forall mem, In mem (p_members p) ->
                 exists c, In c h /\ confirms p s mem c = true /\ m_end c <= e) /\
    ((p_members p = [] /\ s = None /\ e = 0) \/
     (exists mem c, In mem (p_members p) /\ In c h /\ confirms p s mem c = true /\ m_end c = e)).
Proof. exact Proofs.C35.history_done_only_when_all_confirmed. Qed.
Print Assumptions history_done_only_when_all_confirmed.

Theorem history_model_passes_spec :
  forall d earlier p processed rest order,
    NoDup (p_members p) ->
    Permutation (d_store (do_msgs (do_listen p (run_attempts d earlier)) processed)) order ->
    out_ok p (processed ++ rest) (tick p order) = true.
Proof. exact Proofs.C35.history_model_passes_spec. Qed.
Print Assumptions history_model_passes_spec.

(* the executable property of a whole case (what SpecFail negates): every attempt's observed
   result is backed by confirmations of all its included members among its own messages *)
Theorem spec_ok_sound :
  forall c,
    spec_ok c = true ->
    forall a, In a (c_attempts c) ->
      c_out a <> Panic /\
      forall s e, c_out a = Done s e ->
        let p := c_params a in
        let h := c_phase1 a ++ c_phase2 a in
        (forall mem, In mem (p_members p) ->
                     exists m, In m h /\ confirms p s mem m = true /\ m_end m <= e) /\
        ((p_members p = [] /\ s = None /\ e = 0) \/
         (exists mem m, In mem (p_members p) /\ In m h /\ confirms p s mem m = true /\ m_end m = e)).
Proof. exact Proofs.C35.spec_ok_sound. Qed.
Print Assumptions spec_ok_sound.
