(* C28 — Deposit scripts: the wallet key spends at any time, the refund key only after the refund
   locktime, no other key ever; the embedded data is inert.
   ONLY property statements; proofs are in Proofs/C28.v (interpreter lemmas in Proofs/C27.v).

   Vocabulary: [engine_on_deposit w tx i amount d sig pk] (Model/C28.v) is the model of btcd's
   txscript engine (standard flags) on input [i] of [tx] spending an output locked by the P2SH
   ([w = WP2SH]) or P2WSH ([WP2WSH]) wrapping of the deposit script of [d], with unlocking data
   (sig, pk, script).  [sig_good] = OP_CHECKSIG accepts (pk, sig) for the digest of this spend:
   hash type, strict DER / low S, key encoding, ECDSA.  [refund_open lock l s] = the BIP-65
   condition on the script-number value of [lock], the transaction's nLockTime [l] and the
   input's nSequence [s]; [lock_standard] = the 4-byte operand is a minimally encoded script
   number (standard flags).  HASH160, SHA256, the DER test and the signature check are arbitrary
   functions; only the output lengths of the hashes are assumed.
   [sig] and [pk] are arbitrary byte strings (anything above the 520-byte element limit is
   rejected by the engine and fails [sig_good]). *)
From Coq Require Import ZArith NArith List Bool.
From KV Require Import Common.Verdict Model.C27 Model.C28 Proofs.C28.
Import ListNotations.
Open Scope N_scope.

(* the complete spend condition, for all parameters and all spending transactions: a function of
   the key hashes, the refund locktime, HASH160(pk), the signature check, nLockTime and nSequence
   only; the engine never answers anything else (in particular never "unsupported opcode") *)
Theorem spend_characterisation :
  forall (hash160 sha256 : bytes -> bytes) (der_strict : bytes -> bool)
         (checksig : bytes -> bytes -> sighash -> bool),
    (forall x, length (hash160 x) = 20%nat) -> (forall x, length (sha256 x) = 32%nat) ->
    forall w tx i amount d sig pk,
      dep_wf d -> (i < length (tx_ins tx))%nat ->
      engine_on_deposit hash160 sha256 der_strict checksig w tx i amount d sig pk =
      if spend_allowed (dp_wpkh d) (dp_rpkh d) (dp_lock d) (hash160 pk)
                       (sig_good der_strict checksig w tx i amount d sig pk)
                       (tx_lock tx) (input_sequence tx i)
      then Accept else Reject.
Proof. exact Proofs.C28.spend_characterisation. Qed.
Print Assumptions spend_characterisation.

Theorem wallet_key_spends_any_time :
  forall (hash160 sha256 : bytes -> bytes) (der_strict : bytes -> bool)
         (checksig : bytes -> bytes -> sighash -> bool),
    (forall x, length (hash160 x) = 20%nat) -> (forall x, length (sha256 x) = 32%nat) ->
    forall w tx i amount d sig pk,
      dep_wf d -> (i < length (tx_ins tx))%nat ->
      hash160 pk = dp_wpkh d ->
      sig_good der_strict checksig w tx i amount d sig pk = true ->
      engine_on_deposit hash160 sha256 der_strict checksig w tx i amount d sig pk = Accept.
Proof. exact Proofs.C28.wallet_key_spends_any_time. Qed.
Print Assumptions wallet_key_spends_any_time.

Theorem refund_key_iff_locktime :
  forall (hash160 sha256 : bytes -> bytes) (der_strict : bytes -> bool)
         (checksig : bytes -> bytes -> sighash -> bool),
    (forall x, length (hash160 x) = 20%nat) -> (forall x, length (sha256 x) = 32%nat) ->
    forall w tx i amount d sig pk,
      dep_wf d -> (i < length (tx_ins tx))%nat ->
      hash160 pk = dp_rpkh d -> dp_rpkh d <> dp_wpkh d ->
      sig_good der_strict checksig w tx i amount d sig pk = true ->
      (engine_on_deposit hash160 sha256 der_strict checksig w tx i amount d sig pk = Accept <->
       lock_standard (dp_lock d) = true /\
       refund_open (dp_lock d) (tx_lock tx) (input_sequence tx i) = true) /\
      (engine_on_deposit hash160 sha256 der_strict checksig w tx i amount d sig pk <> Accept ->
       engine_on_deposit hash160 sha256 der_strict checksig w tx i amount d sig pk = Reject).
Proof. exact Proofs.C28.refund_key_iff_locktime. Qed.
Print Assumptions refund_key_iff_locktime.

(* what "the refund locktime has passed" means: BIP-65 *)
Theorem refund_open_spec : forall lock l s,
    refund_open lock l s = true <->
    (let n := num_val lock in
     0 <= n /\ ((Z.of_N l < 500000000 /\ n < 500000000) \/ (500000000 <= Z.of_N l /\ 500000000 <= n)) /\
     n <= Z.of_N l)%Z /\ s <> 4294967295.
Proof. exact Proofs.C28.refund_open_spec. Qed.
Print Assumptions refund_open_spec.

(* the 4-byte operand: little-endian value when the top bit is clear; standard iff minimally
   encoded (top byte not 0x00 / 0x80 unless the byte below has its top bit set) *)
Theorem lock_operand :
  forall a b c e,
    (lock_standard [a; b; c; e] = true <-> (N.land e 127 <> 0 \/ 128 <= c)) /\
    (e < 128 -> num_val [a; b; c; e] = Z.of_N (a + 256 * (b + 256 * (c + 256 * e)))).
Proof. intros a b c e. split; [exact (Proofs.C28.lock_standard_spec a b c e)|exact (Proofs.C28.num_val_nonneg a b c e)]. Qed.
Print Assumptions lock_operand.

Theorem no_other_key :
  forall (hash160 sha256 : bytes -> bytes) (der_strict : bytes -> bool)
         (checksig : bytes -> bytes -> sighash -> bool),
    (forall x, length (hash160 x) = 20%nat) -> (forall x, length (sha256 x) = 32%nat) ->
    forall w tx i amount d sig pk,
      dep_wf d -> (i < length (tx_ins tx))%nat ->
      engine_on_deposit hash160 sha256 der_strict checksig w tx i amount d sig pk = Accept ->
      sig_good der_strict checksig w tx i amount d sig pk = true /\
      (hash160 pk = dp_wpkh d \/
       (hash160 pk = dp_rpkh d /\ lock_standard (dp_lock d) = true /\
        refund_open (dp_lock d) (tx_lock tx) (input_sequence tx i) = true)).
Proof. exact Proofs.C28.no_other_key. Qed.
Print Assumptions no_other_key.

(* with the hash-oracle assumption (HASH160 collision-free) stated as a premise: the key itself *)
Theorem no_other_key_injective :
  forall (hash160 sha256 : bytes -> bytes) (der_strict : bytes -> bool)
         (checksig : bytes -> bytes -> sighash -> bool),
    (forall x, length (hash160 x) = 20%nat) -> (forall x, length (sha256 x) = 32%nat) ->
    (forall a b, hash160 a = hash160 b -> a = b) ->
    forall w tx i amount d sig pk wallet_pk refund_pk,
      dep_wf d -> (i < length (tx_ins tx))%nat ->
      dp_wpkh d = hash160 wallet_pk -> dp_rpkh d = hash160 refund_pk ->
      engine_on_deposit hash160 sha256 der_strict checksig w tx i amount d sig pk = Accept ->
      pk = wallet_pk \/
      (pk = refund_pk /\ refund_open (dp_lock d) (tx_lock tx) (input_sequence tx i) = true).
Proof. exact Proofs.C28.no_other_key_injective. Qed.
Print Assumptions no_other_key_injective.

(* depositor, blinding factor and extra data (present or absent) do not alter the conditions:
   two deposits with the same key hashes and locktime get the same verdict whenever the signature
   checks (whose digests do commit to the whole script) answer alike *)
Theorem embedded_data_inert :
  forall (hash160 sha256 : bytes -> bytes) der_strict checksig,
    (forall x, length (hash160 x) = 20%nat) -> (forall x, length (sha256 x) = 32%nat) ->
    forall w tx i amount d d' sig sig' pk,
      dep_wf d -> dep_wf d' -> same_conditions d d' ->
      (i < length (tx_ins tx))%nat ->
      sig_good der_strict checksig w tx i amount d sig pk =
      sig_good der_strict checksig w tx i amount d' sig' pk ->
      engine_on_deposit hash160 sha256 der_strict checksig w tx i amount d sig pk =
      engine_on_deposit hash160 sha256 der_strict checksig w tx i amount d' sig' pk.
Proof. exact Proofs.C28.embedded_data_inert. Qed.
Print Assumptions embedded_data_inert.

(* byte level: the opcode list serialises to the documented format
   14 <depositor> 75 [20 <extra> 75] 08 <blinding> 75 76 a9 14 <walletPKH> 87 63 ac 67 76 a9 14
   <refundPKH> 88 04 <locktime> b1 75 ac 68, of 92 resp. 126 bytes *)
Theorem script_layout : forall d, dep_wf d -> ser (deposit_ops d) = deposit_script_bytes d.
Proof. exact Proofs.C28.script_layout. Qed.
Print Assumptions script_layout.

Theorem script_length : forall d, dep_wf d ->
    length (deposit_script_bytes d) = match dp_extra d with Some _ => 126%nat | None => 92%nat end.
Proof. exact Proofs.C28.script_length. Qed.
Print Assumptions script_length.

(* Deposit.Script() as written (hex decoding of the depositor string, length check, format):
   for every 20-byte depositor in hex with or without "0x" it returns the documented bytes *)
Theorem script_of_total : forall di b,
    Forall (fun x => x < 256) b -> length b = 20%nat -> arrays_ok di = true ->
    (di_depositor di = hex_encode b \/ di_depositor di = 48 :: 120 :: hex_encode b) ->
    script_of di = Some (deposit_script_bytes (to_dep di b)) /\
    deposit_script_bytes (to_dep di b) = ser (deposit_ops (to_dep di b)) /\
    dep_wf (to_dep di b).
Proof. exact Proofs.C28.script_of_total. Qed.
Print Assumptions script_of_total.

Theorem script_of_spec : forall di s,
    script_of di = Some s ->
    exists b, hex_decode (trim0x (di_depositor di)) = Some b /\ length b = 20%nat /\
              s = deposit_script_bytes (to_dep di b) /\
              (arrays_ok di = true -> dep_wf (to_dep di b) /\ s = ser (deposit_ops (to_dep di b))).
Proof. exact Proofs.C28.script_of_spec. Qed.
Print Assumptions script_of_spec.

(* ---- the executable form used by the correspondence check ---- *)
Theorem spec_spend_sound : forall (c : dep_case) (s : spend),
    Concrete.spec_spend c s = true -> sp_neutral s = false ->
    let d := dc_in c in
    let pkh := table_fn (dc_hash160 c) (sp_pk s) in
    (Concrete.good_of s = false -> sp_engine s = false) /\
    (Concrete.good_of s = true -> pkh = di_wpkh d -> sp_engine s = true) /\
    (Concrete.good_of s = true -> pkh <> di_wpkh d -> pkh = di_rpkh d ->
     (refund_open (di_lock d) (tx_lock (sp_tx s)) (Concrete.seq_of s) = false -> sp_engine s = false) /\
     (refund_open (di_lock d) (tx_lock (sp_tx s)) (Concrete.seq_of s) = true ->
      lock_standard (di_lock d) = true -> sp_engine s = true)) /\
    (Concrete.good_of s = true -> pkh <> di_wpkh d -> pkh <> di_rpkh d -> sp_engine s = false).
Proof. exact Proofs.C28.spec_spend_sound. Qed.
Print Assumptions spec_spend_sound.

(* ... and it holds of the verdict the model predicts ([spend_characterisation]) *)
Theorem predicted_verdict_passes_spec : forall (c : dep_case) (s : spend),
    sp_engine s = spend_allowed (di_wpkh (dc_in c)) (di_rpkh (dc_in c)) (di_lock (dc_in c))
                                (table_fn (dc_hash160 c) (sp_pk s)) (Concrete.good_of s)
                                (tx_lock (sp_tx s)) (Concrete.seq_of s) ->
    Concrete.spec_spend c s = true.
Proof. exact Proofs.C28.predicted_verdict_passes_spec. Qed.
Print Assumptions predicted_verdict_passes_spec.

(* the embedding requirement of the executable property holds of the model's script *)
Theorem model_script_embeds : forall di s,
    arrays_ok di = true -> script_of di = Some s -> Concrete.embeds di s = true.
Proof. exact Proofs.C28.model_script_embeds. Qed.
Print Assumptions model_script_embeds.

Theorem embeds_sound : forall di script,
    Concrete.embeds di script = true ->
    exists e dep ops, parse script = Some (OPush e dep :: ODrop :: ops) /\
      hex_decode (trim0x (di_depositor di)) = Some dep /\
      match di_extra di with
      | Some x => exists e1 e2 r, ops = OPush e1 x :: ODrop :: OPush e2 (di_blinding di) :: ODrop :: ODup :: r
      | None => exists e2 r, ops = OPush e2 (di_blinding di) :: ODrop :: ODup :: r
      end.
Proof. exact Proofs.C28.embeds_sound. Qed.
Print Assumptions embeds_sound.

Theorem spec_ok_sound : forall c : dep_case,
    Concrete.spec_ok c = true ->
    match dc_script c with
    | Some script => Concrete.embeds (dc_in c) script = true /\
                     forall s, In s (dc_spends c) -> Concrete.spec_spend c s = true
    | None => script_of (dc_in c) = None /\ dc_spends c = []
    end.
Proof. exact Proofs.C28.spec_ok_sound. Qed.
Print Assumptions spec_ok_sound.

Theorem judge_agree_sound : forall c : dep_case,
    Concrete.judge c = Agree -> Concrete.spec_ok c = true /\ Concrete.agree c = true.
Proof. exact Proofs.C28.judge_agree_sound. Qed.
Print Assumptions judge_agree_sound.

(* ---- Script() call histories: no memory ----
   [run_history past l] is the model of a sequence of Script() calls [l] in a process that has
   already answered the calls [past] (on whatever Deposit values: one long-lived value mutated
   between calls, struct copies sharing the funding Utxo, equal outpoints behind different
   pointers, the sweep assembly).  The funding outpoint is not even an input of the model. *)
Theorem history_is_map : forall past l, run_history past l = map script_of l.
Proof. exact Proofs.C28.history_is_map. Qed.
Print Assumptions history_is_map.

Theorem history_prefix_stable : forall past l l',
    firstn (length l) (run_history past (l ++ l')) = run_history past l.
Proof. exact Proofs.C28.history_prefix_stable. Qed.
Print Assumptions history_prefix_stable.

(* every script of a history is the deposit script of THAT call's parameters, so
   [spend_characterisation] and its corollaries hold of it with that call's key hashes and
   refund locktime, whatever was computed before or after *)
Theorem history_call_script : forall past l n di s,
    nth_error l n = Some di -> nth_error (run_history past l) n = Some (Some s) ->
    exists b, hex_decode (trim0x (di_depositor di)) = Some b /\ length b = 20%nat /\
              s = deposit_script_bytes (to_dep di b) /\
              (arrays_ok di = true -> dep_wf (to_dep di b) /\ s = ser (deposit_ops (to_dep di b))).
Proof. exact Proofs.C28.history_call_script. Qed.
Print Assumptions history_call_script.

(* the executable form: per call the property with that call's parameters, and the slice a call
   returned reads the same after all later calls *)
Theorem hspec_ok_sound : forall l,
    History.hspec_ok l = true ->
    forall e, In e l -> Concrete.spec_ok (he_case e) = true /\ he_late e = dc_script (he_case e).
Proof. exact Proofs.C28.hspec_ok_sound. Qed.
Print Assumptions hspec_ok_sound.

Theorem hagree_sound : forall l,
    History.hagree l = true ->
    map (fun e => dc_script (he_case e)) l = map script_of (map (fun e => dc_in (he_case e)) l).
Proof. exact Proofs.C28.hagree_sound. Qed.
Print Assumptions hagree_sound.

Theorem model_history_passes_spec : forall past l,
    map (fun e => dc_script (he_case e)) l = run_history past (map (fun e => dc_in (he_case e)) l) ->
    (forall e, In e l ->
       arrays_ok (dc_in (he_case e)) = true /\ he_late e = dc_script (he_case e) /\
       (dc_script (he_case e) = None -> dc_spends (he_case e) = []) /\
       forall s, In s (dc_spends (he_case e)) ->
         sp_engine s = spend_allowed (di_wpkh (dc_in (he_case e))) (di_rpkh (dc_in (he_case e)))
                                     (di_lock (dc_in (he_case e)))
                                     (table_fn (dc_hash160 (he_case e)) (sp_pk s)) (Concrete.good_of s)
                                     (tx_lock (sp_tx s)) (Concrete.seq_of s)) ->
    History.hspec_ok l = true.
Proof. exact Proofs.C28.model_history_passes_spec. Qed.
Print Assumptions model_history_passes_spec.

Theorem judge_any_agree_sound : forall a,
    judge_any a = Agree ->
    match a with
    | DOne c => Concrete.spec_ok c = true /\ Concrete.agree c = true
    | DHist l => History.hspec_ok l = true /\ History.hagree l = true
    end.
Proof. exact Proofs.C28.judge_any_agree_sound. Qed.
Print Assumptions judge_any_agree_sound.

