(* C41 — Ephemeral ECDH channels agree on keys and reject tampering.
   ONLY property statements; proofs are in Proofs/C41.v.  The theorems are about the glue of
   pkg/crypto/ephemeral over IDEALISED primitives: the group action, the key derivation and the
   authenticated cipher are universally quantified and their assumed behaviour appears as
   explicit premises (secp256k1 / sha256 / XSalsa20-Poly1305 themselves are library code that
   only the per-run correspondence exercises). *)
From Coq Require Import ZArith List Bool.
From KV Require Import Model.C41 Proofs.C41.
Import ListNotations.
Open Scope Z_scope.

(* both sides derive the same symmetric key *)
Theorem both_sides_derive_same_key :
  forall (G : Type) (smul : Z -> G -> G) (gen : G) (key : Type) (kdf : G -> key),
    (forall a b p, smul a (smul b p) = smul (a * b) p) ->
    forall a b, ecdh G smul key kdf a (public_of G smul gen b) = ecdh G smul key kdf b (public_of G smul gen a).
Proof. exact Proofs.C41.ecdh_agree. Qed.
Print Assumptions both_sides_derive_same_key.

(* what one side encrypts the other side decrypts to the same plaintext *)
Theorem decrypt_of_encrypt_is_plaintext :
  forall (G : Type) (smul : Z -> G -> G) (gen : G) (key : Type) (kdf : G -> key)
         (plaintext ciphertext nonce : Type)
         (seal : key -> nonce -> plaintext -> ciphertext) (open : key -> ciphertext -> option plaintext),
    (forall a b p, smul a (smul b p) = smul (a * b) p) ->
    (forall k n m, open k (seal k n m) = Some m) ->
    forall a b n m,
      decrypt key plaintext ciphertext open (ecdh G smul key kdf a (public_of G smul gen b))
        (encrypt key plaintext ciphertext nonce seal (ecdh G smul key kdf b (public_of G smul gen a)) n m)
      = Some m.
Proof. exact Proofs.C41.decrypt_encrypt. Qed.
Print Assumptions decrypt_of_encrypt_is_plaintext.

(* anything that is not an honest encryption under the key is rejected *)
Theorem modified_ciphertext_rejected :
  forall (key plaintext ciphertext nonce : Type)
         (seal : key -> nonce -> plaintext -> ciphertext) (open : key -> ciphertext -> option plaintext),
    (forall k c m, open k c = Some m -> exists n, c = seal k n m) ->
    forall k c, (forall n m, c <> seal k n m) -> decrypt key plaintext ciphertext open k c = None.
Proof. exact Proofs.C41.tampered_rejected. Qed.
Print Assumptions modified_ciphertext_rejected.

(* a different key is rejected *)
Theorem different_key_rejected :
  forall (key plaintext ciphertext nonce : Type)
         (seal : key -> nonce -> plaintext -> ciphertext) (open : key -> ciphertext -> option plaintext),
    (forall k c m, open k c = Some m -> exists n, c = seal k n m) ->
    (forall k k' n n' m m', seal k n m = seal k' n' m' -> k = k') ->
    forall k k' n m, k <> k' -> decrypt key plaintext ciphertext open k' (seal k n m) = None.
Proof. exact Proofs.C41.wrong_key_rejected. Qed.
Print Assumptions different_key_rejected.

(* a revealed private key matches a public key exactly when it generates it *)
Theorem key_matching_iff_generates :
  forall (G : Type) (smul : Z -> G -> G) (gen : G) (G_eqb : G -> G -> bool),
    (forall x y, G_eqb x y = true <-> x = y) ->
    forall pub priv, is_key_matching G smul gen G_eqb pub priv = true <-> pub = public_of G smul gen priv.
Proof. exact Proofs.C41.is_key_matching_iff. Qed.
Print Assumptions key_matching_iff_generates.

(* the executable form evaluated on the implementation's observations *)
Theorem spec_ok_sound : forall c,
  spec_ok c = true ->
  c_same_key c = true /\ c_roundtrip c = true /\ c_tampered_accepted c = 0%N /\
  c_wrongkey_accepted c = 0%N /\
  forall useA priv observed, In (useA, priv, observed) (c_matching c) ->
     observed = is_key_matching_c (if useA then c_pubA c else c_pubB c) priv.
Proof. exact Proofs.C41.spec_ok_sound. Qed.
Print Assumptions spec_ok_sound.
