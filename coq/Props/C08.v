(* C08 — tECDSA signing: any honest-threshold subset of the final signing group, using the member
   indexes stored for the wallet, signs validly; each stored index maps to the key-generation
   party identity it used.
   ONLY property statements; proofs are in Proofs/C08.v.  What is PROVED here is the index/identity
   glue (finalSigningGroup, the signing identity converter, admission, NewSignature's byte
   extraction).  The threshold-signature mathematics of tss-lib (that the produced (r, s) verifies
   under the wallet key and that tss-lib normalises S to the low half) is an ORACLE: it is observed
   on real runs and judged by [spec_sign], not proved. *)
From Coq Require Import ZArith NArith List Bool Sorted.
From KV Require Import Common.Verdict Model.C07 Model.C08 Proofs.C07 Proofs.C08.
Import ListNotations.
Open Scope N_scope.

(* what registerSigner passes to finalSigningGroup: [selected] has one operator per seat of a group
   of [size] < 256 seats, [operating] are distinct member indexes within 1..size, at least the
   quorum of them (in ANY order: the function sorts them itself) *)
Definition valid_wallet (selected operating : list N) (size quorum : Z) : Prop :=
  Z.of_nat (length selected) = size /\ (size < 256)%Z
  /\ (quorum <= Z.of_nat (length operating))%Z /\ NoDup operating
  /\ forall m, In m operating -> 1 <= m /\ (Z.of_N m <= size)%Z.

(* ---- every stored index maps to the key-generation party identity: for every group size, seed,
        exclusion list and operating member m of the key generation (C07's [execute_member]),
        keys[final m - 1] = seed + m where keys is the party-id list the member built (what
        tss-lib stores as Ks), the converter maps that key back to final m, and the final
        operator at that position is the operator selected for seat m *)
Theorem final_index_maps_to_keygen_party :
  forall size t seed self ex ops s selected quorum,
    (size <= 255)%nat -> memN self ex = false -> length selected = size ->
    let mb := execute_member size t seed self ex ops s in
    let oper := operating (mb_group mb) in
    (quorum <= Z.of_nat (length oper))%Z ->
    exists fops idx,
      final_signing_group selected oper (Z.of_nat size) quorum = FOk fops idx
      /\ forall m, 1 <= m <= N.of_nat size -> ~ In m ex ->
           exists fi, map_get m idx = Some fi
             /\ sc_key (party_keys mb) fi = Some (party_key seed m)
             /\ sc_index (party_keys mb) (party_key seed m) = fi
             /\ nth_error fops (N.to_nat (fi - 1)) = nth_error selected (N.to_nat (m - 1)).
Proof. exact Proofs.C08.final_index_maps_to_keygen_party. Qed.
Print Assumptions final_index_maps_to_keygen_party.

(* ---- the same for ANY valid wallet (operating given in any order), with all clauses *)
Theorem final_signing_group_correct :
  forall seed selected operating size quorum,
    valid_wallet selected operating size quorum ->
    let keys := wallet_keys seed operating in
    exists ops idx,
      final_signing_group selected operating size quorum = FOk ops idx
      /\ length ops = length operating /\ map fst idx = sortN operating
      /\ map snd idx = map N.of_nat (seq 1 (length operating))
      /\ (forall m, In m operating -> exists fi,
            map_get m idx = Some fi /\ 1 <= fi <= N.of_nat (length operating)
            /\ sc_key keys fi = Some (party_key seed m)
            /\ sc_index keys (party_key seed m) = fi
            /\ nth_error ops (N.to_nat (fi - 1)) = nth_error selected (N.to_nat (m - 1))
            /\ nth_error selected (N.to_nat (m - 1)) <> None)
      /\ (forall m1 m2 f1 f2, map_get m1 idx = Some f1 -> map_get m2 idx = Some f2 ->
            In m1 operating -> In m2 operating -> (m1 < m2 <-> f1 < f2)).
Proof. exact Proofs.C08.final_group_main. Qed.
Print Assumptions final_signing_group_correct.

Theorem final_operators_are_selected_of_operating :
  forall selected operating size quorum,
    valid_wallet selected operating size quorum ->
    exists ops idx,
      final_signing_group selected operating size quorum = FOk ops idx
      /\ length ops = length operating
      /\ forall m, In m operating -> exists fi o,
           map_get m idx = Some fi /\ nth_error ops (N.to_nat (fi - 1)) = Some o
           /\ nth_error selected (N.to_nat (m - 1)) = Some o.
Proof. exact Proofs.C08.final_operators_selected. Qed.
Print Assumptions final_operators_are_selected_of_operating.

(* the index map is an order-preserving bijection between the operating members and 1..k *)
Theorem final_indices_bijection :
  forall selected operating size quorum,
    valid_wallet selected operating size quorum ->
    exists ops idx,
      final_signing_group selected operating size quorum = FOk ops idx
      /\ StronglySorted N.lt (map fst idx) /\ (forall m, In m (map fst idx) <-> In m operating)
      /\ map snd idx = map N.of_nat (seq 1 (length operating))
      /\ (forall m1 m2 f1 f2, map_get m1 idx = Some f1 -> map_get m2 idx = Some f2 ->
            In m1 operating -> In m2 operating -> (m1 < m2 <-> f1 < f2) /\ (m1 = m2 <-> f1 = f2)).
Proof. exact Proofs.C08.final_indices_bijection. Qed.
Print Assumptions final_indices_bijection.

(* ---- signing identity converter: round trip on valid indexes, panics exactly outside 1..len,
        unknown keys map to index 0 *)
Theorem converter_roundtrip :
  forall keys i, NoDup keys -> (length keys < 256)%nat -> 1 <= i <= N.of_nat (length keys) ->
    exists k, sc_key keys i = Some k /\ sc_index keys k = i.
Proof. exact Proofs.C08.converter_roundtrip. Qed.
Print Assumptions converter_roundtrip.

(* the same from the key side, for keys of ANY magnitude (the model compares keys as integers,
   never their decimal forms; digit counts and word sizes play no role) and even when keys
   repeat: a key of the list maps to an index within 1..len that holds this very key — never
   to 0, never to another member's key *)
Theorem converter_key_maps_to_its_index :
  forall keys k, (length keys < 256)%nat -> In k keys ->
    1 <= sc_index keys k <= N.of_nat (length keys) /\ sc_key keys (sc_index keys k) = Some k.
Proof. exact Proofs.C08.converter_key_of_index. Qed.
Print Assumptions converter_key_maps_to_its_index.

Theorem converter_panics_only_outside :
  forall keys i, (length keys < 256)%nat -> i < 256 ->
    (sc_key keys i = None <-> i = 0 \/ N.of_nat (length keys) < i).
Proof. exact Proofs.C08.converter_panics_only_outside. Qed.
Print Assumptions converter_panics_only_outside.

(* ---- no Panic under admission: if the wallet's key list covers every operating member of the
        signing group, building the party ids succeeds and every admitted sender has a key *)
Theorem signing_no_panic_under_admission :
  forall keys g, (length keys < 256)%nat ->
    (forall m, In m (operating g) -> 1 <= m <= N.of_nat (length keys)) ->
    (exists l, s_party_keys keys g = Some l)
    /\ forall mb m, mb_group mb = g -> accepts mb m = true -> sc_key keys (m_sender m) <> None.
Proof. exact Proofs.C08.signing_no_panic. Qed.
Print Assumptions signing_no_panic_under_admission.

(* signing.Execute marks excluded members like key generation does: foreign messages (own,
   outside the group, excluded sender, wrong seat key, other session) are never stored, in any of
   the twelve states; the finalization state stores nothing *)
Theorem signing_foreign_messages_never_stored :
  forall size t seed self ex ops session, (size <= 255)%nat ->
    let mb := execute_member size t seed self ex ops session in
    (forall st h m, foreign size self ex ops session m -> s_receive mb st h m = h)
    /\ (forall h m, s_receive mb 11 h m = h)
    /\ (forall st h m, s_receive mb st h m <> h ->
          ~ foreign size self ex ops session m /\ ~ In (m_sender m) ex /\ m_session m = session
          /\ In (m_sender m) (operating (mb_group mb))).
Proof. exact Proofs.C08.signing_foreign_never_stored. Qed.
Print Assumptions signing_foreign_messages_never_stored.

(* ---- NewSignature: R and S are the big-endian values of the byte strings tss-lib returned
        (panic only on empty recovery bytes), the recovery id is the int8 of the first byte; the
        value determines the bytes, and the low-S test on S is the test on the bytes' value *)
Theorem new_signature_extraction :
  forall rb sb b rest,
    new_signature rb sb (b :: rest) =
      SOk (be_to_Z 0 rb) (be_to_Z 0 sb) (if N.ltb b 128 then Z.of_N b else Z.of_N b - 256)%Z
    /\ (forall recb, new_signature rb sb recb = SPanic <-> recb = [])
    /\ (b < 256 -> (-128 <= (if N.ltb b 128 then Z.of_N b else Z.of_N b - 256) <= 127)%Z)
    /\ (bytes rb -> (0 <= be_to_Z 0 rb < 256 ^ Z.of_nat (length rb))%Z)
    /\ (bytes sb -> (0 <= be_to_Z 0 sb < 256 ^ Z.of_nat (length sb))%Z).
Proof. exact Proofs.C08.new_signature_spec. Qed.
Print Assumptions new_signature_extraction.

Theorem signature_bytes_injective :
  forall a b acc acc', length a = length b -> bytes a -> bytes b ->
    (0 <= acc)%Z -> (0 <= acc')%Z -> be_to_Z acc a = be_to_Z acc' b -> acc = acc' /\ a = b.
Proof. exact Proofs.C08.be_to_Z_inj. Qed.
Print Assumptions signature_bytes_injective.

Theorem signature_low_s_on_bytes :
  forall rb sb recb half r s v,
    new_signature rb sb recb = SOk r s v -> ((s <= half)%Z <-> (be_to_Z 0 sb <= half)%Z).
Proof. exact Proofs.C08.signature_s_low_iff. Qed.
Print Assumptions signature_low_s_on_bytes.

(* ---- soundness of the executable property (evaluated on the implementation's outputs) *)
Theorem spec_fsg_sound :
  forall c, spec_fsg c = true -> f_valid c = true ->
    let keys := wallet_keys (f_seed c) (f_operating c) in
    exists ops idx, f_out c = FOk ops idx /\ NoDup (map snd idx)
      /\ forall m, In m (f_operating c) -> exists fi o,
           map_get m idx = Some fi /\ 1 <= fi <= N.of_nat (length (f_operating c))
           /\ sc_key keys fi = Some (party_key (f_seed c) m)
           /\ sc_index keys (party_key (f_seed c) m) = fi
           /\ nth_error ops (N.to_nat (fi - 1)) = Some o
           /\ nth_error (f_selected c) (N.to_nat (m - 1)) = Some o
           (* and the REAL converter over the wallet's keys returned fi for seed + m *)
           /\ In (m, fi) (combine (f_operating c) (f_conv c)).
Proof. exact Proofs.C08.spec_fsg_sound. Qed.
Print Assumptions spec_fsg_sound.

(* real signing runs: every key-generation member's stored index points at its own party key in
   the Ks the shares hold; at least the honest threshold of distinct final indexes signs; all
   signers that complete hold ONE signature, which verifies under the wallet key (ecdsa.Verify,
   observed) and has low S (observed) *)
Theorem spec_sign_sound :
  forall c, spec_sign c = true ->
    (forall m, In m (w_dkg_operating c) -> exists fi,
         map_get m (w_final c) = Some fi /\ sc_key (w_ks c) fi = Some (party_key (w_seed c) m))
    /\ NoDup (w_signers c) /\ w_honest c <= N.of_nat (length (w_signers c))
    /\ (forall s, In s (w_signers c) -> 1 <= s <= N.of_nat (length (w_dkg_operating c)))
    /\ (forall o, In o (w_obs c) -> In (sg_member o) (w_signers c))
    /\ (forall o1 o2, In o1 (w_obs c) -> In o2 (w_obs c) -> sg_done o1 = true -> sg_done o2 = true ->
          sg_sig o1 = sg_sig o2 /\ sg_valid o1 = true /\ sg_low_s o1 = true).
Proof. exact Proofs.C08.spec_sign_sound. Qed.
Print Assumptions spec_sign_sound.

Theorem spec_conv_sound :
  forall c, spec_conv c = true -> NoDup (v_keys c) -> (length (v_keys c) < 256)%nat ->
    length (v_idx c) = length (v_idx_out c)
    /\ (forall i out, In (i, out) (combine (v_idx c) (v_idx_out c)) ->
         1 <= i <= N.of_nat (length (v_keys c)) -> exists k, out = Some k /\ sc_index (v_keys c) k = i)
    (* the observed TssPartyIDToMemberIndex of a key of the list is an index holding that key *)
    /\ length (v_key c) = length (v_key_out c)
    /\ (forall k out, In (k, out) (combine (v_key c) (v_key_out c)) -> In k (v_keys c) ->
         sc_key (v_keys c) out = Some k).
Proof. exact Proofs.C08.spec_conv_sound. Qed.
Print Assumptions spec_conv_sound.

Theorem spec_sprobe_sound :
  forall c, spec_sprobe c = true ->
    (forall k, k < 10 -> forall x, In x (nth (N.to_nat k) (so_history c) []) ->
       exists st m, In (st, m) (sp_msgs c) /\ m_sender m = x /\ m_kind m = k /\ st <> 11
         /\ m_sender m <> sp_self c /\ 1 <= m_sender m <= sp_size c /\ ~ In (m_sender m) (sp_dq c)
         /\ nth_error (sp_ops c) (N.to_nat (m_sender m - 1)) = Some (m_op m)
         /\ m_session m = sp_session c)
    /\ (sp_size c <= N.of_nat (length (sp_keys c)) -> so_keys c <> None)
    (* every party id the member built maps back (observed) to an index holding that key *)
    /\ ((length (sp_keys c) < 256)%nat -> forall l, so_keys c = Some l ->
          length l = length (so_index c)
          /\ forall k i, In (k, i) (combine l (so_index c)) -> sc_key (sp_keys c) i = Some k).
Proof. exact Proofs.C08.spec_sprobe_sound. Qed.
Print Assumptions spec_sprobe_sound.

(* ---- every model output satisfies the executable property *)
Theorem model_satisfies_spec_fsg :
  forall c, f_valid c = true -> agree_fsg c = true -> spec_fsg c = true.
Proof. exact Proofs.C08.model_spec_fsg. Qed.
Print Assumptions model_satisfies_spec_fsg.

Theorem model_satisfies_spec_conv :
  forall c, agree_conv c = true -> spec_conv c = true.
Proof. exact Proofs.C08.model_spec_conv. Qed.
Print Assumptions model_satisfies_spec_conv.

(* for real runs the signature part is the oracle's; the index part follows from the model *)
Theorem model_satisfies_spec_sign_indices :
  forall c, valid_wallet (w_selected c) (w_dkg_operating c) (w_size c) (w_quorum c) ->
    agree_sign c = true ->
    forall m, In m (w_dkg_operating c) -> exists fi,
      map_get m (w_final c) = Some fi /\ 1 <= fi <= N.of_nat (length (w_dkg_operating c))
      /\ sc_key (w_ks c) fi = Some (party_key (w_seed c) m)
      /\ sc_index (w_ks c) (party_key (w_seed c) m) = fi
      /\ nth_error (w_final_ops c) (N.to_nat (fi - 1)) = nth_error (w_selected c) (N.to_nat (m - 1)).
Proof. exact Proofs.C08.model_sign_indices. Qed.
Print Assumptions model_satisfies_spec_sign_indices.
