From Coq Require Import ZArith NArith List Bool.
From KV Require Import Common.Verdict Model.C07 Model.C08 Proofs.C08.
Theorem stub : True. Proof. exact Proofs.C08.stub. Qed.
Print Assumptions stub.
