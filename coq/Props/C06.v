(* C06 — Relay entry requests are processed at most once and in order.
   ONLY property statements; proofs are in Proofs/C06.v.  Vocabulary (Model/C06.v):
     op         one notification: start block [blk], previous entry string [ent] and the answers
                [ans] the chain would give at that moment ([None] = error);
     run init ops     the answers (RTrue | RFalse | RErr) NotifyRelayEntryStarted gives to the
                notifications [ops], one after the other, on a fresh Deduplicator;
     accepted ops outs   the notifications answered RTrue (signing is started for these);
     last_from None ops outs   the last notification answered RTrue (block, entry), if any;
     positive ops     every start block is > 0 — the guard: the code uses 0 as "no request seen
                yet", and no on-chain request lives in block 0. *)
From Coq Require Import ZArith NArith List Sorted.
From KV Require Import Model.C06 Proofs.C06.
Import ListNotations.
Open Scope Z_scope.

(* ---- for EVERY sequence of notifications and chain answers ---- *)

(* the start blocks of the processed requests are strictly increasing: no request is processed
   twice, and never one older than (or as old as) a request already processed *)
Theorem accepted_start_blocks_strictly_increasing :
  forall ops, positive ops ->
    StronglySorted Z.lt (map blk (accepted ops (run init ops))).
Proof. exact Proofs.C06.accepted_start_blocks_strictly_increasing. Qed.
Print Assumptions accepted_start_blocks_strictly_increasing.

Theorem processed_at_most_once :
  forall ops, positive ops -> NoDup (map blk (accepted ops (run init ops))).
Proof. exact Proofs.C06.processed_at_most_once. Qed.
Print Assumptions processed_at_most_once.

(* the two Go fields always hold the last processed request *)
Theorem state_is_last_processed_request :
  forall ops, positive ops ->
    final init ops = state_of (last_from None ops (run init ops)).
Proof. exact Proofs.C06.state_is_last_processed_request. Qed.
Print Assumptions state_is_last_processed_request.

(* exact characterisation of the answer after any history: true iff nothing was processed yet,
   or the request is strictly newer than the last processed one and either has a different
   previous entry or is confirmed by the chain as the current request *)
Theorem answer_true_iff_processable :
  forall ops o, positive ops -> 0 < blk o ->
    (snd (notify (final init ops) o) = RTrue <->
     match last_from None ops (run init ops) with
     | None => True
     | Some (b0, e0) =>
         b0 < blk o /\
         (ent o <> e0 \/
          exists ce cb, ans_entry (ans o) = Some ce /\ ans_block (ans o) = Some cb /\
                        ent o = hex_encode ce /\ blk o = big_uint64 cb)
     end).
Proof. exact Proofs.C06.answer_true_iff_processable. Qed.
Print Assumptions answer_true_iff_processable.

(* a genuinely new request with a new previous entry is always processed, whatever the chain
   answers (it is not even asked) *)
Theorem new_entry_always_processed :
  forall ops o, positive ops -> 0 < blk o ->
    match last_from None ops (run init ops) with
    | None => True
    | Some (b0, e0) => b0 < blk o /\ ent o <> e0
    end ->
    snd (notify (final init ops) o) = RTrue.
Proof. exact Proofs.C06.new_entry_always_processed. Qed.
Print Assumptions new_entry_always_processed.

(* a later request reusing the previous entry is processed only when the chain confirms it *)
Theorem same_entry_only_when_chain_confirms :
  forall ops o b0 e0, positive ops -> 0 < blk o ->
    last_from None ops (run init ops) = Some (b0, e0) ->
    ent o = e0 ->
    snd (notify (final init ops) o) = RTrue ->
    b0 < blk o /\
    exists ce cb, ans_entry (ans o) = Some ce /\ ans_block (ans o) = Some cb /\
                  ent o = hex_encode ce /\ blk o = big_uint64 cb.
Proof. exact Proofs.C06.same_entry_only_when_chain_confirms. Qed.
Print Assumptions same_entry_only_when_chain_confirms.

(* in ANY state: an answer other than true leaves the state untouched, and an error is
   answered only when a chain call failed *)
Theorem rejections_and_chain_errors_change_nothing :
  forall s o,
    (snd (notify s o) <> RTrue -> fst (notify s o) = s) /\
    (snd (notify s o) = RErr -> ans_entry (ans o) = None \/ ans_block (ans o) = None).
Proof. exact Proofs.C06.rejections_and_chain_errors_change_nothing. Qed.
Print Assumptions rejections_and_chain_errors_change_nothing.

(* the guard cannot be dropped: a request in block 0 is processed every time it is delivered *)
Theorem zero_start_block_guard_is_necessary :
  exists ops, ~ NoDup (map blk (accepted ops (run init ops))).
Proof. exact Proofs.C06.zero_start_block_guard_is_necessary. Qed.
Print Assumptions zero_start_block_guard_is_necessary.

(* ---- concurrent deliveries ----
   The Go function holds relayEntryMutex from entry to return, so a concurrent history is a
   sequential one in some order that respects real time (a call that returned before another
   was invoked is ordered first).  For every such order [l] (calls with invocation/response
   stamps, observed answers = the sequential model's): no two processed requests share a
   start block, and a request processed by a call that began after another processing call
   had returned is strictly newer. *)
Theorem linearisable_history_satisfies_property :
  forall l, realtime_ok l = true -> map c_out l = run init (map c_op l) ->
    spec_conc l = true.
Proof. exact Proofs.C06.linearisable_history_satisfies_property. Qed.
Print Assumptions linearisable_history_satisfies_property.

(* ---- the executable forms used by the correspondence check are sound and hold of the model ---- *)
Theorem spec_conc_sound :
  forall l, spec_conc l = true -> Forall (fun c => 0 < blk (c_op c)) l ->
    forall p a m b q, l = p ++ a :: m ++ b :: q ->
      c_out a = RTrue -> c_out b = RTrue ->
      blk (c_op a) <> blk (c_op b) /\
      ((c_resp a < c_inv b)%N -> blk (c_op a) < blk (c_op b)) /\
      ((c_resp b < c_inv a)%N -> blk (c_op b) < blk (c_op a)).
Proof. exact Proofs.C06.spec_conc_sound. Qed.
Print Assumptions spec_conc_sound.

(* for ANY observed answers [outs] (not only the model's): if spec_seq accepts them then the
   processed start blocks are strictly increasing and, at every position of the history,
   true is answered only to a processable request and always to a genuinely new one *)
Theorem spec_seq_sound :
  forall ops outs, positive ops -> spec_seq ops outs = true ->
    StronglySorted Z.lt (map blk (accepted ops outs)) /\
    length ops = length outs /\
    forall p o q po r qo,
      ops = p ++ o :: q -> outs = po ++ r :: qo -> length p = length po ->
      (r = RTrue -> processable (last_from None p po) o) /\
      (genuinely_new (last_from None p po) o -> r = RTrue).
Proof. exact Proofs.C06.spec_seq_sound. Qed.
Print Assumptions spec_seq_sound.

Theorem model_outputs_pass_spec :
  forall ops, spec_seq ops (run init ops) = true.
Proof. exact Proofs.C06.model_outputs_pass_spec. Qed.
Print Assumptions model_outputs_pass_spec.
