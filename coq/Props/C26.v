(* C26 — Wallet transactions conserve value and pay only the intended scripts.
   ONLY property statements; proofs are in Proofs/C26.v.  The model (Model/C26.v) is the Go code
   as written: int64 arithmetic wraps ([w64], [add64], [sub64]), [/] truncates, [%] has the sign
   of the dividend.  A UTXO is (outpoint, claimed value, what the chain answers for the
   outpoint); a transaction is [Tx inputs outputs] with inputs (outpoint, value) and outputs
   (script, value). *)
From Coq Require Import ZArith NArith List.
From KV Require Import Common.Verdict Model.C26 Proofs.C26.
Import ListNotations.
Open Scope Z_scope.

(* the chain reports an output of script class [k] for the UTXO's outpoint *)
Definition confirmed (k : sclass) (u : utxo) : Prop := exists v, u_chain u = COut k v.
(* the chain reports exactly the claimed value *)
Definition value_is_real (u : utxo) : Prop := exists k, u_chain u = COut k (u_value u).

(* ------------------------------------------------------------------------------------
   Guards (stated explicitly; the theorems named *_refuted show they are needed)
   ------------------------------------------------------------------------------------ *)
(* sweeps: claimed values are the chain's and non-negative, their sum is an int64, and
   0 <= fee <= sum *)
Definition sweep_guard_prop (us : list utxo) (fee : Z) : Prop :=
  (forall u, In u us -> value_is_real u /\ 0 <= u_value u) /\
  sumZ (map u_value us) < two63 /\ 0 <= fee <= sumZ (map u_value us).

(* a sweep transaction over the UTXOs [us]: spends exactly [us] in order and has a single output
   paying the wallet's own script; under the guard that output is worth sum - fee >= 0, so that
   inputs - outputs = fee *)
Definition sweep_property (own : N) (us : list utxo) (fee : Z) (ins : list input) (outs : list output) : Prop :=
  ins = map in_of us /\
  exists v, outs = [(own, v)] /\
    (sweep_guard_prop us fee ->
       v = sumZ (map u_value us) - fee /\ 0 <= v /\ sumZ (values ins) - sumZ (values outs) = fee).

(* ---- deposit sweep: inputs = main UTXO (when the wallet has one) first, then the deposits in
   order ---- *)
Theorem deposit_sweep_correct :
  forall own main ds fee ins outs,
    assemble_deposit_sweep own main ds fee = Tx ins outs ->
    ds <> [] /\
    Forall (confirmed KPkh) (opt_list main) /\
    Forall (fun d => d_script_ok d = true /\ confirmed KSh (d_utxo d)) ds /\
    sweep_property own (opt_list main ++ map d_utxo ds) fee ins outs.
Proof. exact Proofs.C26.deposit_sweep_correct. Qed.
Print Assumptions deposit_sweep_correct.

Theorem deposit_sweep_accepts :
  forall own main ds fee,
    ds <> [] ->
    Forall (confirmed KPkh) (opt_list main) ->
    Forall (fun d => d_script_ok d = true /\ confirmed KSh (d_utxo d)) ds ->
    exists ins outs, assemble_deposit_sweep own main ds fee = Tx ins outs.
Proof. exact Proofs.C26.deposit_sweep_accepts. Qed.
Print Assumptions deposit_sweep_accepts.

(* ---- moved funds sweep: inputs = the moved funds UTXO first, then the main UTXO ---- *)
Theorem moved_funds_sweep_correct :
  forall own m main fee ins outs,
    moved_funds_sweep own m main fee = Tx ins outs ->
    exists mu, moved_utxo m = SOk (Some mu) /\
      confirmed KPkh mu /\ Forall (confirmed KPkh) (opt_list main) /\
      sweep_property own (mu :: opt_list main) fee ins outs.
Proof. exact Proofs.C26.moved_funds_sweep_correct. Qed.
Print Assumptions moved_funds_sweep_correct.

(* the UTXO built by assembleMovedFundsSweepUtxo carries the value found on the chain *)
Theorem moved_funds_utxo_from_chain :
  forall op e mu,
    moved_utxo (MChain op e) = SOk (Some mu) -> u_op mu = op /\ value_is_real mu.
Proof. exact Proofs.C26.moved_utxo_chain_value. Qed.
Print Assumptions moved_funds_utxo_from_chain.

Theorem moved_funds_sweep_accepts :
  forall own m mu main fee,
    moved_utxo m = SOk (Some mu) -> confirmed KPkh mu -> Forall (confirmed KPkh) (opt_list main) ->
    exists ins outs, moved_funds_sweep own m main fee = Tx ins outs.
Proof. exact Proofs.C26.moved_funds_sweep_accepts. Qed.
Print Assumptions moved_funds_sweep_accepts.

(* ---- moving funds: one input (the main UTXO), one output per target wallet in order; under the
   guard 0 <= fee <= value < 2^63 every output but the last is worth (value - fee) / n and the
   last gets the remainder on top ---- *)
Theorem moving_funds_correct :
  forall main targets fee ins outs,
    assemble_moving_funds main targets fee = Tx ins outs ->
    exists mu, main = Some mu /\ targets <> [] /\ confirmed KPkh mu /\
      ins = [in_of mu] /\
      scripts outs = targets /\
      (value_is_real mu /\ 0 <= fee <= u_value mu /\ u_value mu < two63 ->
         let total := u_value mu - fee in
         let n := Z.of_nat (length targets) in
         values outs = repeat (total / n) (length targets - 1) ++ [total / n + total mod n] /\
         0 <= total / n /\ 0 <= total mod n < n /\
         sumZ (values ins) - sumZ (values outs) = fee).
Proof. exact Proofs.C26.moving_funds_correct. Qed.
Print Assumptions moving_funds_correct.

Theorem moving_funds_accepts :
  forall mu targets fee,
    targets <> [] -> confirmed KPkh mu ->
    exists ins outs, assemble_moving_funds (Some mu) targets fee = Tx ins outs.
Proof. exact Proofs.C26.moving_funds_accepts. Qed.
Print Assumptions moving_funds_accepts.

(* ---- redemption ---- *)
(* every share fits its request: 0 <= share_i <= amount_i - treasury_i *)
Definition shares_fit (reqs : list request) (sh : list Z) : Prop :=
  Forall2 (fun r s => 0 <= s <= r_amount r - r_treasury r) reqs sh.
(* guard: the main UTXO's value is real and an int64 >= 0; treasury fee <= amount < 2^63 for
   every request; the wallet is solvent (sum of amount - treasury fee <= main UTXO value); the
   shape is ChangeFirst (0) or ChangeLast (1); the fee shares fit the requests (for the
   production distribution: 0 <= fee < 2^63 and the even shares fit) *)
Definition redemption_guard (mu : utxo) (reqs : list request) (d : dist) (shape : N) : Prop :=
  value_is_real mu /\ 0 <= u_value mu < two63 /\
  (forall r, In r reqs -> 0 <= r_treasury r <= r_amount r /\ r_amount r < two63) /\
  sumZ (map redeemable reqs) <= u_value mu /\ (shape <= 1)%N /\
  match d with
  | DTotal fee => 0 <= fee < two63 /\ shares_fit reqs (ideal_shares fee (length reqs))
  | DShares l => shares_fit reqs l
  end.

(* one input (the main UTXO); outputs = the redeemers' scripts in request order, with the change
   (paid to the wallet's own script) first or last according to the shape.  Under the guard:
   request i is paid amount_i - treasury_i - share_i where the shares ([implied_shares]) are
   non-negative and add up to the proposed total fee (and are the given ones for an explicit
   distribution); the change is main - sum (amount_i - treasury_i) and exists iff it is
   positive; inputs - outputs = total fee *)
Theorem redemption_correct :
  forall own main reqs d shape ins outs,
    assemble_redemption own main reqs d shape = Tx ins outs ->
    exists mu, main = Some mu /\ reqs <> [] /\ confirmed KPkh mu /\
      ins = [in_of mu] /\
      exists (ch : option output) (routs : list output),
        outs = match shape with 0%N => opt_list ch ++ routs | _ => routs ++ opt_list ch end /\
        scripts routs = map r_script reqs /\
        (forall c, ch = Some c -> fst c = own) /\
        (redemption_guard mu reqs d shape ->
           let shares := implied_shares reqs routs in
           let change := u_value mu - sumZ (map redeemable reqs) in
           sumZ shares = dist_total d /\
           (forall l, d = DShares l -> shares = l) /\
           Forall (fun s => 0 <= s) shares /\
           Forall (fun v => 0 <= v) (values routs) /\
           ch = (if 0 <? change then Some (own, change) else None) /\
           sumZ (values ins) - sumZ (values outs) = dist_total d).
Proof. exact Proofs.C26.redemption_correct. Qed.
Print Assumptions redemption_correct.

Theorem redemption_accepts :
  forall own mu reqs fee shape,
    reqs <> [] -> confirmed KPkh mu -> (shape <= 1)%N -> - two63 <= fee < two63 ->
    exists ins outs, assemble_redemption own (Some mu) reqs (DTotal fee) shape = Tx ins outs.
Proof. exact Proofs.C26.redemption_accepts. Qed.
Print Assumptions redemption_accepts.

(* ---- fee distribution (withRedemptionTotalFee; the same code splits the moving funds value) ---- *)
(* for EVERY int64 total (negative ones included) and every request count the shares add up to
   the total *)
Theorem fee_shares_sum :
  forall total n l,
    - two63 <= total < two63 -> even_split total n = Some l ->
    length l = n /\ sumZ l = total.
Proof. exact Proofs.C26.even_split_sum. Qed.
Print Assumptions fee_shares_sum.

(* for a non-negative total: every share is total / n, the last gets total mod n on top *)
Theorem fee_shares_even :
  forall total n,
    0 <= total < two63 -> (0 < n)%nat ->
    even_split total n =
      Some (repeat (total / Z.of_nat n) (n - 1) ++ [total / Z.of_nat n + total mod Z.of_nat n]) /\
    0 <= total / Z.of_nat n /\ 0 <= total mod Z.of_nat n < Z.of_nat n.
Proof. exact Proofs.C26.even_split_even_explicit. Qed.
Print Assumptions fee_shares_even.

(* ------------------------------------------------------------------------------------
   The unguarded statements are false of the code (witnesses replayed by the driver's corpus)
   ------------------------------------------------------------------------------------ *)
(* insolvent wallet: inputs - outputs <> proposed fee *)
Theorem redemption_conservation_unguarded_refuted :
  exists own mu reqs fee shape ins outs,
    assemble_redemption own (Some mu) reqs (DTotal fee) shape = Tx ins outs /\
    sumZ (values ins) - sumZ (values outs) <> fee.
Proof. exact Proofs.C26.redemption_conservation_unguarded_refuted. Qed.
Print Assumptions redemption_conservation_unguarded_refuted.

(* fee > value: not the even split, negative outputs *)
Theorem moving_funds_split_unguarded_refuted :
  exists mu targets fee ins outs,
    assemble_moving_funds (Some mu) targets fee = Tx ins outs /\
    let total := u_value mu - fee in
    let n := Z.of_nat (length targets) in
    values outs <> repeat (total / n) (length targets - 1) ++ [total / n + total mod n] /\
    ~ Forall (fun v => 0 <= v) (values outs).
Proof. exact Proofs.C26.moving_funds_split_unguarded_refuted. Qed.
Print Assumptions moving_funds_split_unguarded_refuted.

(* int64 wrap-around *)
Theorem sweep_conservation_int64_refuted :
  exists own ds fee ins outs,
    assemble_deposit_sweep own None ds fee = Tx ins outs /\ - two63 <= fee < two63 /\
    sumZ (values ins) - sumZ (values outs) <> fee.
Proof. exact Proofs.C26.sweep_conservation_int64_refuted. Qed.
Print Assumptions sweep_conservation_int64_refuted.

(* claimed value <> chain value: the real fee is not the proposed one *)
Theorem sweep_claimed_value_refuted :
  exists own ds fee ins outs,
    assemble_deposit_sweep own None ds fee = Tx ins outs /\
    sumZ (map chain_value (map d_utxo ds)) - sumZ (values outs) <> fee.
Proof. exact Proofs.C26.sweep_claimed_value_refuted. Qed.
Print Assumptions sweep_claimed_value_refuted.

(* fee > swept value: a negative output *)
Theorem sweep_fee_above_value_refuted :
  exists own ds fee ins outs,
    assemble_deposit_sweep own None ds fee = Tx ins outs /\
    ~ Forall (fun v => 0 <= v) (values outs).
Proof. exact Proofs.C26.sweep_fee_above_value_refuted. Qed.
Print Assumptions sweep_fee_above_value_refuted.

(* ------------------------------------------------------------------------------------
   The executable form used by the correspondence check
   ------------------------------------------------------------------------------------ *)
(* [spec_ok] (evaluated by the judge on the IMPLEMENTATION's transaction) implies the property *)
Theorem spec_ok_sound :
  forall c, spec_ok c = true ->
    match c with
    | CDepositSweep own main ds fee (Tx ins outs) =>
        sweep_property own (opt_list main ++ map d_utxo ds) fee ins outs
    | CRedemption own main reqs d shape (Tx ins outs) =>
        exists mu, main = Some mu /\
          ins = [in_of mu] /\
          exists (ch : option output) (routs : list output),
            outs = match shape with 0%N => opt_list ch ++ routs | _ => routs ++ opt_list ch end /\
            scripts routs = map r_script reqs /\
            (forall c, ch = Some c -> fst c = own) /\
            (redemption_guard mu reqs d shape ->
               let shares := implied_shares reqs routs in
               let change := u_value mu - sumZ (map redeemable reqs) in
               sumZ shares = dist_total d /\
               (forall l, d = DShares l -> shares = l) /\
               Forall (fun s => 0 <= s) shares /\
               Forall (fun v => 0 <= v) (values routs) /\
               ch = (if 0 <? change then Some (own, change) else None) /\
               sumZ (values ins) - sumZ (values outs) = dist_total d)
    | CMovingFunds main targets fee (Tx ins outs) =>
        exists mu, main = Some mu /\
          ins = [in_of mu] /\ scripts outs = targets /\
          (value_is_real mu /\ 0 <= fee <= u_value mu /\ u_value mu < two63 ->
             let total := u_value mu - fee in
             let n := Z.of_nat (length targets) in
             values outs = repeat (total / n) (length targets - 1) ++ [total / n + total mod n] /\
             0 <= total / n /\ 0 <= total mod n < n /\
             sumZ (values ins) - sumZ (values outs) = fee)
    | CMovedFundsSweep own m main fee (Tx ins outs) =>
        exists mu, moved_utxo m = SOk (Some mu) /\ sweep_property own (mu :: opt_list main) fee ins outs
    | CFeeShares total n (Some l) =>
        length l = n /\ sumZ l = total /\ (0 <= total -> Forall (fun s => 0 <= s) l)
    | _ => True
    end.
Proof. exact Proofs.C26.spec_ok_sound. Qed.
Print Assumptions spec_ok_sound.

(* ... and holds of every output of the model: a case whose observed output equals the model's
   passes the executable property *)
Theorem model_outputs_pass_spec :
  forall c, case_wf c = true -> agree c = true -> spec_ok c = true.
Proof. exact Proofs.C26.model_outputs_pass_spec. Qed.
Print Assumptions model_outputs_pass_spec.
