(* C05 — Beacon DKG fate: members keep group membership only as the chain decided.
   ONLY property statements; proofs are in Proofs/C05.v.  Vocabulary (Model/C05.v):
     hist            the chain: NoEvent, or EventAt b e — a DKG result event [e] (accepted group
                     public key bytes [ev_key], misbehaved member indexes [ev_misbehaved]) in block b;
     wait_for_event start c werr h pick   waitForDkgResultEvent: the event, a timeout or the block
                     counter's error ([pick] = what select chooses when both are ready);
     decide_fate me key size w            decideMemberFate of member [me] whose own result carries
                     the group public key bytes [key] ([None] = nil key), group of [size] members;
     resolve selected operating c         resolveGroupOperators;
     execute_tail me key size marked publish_ok w selected c   the tail of ExecuteDKG after GJKR:
                     publication succeeded or not, then fate, then operator resolution;
     members size    the member indexes 1..size. *)
From Coq Require Import ZArith NArith List Permutation Sorted.
From KV Require Import Model.C05 Proofs.C05.
Import ListNotations.
Open Scope Z_scope.

(* ---- fate: for every local key, event, misbehaved list, event/timeout order ---- *)

(* the member keeps its membership ONLY IF the chain emitted a result event no later than the
   timeout block, that event carries the member's own group public key and does not list the
   member as misbehaving; the operating members are then exactly the non-misbehaving ones *)
Theorem stays_only_if_same_key_and_not_misbehaved :
  forall me key size start c werr h pick_event ops,
    decide_fate me key size (wait_for_event start c werr h pick_event) = FateOk ops ->
    exists b e, h = EventAt b e /\ b <= timeout_block start c /\ werr = false /\
                key = Some (ev_key e) /\ ~ In me (ev_misbehaved e) /\
                ops = filter (fun m => negb (memN m (ev_misbehaved e))) (members size).
Proof. exact Proofs.C05.stays_only_if_same_key_and_not_misbehaved. Qed.
Print Assumptions stays_only_if_same_key_and_not_misbehaved.

(* and it does keep it when the accepted result arrived before the timeout block with the
   same key and without listing the member *)
Theorem stays_if_chain_accepted_same_key_in_time :
  forall me size start c b e pick_event,
    b < timeout_block start c -> ~ In me (ev_misbehaved e) ->
    decide_fate me (Some (ev_key e)) size
                (wait_for_event start c false (EventAt b e) pick_event)
    = FateOk (filter (fun m => negb (memN m (ev_misbehaved e))) (members size)).
Proof. exact Proofs.C05.stays_if_chain_accepted_same_key_in_time. Qed.
Print Assumptions stays_if_chain_accepted_same_key_in_time.

(* timeout => error: no event at all, or an event only after the timeout block *)
Theorem timeout_means_error :
  forall me key size start c werr pick_event,
    (exists k, decide_fate me key size (wait_for_event start c werr NoEvent pick_event) = FateErr k) /\
    forall b e, timeout_block start c < b ->
      exists k, decide_fate me key size (wait_for_event start c werr (EventAt b e) pick_event)
                = FateErr k.
Proof. exact Proofs.C05.timeout_means_error. Qed.
Print Assumptions timeout_means_error.

(* the waiting window, with the constants regenerated from /repo on every run *)
Theorem timeout_block_value :
  forall start c,
    0 <= start -> 0 <= group_size c < two64 -> 0 <= step c ->
    start + pre_publication_blocks + group_size c * step c < two64 ->
    timeout_block start c = start + pre_publication_blocks + group_size c * step c /\
    start < timeout_block start c.
Proof. exact Proofs.C05.timeout_block_value. Qed.
Print Assumptions timeout_block_value.

(* ---- operator list: for every selected list and every operating list (any order, with
   duplicates) of member indexes ---- *)
Theorem operators_exactly_selected_in_index_order :
  forall selected operating c l,
    resolve selected operating c = ROk l ->
    (forall id, In id operating -> (1 <= id <= 255)%N /\ Z.of_N id <= len selected) ->
    l = map (fun id => nth (N.to_nat id - 1) selected 0%N) (sort_ids operating) /\
    Permutation (sort_ids operating) operating /\
    StronglySorted N.le (sort_ids operating).
Proof. exact Proofs.C05.operators_exactly_selected_in_index_order. Qed.
Print Assumptions operators_exactly_selected_in_index_order.

Theorem resolve_error_exactly_when_sizes_inconsistent :
  forall selected operating c,
    resolve selected operating c = RErrInvalid <->
    (len selected <> group_size c \/ len operating < honest_threshold c).
Proof. exact Proofs.C05.resolve_error_exactly_when_sizes_inconsistent. Qed.
Print Assumptions resolve_error_exactly_when_sizes_inconsistent.

(* the uint8 index-1 (0 wraps to 255) goes out of range only for an id that is no member index *)
Theorem resolve_panics_only_on_out_of_range_index :
  forall selected operating c,
    resolve selected operating c = RPanic ->
    exists id, In id operating /\ ~ ((1 <= id <= 255)%N /\ Z.of_N id <= len selected).
Proof. exact Proofs.C05.resolve_panics_only_on_out_of_range_index. Qed.
Print Assumptions resolve_panics_only_on_out_of_range_index.

(* ---- the composition in ExecuteDKG (GJKR ran with group_size c <= 255 members) ---- *)

(* publication failed: a ThresholdSigner is returned only as the chain decided, and its group
   operators are exactly the selected operators of the non-misbehaving members, in strictly
   increasing member-index order *)
Theorem membership_only_as_chain_decided :
  forall me key size marked start c werr h pick_event selected l,
    (size <= 255)%nat -> Z.of_nat size = group_size c ->
    execute_tail me key size marked false (wait_for_event start c werr h pick_event) selected c
    = TSigner l ->
    exists b e, h = EventAt b e /\ b <= timeout_block start c /\
                key = Some (ev_key e) /\ ~ In me (ev_misbehaved e) /\
                let staying := filter (fun m => negb (memN m (ev_misbehaved e))) (members size) in
                l = map (fun m => nth (N.to_nat m - 1) selected 0%N) staying /\
                StronglySorted N.lt staying /\
                len selected = group_size c /\ honest_threshold c <= len l.
Proof. exact Proofs.C05.membership_only_as_chain_decided. Qed.
Print Assumptions membership_only_as_chain_decided.

Theorem published_result_keeps_local_operating_members :
  forall me key size marked w c selected l,
    (size <= 255)%nat -> Z.of_nat size = group_size c ->
    execute_tail me key size marked true w selected c = TSigner l ->
    l = map (fun m => nth (N.to_nat m - 1) selected 0%N)
            (filter (fun m => negb (memN m marked)) (members size)).
Proof. exact Proofs.C05.published_result_keeps_local_operating_members. Qed.
Print Assumptions published_result_keeps_local_operating_members.

Theorem tail_never_panics :
  forall me key size marked publish_ok w c selected,
    (size <= 255)%nat -> Z.of_nat size = group_size c ->
    execute_tail me key size marked publish_ok w selected c <> TPanic.
Proof. exact Proofs.C05.tail_never_panics. Qed.
Print Assumptions tail_never_panics.

(* ---- the executable forms used by the correspondence check are sound and hold of the model ---- *)
Theorem spec_fate_sound :
  forall me key size h ops,
    spec_fate me key size h (FateOk ops) = true ->
    exists b e, h = EventAt b e /\ key = Some (ev_key e) /\ ~ In me (ev_misbehaved e) /\
                ops = filter (fun m => negb (memN m (ev_misbehaved e))) (members size).
Proof. exact Proofs.C05.spec_fate_sound. Qed.
Print Assumptions spec_fate_sound.

Theorem spec_resolve_sound :
  forall selected operating c,
    (forall l, spec_resolve selected operating c (ROk l) = true ->
       len selected = group_size c /\ honest_threshold c <= len operating /\
       ((forall id, In id operating -> (1 <= id <= 255)%N /\ Z.of_N id <= len selected) ->
        l = map (fun id => nth (N.to_nat id - 1) selected 0%N) (sort_ids operating))) /\
    (spec_resolve selected operating c RErrInvalid = true ->
       len selected <> group_size c \/ len operating < honest_threshold c) /\
    (spec_resolve selected operating c RPanic = true ->
       ~ forall id, In id operating -> (1 <= id <= 255)%N /\ Z.of_N id <= len selected).
Proof. exact Proofs.C05.spec_resolve_sound. Qed.
Print Assumptions spec_resolve_sound.

Theorem spec_tail_sound :
  forall me key size marked h selected c l,
    spec_tail me key size marked false h selected c (TSigner l) = true ->
    exists b e, h = EventAt b e /\ key = Some (ev_key e) /\ ~ In me (ev_misbehaved e) /\
                l = map (fun m => nth (N.to_nat m - 1) selected 0%N)
                        (filter (fun m => negb (memN m (ev_misbehaved e))) (members size)) /\
                len selected = group_size c /\ honest_threshold c <= len l.
Proof. exact Proofs.C05.spec_tail_sound. Qed.
Print Assumptions spec_tail_sound.

Theorem model_outputs_pass_spec :
  forall me key size marked publish_ok start c werr h pick_event selected operating,
    spec_fate me key size h
      (decide_fate me key size (wait_for_event start c werr h pick_event)) = true /\
    spec_resolve selected operating c (resolve selected operating c) = true /\
    ((size <= 255)%nat -> Z.of_nat size = group_size c ->
     spec_tail me key size marked publish_ok h selected c
       (execute_tail me key size marked publish_ok
                     (wait_for_event start c werr h pick_event) selected c) = true).
Proof. exact Proofs.C05.model_outputs_pass_spec. Qed.
Print Assumptions model_outputs_pass_spec.
