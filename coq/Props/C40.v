From Coq Require Import ZArith NArith List Bool.
From KV Require Import Model.C40 Proofs.C40.
Theorem insert_length : forall x l, length (insert x l) = S (length l).
Proof. exact Proofs.C40.insert_length. Qed.
Print Assumptions insert_length.
