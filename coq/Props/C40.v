(* C40 — Key generation results and inactivity claims satisfy the on-chain rules.
   ONLY property statements; proofs are in Proofs/C40.v.  The contract side (validate_fields,
   contract_*_preimage, contract_group_members, verify_claim_static ...) is the hand
   transcription of the Solidity sources in Model/C40.v, Part 3.

   [valid_in p quorum i] (Model/C40.v, Part 5) says: the group has groupSize p <= 255 seats;
   1 <= quorum and the contract's groupThreshold and activeThreshold are <= quorum; the
   misbehaved indices are distinct and within [1, n]; the operating indices are distinct and are
   exactly the other indices of [1, n]; the signatures map has distinct keys, every key is an
   operating member and every signature has 65 bytes; at least [quorum] signatures; the key
   coordinates and the chain id fit 256 bits and the start block fits int64.

   The signature theorems quantify over the hash function [keccak] (only its 32-byte output
   length is used), the ecrecover precompile, the sortition pool's id -> operator map and a
   relation [signed addr digest sig]; their only cryptographic premise is
   [ecdsa_recovers ecrecover signed] (Model/C40.v, Part 5): a 65-byte signature produced by the
   key of address [addr] over the 32-byte [digest] has s in the lower half order, V in {27, 28}
   and ecrecover returns [addr], which is not the zero address.  [supporters_signed] /
   [claim_supporters_signed] say: every entry of the signatures map was signed by the operator
   of its seat over ethereumPrefixedHash of the hash the CLIENT computes. *)
From Coq Require Import ZArith NArith List Permutation Sorted.
From KV Require Import Model.C40 Proofs.C40.
Import ListNotations.
Open Scope N_scope.

(* ---- ABI encoding: well-formedness *)

(* go-ethereum's Arguments.Pack loop produces exactly abi.encode, for every argument list *)
Theorem go_pack_is_abi_encode : forall args, go_pack args = abi_encode args.
Proof. exact Proofs.C40.go_pack_eq. Qed.
Print Assumptions go_pack_is_abi_encode.

(* an encoding is a whole number of 32-byte words, one head word per argument *)
Theorem abi_encode_length :
  forall args, exists k, length (abi_encode args) = (32 * (length args + k))%nat.
Proof. exact Proofs.C40.abi_encode_length. Qed.
Print Assumptions abi_encode_length.

(* the head word of a dynamic argument is the offset at which that argument's encoding starts *)
Theorem abi_offset_points_to_tail :
  forall pre a post, is_dyn a = true ->
  exists h1 h2 off,
    abi_encode (pre ++ a :: post) = h1 ++ word off ++ h2 ++ tails pre ++ enc_val a ++ tails post
    /\ length h1 = (32 * length pre)%nat
    /\ off = lenN (h1 ++ word off ++ h2 ++ tails pre).
Proof. exact Proofs.C40.abi_offset_points_to_tail. Qed.
Print Assumptions abi_offset_points_to_tail.

(* a word decodes to the number it encodes *)
Theorem word_roundtrip : forall n v, v < 256 ^ N.of_nat n -> be_value (be_bytes n v) = v.
Proof. exact Proofs.C40.be_value_be_bytes. Qed.
Print Assumptions word_roundtrip.

(* the two key serialisations of the client (convertPubKeyToChainFormat for the result and the
   wallet id, elliptic.Marshal minus the 04 byte for the hashes) are the same 64 bytes: each
   coordinate LEFT-padded to 32 bytes.  Stated for coordinates of ANY size below 2^256, in
   particular short ones (below 2^248, where big.Int.Bytes() has fewer than 32 bytes); the
   preimage theorems below have the same premise.  Proofs.C40.ex_short_coordinate_key is the
   instance at a real secp256k1 key whose X has two leading zero bytes, with the right-padded
   serialisation shown to differ. *)
Theorem key_formats_agree :
  forall x y, x < two256 -> y < two256 ->
    option_map (@tl N) (marshal_uncompressed x y) = pubkey_chain_format x y
    /\ pubkey_chain_format x y = Some (be_bytes 32 x ++ be_bytes 32 y)
    /\ lenN (be_bytes 32 x ++ be_bytes 32 y) = 64.
Proof.
  intros x y Hx Hy. split; [apply Proofs.C40.marshal_tl; assumption|].
  split; [apply Proofs.C40.pubkey_chain_format_ok; assumption | apply Proofs.C40.key64_length].
Qed.
Print Assumptions key_formats_agree.

(* ---- the assembled result *)

(* every valid input is assembled (and submitted, the quorum being met), and the result passes
   the contract's validateFields *)
Theorem assembled_result_passes_validate_fields :
  forall p quorum i, valid_in p quorum i ->
  exists a, assemble i = Ok a /\ submit quorum i = Ok a /\
            validate_fields p (a_pubkey a) (a_misbehaved a) (a_sigs a) (a_signing a) = Valid.
Proof.
  intros p quorum i Hv. exists (Proofs.C40.model_result i).
  destruct (Proofs.C40.assemble_spec p quorum i Hv) as [Ha Hs].
  split; [exact Ha|]. split; [exact Hs|]. exact (Proofs.C40.result_fields_valid p quorum i Hv).
Qed.
Print Assumptions assembled_result_passes_validate_fields.

(* misbehaved and signing indices are strictly increasing (sorted, unique) and within [1, n];
   the signatures are the supporters' signatures concatenated in the order of signing indices *)
Theorem assembled_indices_sorted_unique_in_range :
  forall p quorum i, valid_in p quorum i ->
  exists a, assemble i = Ok a /\
    StronglySorted N.lt (a_misbehaved a) /\
    Forall (fun m => 1 <= m <= lenN (i_members i)) (a_misbehaved a) /\
    Permutation (a_misbehaved a) (i_misbehaved i) /\
    StronglySorted N.lt (a_signing a) /\
    Forall (fun m => 1 <= m <= lenN (i_members i)) (a_signing a) /\
    Permutation (a_signing a) (map fst (i_sigs i)) /\
    a_sigs a = concat (map (fun k => assoc k (i_sigs i)) (a_signing a)) /\
    lenN (a_sigs a) = 65 * lenN (a_signing a).
Proof. exact Proofs.C40.assembled_indices. Qed.
Print Assumptions assembled_indices_sorted_unique_in_range.

(* members hash: the bytes the contract hashes in validateMembersHash (its own loop over
   members and misbehaved indices) are byte for byte the bytes the client hashed — so the two
   hashes agree for ANY hash function: validateMembersHash returns true on the client's hash *)
Theorem members_hash_preimage_equal :
  forall p quorum i, valid_in p quorum i ->
  exists a, assemble i = Ok a /\
    contract_members_preimage (a_members a) (a_misbehaved a) = Some (a_mh_pre a) /\
    forall keccak, validate_members_hash keccak (a_members a) (a_misbehaved a) (keccak (a_mh_pre a))
                   = Some true.
Proof. exact Proofs.C40.members_hash_preimage. Qed.
Print Assumptions members_hash_preimage_equal.

(* signature hash: whatever order a supporter lists the misbehaved members in, the bytes it
   hashes (CalculateDKGResultSignatureHash) are the bytes validateSignatures hashes for the
   assembled result *)
Theorem signature_hash_preimage_equal :
  forall p quorum i, valid_in p quorum i ->
  exists a, assemble i = Ok a /\
    forall misb', Permutation misb' (i_misbehaved i) ->
      client_sig_preimage (i_chainid i) (i_x i) (i_y i) misb' (i_start i)
      = Some (contract_sig_preimage (i_chainid i) (a_pubkey a) (a_misbehaved a) (i_start i)).
Proof.
  intros p quorum i Hv. exists (Proofs.C40.model_result i).
  split; [exact (proj1 (Proofs.C40.assemble_spec p quorum i Hv))|].
  exact (Proofs.C40.result_sig_preimage p quorum i Hv).
Qed.
Print Assumptions signature_hash_preimage_equal.

(* validateSignatures (with validateFields and validateMembersHash: EcdsaDkgValidator.validate
   minus the sortition-pool membership check): for EVERY valid input whose supporters signed the
   client's hash, every 65-byte slice of the assembled signatures recovers (OpenZeppelin
   ECDSA.recover) under the CONTRACT's message hash to the operator of the corresponding signing
   index, so the loop V:245-255 runs to `return true`.  The hypotheses speak about ECDSA only:
   the client's hash preimage, prefixed message and members-hash preimage are PROVED equal to the
   contract's (signature_hash_preimage_equal, eth_signed_message_preimage_equal,
   members_hash_preimage_equal). *)
Theorem assembled_result_passes_validate_signatures :
  forall (keccak : bytes -> bytes) (ecrecover : bytes -> N -> bytes -> bytes -> N)
         (operator_of : N -> N) (signed : N -> bytes -> bytes -> Prop),
  (forall b, lenN (keccak b) = 32) -> ecdsa_recovers ecrecover signed ->
  forall p quorum i, valid_in p quorum i -> supporters_signed keccak operator_of signed i ->
  exists a, assemble i = Ok a /\ submit quorum i = Ok a /\
    validate_fields p (a_pubkey a) (a_misbehaved a) (a_sigs a) (a_signing a) = Valid /\
    validate_members_hash keccak (a_members a) (a_misbehaved a) (to_result_hash keccak a) = Some true /\
    validate_signatures keccak ecrecover operator_of (i_chainid i) (i_start i)
      (a_pubkey a) (a_misbehaved a) (a_sigs a) (a_signing a) (a_members a) = Some true.
Proof. exact Proofs.C40.assembled_result_valid. Qed.
Print Assumptions assembled_result_passes_validate_signatures.

(* the client's own acceptance check, as repaired in pkg/chain/ethereum/signer.go (it used to
   ignore the recovery byte): a signature it accepts for a non-zero operator address satisfies
   [ecdsa_recovers] outright, so for client-VERIFIED supporters the two signature theorems hold
   with [signed := client_accepts ...] and no cryptographic premise at all (keys identified with
   addresses, go-ethereum's Ecrecover with the precompile) *)
Theorem client_accepted_signatures_recover :
  forall ecrecover : bytes -> N -> bytes -> bytes -> N,
  ecdsa_recovers ecrecover
    (fun addr digest sig => client_accepts ecrecover addr digest sig = true /\ addr <> 0).
Proof. exact Proofs.C40.client_accepted_ecdsa. Qed.
Print Assumptions client_accepted_signatures_recover.

(* the prefixed message the operator signer hashes equals OpenZeppelin's toEthSignedMessageHash
   preimage for a 32-byte hash *)
Theorem eth_signed_message_preimage_equal :
  forall msg, lenN msg = 32 -> client_eth_preimage msg = eth_signed_preimage msg.
Proof. exact Proofs.C40.eth_preimage_eq. Qed.
Print Assumptions eth_signed_message_preimage_equal.

(* wallet id: calculateWalletID hashes the 64 bytes Wallets.addWallet hashes (the result's
   groupPubKey), and that key has the length validatePublicKey demands *)
Theorem wallet_id_preimage_equal :
  forall p quorum i, valid_in p quorum i ->
  exists a, assemble i = Ok a /\
    client_wallet_preimage (i_x i) (i_y i) = Some (contract_wallet_preimage (a_pubkey a)) /\
    lenN (a_pubkey a) = 64.
Proof.
  intros p quorum i Hv. exists (Proofs.C40.model_result i).
  split; [exact (proj1 (Proofs.C40.assemble_spec p quorum i Hv))|].
  exact (Proofs.C40.result_wallet_preimage p quorum i Hv).
Qed.
Print Assumptions wallet_id_preimage_equal.

(* ---- inactivity claims *)

(* the claim hash: for every chain id, nonce, wallet key, inactive-member list, heartbeat flag and
   signatures map that can be assembled, the client hashes exactly the bytes verifyClaim hashes,
   built from the assembled claim and the key coordinates Wallets.addWallet stored *)
Theorem inactivity_claim_preimage_equal :
  forall chainid nonce x y inactive hbf wallet sigs k pk,
    x < two256 -> y < two256 ->
    assemble_claim wallet inactive sigs hbf = Ok k ->
    pubkey_chain_format x y = Some pk ->
    client_claim_preimage chainid nonce x y inactive hbf
    = Some (contract_claim_preimage chainid nonce (wallet_x pk) (wallet_y pk) k)
    /\ k_inactive k = inactive /\ k_hbf k = hbf /\ k_wallet k = wallet.
Proof. exact Proofs.C40.claim_preimage_eq. Qed.
Print Assumptions inactivity_claim_preimage_equal.

(* the static part of EcdsaInactivity.verifyClaim (I:88-114): every claim assembled from a valid
   claim input — NON-EMPTY raw inactive list (the client has no guard; stated in valid_claim),
   raw indices within [1, n], distinct supporter seats within [1, n] with 65-byte signatures,
   at least c_threshold >= the contract's threshold of them — has strictly increasing inactive
   and signing indices (NewClaimPreimage dedups and sorts; convertSignaturesToChainFormat
   sorts), signatures concatenated in signing order, and passes verify_claim_static *)
Theorem assembled_claim_passes_static_checks :
  forall thr c, valid_claim thr c ->
  exists k, assemble_claim (c_wallet c) (new_claim_inactive (c_raw c)) (c_sigs c) (c_hbf c) = Ok k /\
    StronglySorted N.lt (k_inactive k) /\ (forall x, In x (k_inactive k) <-> In x (c_raw c)) /\
    StronglySorted N.lt (k_signing k) /\ Permutation (k_signing k) (map fst (c_sigs c)) /\
    k_sigs k = concat (map (fun s => assoc s (c_sigs c)) (k_signing k)) /\
    verify_claim_static thr k (c_nmembers c) = true.
Proof. exact Proofs.C40.assembled_claim_static. Qed.
Print Assumptions assembled_claim_passes_static_checks.

(* the non-emptiness precondition is necessary: the contract refuses any claim without inactive
   members, whatever else it contains *)
Theorem claim_with_empty_inactive_list_rejected :
  forall thr k n, k_inactive k = [] -> verify_claim_static thr k n = false.
Proof. exact Proofs.C40.empty_inactive_rejected. Qed.
Print Assumptions claim_with_empty_inactive_list_rejected.

(* the signature loop of verifyClaim (I:116-163) under the same ECDSA premise: when every
   supporter signed the client's claim hash and the sender is the operator of one supporter,
   the whole of verifyClaim passes for the assembled claim and the key coordinates
   Wallets.addWallet stored *)
Theorem assembled_claim_signatures_recover :
  forall (keccak : bytes -> bytes) (ecrecover : bytes -> N -> bytes -> bytes -> N)
         (operator_of : N -> N) (signed : N -> bytes -> bytes -> Prop),
  (forall b, lenN (keccak b) = 32) -> ecdsa_recovers ecrecover signed ->
  forall thr c members sender, valid_claim thr c -> lenN members = c_nmembers c ->
  claim_supporters_signed keccak operator_of signed c members ->
  (exists k s id, In (k, s) (c_sigs c) /\ nth_error members (N.to_nat (k - 1)) = Some id
                  /\ sender = operator_of id) ->
  exists k pk,
    assemble_claim (c_wallet c) (new_claim_inactive (c_raw c)) (c_sigs c) (c_hbf c) = Ok k /\
    pubkey_chain_format (c_x c) (c_y c) = Some pk /\
    verify_claim_static thr k (lenN members) = true /\
    verify_claim_signatures keccak ecrecover operator_of (c_chainid c) (c_nonce c)
                            (wallet_x pk) (wallet_y pk) k members sender = true.
Proof. exact Proofs.C40.assembled_claim_signatures. Qed.
Print Assumptions assembled_claim_signatures_recover.

(* ---- the executable forms used by the correspondence check *)
Theorem valid_inb_sound : forall p quorum i, valid_inb p quorum i = true -> valid_in p quorum i.
Proof. exact Proofs.C40.valid_inb_sound. Qed.
Print Assumptions valid_inb_sound.

Theorem valid_claimb_sound : forall thr c, valid_claimb thr c = true -> valid_claim thr c.
Proof. exact Proofs.C40.valid_claimb_sound. Qed.
Print Assumptions valid_claimb_sound.

(* ---- call histories on one long-lived chain handle (production builds ONE TbtcChain per node;
   every local member of every group calls it) *)

(* the handle keeps no memory: whatever was asked before, a history of hash / sign / assemble /
   claim-hash / wallet-id calls is answered call by call by the pure function of the call's own
   arguments — every field of the preimage (misbehaved list, key, start block, chain id; nonce,
   inactive list, heartbeat flag) decides the bytes hashed in THAT call *)
Theorem history_is_map : forall calls, run_history calls = map call_client_preimage calls.
Proof. exact Proofs.C40.history_is_map. Qed.
Print Assumptions history_is_map.

Theorem history_answer_independent_of_other_calls :
  forall before c after,
    nth_error (run_history (before ++ c :: after)) (length before) = Some (call_client_preimage c).
Proof. exact Proofs.C40.history_nth. Qed.
Print Assumptions history_answer_independent_of_other_calls.

(* in every call within the property's domain (256-bit key coordinates, chain id and nonce, start
   block below 2^63, uint8 member indices, distinct misbehaved members) the client hashes exactly
   the bytes the contract hashes for the result / claim / wallet these arguments describe *)
Theorem history_call_preimages_equal :
  forall c, call_validb c = true ->
  exists pre, call_client_preimage c = Some pre /\ call_contract_preimage c = Some pre.
Proof. exact Proofs.C40.call_preimages_equal. Qed.
Print Assumptions history_call_preimages_equal.

(* soundness of the executable form judged per run: a history that passes [hspec_ok] has, for
   every call in the domain, the driver's preimage equal to the contract's AND the model's bytes
   for that call alone, the handle's hash equal to Keccak256 of it, signatures over it that
   recover to the operator, and a result that later calls did not change *)
Theorem hspec_ok_sound : forall h, hspec_ok h = true -> Forall Proofs.C40.hentry_good h.
Proof. exact Proofs.C40.hspec_ok_sound. Qed.
Print Assumptions hspec_ok_sound.

(* ... and it is satisfiable by every history: answering each call with the model's bytes for that
   call passes the executable property and agrees with the model *)
Theorem model_history_passes_spec :
  forall calls, hspec_ok (map (fun c => (c, Proofs.C40.model_obs c)) calls) = true
             /\ hagree (map (fun c => (c, Proofs.C40.model_obs c)) calls) = true.
Proof. exact Proofs.C40.model_history_passes. Qed.
Print Assumptions model_history_passes_spec.
