(* C47 — On-chain submissions use distinct member slots and stop once someone succeeded.
   ONLY property statements; proofs are in Proofs/C47.v.  The model (Model/C47.v) follows the
   Go code literally (uint64 / uint8 wrap-around included); the theorems are stated on the
   domain where block arithmetic does not wrap (blocks below 2^62, steps and periods below
   2^32, member indexes 1..255 — group.MemberIndex is a uint8).  The three pkg/tbtc delay
   steps are the constants regenerated from /repo on every run. *)
From Coq Require Import ZArith List Bool.
From KV Require Import Common.Verdict Gen.Consts_C47 Model.C47 Proofs.C47.
Import ListNotations.
Open Scope Z_scope.

(* obligations on the generated constants: a zero step would put every member in one slot *)
Theorem tbtc_delay_steps_positive :
  0 < dkgResultSubmissionDelayStepBlocks < 4294967296 /\
  0 < dkgResultApprovalDelayStepBlocks < 4294967296 /\
  0 < inactivityClaimSubmissionDelayStepBlocks < 4294967296.
Proof. exact Proofs.C47.steps_in_range. Qed.
Print Assumptions tbtc_delay_steps_positive.

(* ---------------- slots are distinct per reference block ---------------- *)

Theorem beacon_dkg_slots_distinct :
  forall start step m1 m2,
    0 <= start -> 0 < step -> 1 <= m1 <= 255 -> 1 <= m2 <= 255 -> start + 255 * step < two64 ->
    beacon_dkg_slot start step m1 = beacon_dkg_slot start step m2 -> m1 = m2.
Proof. exact Proofs.C47.beacon_dkg_inj. Qed.
Print Assumptions beacon_dkg_slots_distinct.

(* for EVERY entry value, including the multiples of the group size *)
Theorem relay_entry_slots_distinct :
  forall start step n entry m1 m2,
    0 <= start -> 0 < step -> 0 < n <= 255 -> 1 <= m1 <= n -> 1 <= m2 <= n ->
    start + 255 * step < two64 ->
    relay_slot start step n entry m1 = relay_slot start step n entry m2 -> m1 = m2.
Proof. exact Proofs.C47.relay_inj. Qed.
Print Assumptions relay_entry_slots_distinct.

Theorem tbtc_dkg_result_slots_distinct :
  forall cur m1 m2,
    0 <= cur < 4611686018427387904 -> 1 <= m1 <= 255 -> 1 <= m2 <= 255 ->
    tbtc_dkg_slot cur m1 = tbtc_dkg_slot cur m2 -> m1 = m2.
Proof. exact Proofs.C47.tbtc_dkg_inj. Qed.
Print Assumptions tbtc_dkg_result_slots_distinct.

Theorem inactivity_claim_slots_distinct :
  forall cur m1 m2,
    0 <= cur < 4611686018427387904 -> 1 <= m1 <= 255 -> 1 <= m2 <= 255 ->
    inactivity_slot cur m1 = inactivity_slot cur m2 -> m1 = m2.
Proof. exact Proofs.C47.inactivity_inj. Qed.
Print Assumptions inactivity_claim_slots_distinct.

(* result approval: two different members share a slot exactly when one of them is the result
   submitter, the other is member 1 and ApprovePrecedencePeriodBlocks = 0.  Hence: non-submitters
   never collide, and nobody collides with the submitter under the guard prec > 0 *)
Theorem approval_slots_collide_iff :
  forall sub challenge prec submitter m1 m2,
    0 <= sub < 4611686018427387904 -> 0 <= challenge < 4294967296 -> 0 <= prec < 4294967296 ->
    1 <= m1 <= 255 -> 1 <= m2 <= 255 -> m1 <> m2 ->
    (approval_slot sub challenge prec submitter m1 = approval_slot sub challenge prec submitter m2
     <-> prec = 0 /\ ((m1 = submitter /\ m2 = 1) \/ (m2 = submitter /\ m1 = 1))).
Proof. exact Proofs.C47.approval_collision_iff. Qed.
Print Assumptions approval_slots_collide_iff.

(* the guard is necessary *)
Theorem approval_slots_distinct_without_guard_refuted :
  exists sub challenge submitter m1 m2,
    m1 <> m2 /\ 1 <= m1 <= 255 /\ 1 <= m2 <= 255 /\
    approval_slot sub challenge 0 submitter m1 = approval_slot sub challenge 0 submitter m2.
Proof. exact Proofs.C47.approval_guard_needed. Qed.
Print Assumptions approval_slots_distinct_without_guard_refuted.

(* all five routines at once, in the form the correspondence check uses *)
Theorem slots_distinct_all_routines :
  forall p a b,
    params_ok p = true -> member_ok p a = true -> member_ok p b = true -> a <> b ->
    slot p a = slot p b -> may_share p a b = true.
Proof. exact Proofs.C47.slot_inj. Qed.
Print Assumptions slots_distinct_all_routines.

Theorem slot_never_before_reference_block :
  forall p m, params_ok p = true -> member_ok p m = true -> earliest p <= slot p m.
Proof. exact Proofs.C47.slot_not_before_reference. Qed.
Print Assumptions slot_never_before_reference_block.

(* ---------------- no action before the DOCUMENTED slot of the seat ---------------- *)
(* doc_slot is "reference + (index - 1) * step" (relay entry: + queue position * step) in
   unbounded arithmetic.  The model computes like Go — `memberIndex-1` in uint8, the product and
   the sums in uint64, the pkg/tbtc steps from the generated constants — and for EVERY seat
   1..255 (group.MemberIndex is a uint8; the tBTC group has 100 seats, the beacon group 64)
   nothing wraps: the slot the code waits for is the documented one. *)
Theorem slot_is_documented_slot :
  forall p m, params_ok p = true -> member_ok p m = true -> slot p m = doc_slot p m.
Proof. exact Proofs.C47.slot_eq_doc. Qed.
Print Assumptions slot_is_documented_slot.

(* slots grow strictly with the seat (one delay step per seat): beacon DKG result, tBTC DKG
   result, inactivity claim, and result approval among the non-submitters *)
Theorem slot_monotone_in_index :
  forall p a b,
    params_ok p = true -> member_ok p a = true -> member_ok p b = true ->
    p_kind p <> KRelay ->
    (p_kind p = KApproval -> a <> p_submitter p /\ b <> p_submitter p) ->
    a < b -> slot p a < slot p b.
Proof. exact Proofs.C47.slot_monotone. Qed.
Print Assumptions slot_monotone_in_index.

Theorem slot_spacing_is_one_step_per_seat :
  forall p a b,
    p_kind p <> KRelay ->
    (p_kind p = KApproval -> a <> p_submitter p /\ b <> p_submitter p) ->
    doc_slot p b - doc_slot p a =
    (b - a) * match p_kind p with
              | KBeaconDkg => p_step p
              | KRelay => 0
              | KTbtcDkg => dkgResultSubmissionDelayStepBlocks
              | KApproval => dkgResultApprovalDelayStepBlocks
              | KInactivity => inactivityClaimSubmissionDelayStepBlocks
              end.
Proof. exact Proofs.C47.doc_slot_step. Qed.
Print Assumptions slot_spacing_is_one_step_per_seat.

(* relay entry: slots grow with the position in the submission queue *)
Theorem relay_slot_monotone_in_queue_index :
  forall p a b,
    params_ok p = true -> p_kind p = KRelay -> member_ok p a = true -> member_ok p b = true ->
    doc_queue_index a (p_entry p mod p_n p) (p_n p) < doc_queue_index b (p_entry p mod p_n p) (p_n p) ->
    slot p a < slot p b.
Proof. exact Proofs.C47.relay_slot_monotone. Qed.
Print Assumptions relay_slot_monotone_in_queue_index.

(* the result submitter approves first *)
Theorem approval_submitter_slot_is_first :
  forall p m,
    params_ok p = true -> p_kind p = KApproval -> member_ok p m = true ->
    slot p (p_submitter p) <= slot p m.
Proof. exact Proofs.C47.approval_submitter_first. Qed.
Print Assumptions approval_submitter_slot_is_first.

(* for EVERY history: when the member acts, it acts at a chain head that is at or after the
   documented slot of its seat *)
Theorem no_action_before_slot :
  forall p m pre h s i b ex,
    params_ok p = true -> member_ok p m = true ->
    run p m pre h = (s, (Some (i, b), ex)) ->
    s = Some (doc_slot p m) /\ nth_error h i = Some (Head b) /\ doc_slot p m <= b.
Proof. exact Proofs.C47.no_action_before_doc_slot. Qed.
Print Assumptions no_action_before_slot.

(* why the type of the multiplication matters: carried out in the uint8 member index type the
   approval delay of a seat of a 100-seat group falls below the documented one *)
Theorem delay_multiplied_in_uint8_is_early :
  exists m, 1 <= m <= 100 /\
    u64 (u8 ((m - 1) * dkgResultApprovalDelayStepBlocks)) < (m - 1) * dkgResultApprovalDelayStepBlocks.
Proof. exact Proofs.C47.uint8_delay_is_early. Qed.
Print Assumptions delay_multiplied_in_uint8_is_early.

(* ---------------- relay entry slots and the relay entry timeout ---------------- *)
(* The property demands: every relay-entry slot is strictly before start + RelayEntryTimeout,
   with RelayEntryTimeout = groupSize * step as both chain handles configure it:

     forall start step n entry m, (domain) -> relay_slot start step n entry m < start + n * step.

   The faithful model REFUTES it (genuine defect, DESIGN.md section 7, findings/C47.json):
   the first submitter index entry mod n is 0-based but compared with 1-based member indexes. *)
Theorem relay_slot_before_timeout_refuted :
  exists start step n entry m,
    0 <= start /\ 0 < step /\ 0 < n <= 255 /\ 1 <= m <= n /\ start + 255 * step < two64 /\
    ~ relay_slot start step n entry m < start + n * step.
Proof. exact Proofs.C47.relay_before_timeout_refuted. Qed.
Print Assumptions relay_slot_before_timeout_refuted.

Theorem relay_slot_before_timeout_partial :
  forall start step n entry m,
    0 <= start -> 0 < step -> 0 < n <= 255 -> 1 <= m <= n -> start + 255 * step < two64 ->
    entry mod n <> 0 ->
    relay_slot start step n entry m < start + n * step.
Proof. exact Proofs.C47.relay_before_timeout_partial. Qed.
Print Assumptions relay_slot_before_timeout_partial.

(* the exact extent of the defect: a slot is never after the timeout and coincides with it
   exactly for the last member when the entry is divisible by the group size *)
Theorem relay_slot_at_timeout_iff :
  forall start step n entry m,
    0 <= start -> 0 < step -> 0 < n <= 255 -> 1 <= m <= n -> start + 255 * step < two64 ->
    start <= relay_slot start step n entry m <= start + n * step /\
    (relay_slot start step n entry m = start + n * step <-> entry mod n = 0 /\ m = n).
Proof. exact Proofs.C47.relay_slot_bound. Qed.
Print Assumptions relay_slot_at_timeout_iff.

(* ... and then nobody is eligible at the start block either: member m waits m steps *)
Theorem relay_entry_divisible_shifts_every_slot :
  forall start step n entry m,
    0 <= start -> 0 < step -> 0 < n <= 255 -> 1 <= m <= n -> start + 255 * step < two64 ->
    entry mod n = 0 -> relay_slot start step n entry m = start + m * step.
Proof. exact Proofs.C47.relay_nobody_first_when_zero. Qed.
Print Assumptions relay_entry_divisible_shifts_every_slot.

(* ---------------- early exit, for EVERY history of observed events ---------------- *)

(* beacon DKG result, tBTC DKG result, approval, inactivity claim: a submission made at event
   i is made at a chain head b >= slot, and every earlier event was a head below the slot —
   in particular no competing event was observed before *)
Theorem no_submission_before_slot_or_after_competing :
  forall s h i b e,
    run_simple s 0 h = (Some (i, b), e) ->
    exists k, i = (0 + k)%nat /\ nth_error h k = Some (Head b) /\ s <= b /\
      (forall j e', (j < k)%nat -> nth_error h j = Some e' ->
         match e' with Head b' => b' < s | Competing => False | Timeout _ => True end) /\
      e = ExNil.
Proof. exact (fun s h => Proofs.C47.run_simple_submit s h 0%nat). Qed.
Print Assumptions no_submission_before_slot_or_after_competing.

(* relay entry (fire and forget, then keeps watching) *)
Theorem relay_no_submission_before_slot_or_after_competing :
  forall s h i b e,
    run_relay s 0 None h = (Some (i, b), e) ->
    exists k, i = (0 + k)%nat /\ nth_error h k = Some (Head b) /\ s <= b /\
      (forall j e', (j < k)%nat -> nth_error h j = Some e' ->
         match e' with Head b' => b' < s | Competing => False | Timeout _ => False end).
Proof.
  intros s h i b e H.
  destruct (Proofs.C47.run_relay_submit s h 0%nat None i b e H) as [E|[_ R]];
    [discriminate|exact R].
Qed.
Print Assumptions relay_no_submission_before_slot_or_after_competing.

(* a competing event observed before the slot is reached: the member leaves, nothing is sent *)
Theorem competing_event_first_means_no_submission :
  forall s h k,
    nth_error h k = Some Competing ->
    (forall j b, (j < k)%nat -> nth_error h j = Some (Head b) -> b < s) ->
    run_simple s 0 h = (None, ExNil).
Proof. exact (fun s h k => Proofs.C47.run_simple_competing_first s h k 0%nat). Qed.
Print Assumptions competing_event_first_means_no_submission.

Theorem relay_competing_or_timeout_first_means_no_submission :
  forall s h k,
    (nth_error h k = Some Competing \/ exists b, nth_error h k = Some (Timeout b)) ->
    (forall j b, (j < k)%nat -> nth_error h j = Some (Head b) -> b < s) ->
    (forall j, (j < k)%nat -> nth_error h j <> Some Competing /\
                              forall b, nth_error h j <> Some (Timeout b)) ->
    fst (run_relay s 0 None h) = None.
Proof. exact (fun s h k => Proofs.C47.run_relay_stops_first s h k 0%nat). Qed.
Print Assumptions relay_competing_or_timeout_first_means_no_submission.

(* and the member does act when its slot comes first *)
Theorem slot_reached_first_means_submission :
  forall s h k b,
    nth_error h k = Some (Head b) -> s <= b ->
    (forall j e, (j < k)%nat -> nth_error h j = Some e ->
       match e with Head b' => b' < s | Competing => False | Timeout _ => True end) ->
    run_simple s 0 h = (Some ((0 + k)%nat, b), ExNil).
Proof. exact (fun s h k b => Proofs.C47.run_simple_reaches_slot s h k b 0%nat). Qed.
Print Assumptions slot_reached_first_means_submission.

(* ---------------- the executable forms used by the correspondence check ---------------- *)

Theorem slots_ok_sound :
  forall p l,
    slots_ok p l = true ->
    (forall i j a sa b sb, (i < j)%nat ->
       nth_error l i = Some (a, sa) -> nth_error l j = Some (b, sb) ->
       sa <> sb \/ may_share p a b = true) /\
    (forall m s, In (m, s) l ->
       earliest p <= s /\ doc_slot p m <= s /\
       (p_kind p = KRelay -> s < p_ref p + p_timeout p)).
Proof. exact Proofs.C47.slots_ok_sound. Qed.
Print Assumptions slots_ok_sound.

Theorem run_ok_sound :
  forall p m pre h s i b ex,
    run_ok p m pre h {| o_slot := s; o_submit := Some (i, b); o_exit := ex |} = true ->
    (pre && has_precheck (p_kind p) = false) /\
    exists s', s = Some s' /\ nth_error h i = Some (Head b) /\ s' <= b /\ doc_slot p m <= b /\
               forall j e, (j < i)%nat -> nth_error h j = Some e -> is_terminal e = false.
Proof. exact Proofs.C47.run_ok_sound. Qed.
Print Assumptions run_ok_sound.

(* they hold of every model output — for relay entry slots only when entry mod n <> 0 *)
Theorem model_slots_pass_spec :
  forall p ms,
    params_ok p = true -> forallb (member_ok p) ms = true -> NoDup ms ->
    (p_kind p = KRelay -> p_entry p mod p_n p <> 0) ->
    slots_ok p (map (fun m => (m, slot p m)) ms) = true.
Proof. exact Proofs.C47.slots_model_pass. Qed.
Print Assumptions model_slots_pass_spec.

Theorem model_runs_pass_spec :
  forall p m pre h,
    params_ok p = true -> member_ok p m = true ->
    (p_kind p <> KRelay -> no_timeout h = true) ->
    let '(s, (sub, ex)) := run p m pre h in
    run_ok p m pre h {| o_slot := s; o_submit := sub; o_exit := ex |} = true.
Proof. exact Proofs.C47.run_ok_model. Qed.
Print Assumptions model_runs_pass_spec.
