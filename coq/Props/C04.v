(* C04 — BN254 (pkg/altbn128) point encoding round-trips and decoding always terminates.
   P is the BN254 base-field modulus of Model/C04.v; its primality is an explicit premise
   (no primality certificate library is installed).  mod_sqrt P models big.Int.ModSqrt(., P),
   sqrt_gfp2 P is sqrtGfP2 with the loop bounded by the Go constant hexRootOrder
   (Gen/Consts_C04.v, regenerated from /repo on every run). *)
From Coq Require Import ZArith Znumtheory List.
From KV Require Import Gen.Consts_C04 Model.C04 Proofs.C04_alg Proofs.C04.
Import ListNotations.
Open Scope Z_scope.

(* ---------------- G1 ---------------- *)
(* every affine point of y^2 = x^3 + 3 with reduced coordinates (in particular every group
   element other than the identity) survives Compress followed by DecompressToG1 *)
Theorem g1_roundtrip : prime P -> forall x y,
  0 <= x < P -> 0 <= y < P -> (y * y) mod P = (x * x * x + 3) mod P ->
  decompress1 P (mod_sqrt P) (compress1 (Aff1 x y)) = R1 (Aff1 x y).
Proof. exact Proofs.C04.g1_roundtrip. Qed.
Print Assumptions g1_roundtrip.

(* the same for any prime p = 3 mod 4 below 2^255 (the model is parametric in the modulus) *)
Theorem g1_roundtrip_any_prime : forall p, prime p -> p mod 4 = 3 -> 3 < p -> p < 2 ^ 255 ->
  forall x y, valid1 p (Aff1 x y) = true ->
  decompress1 p (mod_sqrt p) (compress1 (Aff1 x y)) = R1 (Aff1 x y).
Proof. exact Proofs.C04.g1_roundtrip_gen. Qed.
Print Assumptions g1_roundtrip_any_prime.

(* the guard "not the identity" is necessary: the identity element does not round-trip
   (known finding C04-identity-encoding) *)
Theorem g1_identity_roundtrip_refuted :
  decompress1 P (mod_sqrt P) (compress1 Inf1) = Err1.
Proof. exact Proofs.C04.g1_identity_roundtrip_refuted. Qed.
Print Assumptions g1_identity_roundtrip_refuted.

(* DecompressToG1 on ANY non-empty byte string (in particular all 32-byte strings) returns a
   point on the curve with reduced coordinates, or an error: never a panic, never a hang.
   Needs no primality. *)
Theorem decompress1_total : forall m, m <> [] ->
  match decompress1 P (mod_sqrt P) m with
  | R1 Inf1 => True
  | R1 (Aff1 x y) => 0 <= x < P /\ 0 <= y < P /\ (y * y) mod P = (x * x * x + 3) mod P
  | Err1 => True
  | Panic1 | Hang1 => False
  end.
Proof. exact Proofs.C04.decompress1_total. Qed.
Print Assumptions decompress1_total.

(* ---------------- G1HashToPoint ---------------- *)
(* whenever the try-and-increment search returns, the result is an affine point on the curve *)
Theorem hash_to_point_on_curve : forall fuel h r,
  hash_to_point P (mod_sqrt P) fuel h = Some r ->
  exists x y, r = R1 (Aff1 x y) /\ valid1 P (Aff1 x y) = true.
Proof. exact Proofs.C04.hash_to_point_on_curve. Qed.
Print Assumptions hash_to_point_on_curve.

(* the result does not depend on the fuel: the function is deterministic *)
Theorem hash_to_point_deterministic : forall f1 f2 h r1 r2,
  hash_to_point P (mod_sqrt P) f1 h = Some r1 ->
  hash_to_point P (mod_sqrt P) f2 h = Some r2 -> r1 = r2.
Proof. exact Proofs.C04.hash_to_point_deterministic. Qed.
Print Assumptions hash_to_point_deterministic.

(* the search terminates for every digest: x = P - 1 gives x^3 + 3 = 2, a square modulo P, so
   the loop stops at the latest there (a worst-case bound of P - h mod P iterations; that the
   search stops within a few steps for SHA-256 outputs is a statistical fact, not a theorem) *)
Theorem hash_to_point_terminates : forall h,
  exists fuel r, hash_to_point P (mod_sqrt P) fuel h = Some r.
Proof. exact Proofs.C04.hash_to_point_terminates. Qed.
Print Assumptions hash_to_point_terminates.

(* ---------------- the executable predicate means what it says ---------------- *)
Theorem valid1_iff : forall p x y, valid1 p (Aff1 x y) = true <->
  (0 <= x < p /\ 0 <= y < p /\ (y * y) mod p = (x * x * x + 3) mod p).
Proof. exact Proofs.C04.valid1_iff. Qed.
Print Assumptions valid1_iff.
