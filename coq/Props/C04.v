(* C04 — BN254 (pkg/altbn128) point encoding round-trips and decoding always terminates.
   P is the BN254 base-field modulus of Model/C04.v; its primality is an explicit premise
   (no primality certificate library is installed).  mod_sqrt P models big.Int.ModSqrt(., P),
   sqrt_gfp2 P is sqrtGfP2 with the loop bounded by the Go constant hexRootOrder
   (Gen/Consts_C04.v, regenerated from /repo on every run). *)
From Coq Require Import ZArith Znumtheory List.
From KV Require Import Gen.Consts_C04 Model.C04 Proofs.C04_alg Proofs.C04.
Import ListNotations.
Open Scope Z_scope.

(* ---------------- G1 ---------------- *)
(* every affine point of y^2 = x^3 + 3 with reduced coordinates (in particular every group
   element other than the identity) survives Compress followed by DecompressToG1 *)
Theorem g1_roundtrip : prime P -> forall x y,
  0 <= x < P -> 0 <= y < P -> (y * y) mod P = (x * x * x + 3) mod P ->
  decompress1 P (mod_sqrt P) (compress1 (Aff1 x y)) = R1 (Aff1 x y).
Proof. exact Proofs.C04.g1_roundtrip. Qed.
Print Assumptions g1_roundtrip.

(* the same for any prime p = 3 mod 4 below 2^255 (the model is parametric in the modulus) *)
Theorem g1_roundtrip_any_prime : forall p, prime p -> p mod 4 = 3 -> 3 < p -> p < 2 ^ 255 ->
  forall x y, valid1 p (Aff1 x y) = true ->
  decompress1 p (mod_sqrt p) (compress1 (Aff1 x y)) = R1 (Aff1 x y).
Proof. exact Proofs.C04.g1_roundtrip_gen. Qed.
Print Assumptions g1_roundtrip_any_prime.

(* the guard "not the identity" is necessary: the identity element does not round-trip
   (known finding C04-identity-encoding) *)
Theorem g1_identity_roundtrip_refuted :
  decompress1 P (mod_sqrt P) (compress1 Inf1) = Err1.
Proof. exact Proofs.C04.g1_identity_roundtrip_refuted. Qed.
Print Assumptions g1_identity_roundtrip_refuted.

(* DecompressToG1 on ANY non-empty byte string (in particular all 32-byte strings) returns a
   point on the curve with reduced coordinates, or an error: never a panic, never a hang.
   Needs no primality. *)
Theorem decompress1_total : forall m, m <> [] ->
  match decompress1 P (mod_sqrt P) m with
  | R1 Inf1 => True
  | R1 (Aff1 x y) => 0 <= x < P /\ 0 <= y < P /\ (y * y) mod P = (x * x * x + 3) mod P
  | Err1 => True
  | Panic1 | Hang1 | Nil1 => False
  end.
Proof. exact Proofs.C04.decompress1_total. Qed.
Print Assumptions decompress1_total.

(* ---------------- G2 ---------------- *)
(* sqrtGfP2 as repaired (hexRoot loop bounded by hexRootOrder): whatever it returns is a
   square root with reduced coordinates ... *)
Theorem sqrt_gfp2_sound : forall p X r, 1 < p ->
  sqrt_gfp2 p X = Some r -> ok2 p r /\ mul2 p r r = X.
Proof. exact Proofs.C04.sqrt_gfp2_sound. Qed.
Print Assumptions sqrt_gfp2_sound.

(* ... and the loop bound loses nothing: EVERY square of F_p[i] (zero included) has a root
   found within the bound, so nil / Err means "not a square".  (The proof needs at least 8
   iterations; it is re-checked against the generated constant hexRootOrder on every run.) *)
Theorem sqrt_gfp2_finds_roots : prime P -> forall y, ok2 P y ->
  exists r, sqrt_gfp2 P (mul2 P y y) = Some r /\ ok2 P r /\ (r = y \/ r = neg2 P y).
Proof. exact Proofs.C04.sqrt_gfp2_finds_roots. Qed.
Print Assumptions sqrt_gfp2_finds_roots.

(* every affine point of the twist y^2 = x^3 + twistB with reduced coordinates whose y has a
   non-zero imaginary part, and which bn256's subgroup test accepts (in_subgroup is the oracle
   for that library call), survives Compress followed by DecompressToG2 *)
Theorem g2_roundtrip : prime P -> forall in_subgroup x y,
  valid2 P (Aff2 x y) = true -> snd y <> 0 -> in_subgroup x y = true ->
  decompress2 P (sqrt_gfp2 P) in_subgroup (compress2 (Aff2 x y)) = R2 (Aff2 x y).
Proof. exact Proofs.C04.g2_roundtrip. Qed.
Print Assumptions g2_roundtrip.

(* FULL STATEMENT (not provable, refuted below on the twist): the same without the guard
   [snd y <> 0].  The flag bit is the parity of Im y only; for a real y the points (x, y) and
   (x, -y) have the same encoding.  Witness: a point of the twist curve with y = (P - 4, 0).
   (Whether the order-r subgroup G2 itself contains a point with real y is not decided here:
   the witness is on the twist, the subgroup test is an oracle.) *)
Theorem g2_roundtrip_real_y_refuted : exists x y,
  valid2 P (Aff2 x y) = true /\ snd y = 0 /\ y <> (0, 0) /\
  forall in_subgroup,
    decompress2 P (sqrt_gfp2 P) in_subgroup (compress2 (Aff2 x y)) <> R2 (Aff2 x y).
Proof. exact Proofs.C04.g2_roundtrip_real_y_refuted. Qed.
Print Assumptions g2_roundtrip_real_y_refuted.

(* the identity of G2 does not round-trip either (known finding C04-identity-encoding) *)
Theorem g2_identity_roundtrip_refuted : forall in_subgroup,
  decompress2 P (sqrt_gfp2 P) in_subgroup (compress2 Inf2) = Err2.
Proof. exact Proofs.C04.g2_identity_roundtrip_refuted. Qed.
Print Assumptions g2_identity_roundtrip_refuted.

(* DecompressToG2 on any non-empty byte string (the model is faithful for 64 bytes, the
   well-sized inputs of the property) returns a point of the twist with reduced coordinates or
   an error, for every answer of the subgroup oracle: never a panic, never a hang; the
   square-root search is a structural recursion on hexRootOrder.  Needs no primality. *)
Theorem decompress2_total : forall in_subgroup m, m <> [] ->
  match decompress2 P (sqrt_gfp2 P) in_subgroup m with
  | R2 Inf2 => True
  | R2 (Aff2 x y) => ok2 P x /\ ok2 P y /\
      mul2 P y y = add2 P (mul2 P (mul2 P x x) x) twistB
  | Err2 => True
  | Panic2 | Hang2 => False
  end.
Proof. exact Proofs.C04.decompress2_total. Qed.
Print Assumptions decompress2_total.

(* ---------------- G1HashToPoint ---------------- *)
(* whenever the try-and-increment search returns, the result is an affine point on the curve *)
Theorem hash_to_point_on_curve : forall fuel h r,
  hash_to_point P (mod_sqrt P) fuel h = Some r ->
  exists x y, r = R1 (Aff1 x y) /\ valid1 P (Aff1 x y) = true.
Proof. exact Proofs.C04.hash_to_point_on_curve. Qed.
Print Assumptions hash_to_point_on_curve.

(* the result does not depend on the fuel: the function is deterministic *)
Theorem hash_to_point_deterministic : forall f1 f2 h r1 r2,
  hash_to_point P (mod_sqrt P) f1 h = Some r1 ->
  hash_to_point P (mod_sqrt P) f2 h = Some r2 -> r1 = r2.
Proof. exact Proofs.C04.hash_to_point_deterministic. Qed.
Print Assumptions hash_to_point_deterministic.

(* the search terminates for every digest: x = P - 1 gives x^3 + 3 = 2, a square modulo P, so
   the loop stops at the latest there (a worst-case bound of P - h mod P iterations; that the
   search stops within a few steps for SHA-256 outputs is a statistical fact, not a theorem) *)
Theorem hash_to_point_terminates : forall h,
  exists fuel r, hash_to_point P (mod_sqrt P) fuel h = Some r.
Proof. exact Proofs.C04.hash_to_point_terminates. Qed.
Print Assumptions hash_to_point_terminates.

(* the returned point has the FIRST x >= h mod P for which x^3 + 3 is a square modulo P: the
   counting loop [hash_to_point_run] (which the judge compares, count included, with the
   implementation on messages ground for long runs) returns the same point together with the
   number n of increments, the point's x is (h mod P) + n, and every candidate before it has no
   square root.  No bound on n other than the fuel: the loop of the model is the unbounded
   `for { ... }` of the Go code *)
Theorem hash_to_point_first : forall fuel h r,
  hash_to_point P (mod_sqrt P) fuel h = Some r ->
  exists n y, hash_to_point_run P (mod_sqrt P) fuel h = Some (n, r) /\ 0 <= n /\
    r = R1 (Aff1 (h mod P + n) y) /\ valid1 P (Aff1 (h mod P + n) y) = true /\
    forall i, 0 <= i < n ->
      mod_sqrt P ((h mod P + i) * (h mod P + i) * (h mod P + i) + curveB) = None.
Proof. exact Proofs.C04.hash_to_point_first. Qed.
Print Assumptions hash_to_point_first.

(* ---------------- the executable predicate means what it says ---------------- *)
Theorem valid1_iff : forall p x y, valid1 p (Aff1 x y) = true <->
  (0 <= x < p /\ 0 <= y < p /\ (y * y) mod p = (x * x * x + 3) mod p).
Proof. exact Proofs.C04.valid1_iff. Qed.
Print Assumptions valid1_iff.

Theorem valid2_iff : forall p x y, valid2 p (Aff2 x y) = true <->
  (ok2 p x /\ ok2 p y /\ mul2 p y y = add2 p (mul2 p (mul2 p x x) x) twistB).
Proof. exact Proofs.C04.valid2_iff. Qed.
Print Assumptions valid2_iff.

(* the executable property [spec] (evaluated by the judge on the implementation's outputs)
   implies the Prop-level statement *)
Theorem spec_sound : forall c, spec P c = true ->
  match c with
  | CRound1 pt _ d => d = R1 pt
  | CRound2 pt _ d => d = R2 pt
  | CDec1 _ d =>
      match d with
      | R1 Inf1 | Err1 => True
      | R1 (Aff1 x y) => 0 <= x < P /\ 0 <= y < P /\ (y * y) mod P = (x * x * x + 3) mod P
      | _ => False
      end
  | CDec2 _ d =>
      match d with
      | R2 Inf2 | Err2 => True
      | R2 (Aff2 x y) => ok2 P x /\ ok2 P y /\ mul2 P y y = add2 P (mul2 P (mul2 P x x) x) twistB
      | _ => False
      end
  | CHash _ pt rep | CHashRun _ _ pt rep =>
      exists x y, pt = R1 (Aff1 x y) /\ rep = pt /\
        0 <= x < P /\ 0 <= y < P /\ (y * y) mod P = (x * x * x + 3) mod P
  end.
Proof. exact Proofs.C04.spec_sound. Qed.
Print Assumptions spec_sound.

(* ... and it holds of every output of the model (under the guards of the round-trip theorems) *)
Theorem spec_holds_of_model :
  (prime P -> forall x y c, valid1 P (Aff1 x y) = true ->
     spec P (CRound1 (Aff1 x y) c (decompress1 P (mod_sqrt P) (compress1 (Aff1 x y)))) = true) /\
  (prime P -> forall x y c, valid2 P (Aff2 x y) = true -> snd y <> 0 ->
     spec P (CRound2 (Aff2 x y) c (dec2 P (sqrt_gfp2 P) (compress2 (Aff2 x y)) true)) = true) /\
  (forall m, m <> [] -> spec P (CDec1 m (decompress1 P (mod_sqrt P) m)) = true) /\
  (forall m o, m <> [] -> spec P (CDec2 m (dec2 P (sqrt_gfp2 P) m o)) = true) /\
  (forall fuel h r, hash_to_point P (mod_sqrt P) fuel h = Some r -> spec P (CHash h r r) = true) /\
  (forall fuel h n r, hash_to_point_run P (mod_sqrt P) fuel h = Some (n, r) ->
     spec P (CHashRun h n r r) = true).
Proof. exact Proofs.C04.spec_holds_of_model. Qed.
Print Assumptions spec_holds_of_model.

(* the judge run on every case evaluates the two square-root kernels on Bignums' BigZ; it is
   the same function as the judge over plain Z that the theorems above speak about *)
Theorem judge_big_eq : forall c, Concrete.judge c = Concrete.judge_Z c.
Proof. exact Proofs.C04.judge_big_eq. Qed.
Print Assumptions judge_big_eq.

(* ---- the same buffers used again: decoding is a function of the bytes ---- *)

(* decoding the caller's buffer k times (the decoder reads the buffer, never writes it) returns k
   times the result of the first decode and leaves the buffer as it was; for every decoder, in
   particular decompress1 / decompress2 *)
Theorem decompress_repeatable : forall (R : Type) (dec : list N -> R) k buf,
  decode_again dec k buf = (repeat (dec buf) k, buf).
Proof. exact (@Proofs.C04.decode_again_spec). Qed.
Print Assumptions decompress_repeatable.

(* soundness of the executable form judged on every run: later decodes of the same buffer equal
   the first, the input buffer (resp. the point handed to Compress, the message handed to
   G1HashToPoint) is unchanged, and the decoded point of a round trip compresses to the bytes it
   was decoded from *)
Theorem reuse_ok_sound : forall u, reuse_ok u = true -> Proofs.C04.reuse_good u.
Proof. exact Proofs.C04.reuse_ok_sound. Qed.
Print Assumptions reuse_ok_sound.

(* ... and the model's own observations pass it: three decodes of one buffer through
   [decode_again]; for a round trip under the conclusion of g1_roundtrip / g2_roundtrip *)
Theorem reuse_holds_of_model :
  (forall m, m <> [] ->
     (match decompress1 P (mod_sqrt P) m with Panic1 => False | _ => True end) ->
     let '(ds, m') := decode_again (decompress1 P (mod_sqrt P)) 3 m in
     reuse_ok (UDec1 m (nth 0 ds Panic1) (nth 1 ds Panic1) (nth 2 ds Panic1) m' None) = true) /\
  (forall pt, decompress1 P (mod_sqrt P) (compress1 pt) = R1 pt ->
     let '(ds, buf) := decode_again (decompress1 P (mod_sqrt P)) 3 (compress1 pt) in
     reuse_ok (URound1 pt (CBytes (compress1 pt)) (nth 0 ds Panic1) (nth 1 ds Panic1) (nth 2 ds Panic1)
                       (CBytes buf) pt (Some (CBytes (compress1 pt)))) = true) /\
  (forall insub pt, decompress2 P (sqrt_gfp2 P) insub (compress2 pt) = R2 pt ->
     let '(ds, buf) := decode_again (decompress2 P (sqrt_gfp2 P) insub) 3 (compress2 pt) in
     reuse_ok (URound2 pt (CBytes (compress2 pt)) (nth 0 ds Panic2) (nth 1 ds Panic2) (nth 2 ds Panic2)
                       (CBytes buf) pt (Some (CBytes (compress2 pt)))) = true).
Proof.
  split; [|split].
  - intros m Hm Hd. generalize (Proofs.C04.reuse_holds_of_model_dec1 P (mod_sqrt P) m).
    destruct (decode_again _ 3 m). auto.
  - intros pt H. exact (Proofs.C04.reuse_holds_of_model_round1 P (mod_sqrt P) pt H).
  - intros insub pt H. exact (Proofs.C04.reuse_holds_of_model_round2 P (sqrt_gfp2 P) insub pt H).
Qed.
Print Assumptions reuse_holds_of_model.

Theorem judge_u_big_eq : forall u, Concrete.judge_u u = Concrete.judge_u_Z u.
Proof. exact Proofs.C04.judge_u_big_eq. Qed.
Print Assumptions judge_u_big_eq.
