From Coq Require Import ZArith List.
From KV Require Import Model.C04 Proofs.C04.
