(* C43 — The difficulty relay maintainer proves each epoch once with the right headers.
   ONLY property statements; proofs are in Proofs/C43.v.

   Vocabulary (Model/C43.v): a history is a script [ws : list world]; the k-th call the
   maintainer makes is answered from the k-th world.  [timeline EL dp SReady ws] is the list of
   (world, call) pairs of the whole control loop started afresh, for an arbitrary script.
   [current_round pre] = the calls of [pre] made since the last failed call or submission;
   [obs_height/obs_epoch/obs_plen l] = the answer to the last GetLatestBlockHeight / CurrentEpoch
   / ProofLength call in [l]; [obs_ready pre] / [obs_auth dp pre] = the last Ready() call, resp.
   the last authorisation call of the configured kind for the maintainer's own address, answered
   true.  [in_domain EL e L] = the arithmetic does not leave Go's 64-bit range (outside it the
   property is silent).  [first_req EL e L] = (e+1)*EL - L, [last_req EL e L] = (e+1)*EL + L - 1.
   EL is the epoch length; the instance used by the correspondence check is the Go constant
   (last theorem). *)
From Coq Require Import ZArith List Bool.
From KV Require Import Common.Verdict Gen.Consts_C43 Model.C43 Proofs.C43.
Import ListNotations.
Open Scope Z_scope.

(* ---- the model, for EVERY script (all histories of heights, relay epochs, proof lengths,
        readiness / authorisation answers, fetch / submission / query failures) ---- *)

(* Every submission is justified by what was observed just before it: the maintainer is ready and
   authorised, uses the configured entry point, and submits for the epoch after the relay's
   current one exactly the 2L headers [first-L .. first+L-1] in order, all of them mined. *)
Theorem model_submission_justified :
  forall (EL : Z) (dp : bool), 0 < EL ->
  forall ws pre w r hs post,
    timeline EL dp SReady ws = pre ++ (w, CSubmit r hs) :: post ->
    obs_ready pre = true /\ obs_auth dp pre = true /\ r = negb dp /\
    exists h e L,
      obs_height (current_round pre) = Some h /\
      obs_epoch (current_round pre) = Some e /\
      obs_plen (current_round pre) = Some L /\
      (in_domain EL e L = true ->
       hs = zrange (first_req EL e L) (Z.to_nat (2 * L)) /\ length hs = Z.to_nat (2 * L) /\
       last_req EL e L <= h).
Proof. exact Proofs.C43.model_submission_justified. Qed.
Print Assumptions model_submission_justified.

(* After a successful submission for epoch e+1 nothing else is submitted until the relay has
   answered an epoch >= e+1 -- or a call failed (a failure restarts the maintainer, see
   resubmission_after_failed_poll_possible). *)
Theorem model_no_resubmission :
  forall (EL : Z) (dp : bool), 0 < EL ->
  forall ws pre w1 r1 hs1 mid w2 r2 hs2 post e L,
    timeline EL dp SReady ws = pre ++ (w1, CSubmit r1 hs1) :: mid ++ (w2, CSubmit r2 hs2) :: post ->
    w_submit w1 = true ->
    obs_epoch (current_round pre) = Some e -> obs_plen (current_round pre) = Some L ->
    in_domain EL e L = true ->
    exists x, In x mid /\ (failed (fst x) (snd x) = true \/ epoch_reached (e + 1) x).
Proof. exact Proofs.C43.model_no_resubmission. Qed.
Print Assumptions model_no_resubmission.

(* ... and while the relay keeps answering older epochs the maintainer does nothing but poll it *)
Theorem waits_for_relay :
  forall (EL : Z) (dp : bool), 0 < EL ->
  forall ws pre w1 r hs mid w2 c2 e L,
    timeline EL dp SReady ws = pre ++ (w1, CSubmit r hs) :: mid ++ [(w2, c2)] ->
    w_submit w1 = true ->
    obs_epoch (current_round pre) = Some e -> obs_plen (current_round pre) = Some L ->
    in_domain EL e L = true ->
    (forall x, In x mid -> exists e', w_epoch (fst x) = Some e' /\ e' < e + 1) ->
    (forall x, In x mid -> snd x = CEpoch) /\ c2 = CEpoch.
Proof. exact Proofs.C43.waits_for_relay. Qed.
Print Assumptions waits_for_relay.

(* "once all of them are mined": having read height h, epoch e and proof length L, proveNextEpoch
   returns "not proven" (goes idle) exactly when the last required header is not mined yet;
   otherwise it goes on to fetch and submit *)
Theorem idle_only_when_headers_missing :
  forall (EL : Z) (dp : bool), 0 < EL ->
  forall h e L w,
    w_plen w = Some L -> in_domain EL e L = true ->
    (snd (step EL dp (SPLen h e) w) = Some (RNext NIdle) <-> h < last_req EL e L).
Proof. exact Proofs.C43.idle_only_when_headers_missing. Qed.
Print Assumptions idle_only_when_headers_missing.

(* A failed call (or a submission) ends the round: the next submission rests on a height, an
   epoch and a proof length that were all asked for again afterwards. *)
Theorem model_failed_call_ends_round :
  forall (EL : Z) (dp : bool), 0 < EL ->
  forall ws pre wb cb mid w r hs post,
    timeline EL dp SReady ws = pre ++ (wb, cb) :: mid ++ (w, CSubmit r hs) :: post ->
    boundary (wb, cb) = true ->
    exists wh we wl h e L,
      In (wh, CHeight) mid /\ w_height wh = Some h /\
      In (we, CEpoch) mid /\ w_epoch we = Some e /\
      In (wl, CPLen) mid /\ w_plen wl = Some L /\
      (in_domain EL e L = true ->
       hs = zrange (first_req EL e L) (Z.to_nat (2 * L)) /\ last_req EL e L <= h).
Proof. exact Proofs.C43.model_failed_call_ends_round. Qed.
Print Assumptions model_failed_call_ends_round.

(* ---- soundness of the executable form: the same statements follow, for ANY observed timeline
        (in particular the implementation's), from the monitor the judge evaluates ---- *)
Theorem submission_justified :
  forall (EL : Z) (dp : bool) obs pre w r hs post,
    monitor EL dp (m_init false) obs = true ->
    obs = pre ++ (w, CSubmit r hs) :: post ->
    obs_ready pre = true /\ obs_auth dp pre = true /\ r = negb dp /\
    exists h e L,
      obs_height (current_round pre) = Some h /\
      obs_epoch (current_round pre) = Some e /\
      obs_plen (current_round pre) = Some L /\
      (in_domain EL e L = true ->
       hs = zrange (first_req EL e L) (Z.to_nat (2 * L)) /\ length hs = Z.to_nat (2 * L) /\
       last_req EL e L <= h).
Proof. exact Proofs.C43.submission_justified. Qed.
Print Assumptions submission_justified.

Theorem no_resubmission_before_epoch_advance :
  forall (EL : Z) (dp : bool) obs pre w1 r1 hs1 mid w2 r2 hs2 post e L,
    monitor EL dp (m_init false) obs = true ->
    obs = pre ++ (w1, CSubmit r1 hs1) :: mid ++ (w2, CSubmit r2 hs2) :: post ->
    w_submit w1 = true ->
    obs_epoch (current_round pre) = Some e -> obs_plen (current_round pre) = Some L ->
    in_domain EL e L = true ->
    exists x, In x mid /\ (failed (fst x) (snd x) = true \/ epoch_reached (e + 1) x).
Proof. exact Proofs.C43.no_resubmission_before_epoch_advance. Qed.
Print Assumptions no_resubmission_before_epoch_advance.

Theorem failed_call_ends_round :
  forall (EL : Z) (dp : bool) obs pre wb cb mid w r hs post,
    monitor EL dp (m_init false) obs = true ->
    obs = pre ++ (wb, cb) :: mid ++ (w, CSubmit r hs) :: post ->
    boundary (wb, cb) = true ->
    exists wh we wl h e L,
      In (wh, CHeight) mid /\ w_height wh = Some h /\
      In (we, CEpoch) mid /\ w_epoch we = Some e /\
      In (wl, CPLen) mid /\ w_plen wl = Some L /\
      (in_domain EL e L = true ->
       hs = zrange (first_req EL e L) (Z.to_nat (2 * L)) /\ last_req EL e L <= h).
Proof. exact Proofs.C43.failed_call_ends_round. Qed.
Print Assumptions failed_call_ends_round.

(* the judge's spec_ok contains that monitor (over the script followed by the all-errors world
   that answers the call which finds the script empty) and forbids any later submission *)
Theorem spec_ok_monitor :
  forall EL c,
    spec_ok EL c = true ->
    monitor EL (c_dp c) (m_init (init_elig (c_mode c))) (combine (script_of c) (c_trace c)) = true /\
    c_late c = 0.
Proof. exact Proofs.C43.spec_ok_monitor. Qed.
Print Assumptions spec_ok_monitor.

(* ---- the executable property holds of every model output ---- *)
Theorem model_accepted :
  forall (EL : Z) (dp : bool), 0 < EL ->
  forall ws, monitor EL dp (m_init false) (timeline EL dp SReady ws) = true.
Proof. exact Proofs.C43.model_accepted. Qed.
Print Assumptions model_accepted.

(* ... also of the single-function runs the driver exercises (verifySubmissionEligibility,
   proveNextEpoch, proveEpochs), whose traces the judge compares with the implementation's *)
Theorem model_outputs_pass_monitor :
  forall (EL : Z) (dp : bool), 0 < EL ->
  forall md ws,
    monitor EL dp (m_init (init_elig md)) (combine ws (fst (run_fn EL dp md (start md) ws))) = true.
Proof. exact Proofs.C43.model_outputs_pass_monitor. Qed.
Print Assumptions model_outputs_pass_monitor.

Theorem model_loop_case_passes_spec :
  forall EL dp ws, 0 < EL ->
    spec_ok EL {| c_dp := dp; c_mode := MLoop; c_ws := ws;
                  c_trace := run EL dp SReady (ws ++ [err_world]); c_res := FNone; c_late := 0 |} = true.
Proof. exact Proofs.C43.model_loop_case_passes_spec. Qed.
Print Assumptions model_loop_case_passes_spec.

(* ---- the instance: the epoch length is the constant translated from the Go source ---- *)
Theorem epoch_length_positive : 0 < bitcoinDifficultyEpochLength.
Proof. exact Proofs.C43.epoch_length_positive. Qed.
Print Assumptions epoch_length_positive.

(* ---- non-vacuity and the limit of "each epoch once" ---- *)
(* the example of the code comment: a submission happens, in the domain of the property *)
Theorem example_submission :
  run 2016 false SReady ex_script =
  [CReady; CAuth true true; CHeight; CEpoch; CPLen;
   CHeader 522141; CHeader 522142; CHeader 522143; CHeader 522144; CHeader 522145; CHeader 522146;
   CSubmit true [522141; 522142; 522143; 522144; 522145; 522146]; CEpoch; CEpoch]
  /\ in_domain 2016 258 3 = true.
Proof. exact Proofs.C43.ex_submits. Qed.
Print Assumptions example_submission.

(* The error escape of model_no_resubmission is real: when a poll of waitForCurrentEpochUpdate
   FAILS, the maintainer restarts, and if the relay still reports the old epoch it submits the
   same headers a second time although the first submission succeeded and the relay never
   answered the new epoch in between. *)
Theorem resubmission_after_failed_poll_possible :
  exists pre w1 mid w2 post hs,
    timeline 2016 false SReady ex_resubmit_script =
      pre ++ (w1, CSubmit true hs) :: mid ++ (w2, CSubmit true hs) :: post /\
    w_submit w1 = true /\ hs = zrange 522141 6 /\
    forall x, In x mid -> ~ epoch_reached 259 x.
Proof. exact Proofs.C43.ex_resubmission_after_failed_poll. Qed.
Print Assumptions resubmission_after_failed_poll_possible.
