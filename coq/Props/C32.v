(* C32 — SPV required confirmations are minimal and sufficient across difficulty epochs.
   ONLY property statements; proofs are in Proofs/C32.v.  [difficultyEpochLength] is the
   constant regenerated from /repo by tools/constgen on every run (Gen/Consts_C32.v);
   [Concrete.get_proof_info] is the model of getProofInfo at that epoch length. *)
From Coq Require Import ZArith List Bool.
From KV Require Import Gen.Consts_C32 Model.C32 Proofs.C32.
Open Scope Z_scope.

(* S_of i = latest - conf + 1 : height of the transaction's block (first header of the proof)
   E_of i = S_of i + factor - 1: last header of a proof of [factor] headers
   guards i: heights, confirmations, factor and relay epoch are in the range of their Go types,
     conf <= latest + 1, 1 <= factor, 1 <= dCur, 1 <= dPrev, dPrev*factor <= dCur*2^63
   in_relay_range i: the epochs of S_of i and of E_of i are both the relay's previous
     (epoch - 1) or current epoch *)

(* 1. classification by epochs is exact, and the accumulated confirmations are reported *)
Theorem classification_exact :
  forall i, guards i -> i_fail i = NoFail ->
    exists w acc req,
      Concrete.get_proof_info i = Info w acc req /\
      (w = true <->
         (S_of i / difficultyEpochLength = i_epoch i - 1 \/ S_of i / difficultyEpochLength = i_epoch i) /\
         (E_of i / difficultyEpochLength = i_epoch i - 1 \/ E_of i / difficultyEpochLength = i_epoch i)) /\
      (w = true -> acc = i_conf i).
Proof. exact Proofs.C32.AtConst.classification_exact. Qed.
Print Assumptions classification_exact.

(* 2. a proof range inside one epoch needs exactly [factor] headers *)
Theorem same_epoch_required :
  forall i, guards i -> i_fail i = NoFail -> in_relay_range difficultyEpochLength i ->
    S_of i / difficultyEpochLength = E_of i / difficultyEpochLength ->
    Concrete.get_proof_info i = Info true (i_conf i) (i_factor i).
Proof. exact Proofs.C32.AtConst.same_epoch_required. Qed.
Print Assumptions same_epoch_required.

(* 3. a range that starts in the previous and ends in the current epoch: nPrev headers come
   from the previous epoch and nCur from the current one, which is sufficient
   (nPrev*dPrev + nCur*dCur >= factor*dPrev) and minimal (one header less is not enough) *)
Theorem span_required_sufficient_minimal :
  forall i, guards i -> i_fail i = NoFail ->
    S_of i / difficultyEpochLength = i_epoch i - 1 -> E_of i / difficultyEpochLength = i_epoch i ->
    let np := difficultyEpochLength - S_of i mod difficultyEpochLength in
    exists nc,
      Concrete.get_proof_info i = Info true (i_conf i) (np + nc) /\
      1 <= np < i_factor i /\ 1 <= nc /\
      np * i_dprev i + nc * i_dcur i >= i_factor i * i_dprev i /\
      np * i_dprev i + (nc - 1) * i_dcur i < i_factor i * i_dprev i.
Proof. exact Proofs.C32.AtConst.span_required_sufficient_minimal. Qed.
Print Assumptions span_required_sufficient_minimal.

(* 4. the same, read on the header chain: for every assignment [diff] of difficulties to epochs
   that agrees with the relay on the previous and current epoch, the required count is the
   least number of consecutive headers starting at the transaction's block whose accumulated
   difficulty ([work], the sum of diff (height / 2016)) reaches factor * dPrev — provided the
   required headers do not run past the current epoch, whose successor's difficulty the relay
   does not know *)
Theorem span_least_header_count :
  forall i (diff : Z -> Z) req, guards i -> i_fail i = NoFail ->
    S_of i / difficultyEpochLength = i_epoch i - 1 -> E_of i / difficultyEpochLength = i_epoch i ->
    diff (i_epoch i - 1) = i_dprev i -> diff (i_epoch i) = i_dcur i ->
    Concrete.get_proof_info i = Info true (i_conf i) req ->
    (S_of i + req - 1) / difficultyEpochLength = i_epoch i ->
    i_factor i * i_dprev i <= work difficultyEpochLength diff (S_of i) (Z.to_nat req) /\
    forall n, (n < Z.to_nat req)%nat ->
              work difficultyEpochLength diff (S_of i) n < i_factor i * i_dprev i.
Proof. exact Proofs.C32.AtConst.span_least_header_count. Qed.
Print Assumptions span_least_header_count.

(* 5. the positivity guard on the current difficulty is needed: with a zero current difficulty
   (an uninitialised relay) the epoch-spanning case panics in big.Int.DivMod *)
Theorem zero_current_difficulty_panics :
  forall i, range_guards i -> i_fail i = NoFail -> i_dcur i = 0 ->
    S_of i / difficultyEpochLength = i_epoch i - 1 -> E_of i / difficultyEpochLength = i_epoch i ->
    Concrete.get_proof_info i = Panic.
Proof. exact Proofs.C32.AtConst.zero_current_difficulty_panics. Qed.
Print Assumptions zero_current_difficulty_panics.

(* 6. the executable form used by the correspondence check is sound ... *)
Theorem spec_ok_sound :
  forall i r, guards i -> i_fail i = NoFail -> Concrete.spec_ok i r = true ->
    exists w acc req, r = Info w acc req /\
      (w = true <-> in_relay_range difficultyEpochLength i) /\
      (w = true ->
         acc = i_conf i /\
         (S_of i / difficultyEpochLength = E_of i / difficultyEpochLength -> req = i_factor i) /\
         (S_of i / difficultyEpochLength <> E_of i / difficultyEpochLength ->
            let np := difficultyEpochLength - S_of i mod difficultyEpochLength in
            i_factor i * i_dprev i <= acc_work np (i_dprev i) (i_dcur i) req /\
            acc_work np (i_dprev i) (i_dcur i) (req - 1) < i_factor i * i_dprev i)).
Proof. exact Proofs.C32.AtConst.spec_ok_sound. Qed.
Print Assumptions spec_ok_sound.

(* 7. ... and holds of every output of the model, for ALL inputs (guarded or not) *)
Theorem model_passes_spec :
  forall i, Concrete.spec_ok i (Concrete.get_proof_info i) = true.
Proof. exact Proofs.C32.AtConst.model_passes_spec. Qed.
Print Assumptions model_passes_spec.

(* ---------- proving rounds: proveTransactions over the unproven transactions of one round ----------
   tx_input r t: what getProofInfo sees for transaction t of round r — the transaction's own
     height/confirmations and the ROUND's factor, relay epoch and difficulties
   tx_outcome r t = Submitted req when get_proof_info (tx_input r t) = Info true acc req with
     acc >= req, Skipped otherwise
   tx_clean r t: guards (tx_input r t), no injected chain failure, the submitter accepts *)

(* 8. no state across transactions: a round is the per-transaction function mapped over its
   transactions (so every outcome is independent of which transactions precede it, of their
   number and of their order) ... *)
Theorem round_is_map :
  forall r txs, (forall t, In t txs -> tx_clean r t) ->
    run_txs difficultyEpochLength r txs = (map (tx_outcome difficultyEpochLength r) txs, Done).
Proof. exact Proofs.C32.AtConst.round_is_map. Qed.
Print Assumptions round_is_map.

(* 9. ... and for ANY round (failing chain calls, failing submitter, unguarded inputs) the
   outcomes are that map over the processed prefix, the whole list when the round ends normally *)
Theorem round_prefix :
  forall r txs, exists n, (n <= length txs)%nat /\
    fst (run_txs difficultyEpochLength r txs) = map (tx_outcome difficultyEpochLength r) (firstn n txs) /\
    (snd (run_txs difficultyEpochLength r txs) = Done -> n = length txs).
Proof. exact Proofs.C32.AtConst.round_prefix. Qed.
Print Assumptions round_prefix.

(* 10. a transaction is submitted iff its proof range is in the relay's range and its
   accumulated confirmations reach its OWN required number — the number of theorems 2 and 3,
   computed with the round's factor — and it is submitted with exactly that number *)
Theorem round_submission_exact :
  forall r t, guards (tx_input r t) -> t_fail t = NoFail ->
    let i := tx_input r t in
    (forall q, tx_outcome difficultyEpochLength r t = Submitted q <->
               in_relay_range difficultyEpochLength i /\
               Concrete.get_proof_info i = Info true (i_conf i) q /\ q <= i_conf i) /\
    (tx_outcome difficultyEpochLength r t = Skipped <->
       ~ in_relay_range difficultyEpochLength i \/
       exists q, Concrete.get_proof_info i = Info true (i_conf i) q /\ i_conf i < q).
Proof. exact Proofs.C32.AtConst.round_submission_exact. Qed.
Print Assumptions round_submission_exact.

(* 11. the executable round property used by the correspondence check is sound: on a round of
   clean transactions it forces a normal end and, for every transaction, that a submitted proof
   is in range with a minimal sufficient number of confirmations not above the accumulated ones,
   and that a skipped transaction is out of range or has not accumulated enough work ... *)
Theorem round_ok_sound :
  forall r txs outs e, (forall t, In t txs -> tx_clean r t) ->
    Concrete.round_ok r txs outs e = true ->
    e = Done /\ Forall2 (fun t o => tx_prop difficultyEpochLength (tx_input r t) o) txs outs.
Proof. exact Proofs.C32.AtConst.round_ok_sound. Qed.
Print Assumptions round_ok_sound.

(* 12. ... and holds of every round of the model, for ALL rounds *)
Theorem round_model_passes :
  forall r txs,
    Concrete.round_ok r txs (fst (run_txs difficultyEpochLength r txs))
                            (snd (run_txs difficultyEpochLength r txs)) = true.
Proof. exact Proofs.C32.AtConst.round_model_passes. Qed.
Print Assumptions round_model_passes.
