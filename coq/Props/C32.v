(* C32 — SPV required confirmations are minimal and sufficient across difficulty epochs.
   ONLY property statements; proofs are in Proofs/C32.v.  [difficultyEpochLength] is the
   constant regenerated from /repo by tools/constgen on every run (Gen/Consts_C32.v);
   [Concrete.get_proof_info] is the model of getProofInfo at that epoch length. *)
From Coq Require Import ZArith List Bool.
From KV Require Import Gen.Consts_C32 Model.C32 Proofs.C32.
Open Scope Z_scope.

(* S_of i = latest - conf + 1 : height of the transaction's block (first header of the proof)
   E_of i = S_of i + factor - 1: last header of a proof of [factor] headers
   guards i: heights, confirmations, factor and relay epoch are in the range of their Go types,
     conf <= latest + 1, 1 <= factor, 1 <= dCur, 1 <= dPrev, dPrev*factor <= dCur*2^63
   in_relay_range i: the epochs of S_of i and of E_of i are both the relay's previous
     (epoch - 1) or current epoch *)

(* 1. classification by epochs is exact, and the accumulated confirmations are reported *)
Theorem classification_exact :
  forall i, guards i -> i_fail i = NoFail ->
    exists w acc req,
      Concrete.get_proof_info i = Info w acc req /\
      (w = true <->
         (S_of i / difficultyEpochLength = i_epoch i - 1 \/ S_of i / difficultyEpochLength = i_epoch i) /\
         (E_of i / difficultyEpochLength = i_epoch i - 1 \/ E_of i / difficultyEpochLength = i_epoch i)) /\
      (w = true -> acc = i_conf i).
Proof. exact Proofs.C32.AtConst.classification_exact. Qed.
Print Assumptions classification_exact.

(* 2. a proof range inside one epoch needs exactly [factor] headers *)
Theorem same_epoch_required :
  forall i, guards i -> i_fail i = NoFail -> in_relay_range difficultyEpochLength i ->
    S_of i / difficultyEpochLength = E_of i / difficultyEpochLength ->
    Concrete.get_proof_info i = Info true (i_conf i) (i_factor i).
Proof. exact Proofs.C32.AtConst.same_epoch_required. Qed.
Print Assumptions same_epoch_required.

(* 3. a range that starts in the previous and ends in the current epoch: nPrev headers come
   from the previous epoch and nCur from the current one, which is sufficient
   (nPrev*dPrev + nCur*dCur >= factor*dPrev) and minimal (one header less is not enough) *)
Theorem span_required_sufficient_minimal :
  forall i, guards i -> i_fail i = NoFail ->
    S_of i / difficultyEpochLength = i_epoch i - 1 -> E_of i / difficultyEpochLength = i_epoch i ->
    let np := difficultyEpochLength - S_of i mod difficultyEpochLength in
    exists nc,
      Concrete.get_proof_info i = Info true (i_conf i) (np + nc) /\
      1 <= np < i_factor i /\ 1 <= nc /\
      np * i_dprev i + nc * i_dcur i >= i_factor i * i_dprev i /\
      np * i_dprev i + (nc - 1) * i_dcur i < i_factor i * i_dprev i.
Proof. exact Proofs.C32.AtConst.span_required_sufficient_minimal. Qed.
Print Assumptions span_required_sufficient_minimal.

(* 4. the same, read on the header chain: for every assignment [diff] of difficulties to epochs
   that agrees with the relay on the previous and current epoch, the required count is the
   least number of consecutive headers starting at the transaction's block whose accumulated
   difficulty ([work], the sum of diff (height / 2016)) reaches factor * dPrev — provided the
   required headers do not run past the current epoch, whose successor's difficulty the relay
   does not know *)
Theorem span_least_header_count :
  forall i (diff : Z -> Z) req, guards i -> i_fail i = NoFail ->
    S_of i / difficultyEpochLength = i_epoch i - 1 -> E_of i / difficultyEpochLength = i_epoch i ->
    diff (i_epoch i - 1) = i_dprev i -> diff (i_epoch i) = i_dcur i ->
    Concrete.get_proof_info i = Info true (i_conf i) req ->
    (S_of i + req - 1) / difficultyEpochLength = i_epoch i ->
    i_factor i * i_dprev i <= work difficultyEpochLength diff (S_of i) (Z.to_nat req) /\
    forall n, (n < Z.to_nat req)%nat ->
              work difficultyEpochLength diff (S_of i) n < i_factor i * i_dprev i.
Proof. exact Proofs.C32.AtConst.span_least_header_count. Qed.
Print Assumptions span_least_header_count.

(* 5. the positivity guard on the current difficulty is needed: with a zero current difficulty
   (an uninitialised relay) the epoch-spanning case panics in big.Int.DivMod *)
Theorem zero_current_difficulty_panics :
  forall i, range_guards i -> i_fail i = NoFail -> i_dcur i = 0 ->
    S_of i / difficultyEpochLength = i_epoch i - 1 -> E_of i / difficultyEpochLength = i_epoch i ->
    Concrete.get_proof_info i = Panic.
Proof. exact Proofs.C32.AtConst.zero_current_difficulty_panics. Qed.
Print Assumptions zero_current_difficulty_panics.

(* 6. the executable form used by the correspondence check is sound ... *)
Theorem spec_ok_sound :
  forall i r, guards i -> i_fail i = NoFail -> Concrete.spec_ok i r = true ->
    exists w acc req, r = Info w acc req /\
      (w = true <-> in_relay_range difficultyEpochLength i) /\
      (w = true ->
         acc = i_conf i /\
         (S_of i / difficultyEpochLength = E_of i / difficultyEpochLength -> req = i_factor i) /\
         (S_of i / difficultyEpochLength <> E_of i / difficultyEpochLength ->
            let np := difficultyEpochLength - S_of i mod difficultyEpochLength in
            i_factor i * i_dprev i <= acc_work np (i_dprev i) (i_dcur i) req /\
            acc_work np (i_dprev i) (i_dcur i) (req - 1) < i_factor i * i_dprev i)).
Proof. exact Proofs.C32.AtConst.spec_ok_sound. Qed.
Print Assumptions spec_ok_sound.

(* 7. ... and holds of every output of the model, for ALL inputs (guarded or not) *)
Theorem model_passes_spec :
  forall i, Concrete.spec_ok i (Concrete.get_proof_info i) = true.
Proof. exact Proofs.C32.AtConst.model_passes_spec. Qed.
Print Assumptions model_passes_spec.
