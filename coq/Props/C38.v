(* C38 — Wallet and group registries survive restarts exactly.
   ONLY property statements; proofs are in Proofs/C38.v.

   A history is any list of operations (register a membership, archive one wallet (tbtc),
   unregister stale groups (beacon, with any map-iteration order accepted by [order_ok]),
   restart) each with an optional fault at one of its storage calls: the call fails, or the
   process crashes right before / right after it (and is restarted).  [final h] is the state after
   the history, [log_of h] the log of what reached the storage (Wrote / Archived) and
   [persisted log] the memberships persisted and not archived according to that log alone. *)
From Coq Require Import ZArith NArith List Bool Permutation.
From KV Require Import Common.Verdict Model.C38 Proofs.C38.
Import ListNotations.
Open Scope N_scope.

(* after ANY history, a restarted node knows, for every wallet / group, exactly the memberships
   that were persisted and not archived — the same items, i.e. identical key material *)
Theorem restart_yields_persisted_not_archived :
  forall (h : list (opk * fault)) (g : N),
    cache_get (s_cache (restart (final h))) g
    = filter (fun it => N.eqb (it_g it) g) (persisted (log_of h)).
Proof. exact Proofs.C38.restart_exact. Qed.
Print Assumptions restart_yields_persisted_not_archived.

(* the storage itself is exactly "persisted and not archived" *)
Theorem storage_is_persisted_not_archived :
  forall h : list (opk * fault), s_store (final h) = persisted (log_of h).
Proof. exact Proofs.C38.store_is_persisted. Qed.
Print Assumptions storage_is_persisted_not_archived.

(* while running (no restart needed): every persisted-and-not-archived membership is known, and
   the known groups are exactly the persisted-and-not-archived ones *)
Theorem running_registry_covers_persisted :
  forall h : list (opk * fault),
    let s := final h in
    (forall it, In it (persisted (log_of h)) -> In it (cache_get (s_cache s) (it_g it))) /\
    (forall g, cache_get (s_cache s) g <> [] <-> has_dir (persisted (log_of h)) g = true).
Proof. exact Proofs.C38.running_covers_persisted. Qed.
Print Assumptions running_registry_covers_persisted.

(* the lookups agree after any history, for injective public-key-hash and wallet-ID functions:
   a wallet is listed iff it has signers iff the lookup by hash finds it iff the lookup by ID
   finds it, and a lookup never returns a different wallet *)
Theorem lookups_agree :
  forall pkh wid : N -> N,
    (forall a b, pkh a = pkh b -> a = b) -> (forall a b, wid a = wid b -> a = b) ->
    forall (h : list (opk * fault)) (w : N),
      let c := s_cache (final h) in
      (In w (list_wallets c) <-> cache_get c w <> []) /\
      (In w (list_wallets c) <-> by_pkh pkh c (pkh w) = Some w) /\
      (In w (list_wallets c) <-> by_id wid c (wid w) = Some w) /\
      (forall x w', by_pkh pkh c x = Some w' -> pkh w' = x /\ In w' (list_wallets c)) /\
      (forall i w', by_id wid c i = Some w' -> wid w' = i /\ In w' (list_wallets c)).
Proof. exact Proofs.C38.lookups_agree. Qed.
Print Assumptions lookups_agree.

(* a crash between the storage write and the memory update is the completed operation followed by
   a restart; a crash before the storage call is a plain restart *)
Theorem crash_after_storage_is_completed_then_restart :
  forall (s : state) (it : item) (g : N),
    fst (fst (step s (Register it) (Fault FCrashAfter 0))) =
      restart (fst (fst (step s (Register it) NoFault))) /\
    fst (fst (step s (Register it) (Fault FCrashBefore 0))) = restart s /\
    (cache_has (s_cache s) g = true ->
     fst (fst (step s (ArchiveOne g) (Fault FCrashAfter 0))) =
       restart (fst (fst (step s (ArchiveOne g) NoFault)))).
Proof.
  intros s it g. split; [apply Proofs.C38.crash_after_register|].
  split; [apply Proofs.C38.crash_before_register|apply Proofs.C38.crash_after_archive].
Qed.
Print Assumptions crash_after_storage_is_completed_then_restart.

(* the executable comparison of the correspondence check means what it should: after a restart
   or crash the observed memberships of every group are, up to order, the stored ones *)
Theorem spec_restart_sound :
  forall o : obs,
    restarted o = true -> registry_vs_store o = true ->
    forall g, In g (ob_groups o) ->
      Permutation (gs_items g) (filter (fun it => N.eqb (it_g it) (gs_g g)) (ob_store o)).
Proof. exact Proofs.C38.spec_restart_sound. Qed.
Print Assumptions spec_restart_sound.

(* NOT proved (stated for the record): [forall c, well_formed c -> spec_ok (the model's own
   observations of c's operations) = true].  Its content is covered by the theorems above
   (restart exactness, running coverage, lookup agreement, storage = log); the remaining gap is
   the bookkeeping of the sorted canonical forms used by [hist_ok]. *)
