(* C29 — Bitcoin serialisation and byte-order conversions round-trip.
   ONLY property statements; proofs are in Proofs/C29.v.  The model (Model/C29.v) is the byte
   format implemented by pkg/bitcoin on top of btcd wire: [serialize]/[deserialize] =
   Transaction.Serialize/Deserialize, [serialize_inputs]/[serialize_outputs] =
   SerializeInputs/SerializeOutputs (computed windows of the Standard serialisation),
   [cs_encode]/[cs_decode] = WriteVarInt/ReadVarInt, [hash_hex]/[new_hash_from_string] =
   Hash.Hex/NewHashFromString, [header_serialize]/[header_deserialize], and
   [script_to_var_len]/[script_from_var_len] = Script.ToVarLenData/NewScriptFromVarLenData. *)
From Coq Require Import String Ascii ZArith NArith List Bool.
From KV Require Import Model.C29 Proofs.C29.
Import ListNotations.
Open Scope N_scope.

(* Guards ([tx_wf], Model/C29.v): every field in the range of its Go type (int32 version,
   uint32 index/sequence/locktime, int64 value, 32-byte hashes, bytes below 256) and the btcd
   decoder limits: at most 818401 inputs and 3728271 outputs, scripts of at most 32 MiB, at most
   4,000,000 witness items per input of at most 4,000,000 bytes each. *)

(* Deserialising the serialisation of a transaction with at least one input gives the
   transaction back; the Standard format drops (only) the witness data. *)
Theorem deserialize_serialize :
  forall t : tx, tx_wf t = true -> tx_ins t <> [] ->
    deserialize (serialize Witness t) = Some t /\
    deserialize (serialize Standard t) = Some (strip_witness t).
Proof. exact Proofs.C29.deserialize_serialize. Qed.
Print Assumptions deserialize_serialize.

(* ... also when followed by arbitrary further bytes (the decoder stops at the locktime) *)
Theorem decode_serialize_prefix :
  forall (f : format) (t : tx) (rest : list N), tx_wf t = true -> tx_ins t <> [] ->
    decode (serialize f t ++ rest)
    = ROk (match f with Witness => t | Standard => strip_witness t end) rest.
Proof. exact Proofs.C29.decode_serialize. Qed.
Print Assumptions decode_serialize_prefix.

(* Why "at least one input": the 0x00 input count is read as the segwit marker.  A well-formed
   transaction without inputs decodes to a DIFFERENT transaction, another one is rejected. *)
Theorem zero_input_ambiguity :
  let t0 := {| tx_version := 1; tx_ins := [];
               tx_outs := [{| to_value := 4294967296; to_script := [] |}]; tx_locktime := 7 |} in
  tx_wf t0 = true /\
  deserialize (serialize Witness t0)
  = Some {| tx_version := 1; tx_ins := []; tx_outs := []; tx_locktime := 65536 |} /\
  deserialize (serialize Standard {| tx_version := 1; tx_ins := []; tx_outs := []; tx_locktime := 0 |}) = None.
Proof. exact Proofs.C29.zero_input_ambiguity. Qed.
Print Assumptions zero_input_ambiguity.

(* The transaction hash ignores witness data, for every hash function [Hf] put in the place of
   double SHA-256: its preimage is version ++ inputs ++ outputs ++ locktime, transactions that
   differ only in witness data have the same hash, and it is the witness hash of the stripped
   transaction. *)
Theorem hash_ignores_witness :
  forall (Hf : list N -> list N) (t t' : tx),
    strip_witness t = strip_witness t' -> tx_hash Hf t = tx_hash Hf t'.
Proof. exact Proofs.C29.hash_ignores_witness. Qed.
Print Assumptions hash_ignores_witness.

Theorem hash_preimage_has_no_witness :
  forall (Hf : list N -> list N) (t : tx),
    tx_hash Hf t = Hf (ser_version t ++ ser_inputs t ++ ser_outputs t ++ ser_locktime t) /\
    tx_hash Hf t = tx_witness_hash Hf (strip_witness t).
Proof. exact Proofs.C29.hash_preimage_has_no_witness. Qed.
Print Assumptions hash_preimage_has_no_witness.

(* SerializeInputs / SerializeOutputs never slice out of range and return exactly the input
   vector and the output vector of the full serialisation, which is the concatenation of the
   four parts (for all transactions, no limits needed). *)
Theorem parts_are_slices_of_whole :
  forall t : tx,
    Forall (fun ti => length (ti_hash ti) = 32%nat) (tx_ins t) ->
    serialize_inputs t = Some (ser_inputs t) /\
    serialize_outputs t = Some (ser_outputs t) /\
    serialize Standard t = ser_version t ++ ser_inputs t ++ ser_outputs t ++ ser_locktime t /\
    length (ser_version t) = 4%nat /\ length (ser_locktime t) = 4%nat.
Proof. exact Proofs.C29.parts_are_slices_of_whole. Qed.
Print Assumptions parts_are_slices_of_whole.

Theorem witness_format_parts :
  forall t : tx,
    serialize Witness t =
    if has_witness t
    then ser_version t ++ [0; 1] ++ ser_inputs t ++ ser_outputs t
         ++ flat_map ser_witness (tx_ins t) ++ ser_locktime t
    else serialize Standard t.
Proof. exact Proofs.C29.serialize_witness_parts. Qed.
Print Assumptions witness_format_parts.

(* Compact-size integers: every uint64 round-trips, whatever follows; an accepted encoding is
   the canonical (shortest) one, so decoding is injective; the announced size is the length. *)
Theorem compact_size_roundtrip :
  forall v rest, v < 2 ^ 64 -> cs_decode (cs_encode v ++ rest) = ROk v rest.
Proof. exact Proofs.C29.cs_roundtrip. Qed.
Print Assumptions compact_size_roundtrip.

Theorem compact_size_canonical :
  forall inp v rest, bytes_ok inp = true -> cs_decode inp = ROk v rest ->
    inp = cs_encode v ++ rest /\ v < 2 ^ 64 /\ bytes_ok rest = true.
Proof. exact Proofs.C29.cs_canonical. Qed.
Print Assumptions compact_size_canonical.

Theorem compact_size_length :
  forall v, cs_size v = N.of_nat (length (cs_encode v)).
Proof. exact Proofs.C29.cs_size_length. Qed.
Print Assumptions compact_size_length.

(* Hash strings round-trip in both byte orders (upper-case input is accepted and printed back
   in lower case); the two orders are related by reversal. *)
Theorem hash_hex_roundtrip :
  (forall h o, length h = 32%nat -> bytes_ok h = true ->
     new_hash_from_string (hash_hex h o) o = Some h) /\
  (forall s o h, new_hash_from_string s o = Some h ->
     hash_hex h o = map lower_char s /\ length h = 32%nat /\ bytes_ok h = true) /\
  (forall h, hash_hex h ReversedOrder = hash_hex (rev h) InternalOrder) /\
  (forall b, new_hash (rev b) ReversedOrder = new_hash b InternalOrder).
Proof. exact Proofs.C29.hash_hex_roundtrip. Qed.
Print Assumptions hash_hex_roundtrip.

(* Block headers: 80 bytes, both directions. *)
Theorem header_roundtrip :
  (forall h, header_wf h = true ->
     header_deserialize (header_serialize h) = h /\ length (header_serialize h) = 80%nat) /\
  (forall raw, length raw = 80%nat -> bytes_ok raw = true ->
     header_serialize (header_deserialize raw) = raw /\ header_wf (header_deserialize raw) = true).
Proof. exact Proofs.C29.header_roundtrip. Qed.
Print Assumptions header_roundtrip.

(* Length-prefixed scripts, both directions (a Go slice is shorter than 2^63 bytes). *)
Theorem var_len_script_roundtrip :
  (forall s, N.of_nat (length s) < 2 ^ 63 -> script_from_var_len (script_to_var_len s) = Some s) /\
  (forall d s, bytes_ok d = true -> script_from_var_len d = Some s -> script_to_var_len s = d).
Proof. split; [exact Proofs.C29.script_roundtrip|exact Proofs.C29.script_canonical]. Qed.
Print Assumptions var_len_script_roundtrip.

(* The executable form used by the correspondence check is sound, and it holds of the model's
   own outputs for every transaction. *)
Theorem spec_tx_sound :
  forall c : tx_case,
    spec_tx c = true ->
    let t := x_tx (tc_tx c) in
    tx_wf t = true -> tx_ins t <> [] ->
    (exists d, tc_deser_wit c = TOk d /\ x_tx d = t) /\
    (exists d, tc_deser_std c = TOk d /\ x_tx d = strip_witness t) /\
    (exists s v i o l, tc_ser_std c = OB s /\ tc_version c = OB v /\ tc_inputs c = OB i /\
                       tc_outputs c = OB o /\ tc_locktime c = OB l /\
                       expand s = expand v ++ expand i ++ expand o ++ expand l) /\
    tc_hash_is_std c = true /\ tc_whash_is_wit c = true /\ tc_hash_same c = true.
Proof. exact Proofs.C29.spec_tx_sound. Qed.
Print Assumptions spec_tx_sound.

Theorem model_outputs_pass_spec :
  forall c : ctx, spec_tx (model_case c) = true /\ agree_tx (model_case c) = true.
Proof. exact Proofs.C29.model_outputs_pass_spec. Qed.
Print Assumptions model_outputs_pass_spec.

(* ---- results are values: call histories ----
   [call] lists every function of the property that hands out a byte slice, a string or a
   structure holding slices; [call_result Hf] is the function each computes ([Hf] in the place of
   double SHA-256).  A history runs against the store of the results handed out so far
   ([step]: append the new result, touch nothing else).  The results of ANY history are the
   pure function mapped over the calls: a call's result depends on its own arguments only,
   neither on the calls before it nor on the calls after it. *)
Theorem history_is_map :
  forall (Hf : list N -> list N) (cs : list call),
    run_history Hf cs = map (call_result Hf) cs.
Proof. exact Proofs.C29.history_is_map. Qed.
Print Assumptions history_is_map.

(* whatever is called before and after, the holder of a result holds that call's own value;
   the results of a prefix are not changed by the rest; a store of older results is kept *)
Theorem history_results_are_values :
  forall (Hf : list N -> list N) (pre : list call) (c : call) (post : list call),
    nth_error (run_history Hf (pre ++ c :: post)) (length pre) = Some (call_result Hf c).
Proof. exact Proofs.C29.history_results_are_values. Qed.
Print Assumptions history_results_are_values.

Theorem history_prefix_stable :
  forall (Hf : list N -> list N) (pre post : list call) (store : list hres),
    firstn (length pre) (run_history Hf (pre ++ post)) = run_history Hf pre /\
    firstn (length store) (run_history_from Hf store post) = store.
Proof. intros; split; [apply Proofs.C29.history_prefix_stable|apply Proofs.C29.history_keeps_store]. Qed.
Print Assumptions history_prefix_stable.

(* the executable history property used by the correspondence check is sound: for every entry
   the result read again at the end of the history (after the later calls, a collection and
   the caller overwriting its argument buffers) is the result read right after the call, the
   call left its arguments alone, the value held at the end still round-trips, and a
   transaction hash held at the end is the digest ([Hf]; in the check: a table of double
   SHA-256 values computed with Go's crypto/sha256) of the transaction as it was when the call
   was made ... *)
Theorem hspec_ok_sound :
  forall (Hf : list N -> list N) (h : list hentry),
    hspec_ok Hf h = true ->
    forall e, In e h ->
      x_ores (he_late e) = x_ores (he_now e) /\
      he_input_kept e = true /\
      (forall s v, he_call e = HToVarLen s -> he_late e = OBytes v ->
         bytes_ok (expand s) = true -> len (expand s) < 2 ^ 63 ->
         script_from_var_len (expand v) = Some (expand s)) /\
      (forall f c b, he_call e = HSerialize f c -> he_late e = OBytes b ->
         tx_wf (x_tx c) = true -> tx_ins (x_tx c) <> [] ->
         deserialize (expand b)
         = Some (match f with Witness => x_tx c | Standard => strip_witness (x_tx c) end)) /\
      (forall v w, he_call e = HWriteCompact v -> he_late e = OBytes w -> v < two64 ->
         cs_decode (expand w) = ROk v []) /\
      (forall f c, he_call e = HTxHash f c ->
         x_ores (he_late e) = VBytes (Hf (serialize f (x_tx c)))).
Proof. exact Proofs.C29.hspec_ok_sound. Qed.
Print Assumptions hspec_ok_sound.

(* ... and it holds of the model's own results for every history *)
Theorem model_history_passes_spec :
  forall (Hf : list N -> list N) (cs : list call),
    hspec_ok Hf (model_hist Hf cs) = true /\ hagree_with Hf (model_hist Hf cs) = true.
Proof. exact Proofs.C29.model_history_passes_spec. Qed.
Print Assumptions model_history_passes_spec.
