(* C42 — Sortition pool status changes are only requested when permitted.
   ONLY property statements; proofs are in Proofs/C42.v. *)
From Coq Require Import List Bool ZArith.
From KV Require Import Model.C42 Proofs.C42.
Import ListNotations.

(* For every world (combination of chain answers, including query errors) and every join policy,
   one status check requests ... *)

(* ... joining exactly when the operator is known not to be in the pool, known to be out of
   date, the pool is known to be unlocked and the policy allows it *)
Theorem join_only_when_permitted : forall w p,
  In Join (fst (check_status w p)) <->
  in_pool w = AFalse /\ up_to_date w = AFalse /\ locked w = AFalse /\ should_join w p = true.
Proof. exact Proofs.C42.join_iff. Qed.
Print Assumptions join_only_when_permitted.

(* ... a status update exactly for an operator in an unlocked pool that is out of date *)
Theorem update_only_when_permitted : forall w p,
  In Update (fst (check_status w p)) <->
  in_pool w = ATrue /\ up_to_date w = AFalse /\ locked w = AFalse.
Proof. exact Proofs.C42.update_iff. Qed.
Print Assumptions update_only_when_permitted.

(* ... restoring reward eligibility exactly when the operator is in the pool, is known to be
   ineligible and the chain says eligibility can be restored *)
Theorem restore_only_when_permitted : forall w p,
  In Restore (fst (check_status w p)) <->
  in_pool w = ATrue /\ up_to_date w <> AErr /\ eligible w = AFalse /\ can_restore w = ATrue.
Proof. exact Proofs.C42.restore_iff. Qed.
Print Assumptions restore_only_when_permitted.

(* no request is made twice in one check *)
Theorem each_request_at_most_once : forall w p, NoDup (fst (check_status w p)).
Proof. exact Proofs.C42.requests_nodup. Qed.
Print Assumptions each_request_at_most_once.

(* a failing query stops everything that depends on it *)
Theorem query_error_no_later_request : forall w p,
  (in_pool w = AErr \/ up_to_date w = AErr -> fst (check_status w p) = []) /\
  (locked w = AErr -> ~ In Join (fst (check_status w p)) /\ ~ In Update (fst (check_status w p))).
Proof. exact Proofs.C42.query_error_no_later_request. Qed.
Print Assumptions query_error_no_later_request.

(* the monitor makes requests only for a registered operator *)
Theorem monitor_requests_only_if_registered : forall w p,
  fst (monitor_first w p) = match registered w with ATrue => fst (check_status w p) | _ => [] end.
Proof. exact Proofs.C42.monitor_requests. Qed.
Print Assumptions monitor_requests_only_if_registered.

(* join policies: a conjunction allows joining iff all of its parts do; the beta-operator policy
   allows it iff chaosnet is known to be over, or the operator is known to be a beta operator *)
Theorem conjunction_policy : forall w ps, should_join w (PConj ps) = forallb (should_join w) ps.
Proof. exact Proofs.C42.conj_policy. Qed.
Print Assumptions conjunction_policy.

Theorem beta_operator_policy : forall w,
  should_join w PBeta = true <-> chaosnet w = AFalse \/ (chaosnet w = ATrue /\ beta w = ATrue).
Proof. exact Proofs.C42.beta_policy. Qed.
Print Assumptions beta_operator_policy.

(* the executable form used on the implementation's observed requests is exactly the property ... *)
Theorem spec_ok_sound : forall w p txs,
  spec_ok w p txs = true <-> (forall t, In t txs -> permitted_prop w p t).
Proof. exact Proofs.C42.spec_ok_sound. Qed.
Print Assumptions spec_ok_sound.

(* ... and holds of every model output *)
Theorem model_passes_spec : forall w p, spec_ok w p (fst (monitor_first w p)) = true.
Proof. exact Proofs.C42.model_passes_spec. Qed.
Print Assumptions model_passes_spec.

(* ---- histories on ONE long-lived policy object (what MonitorPool does) ---- *)

(* a ShouldJoin call on the policy object answers the pure per-tick decision and leaves the whole
   object graph (nested conjunctions included) exactly as it was *)
Theorem should_join_leaves_policy_unchanged : forall w p,
  should_join_st w p = (should_join w p, p).
Proof. exact Proofs.C42.should_join_st_pure. Qed.
Print Assumptions should_join_leaves_policy_unchanged.

(* the model of MonitorPool's loop threads the policy object through the ticks; its output is
   nevertheless the per-tick decision mapped over the history: no memory across ticks *)
Theorem history_no_memory : forall p ws, history_st p ws = map (tick p) ws.
Proof. exact Proofs.C42.history_no_memory. Qed.
Print Assumptions history_no_memory.

Theorem history_past_future_irrelevant : forall p before after w,
  nth_error (history_st p (before ++ w :: after)) (length before) = Some (tick p w).
Proof. exact Proofs.C42.history_past_future_irrelevant. Qed.
Print Assumptions history_past_future_irrelevant.

Theorem monitor_history : forall reg p ws,
  monitor reg p ws = match reg with ATrue => (map (tick p) ws, false) | _ => ([], true) end.
Proof. exact Proofs.C42.monitor_history. Qed.
Print Assumptions monitor_history.

(* the property for every history: at every tick every request is permitted by THAT tick's
   answers (in pool / up to date / locked / policy / can-restore at that tick) *)
Theorem history_permitted : forall p ws i w o,
  nth_error ws i = Some w -> nth_error (history_st p ws) i = Some o ->
  forall t, In t (fst (fst o)) -> permitted_prop w p t.
Proof. exact Proofs.C42.history_permitted. Qed.
Print Assumptions history_permitted.

(* a conjunction joins at a tick only if every one of its parts says yes at that very tick *)
Theorem history_join_needs_every_part : forall ps ws i w o,
  nth_error ws i = Some w -> nth_error (history_st (PConj ps) ws) i = Some o ->
  In Join (fst (fst o)) ->
  in_pool w = AFalse /\ up_to_date w = AFalse /\ locked w = AFalse /\
  forall q, In q ps -> should_join w q = true.
Proof. exact Proofs.C42.history_join_needs_every_part. Qed.
Print Assumptions history_join_needs_every_part.

(* the policy is consulted only when the check reaches the joining decision *)
Theorem policy_consulted_only_when_needed : forall w p,
  asks_policy w = false -> tick p w = tick PUncond w.
Proof. exact Proofs.C42.policy_consulted_only_when_needed. Qed.
Print Assumptions policy_consulted_only_when_needed.

(* the executable history spec evaluated on the implementation's observed requests is exactly the
   history property, it holds of every model history, and the judge accepts every model history *)
Theorem hist_spec_sound : forall p steps,
  hist_spec p steps = true <->
  (forall s, In s steps -> forall t, In t (s_txs s) -> permitted_prop (s_world s) p t).
Proof. exact Proofs.C42.hist_spec_sound. Qed.
Print Assumptions hist_spec_sound.

Theorem model_passes_hist_spec : forall p ws, hist_spec p (map (model_step p) ws) = true.
Proof. exact Proofs.C42.model_passes_hist_spec. Qed.
Print Assumptions model_passes_hist_spec.

Theorem judge_accepts_model : forall p ws, ws <> [] ->
  judge {| c_registered := ATrue; c_policy := p; c_steps := map (model_step p) ws;
           c_monitor_err := false |} = Common.Verdict.Agree.
Proof. exact Proofs.C42.judge_accepts_model. Qed.
Print Assumptions judge_accepts_model.
