(* C18 — Delivered network messages are attributed to their authenticated author.
   ONLY property statements; proofs are in Proofs/C18.v.  The external functions are visible
   premises/parameters: [registry] (unmarshalersByType and the registered payload decoders),
   [decode_id] (identity.Unmarshal: protobuf + libp2p key decoding), [idOf]
   (peer.IDFromPublicKey), [to_op] (conversion to a secp256k1 operator key). *)
From Coq Require Import ZArith NArith List Bool.
From KV Require Import Common.Verdict Model.C18 Proofs.C18.
Import ListNotations.

(* A message is delivered iff its type is registered, its payload decodes, its inner identity
   decodes to a key whose peer ID is the authenticated author, and that key is an operator key;
   the delivered message carries the author, that key, the envelope's type and seqno. *)
Theorem delivered_iff :
  forall (Ty Payload Val Bytes Key Peer OpKey : Type)
         (registry : Ty -> option (Payload -> option Val)) (decode_id : Bytes -> option Key)
         (idOf : Key -> Peer) (to_op : Key -> option OpKey) (peer_eqb : Peer -> Peer -> bool),
    (forall a b, peer_eqb a b = true <-> a = b) ->
    forall (from : Peer) (e : envelope Ty Payload Bytes) (m : message Ty Val Peer OpKey),
      process Ty Payload Val Bytes Key Peer OpKey registry decode_id idOf to_op peer_eqb from e = Deliver m <->
      exists dec v k ok,
        registry (e_type e) = Some dec /\ dec (e_payload e) = Some v /\
        decode_id (e_sender e) = Some k /\ idOf k = from /\ to_op k = Some ok /\
        m = {| m_sender := from; m_payload := v; m_type := e_type e; m_key := ok; m_seqno := e_seqno e |}.
Proof. exact Proofs.C18.delivered_iff. Qed.
Print Assumptions delivered_iff.

(* The delivered sender is the authenticated author and the delivered public key is the key
   inside the envelope, whose peer ID is the author; when peer IDs determine keys it is the
   only key the author can have. *)
Theorem delivered_key_is_inner_key :
  forall (Ty Payload Val Bytes Key Peer OpKey : Type)
         (registry : Ty -> option (Payload -> option Val)) (decode_id : Bytes -> option Key)
         (idOf : Key -> Peer) (to_op : Key -> option OpKey) (peer_eqb : Peer -> Peer -> bool),
    (forall a b, peer_eqb a b = true <-> a = b) ->
    forall (from : Peer) (e : envelope Ty Payload Bytes) (m : message Ty Val Peer OpKey),
      process Ty Payload Val Bytes Key Peer OpKey registry decode_id idOf to_op peer_eqb from e = Deliver m ->
      m_sender m = from /\ m_seqno m = e_seqno e /\ m_type m = e_type e /\
      exists k, decode_id (e_sender e) = Some k /\ idOf k = from /\ to_op k = Some (m_key m) /\
                ((forall k1 k2, idOf k1 = idOf k2 -> k1 = k2) -> forall k', idOf k' = from -> k' = k).
Proof. exact Proofs.C18.delivered_key_is_inner_key. Qed.
Print Assumptions delivered_key_is_inner_key.

(* Why an envelope is dropped. *)
Theorem drop_reasons :
  forall (Ty Payload Val Bytes Key Peer OpKey : Type)
         (registry : Ty -> option (Payload -> option Val)) (decode_id : Bytes -> option Key)
         (idOf : Key -> Peer) (to_op : Key -> option OpKey) (peer_eqb : Peer -> Peer -> bool),
    (forall a b, peer_eqb a b = true <-> a = b) ->
    forall (from : Peer) (e : envelope Ty Payload Bytes) (r : drop_reason),
      process Ty Payload Val Bytes Key Peer OpKey registry decode_id idOf to_op peer_eqb from e = Drop r ->
      match r with
      | ErrType => registry (e_type e) = None
      | ErrPayload => exists dec, registry (e_type e) = Some dec /\ dec (e_payload e) = None
      | ErrIdentity => decode_id (e_sender e) = None
      | ErrMismatch => exists k, decode_id (e_sender e) = Some k /\ idOf k <> from
      | ErrKeyType => exists k, decode_id (e_sender e) = Some k /\ idOf k = from /\ to_op k = None
      end.
Proof. exact Proofs.C18.drop_reasons. Qed.
Print Assumptions drop_reasons.

(* A dropped envelope leaves every handler untouched and removing it from any sequence of
   envelopes changes nothing for the others. *)
Theorem drop_is_local :
  forall (Ty Payload Val Bytes Key Peer OpKey : Type)
         (registry : Ty -> option (Payload -> option Val)) (decode_id : Bytes -> option Key)
         (idOf : Key -> Peer) (to_op : Key -> option OpKey) (peer_eqb : Peer -> Peer -> bool)
         (hs : chan Ty Val Peer OpKey) (fe : Peer * envelope Ty Payload Bytes) (r : drop_reason),
    process Ty Payload Val Bytes Key Peer OpKey registry decode_id idOf to_op peer_eqb (fst fe) (snd fe) = Drop r ->
    step Ty Payload Val Bytes Key Peer OpKey registry decode_id idOf to_op peer_eqb hs fe = hs /\
    forall pre post,
      run Ty Payload Val Bytes Key Peer OpKey registry decode_id idOf to_op peer_eqb hs (pre ++ fe :: post) =
      run Ty Payload Val Bytes Key Peer OpKey registry decode_id idOf to_op peer_eqb hs (pre ++ post).
Proof. exact Proofs.C18.drop_is_local. Qed.
Print Assumptions drop_is_local.

(* Every handler receives exactly the deliverable envelopes' messages, each computed from its
   own envelope alone. *)
Theorem run_explicit :
  forall (Ty Payload Val Bytes Key Peer OpKey : Type)
         (registry : Ty -> option (Payload -> option Val)) (decode_id : Bytes -> option Key)
         (idOf : Key -> Peer) (to_op : Key -> option OpKey) (peer_eqb : Peer -> Peer -> bool)
         (es : list (Peer * envelope Ty Payload Bytes)) (hs : chan Ty Val Peer OpKey),
    run Ty Payload Val Bytes Key Peer OpKey registry decode_id idOf to_op peer_eqb hs es =
    map (fun q => q ++ filter_map
                        (delivered Ty Payload Val Bytes Key Peer OpKey registry decode_id idOf to_op peer_eqb) es) hs.
Proof. exact Proofs.C18.run_explicit. Qed.
Print Assumptions run_explicit.

(* ---- the executable form used by the correspondence check ---- *)
Theorem spec_ok_sound : forall c, spec_ok c = true ->
  forall h, In h (c_handlers c) ->
    (forall d, In d h -> attributed (c_registered c) (c_envs c) d) /\
    (forall e d, In e (c_envs c) -> allowed (c_registered c) e = Some d -> In d h).
Proof. exact Proofs.C18.spec_ok_sound. Qed.
Print Assumptions spec_ok_sound.

Theorem model_passes_spec : forall reg envs nh rt,
  (forall e, In e envs -> match c_inner e with Some i => i_pid i = i_peer i | None => True end) ->
  forallb roundtrip_ok rt = true ->
  let final := c_run reg (repeat [] nh) (map to_envelope envs) in
  spec_ok {| c_registered := reg; c_envs := envs;
             c_errs := map (fun fe => is_drop (c_process reg (fst fe) (snd fe))) (map to_envelope envs);
             c_handlers := map (map to_dmsg) final; c_roundtrip := rt |} = true.
Proof. exact Proofs.C18.model_passes_spec. Qed.
Print Assumptions model_passes_spec.
