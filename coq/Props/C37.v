(* C37 — Each distinct chain event is handled exactly once, even under concurrency.
   ONLY property statements; proofs are in Proofs/C37.v.

   The model (Model/C37.v) is the code after the two fix: commits.  A notify call is
   cache.Sweep() followed by cache.Add(key); these two critical sections of the TimeCache
   mutex are the atomic steps [OSweep] / [OAdd] of the machine, each stamped with the time it
   observes.  Theorems quantify over ALL finite sequences of such steps with non-decreasing
   time stamps, i.e. over every interleaving of any number of concurrent notify calls. *)
From Coq Require Import ZArith NArith List Bool String.
From KV Require Import Common.Verdict Model.C37 Proofs.C37.
Import ListNotations.
Open Scope Z_scope.

(* ---- one TimeCache: exactly one [true] per distinct key inside the caching period ---- *)
Theorem exactly_one_true_per_distinct_key :
  forall (span : Z) (ops : list cop) (now : Z),
    mono string unit now ops = true ->                         (* time never goes back *)
    (forall k t, In (OAdd k t) ops -> t - now <= span) ->      (* all within one caching period *)
    forall k : string,
      count_true string String.eqb k (cache_run span ops) =
      if delivered string unit String.eqb k ops then 1%nat else 0%nat.
Proof. exact Proofs.C37.cache_exactly_one. Qed.
Print Assumptions exactly_one_true_per_distinct_key.

(* the same, phrased over thread programs and their interleavings *)
Theorem exactly_one_true_all_interleavings :
  forall (span : Z) (threads : list (list cop)) (sched : list cop) (now : Z),
    Interleaving threads sched ->
    mono string unit now sched = true ->
    (forall k t, In (OAdd k t) (List.concat threads) -> t - now <= span) ->
    forall k : string,
      count_true string String.eqb k (cache_run span sched) =
      if delivered string unit String.eqb k (List.concat threads) then 1%nat else 0%nat.
Proof. exact Proofs.C37.cache_exactly_one_interleavings. Qed.
Print Assumptions exactly_one_true_all_interleavings.

(* ---- the cache keys are injective on events ---- *)
(* hex(seed) ":" hex(hash) ":" dec(int(block)) determines seed, hash and block — a statement
   about big.Int.Text(16), hex.EncodeToString and strconv.Itoa as modelled with Coq's
   HexadecimalString / DecimalString *)
Theorem key_injective :
  forall (s : Z) (h : list N) (b : N) (s' : Z) (h' : list N) (b' : N),
    Forall (fun x => (x < 256)%N) h -> Forall (fun x => (x < 256)%N) h' ->
    (b < 18446744073709551616)%N -> (b' < 18446744073709551616)%N ->
    key_dkg_result s h b = key_dkg_result s' h' b' -> s = s' /\ h = h' /\ b = b'.
Proof. exact Proofs.C37.key_dkg_result_injective. Qed.
Print Assumptions key_injective.

(* all four notify functions: within one cache, equal keys mean equal events *)
Theorem key_injective_all_events :
  forall e e' : ev,
    wf_ev e = true -> wf_ev e' = true -> cache_of e = cache_of e' -> key_of e = key_of e' -> e = e'.
Proof. exact Proofs.C37.key_of_injective. Qed.
Print Assumptions key_injective_all_events.

(* contrapositive, the form the correspondence check relies on: the judge compares the STRUCTURED
   events (seed, hash, block / wallet ID — [ev_eqb]), never their keys; two different events of one
   cache have different keys, so the model handles both *)
Theorem distinct_events_have_distinct_keys :
  forall e e' : ev,
    wf_ev e = true -> wf_ev e' = true -> cache_of e = cache_of e' -> e <> e' -> key_of e <> key_of e'.
Proof. exact Proofs.C37.distinct_events_distinct_keys. Qed.
Print Assumptions distinct_events_have_distinct_keys.

(* near-collisions: the DKG-result key changes whenever ONE hex digit of the seed (any position
   i, counted from the last digit, including positions beyond the current length: 0xab -> 0x1ab,
   0xab -> 0xb), ONE hex digit of the result hash (any of the 64, the last one next to the
   separator included), ONE decimal digit of the block, or the block as a whole changes *)
Theorem dkg_result_key_changes_with_any_single_digit :
  forall (s : Z) (h : list N) (b : N),
    bytes32 h = true -> (b < 18446744073709551616)%N ->
    (forall i v, v <> Z_nibble s i ->
       key_dkg_result (Z_set_nibble s i v) h b <> key_dkg_result s h b) /\
    (forall i v x, get_nibble h i = Some x -> (v < 16)%N -> v <> x ->
       key_dkg_result s (set_nibble h i v) b <> key_dkg_result s h b) /\
    (forall i v, v <> N_digit b i -> (N_set_digit b i v < 18446744073709551616)%N ->
       key_dkg_result s h (N_set_digit b i v) <> key_dkg_result s h b) /\
    (forall b', (b' < 18446744073709551616)%N -> b' <> b ->
       key_dkg_result s h b' <> key_dkg_result s h b).
Proof. exact Proofs.C37.key_dkg_result_single_digit. Qed.
Print Assumptions dkg_result_key_changes_with_any_single_digit.

(* the same for the DKG-started keys (tbtc and beacon) and the wallet-closed key *)
Theorem started_closed_keys_change_with_any_single_digit :
  (forall s i v, v <> Z_nibble s i ->
     key_of (DkgStarted (Z_set_nibble s i v)) <> key_of (DkgStarted s) /\
     key_of (BeaconDkgStarted (Z_set_nibble s i v)) <> key_of (BeaconDkgStarted s)) /\
  (forall id i v x, bytes32 id = true -> get_nibble id i = Some x -> (v < 16)%N -> v <> x ->
     key_of (WalletClosed (set_nibble id i v)) <> key_of (WalletClosed id)).
Proof. exact Proofs.C37.key_of_single_digit. Qed.
Print Assumptions started_closed_keys_change_with_any_single_digit.

(* not vacuous: every one of the 64 hex digits of a 32-byte string can be edited, and the
   edited string is again a 32-byte string *)
Theorem every_digit_of_a_hash_can_be_edited :
  forall (l : list N) (i : nat) (v : N),
    bytes32 l = true -> (i < 64)%nat -> (v < 16)%N ->
    (exists x, get_nibble l i = Some x) /\ bytes32 (set_nibble l i v) = true.
Proof.
  intros l i v Hl Hi Hv. split;
    [exact (Proofs.C37.bytes32_nibbles l i Hl Hi)|exact (Proofs.C37.set_nibble_bytes32 l i v Hv Hl)].
Qed.
Print Assumptions every_digit_of_a_hash_can_be_edited.

(* ---- the two deduplicators (four caches): per distinct EVENT ---- *)
Theorem exactly_one_true_per_distinct_event :
  forall (spans : list Z) (ops : list dop) (now : Z),
    Forall (fun o => match o with OAdd e _ => wf_ev e = true | OSweep _ _ => True end) ops ->
    mono ev N now ops = true ->
    (forall e t, In (OAdd e t) ops -> t - now <= span_of spans (cache_of e)) ->
    forall e : ev,
      count_true ev ev_eqb e (drun spans ops) =
      if delivered ev N ev_eqb e ops then 1%nat else 0%nat.
Proof. exact Proofs.C37.dedup_exactly_one. Qed.
Print Assumptions exactly_one_true_per_distinct_event.

(* beyond one caching period: the first delivery of an event is handled, and it is handled
   again only more than the caching period after the previous handled delivery *)
Theorem handled_again_only_after_period :
  forall (spans : list Z) (ops : list dop) (now : Z),
    Forall (fun o => match o with OAdd e _ => wf_ev e = true | OSweep _ _ => True end) ops ->
    mono ev N now ops = true ->
    forall l1 e t b l2, drun spans ops = (l1 ++ (e, t, b) :: l2)%list ->
      match last_true ev ev_eqb l1 e with
      | None => b = true
      | Some t0 => b = true -> span_of spans (cache_of e) < t - t0
      end.
Proof.
  intros spans ops now Hwf Hm.
  exact (Proofs.C37.trace_ok_sound ev N ev_eqb cache_of (span_of spans) _
           (Proofs.C37.dedup_model_trace_ok spans ops now Hwf Hm)).
Qed.
Print Assumptions handled_again_only_after_period.

(* ---- the executable form used by the correspondence check ---- *)
Theorem spec_ok_sound :
  forall c : case,
    spec_ok c = true ->
    c_panic c = false /\
    forall l1 e t b l2, observed (lin (c_hist c)) = (l1 ++ (e, t, b) :: l2)%list ->
      match last_true ev ev_eqb l1 e with
      | None => b = true
      | Some t0 => b = true -> span_of (c_spans c) (cache_of e) < t - t0
      end.
Proof. exact Proofs.C37.spec_ok_sound. Qed.
Print Assumptions spec_ok_sound.

Theorem model_outputs_pass_spec :
  forall c : case,
    well_formed c = true ->
    dtrace_ok (c_spans c) [] (drun (c_spans c) (ops_of (lin (c_hist c)))) = true.
Proof. exact Proofs.C37.model_outputs_pass_spec. Qed.
Print Assumptions model_outputs_pass_spec.

(* ---- the code before the fixes violated both halves (kept as documentation of the defects) ---- *)
(* Has and Add as separate steps: a schedule in which two deliveries of one event are both handled *)
Theorem old_check_then_add_refuted :
  exists sched, old_run [] [] sched = [(1%nat, true); (2%nat, true)].
Proof. exact Proofs.C37.old_check_then_add_race. Qed.
Print Assumptions old_check_then_add_refuted.

(* key without separators: two distinct DKG-result events with one key *)
Theorem old_key_injective_refuted :
  exists s h b s' h' b',
    bytes32 h = true /\ bytes32 h' = true /\
    (b < 18446744073709551616)%N /\ (b' < 18446744073709551616)%N /\
    (s, h, b) <> (s', h', b') /\ old_key_dkg_result s h b = old_key_dkg_result s' h' b'.
Proof. exact Proofs.C37.old_key_collision. Qed.
Print Assumptions old_key_injective_refuted.
