(* C39 — Pre-parameter pool never serves a parameter twice or an invalid one.
   ONLY property statements; proofs are in Proofs/C39.v.

   Model/C39.v is a machine of atomic micro steps of pkg/generator/pool.go (as repaired by the
   fix: commit): a worker's Save, its channel send or cancellation, GetNow's channel receive,
   GetNow's Delete + return, and crash + restart (NewParameterPool over what the storage
   holds).  A history is ANY list of micro steps: all interleavings of any number of workers
   and GetNow callers, every Save / Delete / ReadAll fault, a crash at every point.
   [hist_ok st0 ops] is the generator's contract: it never produces the same value twice nor
   one that the storage already holds at start ([NoDup (st0 ++ gens ops)]).

   Persistent storage faults (a fault window on Save / Delete / ReadAll that lasts d calls or
   forever, surviving restarts) only fix WHICH fault each micro step carries; the theorems below
   quantify over every fault at every micro step, so they hold for every persistent fault
   schedule ([driver_histories_are_histories]: a driver history with fault windows is the
   micro-step history [hist w ops]). *)
From Coq Require Import NArith List.
From KV Require Import Common.Verdict Model.C39 Proofs.C39.
Import ListNotations.

(* no value is handed out twice *)
Theorem no_value_handed_out_twice :
  forall (k : nat) (st0 : list N) (f : read_fault) (ops : list mop),
    NoDup (st0 ++ gens ops) ->
    NoDup (handed (mrun k (boot k st0 f) ops)).
Proof. exact Proofs.C39.no_value_handed_out_twice. Qed.
Print Assumptions no_value_handed_out_twice.

(* never a missing / invalid one: whatever is handed out was in the storage at start or was
   produced by the generator (a nil entry cannot even be represented: Model/C39.v models the
   repaired code, in which nothing but a successfully saved value is ever sent to the pool) *)
Theorem handed_values_are_genuine :
  forall (k : nat) (st0 : list N) (f : read_fault) (ops : list mop) (x : N),
    NoDup (st0 ++ gens ops) ->
    In x (handed (mrun k (boot k st0 f) ops)) -> In x (st0 ++ gens ops).
Proof. exact Proofs.C39.handed_values_are_genuine. Qed.
Print Assumptions handed_values_are_genuine.

(* the pool never holds more than its configured size (at the end of every history, hence
   at every point of every history) *)
Theorem pool_never_exceeds_capacity :
  forall (k : nat) (st0 : list N) (f : read_fault) (ops : list mop),
    NoDup (st0 ++ gens ops) ->
    length (pool (mrun k (boot k st0 f) ops)) <= k.
Proof. exact Proofs.C39.pool_never_exceeds_capacity. Qed.
Print Assumptions pool_never_exceeds_capacity.

(* the real order in GetNow is: channel receive, Delete, return.  A value is returned only by
   the step in which Delete succeeded, so it is out of the storage before the caller has it *)
Theorem handout_step_deleted_first :
  forall (k : nat) (s : mst) (o : mop) (s' : mst) (x : N),
    mstep k s o = (s', RVal x) ->
    (exists t, o = MDel t DelOk) /\ store s' = remove1 x (store s) /\
    handed s' = handed s ++ [x] /\ (NoDup (store s) -> ~ In x (store s')).
Proof. exact Proofs.C39.handout_step_deleted_first. Qed.
Print Assumptions handout_step_deleted_first.

(* ... and nothing that happens afterwards — faults, crashes, restarts at any point — brings
   a handed-out value back into the storage, the pool, a blocked sender or a caller's hands *)
Theorem handed_out_is_gone_for_good :
  forall (k : nat) (st0 : list N) (f : read_fault) (ops1 ops2 : list mop) (x : N),
    NoDup (st0 ++ gens (ops1 ++ ops2)) ->
    In x (handed (mrun k (boot k st0 f) ops1)) ->
    let s := mrun k (boot k st0 f) (ops1 ++ ops2) in
    ~ In x (store s) /\ ~ In x (pool s) /\ ~ In x (saved s) /\ ~ In x (map snd (getters s)).
Proof. exact Proofs.C39.handed_out_is_gone_for_good. Qed.
Print Assumptions handed_out_is_gone_for_good.

(* the operations the driver performs on the real pool, under any state [w] of the storage's
   fault windows, are such histories: running them is running their expansion into micro
   steps, and they generate the same values *)
Theorem driver_histories_are_histories :
  forall (k : nat) (ops : list op) (w : faults) (s : mst),
    crun k w s ops = mrun k s (hist w ops) /\
    gens (hist w ops) = flat_map op_gens ops.
Proof.
  intros k ops w s. split;
    [exact (Proofs.C39.driver_histories_are_histories k ops w s)|exact (Proofs.C39.gens_hist ops w)].
Qed.
Print Assumptions driver_histories_are_histories.

(* a fault window set to [Calls n] answers exactly the next n calls, one set to [Forever]
   answers every later call *)
Theorem window_lasts_exactly :
  forall n m : nat,
    active (ticks m (Calls (N.of_nat n))) = Nat.ltb m n /\
    active (ticks m Forever) = true.
Proof. exact Proofs.C39.window_lasts_exactly. Qed.
Print Assumptions window_lasts_exactly.

(* while the Delete window is open with an error, a GetNow that completes hands out nothing
   (pool.go makes one Delete attempt and returns its error) *)
Theorem failing_delete_hands_out_nothing :
  forall (k : nat) (w : faults) (s : mst) (t : N) (f : del_fault) (x : N),
    active (snd (fw_del w)) = true -> fst (fw_del w) <> DelOk ->
    snd (cstep k w s (GetEnd t f)) <> RVal x /\
    handed (fst (cstep k w s (GetEnd t f))) = handed s.
Proof. exact Proofs.C39.failing_delete_hands_out_nothing. Qed.
Print Assumptions failing_delete_hands_out_nothing.

(* ---- the executable form used by the correspondence check is sound and holds of the model ---- *)
Theorem spec_ok_sound :
  forall c : case,
    spec_ok c = true ->
    NoDup (handed_obs (obs_list c)) /\
    (forall x, In x (handed_obs (obs_list c)) -> In x (c_store0 c ++ case_gens c)) /\
    (forall ob, In ob (obs_list c) ->
       (o_count ob <= c_k c)%N /\ o_res ob <> RPanic /\ o_res ob <> RNil) /\
    (forall ob, In ob (obs_list c) -> o_kept ob = false) /\
    (forall l1 ob l2, obs_list c = l1 ++ ob :: l2 ->
       forall x, In x (handed_obs (l1 ++ [ob])) -> ~ In x (o_store ob)).
Proof. exact Proofs.C39.spec_ok_sound. Qed.
Print Assumptions spec_ok_sound.

Theorem model_passes_spec :
  forall (k : nat) (st0 : list N) (f : read_fault) (ops : list op),
    NoDup (st0 ++ flat_map op_gens ops) ->
    spec_ok (model_case k st0 f ops) = true.
Proof. exact Proofs.C39.model_passes_spec. Qed.
Print Assumptions model_passes_spec.
