(* C15 — Message-driven state machine never loses early messages or skips a state.
   ONLY property statements; proofs are in Proofs/C15.v.

   A trace is a list of events (Model/C15.v): environment events [EDeliver m acc], [ECancel] and
   machine events [MInit k snap], [MInitRet k], [MCan k b], [MRecv k m], [MNext k snap], [MDone o].
   [run types prog evs = Some s] says that evs is a possible behaviour of AsyncMachine.Execute on
   the state list prog: ANY interleaving of deliveries (early, duplicate, invalid), Initiate
   durations, ticks and cancellation points, and any resolution of Go's select.
   [admitted pre] = the messages some state admitted (Receive -> ReceiveToHistory) before; a
   snapshot is GetAllReceivedMessages for every message type. *)
From Coq Require Import ZArith NArith List Bool.
From KV Require Import Common.Verdict Model.C15 Proofs.C15.
Import ListNotations.
Open Scope N_scope.

(* the machine calls Next() of state k only as the k-th transition, after Initiate of state k
   returned without error and after a CanTransition call made after that return answered true,
   which it does only when the admitted messages satisfy the state's condition *)
Theorem advance_only_after_init_and_can_transition : forall types prog pre k snap post s,
  run types prog (pre ++ MNext k snap :: post) = Some s ->
  length (nexts pre) = k /\ length (initrets pre) = S k /\ dones pre = [] /\
  exists p q, pre = p ++ MCan k true :: q /\
              length (initrets p) = S k /\ a_init_err (nth_ast prog k) = false /\
              can_transition (nth_ast prog k) (admitted p) = true.
Proof. exact Proofs.C15.advance_only_after_init_and_can_transition. Qed.
Print Assumptions advance_only_after_init_and_can_transition.

(* CanTransition of state k is never called before Initiate of state k returned, never after a
   failed Initiate, never once Next(k) was called; its answer is determined by the history *)
Theorem can_transition_only_after_init : forall types prog pre k b post s,
  run types prog (pre ++ MCan k b :: post) = Some s ->
  length (initrets pre) = S k /\ length (nexts pre) = k /\ a_init_err (nth_ast prog k) = false /\
  b = can_transition (nth_ast prog k) (admitted pre).
Proof. exact Proofs.C15.can_transition_only_after_init. Qed.
Print Assumptions can_transition_only_after_init.

(* history_monotone: the history is exactly the admitted messages (none is ever dropped), every
   accepted delivery is either handed to a state or still buffered (FIFO, no loss, no
   duplication), the per-type history only grows, every snapshot a state takes is the full
   history so far, and each message goes to the state that is current *)
Theorem history_monotone : forall types prog evs s,
  run types prog evs = Some s ->
  hist s = admitted evs /\
  map snd (recvs evs) ++ abuf s = accepted evs /\
  (forall pre post, evs = pre ++ post ->
     forall ty, exists l, of_type ty (admitted evs) = of_type ty (admitted pre) ++ l) /\
  (forall pre k snap post, evs = pre ++ MInit k snap :: post \/ evs = pre ++ MNext k snap :: post ->
     snap = snapshot_of types (admitted pre)) /\
  (forall pre k m post, evs = pre ++ MRecv k m :: post ->
     length (nexts pre) = k /\ nth_error (accepted pre) (length (recvs pre)) = Some m).
Proof. exact Proofs.C15.history_monotone. Qed.
Print Assumptions history_monotone.

(* later states see messages delivered earlier: a valid message handed to ANY state j is in the
   history every later Initiate / Next observes (so a member lagging behind can still use the
   messages sent for later states) *)
Theorem later_states_see_earlier_messages : forall types prog pre1 j m mid_ k snap post s,
  (run types prog (pre1 ++ MRecv j m :: mid_ ++ MInit k snap :: post) = Some s \/
   run types prog (pre1 ++ MRecv j m :: mid_ ++ MNext k snap :: post) = Some s) ->
  mvalid m = true ->
  forall i ty, nth_error types i = Some ty -> mty m = ty ->
  exists l, nth_error snap i = Some l /\ In (C15.mid m) l.
Proof. exact Proofs.C15.later_states_see_earlier_messages. Qed.
Print Assumptions later_states_see_earlier_messages.

(* ends_final_or_error_or_cancel: Execute returns once, nothing of the machine is observed after,
   and the outcome is the final state after all Next() calls, or the error of a failed Initiate /
   Next, or a cancellation that really happened *)
Theorem ends_final_or_error_or_cancel : forall types prog pre o post s,
  run types prog (pre ++ MDone o :: post) = Some s ->
  dones pre = [] /\ forallb is_env post = true /\
  match o with
  | AFinal k => S k = length prog /\ length (nexts pre) = length prog /\
                a_next_err (nth_ast prog k) = false
  | AErrInit k => a_init_err (nth_ast prog k) = true /\ length (initrets pre) = S k /\
                  length (nexts pre) = k
  | AErrNext k => a_next_err (nth_ast prog k) = true /\ length (nexts pre) = S k
  | ACancelled => In ECancel pre
  end.
Proof. exact Proofs.C15.ends_final_or_error_or_cancel. Qed.
Print Assumptions ends_final_or_error_or_cancel.

(* state_sequence_is_prefix_of_program: states are initiated in program order 0,1,2,... each
   once, none skipped, and state k+1 is initiated only after Next(k) *)
Theorem state_sequence_is_prefix_of_program : forall types prog evs s,
  run types prog evs = Some s ->
  inits evs = seq 0 (length (inits evs)) /\ (length (inits evs) <= length prog)%nat /\
  nexts evs = seq 0 (length (nexts evs)) /\ initrets evs = seq 0 (length (initrets evs)) /\
  (length (nexts evs) <= length (inits evs) <= S (length (nexts evs)))%nat.
Proof. exact Proofs.C15.state_sequence_is_prefix_of_program. Qed.
Print Assumptions state_sequence_is_prefix_of_program.

(* soundness of the executable form evaluated on the implementation's observed trace *)
Theorem spec_sound : forall c, spec_ok c = true ->
  let types := c_types c in let prog := c_prog c in let evs := c_events c in
  (forall pre k snap post, evs = pre ++ MNext k snap :: post ->
     length (nexts pre) = k /\ length (initrets pre) = S k /\
     exists p q, pre = p ++ MCan k true :: q /\ length (initrets p) = S k /\
                 a_init_err (nth_ast prog k) = false /\
                 can_transition (nth_ast prog k) (admitted p) = true) /\
  (forall pre k snap post, evs = pre ++ MInit k snap :: post \/ evs = pre ++ MNext k snap :: post ->
     snap = snapshot_of types (admitted pre)) /\
  (forall pre k m post, evs = pre ++ MRecv k m :: post ->
     length (nexts pre) = k /\ nth_error (accepted pre) (length (recvs pre)) = Some m) /\
  (forall pre o post, evs = pre ++ MDone o :: post ->
     dones pre = [] /\ forallb is_env post = true /\
     match o with
     | AFinal k => S k = length prog /\ length (nexts pre) = length prog
     | AErrInit k => a_init_err (nth_ast prog k) = true /\ length (initrets pre) = S k
     | AErrNext k => a_next_err (nth_ast prog k) = true /\ length (nexts pre) = S k
     | ACancelled => In ECancel pre
     end) /\
  (inits evs = seq 0 (length (inits evs)) /\ (length (inits evs) <= length prog)%nat /\
   nexts evs = seq 0 (length (nexts evs))).
Proof. exact Proofs.C15.spec_sound. Qed.
Print Assumptions spec_sound.

(* ... and every trace of the model passes it *)
Theorem model_passes_spec : forall types prog evs s settled,
  run types prog evs = Some s ->
  spec_ok {| c_types := types; c_prog := prog; c_settled := settled; c_events := evs |} = true.
Proof. exact Proofs.C15.model_passes_spec. Qed.
Print Assumptions model_passes_spec.
