(* C15 — Message-driven state machine never loses early messages or skips a state.
   ONLY property statements; proofs are in Proofs/C15.v.

   A trace is a list of events (Model/C15.v): environment events [EDeliver m acc], [ECancel] and
   machine events [MInit k snap], [MInitRet k], [MCan k b], [MRecv k m], [MNext k snap], [MDone o].
   [run types prog evs = Some s] says that evs is a possible behaviour of AsyncMachine.Execute on
   the state list prog: ANY interleaving of deliveries (early, duplicate, invalid), Initiate
   durations, ticks and cancellation points, and any resolution of Go's select.
   [admitted pre] = the messages some state admitted (Receive -> ReceiveToHistory) before; a
   snapshot is GetAllReceivedMessages for every message type. *)
From Coq Require Import ZArith NArith List Bool.
From KV Require Import Common.Verdict Model.C15 Proofs.C15.
Import ListNotations.
Open Scope N_scope.

(* the machine calls Next() of state k only as the k-th transition, after Initiate of state k
   returned without error and after a CanTransition call made after that return answered true,
   which it does only when the admitted messages satisfy the state's condition *)
Theorem advance_only_after_init_and_can_transition : forall types prog pre k snap post s,
  run types prog (pre ++ MNext k snap :: post) = Some s ->
  length (nexts pre) = k /\ length (initrets pre) = S k /\ dones pre = [] /\
  exists p q, pre = p ++ MCan k true :: q /\
              length (initrets p) = S k /\ a_init_err (nth_ast prog k) = false /\
              can_transition (nth_ast prog k) (admitted p) = true.
Proof. exact Proofs.C15.advance_only_after_init_and_can_transition. Qed.
Print Assumptions advance_only_after_init_and_can_transition.

(* CanTransition of state k is never called before Initiate of state k returned, never after a
   failed Initiate, never once Next(k) was called; its answer is determined by the history *)
Theorem can_transition_only_after_init : forall types prog pre k b post s,
  run types prog (pre ++ MCan k b :: post) = Some s ->
  length (initrets pre) = S k /\ length (nexts pre) = k /\ a_init_err (nth_ast prog k) = false /\
  b = can_transition (nth_ast prog k) (admitted pre).
Proof. exact Proofs.C15.can_transition_only_after_init. Qed.
Print Assumptions can_transition_only_after_init.

(* history_monotone: the history is exactly the admitted messages (none is ever dropped), every
   accepted delivery is either handed to a state or still buffered (FIFO, no loss, no
   duplication), the per-type history only grows, every snapshot a state takes is the full
   history so far, and each message goes to the state that is current *)
Theorem history_monotone : forall types prog evs s,
  run types prog evs = Some s ->
  hist s = admitted evs /\
  map snd (recvs evs) ++ abuf s = accepted evs /\
  (forall pre post, evs = pre ++ post ->
     forall ty, exists l, of_type ty (admitted evs) = of_type ty (admitted pre) ++ l) /\
  (forall pre k snap post, evs = pre ++ MInit k snap :: post \/ evs = pre ++ MNext k snap :: post ->
     snap = snapshot_of types (admitted pre)) /\
  (forall pre k m post, evs = pre ++ MRecv k m :: post ->
     length (nexts pre) = k /\ nth_error (accepted pre) (length (recvs pre)) = Some m).
Proof. exact Proofs.C15.history_monotone. Qed.
Print Assumptions history_monotone.

(* later states see messages delivered earlier: a valid message handed to ANY state j is in the
   history every later Initiate / Next observes (so a member lagging behind can still use the
   messages sent for later states) *)
Theorem later_states_see_earlier_messages : forall types prog pre1 j m mid_ k snap post s,
  (run types prog (pre1 ++ MRecv j m :: mid_ ++ MInit k snap :: post) = Some s \/
   run types prog (pre1 ++ MRecv j m :: mid_ ++ MNext k snap :: post) = Some s) ->
  mvalid m = true ->
  forall i ty, nth_error types i = Some ty -> mty m = ty ->
  exists l, nth_error snap i = Some l /\ In (C15.mid m) l.
Proof. exact Proofs.C15.later_states_see_earlier_messages. Qed.
Print Assumptions later_states_see_earlier_messages.

(* ends_final_or_error_or_cancel: Execute returns once, nothing of the machine is observed after,
   and the outcome is the final state after all Next() calls, or the error of a failed Initiate /
   Next, or a cancellation that really happened *)
Theorem ends_final_or_error_or_cancel : forall types prog pre o post s,
  run types prog (pre ++ MDone o :: post) = Some s ->
  dones pre = [] /\ forallb is_env post = true /\
  match o with
  | AFinal k => S k = length prog /\ length (nexts pre) = length prog /\
                a_next_err (nth_ast prog k) = false
  | AErrInit k => a_init_err (nth_ast prog k) = true /\ length (initrets pre) = S k /\
                  length (nexts pre) = k
  | AErrNext k => a_next_err (nth_ast prog k) = true /\ length (nexts pre) = S k
  | ACancelled => In ECancel pre
  end.
Proof. exact Proofs.C15.ends_final_or_error_or_cancel. Qed.
Print Assumptions ends_final_or_error_or_cancel.

(* state_sequence_is_prefix_of_program: states are initiated in program order 0,1,2,... each
   once, none skipped, and state k+1 is initiated only after Next(k) *)
Theorem state_sequence_is_prefix_of_program : forall types prog evs s,
  run types prog evs = Some s ->
  inits evs = seq 0 (length (inits evs)) /\ (length (inits evs) <= length prog)%nat /\
  nexts evs = seq 0 (length (nexts evs)) /\ initrets evs = seq 0 (length (initrets evs)) /\
  (length (nexts evs) <= length (inits evs) <= S (length (nexts evs)))%nat.
Proof. exact Proofs.C15.state_sequence_is_prefix_of_program. Qed.
Print Assumptions state_sequence_is_prefix_of_program.

(* soundness of the executable form evaluated on the implementation's observed trace *)
Theorem spec_sound : forall c, spec_ok c = true ->
  let types := c_types c in let prog := c_prog c in let evs := c_events c in
  (forall pre k snap post, evs = pre ++ MNext k snap :: post ->
     length (nexts pre) = k /\ length (initrets pre) = S k /\
     exists p q, pre = p ++ MCan k true :: q /\ length (initrets p) = S k /\
                 a_init_err (nth_ast prog k) = false /\
                 can_transition (nth_ast prog k) (admitted p) = true) /\
  (forall pre k snap post, evs = pre ++ MInit k snap :: post \/ evs = pre ++ MNext k snap :: post ->
     snap = snapshot_of types (admitted pre)) /\
  (forall pre k m post, evs = pre ++ MRecv k m :: post ->
     length (nexts pre) = k /\ nth_error (accepted pre) (length (recvs pre)) = Some m) /\
  (forall pre o post, evs = pre ++ MDone o :: post ->
     dones pre = [] /\ forallb is_env post = true /\
     match o with
     | AFinal k => S k = length prog /\ length (nexts pre) = length prog
     | AErrInit k => a_init_err (nth_ast prog k) = true /\ length (initrets pre) = S k
     | AErrNext k => a_next_err (nth_ast prog k) = true /\ length (nexts pre) = S k
     | ACancelled => In ECancel pre
     end) /\
  (inits evs = seq 0 (length (inits evs)) /\ (length (inits evs) <= length prog)%nat /\
   nexts evs = seq 0 (length (nexts evs))).
Proof. exact Proofs.C15.spec_sound. Qed.
Print Assumptions spec_sound.

(* ... and every trace of the model passes it *)
Theorem model_passes_spec : forall types prog evs s settled,
  run types prog evs = Some s ->
  spec_ok {| c_types := types; c_prog := prog; c_settled := settled; c_events := evs |} = true.
Proof. exact Proofs.C15.model_passes_spec. Qed.
Print Assumptions model_passes_spec.

(* ================================================================== the bounded receive buffer
   [brun cap types prog ls = Some b]: ls is a behaviour of Execute with a receive buffer of cap
   slots (Model/C15.v, second half): the registered handler BLOCKS in [recvChan <- msg] until the
   channel has room ([LEnq]), returns afterwards ([LRet]); the loop pops one message ([LPop]) and
   passes it through Receive ([LEv (MRecv ..)]).  [erase ls] is the event log of the first half. *)

(* for every capacity, a run with the buffer is a run of the machine of the first half: every
   theorem above holds of the code with its 512-slot buffer *)
Theorem bounded_refines_unbounded : forall cap types prog ls b,
  brun cap types prog ls = Some b -> run types prog (erase ls) = Some (core b).
Proof. exact Proofs.C15.bounded_refines_unbounded. Qed.
Print Assumptions bounded_refines_unbounded.

(* at every point: delivered ++ popped ++ channel ++ blocked producers' messages = the messages
   handed to the handler, in order (none dropped, duplicated or reordered); the channel holds at
   most cap messages; the handler calls that returned or are returning are exactly the messages
   that entered the channel; the shared history is the admitted messages *)
Theorem bounded_buffer_fifo_no_drop : forall cap types prog ls b,
  brun cap types prog ls = Some b ->
  map snd (recvs (erase ls)) ++ inhand b ++ inchan b ++ blocked b = accepted (erase ls) /\
  (length (inchan b) <= cap)%nat /\ (length (inhand b) <= 1)%nat /\
  length (inhand b) = nhand b /\ length (inchan b) = nchan b /\
  (rets ls + unret b = length (recvs (erase ls)) + length (inhand b) + length (inchan b))%nat /\
  hist (core b) = admitted (erase ls).
Proof. exact Proofs.C15.bounded_buffer_fifo_no_drop. Qed.
Print Assumptions bounded_buffer_fifo_no_drop.

(* the producer blocks instead of dropping: a handler call returns only when its message has
   room, i.e. returns so far < completed Receive calls + cap + 1 *)
Theorem handler_returns_only_with_room : forall cap types prog pre post b,
  brun cap types prog (pre ++ LRet :: post) = Some b ->
  (S (rets pre) <= length (recvs (erase pre)) + cap + 1)%nat.
Proof. exact Proofs.C15.handler_returns_only_with_room. Qed.
Print Assumptions handler_returns_only_with_room.

(* for every capacity >= 1 a blocked producer is not blocked for good while the loop runs: the
   channel has room, or the loop can pop, or the popped message can go through Receive *)
Theorem producer_not_stuck : forall cap types prog ls b,
  (1 <= cap)%nat -> brun cap types prog ls = Some b ->
  mach_ (core b) = Running -> blocked b <> [] ->
  exists l, (l = LEnq \/ l = LPop \/ exists m, l = LEv (MRecv (cur (core b)) m)) /\
            bstep cap types prog b l <> None.
Proof. exact Proofs.C15.producer_not_stuck. Qed.
Print Assumptions producer_not_stuck.

(* soundness of the executable form for burst observations (any capacity; the judge uses the
   generated constant asyncReceiveBuffer) *)
Theorem burst_spec_sound : forall cap c, bspec_ok_cap cap c = true ->
  let H := expand (b_handed c) in let R := expand (b_received c) in
  (exists rest, H = R ++ rest) /\
  (b_drained c = true -> R = H) /\
  (forall pre post, expand_sched true (b_sched c) = pre ++ true :: post ->
     (S (cntT pre) <= cntF pre + cap + 1)%nat) /\
  map expand_ids (b_hist c) = snapshot_of (b_types c) (admitted_of R) /\
  match b_outcome c with
  | AFinal k => S k = length (b_prog c) /\
                forall s, In s (b_prog c) -> can_transition s (admitted_of R) = true
  | AErrInit k => a_init_err (nth_ast (b_prog c) k) = true
  | AErrNext k => a_next_err (nth_ast (b_prog c) k) = true
  | ACancelled => True
  end.
Proof. exact Proofs.C15.burst_spec_sound. Qed.
Print Assumptions burst_spec_sound.

(* ... and its checks hold of every run of the model with the buffer: Receive saw a prefix of
   what was handed over, all of it once the queue is empty, no handler call returned without room,
   the history is what the admitted messages give *)
Theorem bounded_model_passes_burst_checks : forall cap types prog ls b,
  brun cap types prog ls = Some b ->
  is_prefix (map snd (recvs (erase ls))) (accepted (erase ls)) = true /\
  sched_ok cap (sched_of ls) = true /\
  (abuf (core b) = [] -> map snd (recvs (erase ls)) = accepted (erase ls)) /\
  snapshot_of types (hist (core b)) = snapshot_of types (admitted_of (map snd (recvs (erase ls)))).
Proof. exact Proofs.C15.bounded_model_passes_burst_checks. Qed.
Print Assumptions bounded_model_passes_burst_checks.
