(* C11 — Retry-loop attempts have identical, non-overlapping block windows.
   ONLY property statements; proofs are in Proofs/C11.v.

   [sign_loop] / [dkg_loop] model signingRetryLoop.start and dkgRetryLoop.start (Model/C11.v):
   they run a SCRIPT (one [step] per loop iteration: what the current-block query, the block
   waiter, the announcer, the attempt function and the done checks answer, and when the context
   is cancelled) and return one [iter] record per iteration — every block number and attempt
   number the loop handed to its collaborators.  [sign_consts] / [dkg_consts] are the block
   constants GENERATED from pkg/tbtc/signing_loop.go and pkg/tbtc/dkg_loop.go on every run
   (Gen/Consts_C11.v).  The theorems hold for every script (= failure history, skipped attempts,
   late starts, current-block observations), every member-selection function, group, member,
   attempt limit and start block. *)
From Coq Require Import ZArith NArith List.
From KV Require Import Model.C09 Model.C10 Gen.Consts_C11 Model.C11 Proofs.C11.
Import ListNotations.
Open Scope Z_scope.

(* What one loop iteration may do, in terms of the window function only:
   window k s0 n = (ann_start k s0 n, ann_end k s0 n, timeout k s0 n)
   with att_start k s0 n = s0 + (n-1) * (delay + active + protocol + cooldown),
        ann_start = att_start + delay, ann_end = ann_start + active, timeout = ann_end + protocol. *)
Definition iter_window (sign : bool) (k : consts) (s0 : Z) (it : iter) : Prop :=
  (* the loop announces for attempt n only after a successful wait for ann_start n, under a
     cancel-on-block watcher for ann_end n, and (signing) after observing a current block < ann_end n *)
  (forall n r, i_ann it = Some (n, r) ->
     (1 <= n)%N /\ i_wait it = Some (ann_start k s0 n, true) /\
     In (ann_end k s0 n) (i_watch it) /\
     (sign = true -> exists c, i_cur it = Some (Some c) /\ c < ann_end k s0 n)) /\
  (* the done-check listener of attempt n gets timeout n *)
  (forall n tb l, i_listen it = Some (n, tb, l) ->
     tb = timeout k s0 n /\ exists r, i_ann it = Some (n, r)) /\
  (* the attempt function of attempt n gets start block ann_end n and timeout block timeout n *)
  (forall n sb tb ex ok, i_attempt it = Some (n, sb, tb, ex, ok) ->
     sb = ann_end k s0 n /\ tb = timeout k s0 n /\ exists r, i_ann it = Some (n, r)).

(* every later iteration begins its attempt (the announcement start block it waits for, minus the
   announcement delay) only after every timeout block handed out by an earlier iteration *)
Definition trace_disjoint (k : consts) (its : list iter) : Prop :=
  forall pre a mid b post, its = pre ++ a :: mid ++ b :: post ->
  forall tb w o, In tb (timeouts a) -> i_wait b = Some (w, o) -> tb < w - k_delay k.

(* ---- every member assigns attempt n the same announcement and timeout blocks: they are a
   function of the start block and n alone, whatever happened before ---- *)
Theorem window_function_of_n :
  forall (ops : list N) (count self limit : N) (select : N -> list N -> sel) (s0 : Z)
         (script : list step),
    (forall it, In it (fst (sign_loop sign_consts ops count self select script 0 s0 false)) ->
                iter_window true sign_consts s0 it) /\
    (forall it, In it (fst (dkg_loop dkg_consts count self limit select script 0 s0 false)) ->
                iter_window false dkg_consts s0 it).
Proof. exact Proofs.C11.window_function_of_n. Qed.
Print Assumptions window_function_of_n.

(* ---- attempt m > n begins only after attempt n has timed out: as arithmetic of the generated
   constants, and along every run of the loops ---- *)
Theorem windows_disjoint :
  (forall s0 n m, (n < m)%N ->
     timeout sign_consts s0 n < att_start sign_consts s0 m /\
     timeout dkg_consts s0 n < att_start dkg_consts s0 m) /\
  (forall (ops : list N) (count self limit : N) (select : N -> list N -> sel) (s0 : Z)
          (script : list step),
     trace_disjoint sign_consts
       (fst (sign_loop sign_consts ops count self select script 0 s0 false)) /\
     trace_disjoint dkg_consts
       (fst (dkg_loop dkg_consts count self limit select script 0 s0 false))).
Proof. exact Proofs.C11.windows_disjoint. Qed.
Print Assumptions windows_disjoint.

(* ---- a member only takes part in an attempt whose announcement phase has not passed ---- *)
Theorem participates_only_if_announce_open :
  forall (ops : list N) (count self limit : N) (select : N -> list N -> sel) (s0 : Z)
         (script : list step),
    (* signing: an announcement for attempt n is made only after observing a current block
       below the announcement end block of attempt n; done-check listening and the attempt
       function are reached only through that announcement *)
    (forall it, In it (fst (sign_loop sign_consts ops count self select script 0 s0 false)) ->
       (forall n r, i_ann it = Some (n, r) ->
          exists c, i_cur it = Some (Some c) /\ c < ann_end sign_consts s0 n) /\
       (forall n tb l, i_listen it = Some (n, tb, l) -> exists r, i_ann it = Some (n, r)) /\
       (forall n sb tb ex ok, i_attempt it = Some (n, sb, tb, ex, ok) ->
          exists r, i_ann it = Some (n, r))) /\
    (* key generation: the attempt function is reached only through the announcement of the same
       attempt, made after waiting for its announcement start block and under a watcher for its
       announcement end block (this loop observes no current block) *)
    (forall it, In it (fst (dkg_loop dkg_consts count self limit select script 0 s0 false)) ->
       forall n sb tb ex ok, i_attempt it = Some (n, sb, tb, ex, ok) ->
         exists r, i_ann it = Some (n, r) /\
                   i_wait it = Some (ann_start dkg_consts s0 n, true) /\
                   In (ann_end dkg_consts s0 n) (i_watch it)).
Proof. exact Proofs.C11.participates_only_if_announce_open. Qed.
Print Assumptions participates_only_if_announce_open.

(* ---- the executable form used by the correspondence check is sound ... ---- *)
Theorem spec_its_sound :
  forall (sign : bool) (k : consts) (s0 : Z) (its : list iter),
    spec_its sign k s0 its = true ->
    (forall it, In it its -> iter_window sign k s0 it) /\ trace_disjoint k its.
Proof. exact Proofs.C11.spec_its_sound. Qed.
Print Assumptions spec_its_sound.

(* ... and holds of every run of the model *)
Theorem model_traces_pass_spec :
  forall (ops : list N) (count self limit : N) (select : N -> list N -> sel) (s0 : Z)
         (script : list step),
    spec_its true sign_consts s0
             (fst (sign_loop sign_consts ops count self select script 0 s0 false)) = true /\
    spec_its false dkg_consts s0
             (fst (dkg_loop dkg_consts count self limit select script 0 s0 false)) = true.
Proof. exact Proofs.C11.model_traces_pass_spec. Qed.
Print Assumptions model_traces_pass_spec.

(* ---- the chain's TRUE height (not the loop's belief about it) ----
   [sees script hs]: hs gives the chain's height during every iteration of the script, and the
   scripted current-block query reports it whenever it answers (st_cur = Some c -> c = height);
   iterations whose query fails (st_cur = None) have a height all the same.
   [truth k s0 its hs]: every iteration that announces for attempt n runs while the chain is below
   the announcement end block of attempt n. *)
Fixpoint sees (script : list step) (hs : list Z) : Prop :=
  match script, hs with
  | [], _ => True
  | s :: t, h :: t' => (forall c, st_cur s = Some c -> c = h) /\ sees t t'
  | _ :: _, [] => False
  end.
Definition truth (k : consts) (s0 : Z) (its : list iter) (hs : list Z) : Prop :=
  Forall2 (fun it h => forall n r, i_ann it = Some (n, r) -> h < ann_end k s0 n) its hs.

(* whatever the failure history, late start, skipped attempts and failing current-block queries:
   the signing loop takes part in attempt n only while the chain is truly below ann_end n *)
Theorem model_respects_true_height :
  forall (ops : list N) (count self : N) (select : N -> list N -> sel) (s0 : Z)
         (script : list step) (hs : list Z),
    sees script hs ->
    let its := fst (sign_loop sign_consts ops count self select script 0 s0 false) in
    truth sign_consts s0 its (firstn (length its) hs).
Proof. exact Proofs.C11.model_respects_true_height. Qed.
Print Assumptions model_respects_true_height.

(* ---- the executable property evaluated on the implementation's observations ([spec_ok], which
   judges windows by [spec_its false] and participation by the true heights [c_truth]) is sound
   ... ---- *)
Theorem spec_ok_sound :
  forall c : case,
    spec_ok c = true ->
    (forall it, In it (c_its c) -> iter_window false (consts_of (c_kind c)) (c_start c) it) /\
    trace_disjoint (consts_of (c_kind c)) (c_its c) /\
    (c_kind c = KSign -> truth sign_consts (c_start c) (c_its c) (c_truth c)).
Proof. exact Proofs.C11.spec_ok_sound. Qed.
Print Assumptions spec_ok_sound.

(* ... and holds of every run of the model on a chain whose height the script reports truthfully *)
Theorem model_cases_pass_spec_ok :
  forall c : case,
    c_its c = fst (Concrete.run c) ->
    (exists hs, sees (c_script c) hs /\ c_truth c = firstn (length (c_its c)) hs) ->
    spec_ok c = true.
Proof. exact Proofs.C11.model_cases_pass_spec_ok. Qed.
Print Assumptions model_cases_pass_spec_ok.
