(* C13 — Result and claim support counts only valid, distinct, matching signatures.
   ONLY property statements; proofs are in Proofs/C13.v. *)
From Coq Require Import ZArith NArith List Bool Sorted Permutation.
From KV Require Import Model.C12 Model.C13 Proofs.C13.
Import ListNotations.
Open Scope N_scope.

(* The entry (i, s) of the support map is justified by a message of the history of arrivals:
   claimed index i, signature s, the receiver's own hash, signed with the key the sender uses on
   the network, that key's operator holds seat i, member i has not been excluded, same session,
   and the signature verifies. *)
Definition justified (addr_of : N -> N) (verify : N -> N -> N -> bool)
           (c : cfg) (raws : list raw) (i s : N) : Prop :=
  exists r, In r raws /\ r_idx r = i /\ r_sig r = s /\ r_hash r = f_hash c /\
            r_pubkey r = r_key r /\ r_session r = f_session c /\
            holds_index (f_ops c) i (addr_of (r_key r)) /\
            is_operating (f_grp c) i = true /\
            verify (r_hash r) (r_sig r) (r_key r) = true.

(* ---- for EVERY history of arriving messages (duplicates, conflicting hashes, invalid
        signatures, foreign keys, non-members, any order), every key-to-address function and
        every verification oracle, for the three protocols ---- *)

(* the support set = own signature + at most one signature per other member, each justified *)
Theorem support_sound :
  forall (addr_of : N -> N) (verify : N -> N -> N -> bool) (p : proto) (c : cfg) (raws : list raw),
    (length (f_ops c) <= 255)%nat ->
    (forall r, In r raws -> r_idx r < 256) ->
    let sigs := support addr_of verify p c raws in
    lookup (f_self c) sigs = Some (f_selfsig c) /\
    StronglySorted N.lt (map fst sigs) /\            (* one entry per member *)
    forall i s, In (i, s) sigs -> i <> f_self c -> justified addr_of verify c raws i s.
Proof. exact Proofs.C13.support_sound. Qed.
Print Assumptions support_sound.

(* beacon: exact characterisation — another member is in the set iff it has exactly one admitted
   message and that message carries the receiver's hash and a valid signature
   (a sender with more than one admitted message contributes nothing) *)
Theorem beacon_support_exact :
  forall (addr_of : N -> N) (verify : N -> N -> N -> bool) (c : cfg) (raws : list raw) i s,
    i <> f_self c ->
    (In (i, s) (support addr_of verify Beacon c raws) <->
     exists r, from i (history addr_of c raws) = [r] /\ r_sig r = s /\
               r_hash r = f_hash c /\ verify (r_hash r) (r_sig r) (r_pubkey r) = true).
Proof. exact Proofs.C13.beacon_support_exact. Qed.
Print Assumptions beacon_support_exact.

(* tecdsa result / inactivity claim: exact characterisation — the FIRST admitted message of a
   member decides *)
Theorem first_support_exact :
  forall (addr_of : N -> N) (verify : N -> N -> N -> bool) (p : proto) (c : cfg) (raws : list raw) i s,
    p <> Beacon ->
    i <> f_self c ->
    (In (i, s) (support addr_of verify p c raws) <->
     exists r, hd_error (from i (history addr_of c raws)) = Some r /\ r_sig r = s /\
               r_hash r = f_hash c /\ verify (r_hash r) (r_sig r) (r_pubkey r) = true).
Proof. exact Proofs.C13.first_support_exact. Qed.
Print Assumptions first_support_exact.

(* the order in which the other members' messages arrive does not matter for the beacon rule *)
Theorem beacon_order_irrelevant :
  forall (addr_of : N -> N) (verify : N -> N -> N -> bool) (c : cfg) (raws raws' : list raw),
    Permutation raws raws' ->
    support addr_of verify Beacon c raws = support addr_of verify Beacon c raws'.
Proof. exact Proofs.C13.beacon_order_irrelevant. Qed.
Print Assumptions beacon_order_irrelevant.

(* a member submits only when the set reaches the required threshold:
   beacon H + (N-H)/2, tbtc result: group quorum, inactivity claim: honest threshold;
   and then the set consists of that many DISTINCT members, each of which is the member itself
   or justified *)
Theorem submit_only_if_threshold :
  forall (addr_of : N -> N) (verify : N -> N -> N -> bool) (p : proto) (pa : params) (c : cfg)
         (raws : list raw) (env_ok : bool),
    (length (f_ops c) <= 255)%nat ->
    (forall r, In r raws -> r_idx r < 256) ->
    submits p pa (support addr_of verify p c raws) env_ok = true ->
    exists members : list N,
      NoDup members /\
      (threshold p pa <= Z.of_nat (length members))%Z /\
      forall i, In i members ->
        i = f_self c \/ exists s, justified addr_of verify c raws i s.
Proof. exact Proofs.C13.submit_only_if_threshold. Qed.
Print Assumptions submit_only_if_threshold.

(* ... and exactly then (as far as the gate is concerned): the submitter goes on to the chain iff
   the set has at least threshold entries and the later checks of the submitter (nobody submitted
   yet, chain state, context alive: [env_ok]) pass *)
Theorem submit_iff_threshold :
  forall (p : proto) (pa : params) (sigs : list (N * N)) (env_ok : bool),
    submits p pa sigs env_ok = true <-> ((threshold p pa <= count sigs)%Z /\ env_ok = true).
Proof. exact Proofs.C13.submit_iff_threshold. Qed.
Print Assumptions submit_iff_threshold.

Theorem beacon_threshold_value :
  forall pa, (0 <= p_honest pa <= p_gsize pa)%Z ->
    threshold Beacon pa = (p_honest pa + (p_gsize pa - p_honest pa) / 2)%Z /\
    (p_honest pa <= threshold Beacon pa <= p_gsize pa)%Z.
Proof. exact Proofs.C13.beacon_threshold_value. Qed.
Print Assumptions beacon_threshold_value.

(* ---- the executable form used by the correspondence check is sound, and holds of every
        model output ---- *)
Theorem support_ok_sound :
  forall (addr_of : N -> N) (verify : N -> N -> N -> bool) (c : cfg) (raws : list raw)
         (sigs : list (N * N)),
    support_ok_b addr_of verify c raws sigs = true ->
    lookup (f_self c) sigs = Some (f_selfsig c) /\
    StronglySorted N.lt (map fst sigs) /\
    forall i s, In (i, s) sigs -> i <> f_self c -> justified addr_of verify c raws i s.
Proof. exact Proofs.C13.support_ok_sound. Qed.
Print Assumptions support_ok_sound.

Theorem submit_ok_sound :
  forall (p : proto) (pa : params) (sigs l : list (N * N)),
    submit_ok_b p pa sigs (Some l) = true ->
    l = sigs /\ (threshold p pa <= count sigs)%Z.
Proof. exact Proofs.C13.submit_ok_sound. Qed.
Print Assumptions submit_ok_sound.

Theorem model_outputs_pass_spec :
  forall (addr_of : N -> N) (verify : N -> N -> N -> bool) (p : proto) (pa : params) (c : cfg)
         (raws : list raw) (env_ok : bool),
    (length (f_ops c) <= 255)%nat ->
    (forall r, In r raws -> r_idx r < 256) ->
    let sigs := support addr_of verify p c raws in
    support_ok_b addr_of verify c raws sigs = true /\
    submit_ok_b p pa sigs (if submits p pa sigs env_ok then Some sigs else None) = true.
Proof. exact Proofs.C13.model_outputs_pass_spec. Qed.
Print Assumptions model_outputs_pass_spec.
