(* C19 — Wire and storage decoding is total and round-trips.
   ONLY property statements; proofs are in Proofs/C19.v. *)
From Coq Require Import ZArith NArith List Bool.
From KV Require Import Common.Verdict Model.C19 Proofs.C19.
Import ListNotations.
Open Scope N_scope.

Theorem signer_before_fix_panics :
  forall parse, decode parse S_tbtc_signer_before_fix [] = Panic.
Proof. exact Proofs.C19.signer_before_fix_panics. Qed.
Print Assumptions signer_before_fix_panics.
