(* C19 — Wire and storage decoding is total and round-trips.
   ONLY property statements; proofs are in Proofs/C19.v.  The model (Model/C19.v) has two layers:
   the protobuf wire format as read by google.golang.org/protobuf ([tokenize] / [ser]) and, per
   message type, a schema with the transcribed glue of the hand-written Go Unmarshal ([decode] /
   [encode]); [parse] is the oracle for the key / point parsers (an arbitrary function).
   Well-formedness predicates (Proofs/C19.v): [wf_tok] = field number in [1, 2^29-1], varints
   below 2^64, fixed values of 4 / 8 bytes, payload lengths below 2^64; [wf_schema] = distinct
   field numbers in range; [wf_value parse s v] = one value per schema field with: member
   indexes <= 255, uint32 / uint64 in range, byte strings that pass the field's check and are
   fixpoints of the field's parser ([check parse c b = Some b]), valid UTF-8 strings, map keys
   <= 255 strictly increasing, all lengths below 2^64. *)
From Coq Require Import ZArith NArith List Bool.
From KV Require Import Common.Verdict Model.C19 Proofs.C19.
Import ListNotations.
Open Scope N_scope.

(* ---- the wire layer: what the writer produces, the reader reads back *)
Theorem varint_roundtrip :
  forall n r, n < two64 -> dec_varint (enc_varint n ++ r) = Some (n, r).
Proof. exact Proofs.C19.dec_enc_varint. Qed.
Print Assumptions varint_roundtrip.

Theorem wire_roundtrip :
  forall ts : list token, Forall wf_tok ts -> tokenize (ser ts) = Some ts.
Proof. exact Proofs.C19.tokenize_ser. Qed.
Print Assumptions wire_roundtrip.

Theorem big_endian_roundtrip : forall n, be_val (be_bytes n) = n.
Proof. exact Proofs.C19.be_val_be_bytes. Qed.
Print Assumptions big_endian_roundtrip.

(* ---- round trip, generically over message schemas and over every key parser: decoding the
   encoding of a well-formed value gives back that value *)
Theorem roundtrip :
  forall (parse : N -> list N -> option (list N)) (s : mschema) (v : list fval),
    wf_schema s -> wf_value parse s v -> decode parse s (encode s v) = Ok v.
Proof. exact Proofs.C19.roundtrip. Qed.
Print Assumptions roundtrip.

(* ---- totality, generically: a decoder whose glue never dereferences an absent sub-message
   returns a value or an error on EVERY byte string *)
Theorem decode_total :
  forall (parse : N -> list N -> option (list N)) (s : mschema) (bytes : list N),
    forallb no_panic_field (ms_fields s) = true -> decode parse s bytes <> Panic.
Proof. exact Proofs.C19.decode_total. Qed.
Print Assumptions decode_total.

(* ---- the modelled keep-core decoders (including the repaired tbtc signer) satisfy the
   premises of both theorems *)
Theorem modelled_decoders_total :
  forall parse s bytes, In s all_schemas -> decode parse s bytes <> Panic.
Proof. exact Proofs.C19.modelled_decoders_total. Qed.
Print Assumptions modelled_decoders_total.

Theorem modelled_decoders_roundtrip :
  forall parse s v, In s all_schemas -> wf_value parse s v -> decode parse s (encode s v) = Ok v.
Proof. exact Proofs.C19.modelled_decoders_roundtrip. Qed.
Print Assumptions modelled_decoders_roundtrip.

(* ---- the defect that the fix: commit repaired: with the dereference of the absent Wallet the
   empty byte string crashes the decoder, for every key parser *)
Theorem signer_before_fix_panics :
  forall parse, decode parse S_tbtc_signer_before_fix [] = Panic.
Proof. exact Proofs.C19.signer_before_fix_panics. Qed.
Print Assumptions signer_before_fix_panics.

(* ---- the executable form used by the correspondence check is sound and holds of the model *)
Theorem spec_gen_sound :
  forall k o valid, spec_gen k o valid = true ->
    o <> OPanic /\ (o = OOk -> valid = true) /\ (k = KRoundTrip -> o = OOk).
Proof. exact Proofs.C19.spec_gen_sound. Qed.
Print Assumptions spec_gen_sound.

Theorem model_outputs_pass_spec :
  forall parse s, In s all_schemas ->
    (forall bytes, spec_gen KCorrupt (class_of (decode parse s bytes)) true = true /\
                   spec_gen KRandom (class_of (decode parse s bytes)) true = true) /\
    (forall v, wf_value parse s v ->
               spec_gen KRoundTrip (class_of (decode parse s (encode s v))) true = true).
Proof. exact Proofs.C19.model_outputs_pass_spec. Qed.
Print Assumptions model_outputs_pass_spec.

(* ---- decoded values are independent: the round trip holds for a whole HISTORY of decodes.
   [decode_history parse s [b1; ...; bn]] is the model of "decode b1, ..., decode bn with the
   same decoder, then read all n decoded values back"; decoding being a function of the bytes
   alone, it is the list of the independent results. *)
Theorem roundtrip_history :
  forall (parse : N -> list N -> option (list N)) (s : mschema) (vs : list (list fval)),
    wf_schema s -> Forall (wf_value parse s) vs ->
    decode_history parse s (map (encode s) vs) = map Ok vs.
Proof. exact Proofs.C19.roundtrip_history. Qed.
Print Assumptions roundtrip_history.

(* position i holds the value encoded at position i, whatever else (values, rejected inputs,
   arbitrary bytes; earlier or later) the history contains *)
Theorem history_position :
  forall parse s (bs : list (list N)) (i : nat) (v : list fval),
    wf_schema s -> wf_value parse s v -> nth_error bs i = Some (encode s v) ->
    nth_error (decode_history parse s bs) i = Some (Ok v).
Proof. exact Proofs.C19.history_position. Qed.
Print Assumptions history_position.

Theorem history_prefix_stable :
  forall parse s (bs later : list (list N)),
    firstn (length bs) (decode_history parse s (bs ++ later)) = decode_history parse s bs.
Proof. exact Proofs.C19.history_prefix_stable. Qed.
Print Assumptions history_prefix_stable.

(* encodings of well-formed values interleaved with rejected inputs: the accepted values read
   back at the end are exactly the encoded ones, in order *)
Theorem history_rejected_interleaved :
  forall parse s (its : list hitem),
    wf_schema s ->
    Forall (fun it => match it with
                      | HVal v => wf_value parse s v
                      | HRaw b => forall v, decode parse s b <> Ok v
                      end) its ->
    accepted (decode_history parse s (map (hitem_bytes s) its)) = hitem_vals its.
Proof. exact Proofs.C19.history_rejected_interleaved. Qed.
Print Assumptions history_rejected_interleaved.

(* the executable form evaluated on the implementation's RE-READ observables: it implies that no
   step panicked and that every round-trip step still holds the value it was encoded from; for a
   history of round-trip steps it is exactly the conclusion of [roundtrip_history]; and it holds
   of every history produced by the model of a modelled decoder *)
Theorem spec_hist_sound :
  forall s orc steps, spec_hist s orc steps = true ->
    Forall (fun st => step_obs st <> Panic /\
                      (step_kind st = KRoundTrip -> exists v, step_orig st = Some v /\ step_obs st = Ok v)) steps.
Proof. exact Proofs.C19.spec_hist_sound. Qed.
Print Assumptions spec_hist_sound.

Theorem spec_hist_roundtrip_form :
  forall s orc steps (vs : list (list fval)),
    spec_hist s orc steps = true ->
    Forall (fun st => step_kind st = KRoundTrip) steps ->
    map step_orig steps = map Some vs ->
    map step_obs steps = map Ok vs.
Proof. exact Proofs.C19.spec_hist_roundtrip_form. Qed.
Print Assumptions spec_hist_roundtrip_form.

Theorem spec_hist_gen_sound :
  forall steps, spec_hist_gen steps = true ->
    Forall (fun st => match st with (k, o, valid) =>
              o <> OPanic /\ (o = OOk -> valid = true) /\ (k = KRoundTrip -> o = OOk) end) steps.
Proof. exact Proofs.C19.spec_hist_gen_sound. Qed.
Print Assumptions spec_hist_gen_sound.

Theorem model_history_passes_spec :
  forall orc s (its : list hitem),
    In s all_schemas ->
    Forall (fun it => match it with HVal v => wf_value (orc_lookup orc) s v | HRaw _ => True end) its ->
    spec_hist s orc (map (model_step (orc_lookup orc) s) its) = true.
Proof. exact Proofs.C19.model_history_passes_spec. Qed.
Print Assumptions model_history_passes_spec.
