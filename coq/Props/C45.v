(* C45 — Background pre-parameter generation pauses while a protocol runs.
   ONLY property statements; proofs are in Proofs/C45.v.

   Model/C45.v: [run (init nl) ops] is the state of a fresh scheduler with nl latches after ANY
   sequence of Lock / Unlock / Register / Compute / Iter / Check / CheckBegin / CheckStep.
   [live] are the worker contexts whose cancel functions the scheduler holds (not cancelled),
   a context is (worker, id); [Check] is a whole checkProtocols, [CheckBegin; CheckStep; ...]
   the same check with other operations between the questions it asks. *)
From Coq Require Import Arith NArith List.
From KV Require Import Common.Verdict Model.C45 Proofs.C45.
Import ListNotations.

(* in every reachable state: working <-> exactly one live context per registered worker (in
   registration order); stopped <-> no live context at all *)
Theorem one_live_context_per_worker_iff_working :
  forall (nl : nat) (ops : list op),
    let s := run (init nl) ops in
    (working s = true -> map fst (live s) = workers s) /\ (working s = false -> live s = []).
Proof. exact Proofs.C45.one_live_context_per_worker_iff_working. Qed.
Print Assumptions one_live_context_per_worker_iff_working.

(* a check that finds some registered latch counter > 0: stopped, no live worker context *)
Theorem check_with_executing_protocol_stops :
  forall (nl : nat) (ops : list op),
    let s := run (init nl) ops in
    chk s = None -> (exists p, In p (regs s) /\ (0 < latch s p)%N) ->
    snd (step s Check) = RDone /\ working (fst (step s Check)) = false /\ live (fst (step s Check)) = [].
Proof. exact Proofs.C45.check_with_executing_protocol_stops. Qed.
Print Assumptions check_with_executing_protocol_stops.

(* a check that finds all registered latch counters 0: working, exactly one live context per worker *)
Theorem check_with_no_executing_protocol_resumes :
  forall (nl : nat) (ops : list op),
    let s := run (init nl) ops in
    chk s = None -> regs s <> [] -> (forall p, In p (regs s) -> latch s p = 0%N) ->
    snd (step s Check) = RDone /\ working (fst (step s Check)) = true /\
    map fst (live (fst (step s Check))) = workers (fst (step s Check)) /\
    workers (fst (step s Check)) = workers s.
Proof. exact Proofs.C45.check_with_no_executing_protocol_resumes. Qed.
Print Assumptions check_with_no_executing_protocol_resumes.

(* nested executions are counted: a latch counter is Locks minus Unlocks of that latch,
   whatever else happens in between *)
Theorem latch_counts_locks_minus_unlocks :
  forall (ops : list op) (s : sched) (p : nat),
    (p < length (latches s))%nat -> latch (run s ops) p = depth p (latch s p) ops.
Proof. exact Proofs.C45.latch_counts_locks_minus_unlocks. Qed.
Print Assumptions latch_counts_locks_minus_unlocks.

(* ... so generation does not resume while any execution of a registered protocol is open *)
Theorem generation_stays_paused_while_an_execution_is_open :
  forall (nl : nat) (ops : list op) (p : nat),
    (p < nl)%nat ->
    let s := run (init nl) ops in
    chk s = None -> In p (regs s) -> (0 < depth p 0 ops)%N ->
    working (fst (step s Check)) = false /\ live (fst (step s Check)) = [].
Proof. exact Proofs.C45.generation_stays_paused_while_an_execution_is_open. Qed.
Print Assumptions generation_stays_paused_while_an_execution_is_open.

(* all interleavings of a check with Lock / Unlock / Compute / ...: if a registered latch is
   held in every state from the beginning of the check on, then whenever no check is in
   progress any more the scheduler is stopped with no live context *)
Theorem interleaved_check_stops :
  forall (nl : nat) (ops0 ops : list op) (p : nat),
    let s := run (init nl) ops0 in
    chk s = None -> In p (regs s) ->
    always (fun s => (0 < latch s p)%N) (fst (step s CheckBegin)) ops ->
    let s' := run s (CheckBegin :: ops) in
    chk s' = None -> working s' = false /\ live s' = [].
Proof. exact Proofs.C45.interleaved_check_stops. Qed.
Print Assumptions interleaved_check_stops.

(* ... and if no registered latch is held in any state from the beginning of the check on,
   it ends working with one live context per worker *)
Theorem interleaved_check_resumes :
  forall (nl : nat) (ops0 ops : list op),
    let s := run (init nl) ops0 in
    chk s = None -> regs s <> [] ->
    always (fun s => forall p, In p (regs s) -> latch s p = 0%N) (fst (step s CheckBegin)) ops ->
    let s' := run s (CheckBegin :: ops) in
    chk s' = None -> working s' = true /\ map fst (live s') = workers s'.
Proof. exact Proofs.C45.interleaved_check_resumes. Qed.
Print Assumptions interleaved_check_resumes.

(* the atomic check is the interleaved one with nothing in between *)
Theorem atomic_check_is_interleaved_check_without_interleaving :
  forall (nl : nat) (ops0 : list op),
    let s := run (init nl) ops0 in
    chk s = None ->
    let a := fst (step s Check) in
    let b := run s (CheckBegin :: repeat CheckStep (length (regs s))) in
    chk b = None /\ working b = working a /\ map fst (live b) = map fst (live a) /\ workers b = workers a.
Proof. exact Proofs.C45.atomic_check_is_interleaved_check_without_interleaving. Qed.
Print Assumptions atomic_check_is_interleaved_check_without_interleaving.

(* ---- the executable form used by the correspondence check is sound ---- *)
Theorem consistent_sound :
  forall ob : obs,
    consistent ob = true ->
    length (o_live ob) = N.to_nat (o_nworkers ob) /\
    (o_working ob = true -> o_stops ob = o_nworkers ob /\ Forall (fun n => n = 1%N) (o_live ob)) /\
    (o_working ob = false -> o_stops ob = 0%N /\ Forall (fun n => n = 0%N) (o_live ob)).
Proof. exact Proofs.C45.consistent_sound. Qed.
Print Assumptions consistent_sound.

Theorem check_verdict_sound :
  forall (rg : list nat) (w : list bool * bool) (ob : obs),
    check_verdict rg w ob = true -> rg <> [] ->
    ((exists p, In p rg /\ nth p (fst w) false = true) -> o_working ob = false) /\
    ((forall p, In p rg -> nth p (fst w) false = false) -> snd w = true -> o_working ob = true).
Proof. exact Proofs.C45.check_verdict_sound. Qed.
Print Assumptions check_verdict_sound.
