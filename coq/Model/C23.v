(* C23 — executable model of pkg/tbtc/coordination.go: coordinationWindow.index / isAfter and
   the loop of watchCoordinationWindows (the caller in node.go passes blockCounter.WatchBlocks
   and a callback that starts the coordination procedures).

   A stream is the list of block numbers the watcher CONSUMED from the block channel, in
   order; cancelling the context just ends the stream (the blocks the watcher never received
   are not part of it).  The watcher's state is [lastWindow] (None = the Go nil pointer).
   Block numbers are Go uint64 values: 0 <= b < 2^64, so Go's % and / are Z.modulo and Z.div.
   The window frequency is NOT typed here: it is the generated constant
   Gen.Consts_C23.coordinationFrequencyBlocks (Concrete section at the end). *)
From Coq Require Import ZArith List Bool.
From KV Require Import Common.Verdict Gen.Consts_C23.
Import ListNotations.
Open Scope Z_scope.

(* coordinationWindow.index *)
Definition index (f b : Z) : Z := if b mod f =? 0 then b / f else 0.

(* coordinationWindow.isAfter; [None] is the nil window *)
Definition is_after (b : Z) (other : option Z) : bool :=
  match other with None => true | Some o => o <? b end.

(* one iteration of the select loop that received block [b]: the new lastWindow and the
   windows for which `go onWindowFn(window)` was executed in this iteration *)
Definition step (f : Z) (last : option Z) (b : Z) : option Z * list Z :=
  if 0 <? index f b then
    if is_after b last then (Some b, [b]) else (last, [])
  else (last, []).

(* the callbacks started at each consumed block *)
Fixpoint run_from (f : Z) (last : option Z) (stream : list Z) : list (list Z) :=
  match stream with
  | [] => []
  | b :: t => let '(last', out) := step f last b in out :: run_from f last' t
  end.
Definition run (f : Z) (stream : list Z) : list (list Z) := run_from f None stream.

(* every window started, in the order of the `go` statements *)
Definition fired (f : Z) (stream : list Z) : list Z := concat (run f stream).

(* the watcher's state after a stream *)
Fixpoint last_after (f : Z) (last : option Z) (stream : list Z) : option Z :=
  match stream with
  | [] => last
  | b :: t => last_after f (fst (step f last b)) t
  end.

(* ---------- executable form of the property, evaluated on the implementation's outputs ------ *)
(* [b] starts a window: a positive multiple of the frequency *)
Definition is_window_start (f b : Z) : bool := (b mod f =? 0) && (0 <? b).

Fixpoint list_eqb (a b : list Z) : bool :=
  match a, b with
  | [], [] => true
  | x :: a', y :: b' => (x =? y) && list_eqb a' b'
  | _, _ => false
  end.

(* what must be started when block [b] is consumed after the blocks [seen] (any order):
   exactly window [b], and only if [b] starts a window later than every window start seen *)
Definition expected (f : Z) (seen : list Z) (b : Z) : list Z :=
  if is_window_start f b && forallb (fun x => negb (is_window_start f x) || (x <? b)) seen
  then [b] else [].

(* steps = (consumed block, windows started right after it was consumed) *)
Fixpoint steps_ok (f : Z) (seen : list Z) (steps : list (Z * list Z)) : bool :=
  match steps with
  | [] => true
  | (b, out) :: t => list_eqb out (expected f seen b) && steps_ok f (b :: seen) t
  end.

Fixpoint lists_eqb (a b : list (list Z)) : bool :=
  match a, b with
  | [], [] => true
  | x :: a', y :: b' => list_eqb x y && lists_eqb a' b'
  | _, _ => false
  end.

Definition two64 : Z := 18446744073709551616.
Definition is_u64 (z : Z) : bool := (0 <=? z) && (z <? two64).

Inductive case :=
| CStream (steps : list (Z * list Z))          (* real watchCoordinationWindows on a scripted channel *)
| CIndex (b idx : Z)                            (* coordinationWindow.index *)
| CIsAfter (b : Z) (other : option Z) (r : bool). (* coordinationWindow.isAfter *)

Section Judge.
  Variable f : Z.

  Definition spec_ok (c : case) : bool :=
    match c with
    | CStream steps => steps_ok f [] steps
    | CIndex b idx => if is_window_start f b then (0 <? idx) && (idx * f =? b) else idx =? 0
    | CIsAfter b other r =>
        Bool.eqb r (match other with None => true | Some o => o <? b end)
    end.

  Definition agree (c : case) : bool :=
    match c with
    | CStream steps => lists_eqb (map snd steps) (run f (map fst steps))
    | CIndex b idx => idx =? index f b
    | CIsAfter b other r => Bool.eqb r (is_after b other)
    end.

  Definition well_formed (c : case) : bool :=
    match c with
    | CStream steps => forallb (fun s => is_u64 (fst s)) steps
    | CIndex b _ => is_u64 b
    | CIsAfter b other _ => is_u64 b && match other with None => true | Some o => is_u64 o end
    end.

  Definition judge_with (c : case) : verdict :=
    if well_formed c then decide (spec_ok c) (agree c) else BadCase.

  Definition explain_with (c : case) : list (list Z) :=
    match c with
    | CStream steps => run f (map fst steps)
    | CIndex b _ => [[index f b]]
    | CIsAfter b other _ => [[if is_after b other then 1 else 0]]
    end.
End Judge.

(* the instance tied to /repo: the frequency is the translated Go constant *)
Definition freq : Z := coordinationFrequencyBlocks.
Definition judge : case -> verdict := judge_with freq.
Definition explain : case -> list (list Z) := explain_with freq.
