(* C23 — executable model of pkg/tbtc/coordination.go: coordinationWindow.index / isAfter and
   the loop of watchCoordinationWindows (the caller in node.go passes blockCounter.WatchBlocks
   and a callback that starts the coordination procedures).

   A stream is the list of block numbers the watcher CONSUMED from the block channel, in
   order; cancelling the context just ends the stream (the blocks the watcher never received
   are not part of it).  The watcher's state is [lastWindow] (None = the Go nil pointer).
   Block numbers are Go uint64 values: 0 <= b < 2^64, so Go's % and / are Z.modulo and Z.div.
   The window frequency is NOT typed here: it is the generated constant
   Gen.Consts_C23.coordinationFrequencyBlocks (Concrete section at the end). *)
From Coq Require Import ZArith List Bool.
From KV Require Import Common.Verdict Gen.Consts_C23.
Import ListNotations.
Open Scope Z_scope.

(* coordinationWindow.index *)
Definition index (f b : Z) : Z := if b mod f =? 0 then b / f else 0.

(* coordinationWindow.isAfter; [None] is the nil window *)
Definition is_after (b : Z) (other : option Z) : bool :=
  match other with None => true | Some o => o <? b end.

(* one iteration of the select loop that received block [b]: the new lastWindow and the
   windows for which `go onWindowFn(window)` was executed in this iteration *)
Definition step (f : Z) (last : option Z) (b : Z) : option Z * list Z :=
  if 0 <? index f b then
    if is_after b last then (Some b, [b]) else (last, [])
  else (last, []).

(* the callbacks started at each consumed block *)
Fixpoint run_from (f : Z) (last : option Z) (stream : list Z) : list (list Z) :=
  match stream with
  | [] => []
  | b :: t => let '(last', out) := step f last b in out :: run_from f last' t
  end.
Definition run (f : Z) (stream : list Z) : list (list Z) := run_from f None stream.

(* every window started, in the order of the `go` statements *)
Definition fired (f : Z) (stream : list Z) : list Z := concat (run f stream).

(* the watcher's state after a stream *)
Fixpoint last_after (f : Z) (last : option Z) (stream : list Z) : option Z :=
  match stream with
  | [] => last
  | b :: t => last_after f (fst (step f last b)) t
  end.

(* ---------- executable form of the property, evaluated on the implementation's outputs ------ *)
(* [b] starts a window: a positive multiple of the frequency *)
Definition is_window_start (f b : Z) : bool := (b mod f =? 0) && (0 <? b).

Fixpoint list_eqb (a b : list Z) : bool :=
  match a, b with
  | [], [] => true
  | x :: a', y :: b' => (x =? y) && list_eqb a' b'
  | _, _ => false
  end.

(* what must be started when block [b] is consumed after the blocks [seen] (any order):
   exactly window [b], and only if [b] starts a window later than every window start seen *)
Definition expected (f : Z) (seen : list Z) (b : Z) : list Z :=
  if is_window_start f b && forallb (fun x => negb (is_window_start f x) || (x <? b)) seen
  then [b] else [].

(* steps = (consumed block, windows started right after it was consumed) *)
Fixpoint steps_ok (f : Z) (seen : list Z) (steps : list (Z * list Z)) : bool :=
  match steps with
  | [] => true
  | (b, out) :: t => list_eqb out (expected f seen b) && steps_ok f (b :: seen) t
  end.

Fixpoint lists_eqb (a b : list (list Z)) : bool :=
  match a, b with
  | [], [] => true
  | x :: a', y :: b' => list_eqb x y && lists_eqb a' b'
  | _, _ => false
  end.

(* ---------- the whole LIFE of one watcher: the block source may CLOSE the channel ----------
   watchCoordinationWindows calls watchBlocksFn exactly once, before the loop, and never
   again.  When the source closes that channel, `block := <-blocksChan` (no `ok` test) yields
   the zero value at once, every time: the loop keeps executing iterations with block 0 —
   [step f last 0], which starts nothing and leaves lastWindow alone (Proofs: step_zero) —
   until the context is cancelled (select picks <-ctx.Done() with probability 1/2 at every
   iteration).  It busy-spins, it does not re-subscribe.  So a history of the block source is
   a list of events; whatever the source offers on a further subscription after a close is
   never received ([None]): there is no such subscription. *)
Inductive event := EBlock (b : Z) | EClose.

(* per event: [Some out] = the watcher received it (a block, or the closure in the form of
   zero-value reads) and started [out]; [None] = the watcher never received it *)
Fixpoint life_from (f : Z) (last : option Z) (closed : bool) (h : list event)
  : list (option (list Z)) :=
  match h with
  | [] => []
  | EBlock b :: t =>
      if closed then None :: life_from f last true t
      else let '(last', out) := step f last b in Some out :: life_from f last' false t
  | EClose :: t =>
      if closed then None :: life_from f last true t
      else let '(last', out) := step f last 0 in Some out :: life_from f last' true t
  end.
Definition life (f : Z) (h : list event) : list (option (list Z)) := life_from f None false h.

(* every window started over the whole life, in start order *)
Fixpoint started_all {E} (obs : list (E * option (list Z))) : list Z :=
  match obs with
  | [] => []
  | (_, Some out) :: t => out ++ started_all t
  | (_, None) :: t => started_all t
  end.
(* the blocks the watcher received over its whole life, with what each started *)
Fixpoint consumed (obs : list (event * option (list Z))) : list (Z * list Z) :=
  match obs with
  | [] => []
  | (EBlock b, Some out) :: t => (b, out) :: consumed t
  | _ :: t => consumed t
  end.

(* the property over the WHOLE life, whatever the watcher does about closed channels (spin,
   stop or re-subscribe): a received block starts exactly its window, and only if it is a
   window start later than every window start received before ON ANY SUBSCRIPTION; a closure
   and an event that was not received start nothing *)
Fixpoint life_ok (f : Z) (seen : list Z) (obs : list (event * option (list Z))) : bool :=
  match obs with
  | [] => true
  | (EBlock b, Some out) :: t => list_eqb out (expected f seen b) && life_ok f (b :: seen) t
  | (EBlock _, None) :: t => life_ok f seen t
  | (EClose, Some out) :: t => list_eqb out [] && life_ok f seen t
  | (EClose, None) :: t => life_ok f seen t
  end.

Definition opt_list_eqb (a b : option (list Z)) : bool :=
  match a, b with
  | None, None => true
  | Some x, Some y => list_eqb x y
  | _, _ => false
  end.
Fixpoint opt_lists_eqb (a b : list (option (list Z))) : bool :=
  match a, b with
  | [], [] => true
  | x :: a', y :: b' => opt_list_eqb x y && opt_lists_eqb a' b'
  | _, _ => false
  end.
Definition event_u64 (is_u64 : Z -> bool) (e : event) : bool :=
  match e with EBlock b => is_u64 b | EClose => true end.

Definition two64 : Z := 18446744073709551616.
Definition is_u64 (z : Z) : bool := (0 <=? z) && (z <? two64).

Inductive case :=
| CStream (steps : list (Z * list Z))          (* real watchCoordinationWindows on a scripted channel *)
| CLife (obs : list (event * option (list Z))) (* one watcher, channels closed by the source, new
                                                  subscriptions handed out on demand *)
| CIndex (b idx : Z)                            (* coordinationWindow.index *)
| CIsAfter (b : Z) (other : option Z) (r : bool). (* coordinationWindow.isAfter *)

Section Judge.
  Variable f : Z.

  Definition spec_ok (c : case) : bool :=
    match c with
    | CStream steps => steps_ok f [] steps
    | CLife obs => life_ok f [] obs
    | CIndex b idx => if is_window_start f b then (0 <? idx) && (idx * f =? b) else idx =? 0
    | CIsAfter b other r =>
        Bool.eqb r (match other with None => true | Some o => o <? b end)
    end.

  Definition agree (c : case) : bool :=
    match c with
    | CStream steps => lists_eqb (map snd steps) (run f (map fst steps))
    | CLife obs => opt_lists_eqb (map snd obs) (life f (map fst obs))
    | CIndex b idx => idx =? index f b
    | CIsAfter b other r => Bool.eqb r (is_after b other)
    end.

  Definition well_formed (c : case) : bool :=
    match c with
    | CStream steps => forallb (fun s => is_u64 (fst s)) steps
    | CLife obs => forallb (fun s => event_u64 is_u64 (fst s)) obs
    | CIndex b _ => is_u64 b
    | CIsAfter b other _ => is_u64 b && match other with None => true | Some o => is_u64 o end
    end.

  Definition judge_with (c : case) : verdict :=
    if well_formed c then decide (spec_ok c) (agree c) else BadCase.

  Definition explain_with (c : case) : list (list Z) :=
    match c with
    | CStream steps => run f (map fst steps)
    | CLife obs => map (fun o => match o with Some out => out | None => [-1] end)
                       (life f (map fst obs))
    | CIndex b _ => [[index f b]]
    | CIsAfter b other _ => [[if is_after b other then 1 else 0]]
    end.
End Judge.

(* the instance tied to /repo: the frequency is the translated Go constant *)
Definition freq : Z := coordinationFrequencyBlocks.
Definition judge : case -> verdict := judge_with freq.
Definition explain : case -> list (list Z) := explain_with freq.
