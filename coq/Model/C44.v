(* C44 — executable model of config/config.go (ReadConfig, resolveNetworks, validateConfig),
   config/peers.go (resolvePeers), config/electrum.go (resolveElectrum), config/contracts.go
   (resolveContractsAddresses), config/network/network.go and of the way cmd/flags.go selects the
   network, AS WRITTEN.  Strings are small identifiers (N), 0 is the empty string.  What is
   embedded in the build (default peers, Electrum URLs, contract addresses) is an explicit
   environment; the random pick of an Electrum server is an oracle argument. *)
From Coq Require Import NArith List Bool Arith.
From KV Require Import Common.Verdict.
Import ListNotations.
Open Scope N_scope.

Definition str := N.

(* ---------- config/network/network.go ---------- *)
Inductive net := NUnknown | NMainnet | NTestnet | NDeveloper.          (* network.Type *)
Inductive ethnet := EUnknown | EMainnet | ESepolia | EDeveloper.       (* keep-common ethereum.Network *)
Inductive btcnet := BUnknown | BMainnet | BTestnet | BRegtest.         (* bitcoin.Network *)

Definition net_eth (n : net) : ethnet :=
  match n with NUnknown => EUnknown | NMainnet => EMainnet | NTestnet => ESepolia | NDeveloper => EDeveloper end.
Definition net_btc (n : net) : btcnet :=
  match n with NUnknown => BUnknown | NMainnet => BMainnet | NTestnet => BTestnet | NDeveloper => BRegtest end.

Definition net4 {A} (u m t d : A) (n : net) : A :=
  match n with NUnknown => u | NMainnet => m | NTestnet => t | NDeveloper => d end.
Definition btc4 {A} (u m t r : A) (b : btcnet) : A :=
  match b with BUnknown => u | BMainnet => m | BTestnet => t | BRegtest => r end.

(* ---------- what the build embeds ---------- *)
Record env := {
  e_peers : net -> option (list str);      (* readPeers: _peers/<network>, cleaned; None = no such file *)
  e_urls : btcnet -> option (list str);    (* readElectrumUrls: _electrum_urls/<bitcoin network> *)
  e_contracts : list str;                  (* the gen packages' <Contract>Address, in resolution order *)
  e_port : N                               (* default of the network.port flag *)
}.

(* ---------- resolveNetworks ---------- *)
(* a flag set: for each of --mainnet --testnet --developer, None = the flag is not defined
   (GetBool fails), Some b = its value *)
Inductive flagset := FNil | FSet (mainnet testnet developer : option bool).

(* the closure in resolveNetworks: (network, error?) ; the mainnet flag is never read *)
Definition select_network (t d : option bool) : net * bool :=
  match t with
  | None => (NUnknown, true)
  | Some true => (NTestnet, false)
  | Some false =>
      match d with
      | None => (NUnknown, true)
      | Some true => (NDeveloper, false)
      | Some false => (NMainnet, false)
      end
  end.

(* ---------- resolvePeers ---------- *)
Inductive pres := POk (l : list str) | PErr | PPanic.
Definition resolve_peers (e : env) (n : net) (peers : list str) : pres :=
  match peers with
  | _ :: _ => POk peers
  | [] =>
      match n with
      | NDeveloper | NUnknown => POk []
      | _ => match e_peers e n with Some l => POk l | None => PErr end
      end
  end.

(* ---------- resolveElectrum ; k is what rng.Intn(len(urls)) returns, as k mod len ---------- *)
Inductive ures := UOk (u : str) | UErr | UPanic.
Definition resolve_electrum (e : env) (k : nat) (b : btcnet) (url : str) : ures :=
  if negb (N.eqb url 0) then UOk url else
  match b with
  | BRegtest | BUnknown => UOk 0
  | _ =>
      match e_urls e b with
      | None => UErr
      | Some [] => UPanic                       (* rng.Intn(0) *)
      | Some urls => UOk (nth (Nat.modulo k (length urls)) urls 0)
      end
  end.

(* ---------- resolveContractsAddresses: addresses and defaults in the same (fixed) order ---------- *)
Fixpoint resolve_contracts (defs addrs : list str) : list str :=
  match addrs, defs with
  | a :: addrs', d :: defs' => (if N.eqb a 0 then d else a) :: resolve_contracts defs' addrs'
  | _, _ => []
  end.

(* ---------- viper: command-line flag (if given) > configuration file > zero / flag default ---------- *)
Record src (A : Type) := { s_file : option A; s_flag : option A }.
Arguments s_file {A} _.
Arguments s_flag {A} _.

Definition viper_get {A} (has_flags file_read : bool) (zero : A) (s : src A) : A :=
  match (if has_flags then s_flag s else None) with
  | Some v => v
  | None => match (if file_read then s_file s else None) with Some v => v | None => zero end
  end.

(* ---------- ReadConfig ---------- *)
Inductive filest := FNone | FMissing | FGood.        (* no --config ; unreadable file ; file read *)
Inductive err := ENone | EResolveNetworks | ELoadFile | EPeers | EElectrum | EValidation | EPanicked | EOther.

Record input := {
  i_env : env;
  i_flags : flagset;
  i_cobra : bool;                 (* ReadConfig runs in the PreRun of a cobra command (as in cmd/) *)
  i_file : filest;
  i_peers : src (list str);
  i_electrum : src str;
  i_contracts : list (src str);
  i_ethurl : src str; i_keyfile : src str; i_storage : src str; i_port : src N;
  i_validate : bool;              (* categories = all (true) or none (false) *)
  i_pick : nat                    (* oracle for the random Electrum server *)
}.

Record out := {
  o_err : err;
  o_refused : bool;               (* cobra refused to run the command after PreRun *)
  o_eth : ethnet; o_btc : btcnet;
  o_peers : list str; o_electrum : str; o_contracts : list str
}.

Definition has_flags (i : input) : bool := match i_flags i with FNil => false | FSet _ _ _ => true end.
Definition file_read (i : input) : bool := match i_file i with FGood => true | _ => false end.
Definition given (b : option bool) : bool := match b with Some true => true | _ => false end.
Definition flags_given (i : input) : nat :=
  match i_flags i with
  | FNil => 0%nat
  | FSet m t d => ((if given m then 1 else 0) + (if given t then 1 else 0) + (if given d then 1 else 0))%nat
  end.
(* cmd/flags.go: MarkFlagsMutuallyExclusive(mainnet, testnet, developer); cobra checks the group
   after PreRun and before Run *)
Definition refused (i : input) : bool := i_cobra i && (2 <=? flags_given i)%nat.

(* the network ReadConfig works with: (clientNetwork, error, Ethereum.Network, Bitcoin.Network) *)
Definition networks (i : input) : net * bool * ethnet * btcnet :=
  match i_flags i with
  | FNil => (NMainnet, false, EUnknown, BUnknown)        (* resolveNetworks is not called *)
  | FSet _ t d => let '(n, e) := select_network t d in (n, e, net_eth n, net_btc n)
  end.
Definition selected (i : input) : net := fst (fst (fst (networks i))).

(* what the explicit sources say, by viper's precedence *)
Definition explicit {A} (i : input) (zero : A) (s : src A) : A := viper_get (has_flags i) (file_read i) zero s.
(* fields the flags are bound to hold the flag value as soon as the command line is parsed *)
Definition bound {A} (i : input) (zero : A) (s : src A) : A := viper_get (has_flags i) false zero s.

Definition validation_fails (i : input) (electrum : str) : bool :=
  i_validate i &&
  (N.eqb (explicit i 0 (i_ethurl i)) 0 || N.eqb (explicit i 0 (i_keyfile i)) 0 || N.eqb electrum 0
   || N.eqb (explicit i (if has_flags i then e_port (i_env i) else 0) (i_port i)) 0
   || N.eqb (explicit i 0 (i_storage i)) 0)%N.

Definition read_config (i : input) : out :=
  let mk e eth btc p u cs :=
    {| o_err := e; o_refused := refused i; o_eth := eth; o_btc := btc;
       o_peers := p; o_electrum := u; o_contracts := cs |} in
  let p0 := bound i [] (i_peers i) in
  let u0 := bound i 0%N (i_electrum i) in
  let c0 := map (fun _ => 0%N) (i_contracts i) in
  let '(n, nerr, eth, btc) := networks i in
  if nerr then mk EResolveNetworks eth btc p0 u0 c0 else
  match i_file i with
  | FMissing => mk ELoadFile eth btc p0 u0 c0
  | _ =>
      let cs := resolve_contracts (e_contracts (i_env i)) (map (explicit i 0%N) (i_contracts i)) in
      let p := explicit i [] (i_peers i) in
      let u := explicit i 0%N (i_electrum i) in
      match resolve_peers (i_env i) n p with
      | PErr => mk EPeers eth btc p u cs
      | PPanic => mk EPanicked eth btc p u cs
      | POk p' =>
          match resolve_electrum (i_env i) (i_pick i) btc u with
          | UErr => mk EElectrum eth btc p' u cs
          | UPanic => mk EPanicked eth btc p' u cs
          | UOk u' => mk (if validation_fails i u' then EValidation else ENone) eth btc p' u' cs
          end
      end
  end.

(* the three resolve functions run once more on a resolved configuration *)
Definition reached (e : err) : bool := match e with ENone | EValidation => true | _ => false end.
Definition re_resolve (e : env) (n : net) (k : nat) (o : out) : out :=
  if negb (reached (o_err o)) then o else
  let mk er p u :=
    {| o_err := er; o_refused := o_refused o; o_eth := o_eth o; o_btc := o_btc o;
       o_peers := p; o_electrum := u; o_contracts := resolve_contracts (e_contracts e) (o_contracts o) |} in
  match resolve_peers e n (o_peers o) with
  | PErr => mk EPeers (o_peers o) (o_electrum o)
  | PPanic => mk EPanicked (o_peers o) (o_electrum o)
  | POk p =>
      match resolve_electrum e k (o_btc o) (o_electrum o) with
      | UErr => mk EElectrum p (o_electrum o)
      | UPanic => mk EPanicked p (o_electrum o)
      | UOk u => mk (o_err o) p u
      end
  end.

(* ---------- equality tests ---------- *)
Fixpoint list_eqb (a b : list N) : bool :=
  match a, b with
  | [], [] => true
  | x :: a', y :: b' => N.eqb x y && list_eqb a' b'
  | _, _ => false
  end.
Definition memN (x : N) (l : list N) : bool := existsb (N.eqb x) l.
Definition net_eqb (a b : net) : bool :=
  match a, b with NUnknown, NUnknown | NMainnet, NMainnet | NTestnet, NTestnet | NDeveloper, NDeveloper => true | _, _ => false end.
Definition eth_eqb (a b : ethnet) : bool :=
  match a, b with EUnknown, EUnknown | EMainnet, EMainnet | ESepolia, ESepolia | EDeveloper, EDeveloper => true | _, _ => false end.
Definition btc_eqb (a b : btcnet) : bool :=
  match a, b with BUnknown, BUnknown | BMainnet, BMainnet | BTestnet, BTestnet | BRegtest, BRegtest => true | _, _ => false end.
Definition err_eqb (a b : err) : bool :=
  match a, b with
  | ENone, ENone | EResolveNetworks, EResolveNetworks | ELoadFile, ELoadFile | EPeers, EPeers
  | EElectrum, EElectrum | EValidation, EValidation | EPanicked, EPanicked | EOther, EOther => true
  | _, _ => false
  end.
Definition out_eqb (a b : out) : bool :=
  err_eqb (o_err a) (o_err b) && Bool.eqb (o_refused a) (o_refused b)
  && eth_eqb (o_eth a) (o_eth b) && btc_eqb (o_btc a) (o_btc b)
  && list_eqb (o_peers a) (o_peers b) && N.eqb (o_electrum a) (o_electrum b)
  && list_eqb (o_contracts a) (o_contracts b).
Definition pres_eqb (a b : pres) : bool :=
  match a, b with POk x, POk y => list_eqb x y | PErr, PErr | PPanic, PPanic => true | _, _ => false end.
Definition ures_eqb (a b : ures) : bool :=
  match a, b with UOk x, UOk y => N.eqb x y | UErr, UErr | UPanic, UPanic => true | _, _ => false end.

Definition all_nets := [NUnknown; NMainnet; NTestnet; NDeveloper].
Definition all_btc := [BUnknown; BMainnet; BTestnet; BRegtest].

(* cleanStrings never returns an empty string: the embedded URL lists do not contain "" *)
Definition env_wfb (e : env) : bool :=
  forallb (fun b => match e_urls e b with Some l => negb (memN 0 l) | None => true end) all_btc.

(* ---------- the property in executable form, evaluated on observed outputs ---------- *)
(* a value: kept when explicitly set, otherwise left unset or replaced by an admissible default *)
Definition peers_ok (explicit_v result : list str) (default : option (list str)) : bool :=
  match explicit_v with
  | _ :: _ => list_eqb result explicit_v
  | [] => match result with [] => true | _ => match default with Some l => list_eqb result l | None => false end end
  end.
Definition electrum_ok (explicit_v result : str) (defaults : option (list str)) : bool :=
  if negb (N.eqb explicit_v 0) then N.eqb result explicit_v
  else N.eqb result 0 || match defaults with Some l => memN result l | None => false end.
Fixpoint contracts_ok (explicit_v result defs : list str) : bool :=
  match explicit_v, result, defs with
  | [], [], _ => true
  | x :: xs, r :: rs, d :: ds =>
      (if negb (N.eqb x 0) then N.eqb r x else N.eqb r 0 || N.eqb r d) && contracts_ok xs rs ds
  | _, _, _ => false
  end.

(* networks that can be meant by the command line: the flags given, mainnet when none is *)
Definition candidates_of (f : flagset) : list net :=
  match f with
  | FNil => [NMainnet]
  | FSet m t d =>
      match (if given m then [NMainnet] else []) ++ (if given t then [NTestnet] else [])
            ++ (if given d then [NDeveloper] else []) with
      | [] => [NMainnet]
      | l => l
      end
  end.
Definition candidates (i : input) : list net := candidates_of (i_flags i).

(* the resolved networks are the pair of ONE network type: the meant one when there is a flag set *)
Definition nets_ok (i : input) (n : net) (o : out) : bool :=
  match i_flags i with
  | FNil => existsb (fun n' => eth_eqb (o_eth o) (net_eth n') && btc_eqb (o_btc o) (net_btc n')) all_nets
  | FSet _ _ _ => eth_eqb (o_eth o) (net_eth n) && btc_eqb (o_btc o) (net_btc n)
  end.
(* defaults, where they appear, are those of network n; only mainnet and testnet have any *)
Definition has_defaults (n : net) : bool := match n with NMainnet | NTestnet => true | _ => false end.
Definition values_ok (i : input) (n : net) (o : out) : bool :=
  peers_ok (explicit i [] (i_peers i)) (o_peers o)
           (if has_defaults n then e_peers (i_env i) n else None)
  && electrum_ok (explicit i 0%N (i_electrum i)) (o_electrum o)
                 (if has_defaults n then e_urls (i_env i) (net_btc n) else None)
  && contracts_ok (map (explicit i 0%N) (i_contracts i)) (o_contracts o) (e_contracts (i_env i)).
Definition same_values (a b : out) : bool :=
  list_eqb (o_peers a) (o_peers b) && N.eqb (o_electrum a) (o_electrum b)
  && list_eqb (o_contracts a) (o_contracts b) && err_eqb (o_err a) (o_err b).

Definition spec_read (i : input) (o o2 : out) : bool :=
  (if i_cobra i && (2 <=? flags_given i)%nat then o_refused o else true)
  && (if reached (o_err o)
      then existsb (fun n => nets_ok i n o && values_ok i n o) (candidates i) && same_values o o2
      else true).

Definition spec_peers (e : env) (n : net) (p : list str) (r r2 : pres) : bool :=
  match r with
  | POk l => peers_ok p l (if has_defaults n then e_peers e n else None) && pres_eqb r r2
  | PErr => true
  | PPanic => false
  end.
Definition spec_electrum (e : env) (b : btcnet) (u : str) (r r2 : ures) : bool :=
  match r with
  | UOk v => electrum_ok u v (match b with BMainnet | BTestnet => e_urls e b | _ => None end) && ures_eqb r r2
  | UErr => true
  | UPanic => false
  end.
(* resolveNetworks: the two networks are the pair of the returned type, which is the flag given *)
Definition spec_nets (f : flagset) (r : option (net * bool * ethnet * btcnet)) : bool :=
  match f, r with
  | FSet m t d, Some (n, e, eth, btc) =>
      eth_eqb eth (net_eth n) && btc_eqb btc (net_btc n)
      && (e || existsb (net_eqb n) (candidates_of f))
  | _, _ => false
  end.

(* ---------- the same property as propositions (Props/C44.v: spec_read_sound) ---------- *)
Definition peers_prop (explicit_v result : list str) (default : option (list str)) : Prop :=
  (explicit_v <> [] -> result = explicit_v) /\
  (explicit_v = [] -> result = [] \/ default = Some result).
Definition electrum_prop (explicit_v result : str) (defaults : option (list str)) : Prop :=
  (explicit_v <> 0 -> result = explicit_v) /\
  (explicit_v = 0 -> result = 0 \/ exists l, defaults = Some l /\ In result l).
Definition contracts_prop (explicit_v result defs : list str) : Prop :=
  length result = length explicit_v /\ (length explicit_v <= length defs)%nat /\
  forall k x r d, nth_error explicit_v k = Some x -> nth_error result k = Some r ->
                  nth_error defs k = Some d ->
                  (x <> 0 -> r = x) /\ (x = 0 -> r = 0 \/ r = d).
Definition nets_prop (i : input) (n : net) (o : out) : Prop :=
  match i_flags i with
  | FNil => exists n', o_eth o = net_eth n' /\ o_btc o = net_btc n'
  | FSet _ _ _ => o_eth o = net_eth n /\ o_btc o = net_btc n
  end.
Definition read_property (i : input) (o o2 : out) : Prop :=
  (i_cobra i = true -> (2 <= flags_given i)%nat -> o_refused o = true) /\
  (reached (o_err o) = true ->
   (exists n, In n (candidates i) /\ nets_prop i n o
      /\ peers_prop (explicit i [] (i_peers i)) (o_peers o)
                    (if has_defaults n then e_peers (i_env i) n else None)
      /\ electrum_prop (explicit i 0 (i_electrum i)) (o_electrum o)
                       (if has_defaults n then e_urls (i_env i) (net_btc n) else None)
      /\ contracts_prop (map (explicit i 0) (i_contracts i)) (o_contracts o) (e_contracts (i_env i)))
   /\ o_peers o2 = o_peers o /\ o_electrum o2 = o_electrum o /\ o_contracts o2 = o_contracts o
   /\ o_err o2 = o_err o).

(* ---------- resolution HISTORIES on ONE Config object ----------
   The Config is long-lived: a caller may have filled fields in before resolving (the flags of
   cmd/flags.go are bound to its fields, tests assign them), and nothing stops a second
   resolveNetworks / ReadConfig on it.  State = the resolvable fields.  Steps:
   HNets f      resolveNetworks alone on flag set f;
   HResolve f k the resolution stage of ReadConfig without viper: resolveNetworks, then (no error)
                resolveContractsAddresses, resolvePeers(returned network), resolveElectrum (pick k):
                every field already holding a value counts as explicit, as coded;
   HRead i      ReadConfig (fresh viper instance, a new command whose flags are bound to THIS
                Config, called directly on the parsed flag set).
   As written, resolveNetworks assigns BOTH network fields unconditionally: a pre-populated or
   earlier resolved network is overwritten (also on the error path: unknown/unknown). *)
Record cfg := { c_eth : ethnet; c_btc : btcnet; c_peers : list str; c_electrum : str; c_contracts : list str }.
Inductive hstep := HNets (f : flagset) | HResolve (f : flagset) (k : nat) | HRead (i : input).
Record hobs := { h_net : net; h_err : err; h_cfg : cfg }.   (* returned network (NUnknown for HRead), error class, Config after *)

Definition flags_of (s : hstep) : flagset := match s with HNets f | HResolve f _ => f | HRead i => i_flags i end.
Definition flagged (s : hstep) : bool := match flags_of s with FNil => false | FSet _ _ _ => true end.
Definition step_select (s : hstep) : net * bool :=
  match flags_of s with FNil => (NUnknown, true) | FSet _ t d => select_network t d end.

Definition with_values (c : cfg) (p : list str) (u : str) (cs : list str) : cfg :=
  {| c_eth := c_eth c; c_btc := c_btc c; c_peers := p; c_electrum := u; c_contracts := cs |}.
Definition set_nets (c : cfg) (n : net) : cfg :=
  {| c_eth := net_eth n; c_btc := net_btc n; c_peers := c_peers c; c_electrum := c_electrum c; c_contracts := c_contracts c |}.
Definition cfg_of (o : out) : cfg :=
  {| c_eth := o_eth o; c_btc := o_btc o; c_peers := o_peers o; c_electrum := o_electrum o; c_contracts := o_contracts o |}.
Definition out_of (o : hobs) : out :=
  {| o_err := h_err o; o_refused := false; o_eth := c_eth (h_cfg o); o_btc := c_btc (h_cfg o);
     o_peers := c_peers (h_cfg o); o_electrum := c_electrum (h_cfg o); o_contracts := c_contracts (h_cfg o) |}.

Definition hstep_run (e : env) (c : cfg) (s : hstep) : hobs :=
  let mk n er c' := {| h_net := n; h_err := er; h_cfg := c' |} in
  match s with
  | HNets _ =>
      let '(n, er) := step_select s in
      mk n (if er then EResolveNetworks else ENone) (set_nets c n)
  | HResolve _ k =>
      let '(n, er) := step_select s in
      let c1 := set_nets c n in
      if er then mk n EResolveNetworks c1 else
      let cs := resolve_contracts (e_contracts e) (c_contracts c1) in
      match resolve_peers e n (c_peers c1) with
      | PErr => mk n EPeers (with_values c1 (c_peers c1) (c_electrum c1) cs)
      | PPanic => mk n EPanicked (with_values c1 (c_peers c1) (c_electrum c1) cs)
      | POk p =>
          match resolve_electrum e k (c_btc c1) (c_electrum c1) with
          | UErr => mk n EElectrum (with_values c1 p (c_electrum c1) cs)
          | UPanic => mk n EPanicked (with_values c1 p (c_electrum c1) cs)
          | UOk u => mk n ENone (with_values c1 p u cs)
          end
      end
  | HRead i => let o := read_config i in mk NUnknown (o_err o) (cfg_of o)
  end.

Fixpoint run_hist (e : env) (c : cfg) (steps : list hstep) : list hobs :=
  match steps with
  | [] => []
  | s :: rest => let o := hstep_run e c s in o :: run_hist e (h_cfg o) rest
  end.

(* the property for one step, on the OBSERVED Config before (pre) and after (o) the step *)
Definition state_values_ok (e : env) (n : net) (pre post : cfg) : bool :=
  peers_ok (c_peers pre) (c_peers post) (if has_defaults n then e_peers e n else None)
  && electrum_ok (c_electrum pre) (c_electrum post) (if has_defaults n then e_urls e (net_btc n) else None)
  && contracts_ok (c_contracts pre) (c_contracts post) (e_contracts e).
Definition nets_stage (er : err) : bool :=
  match er with ENone | EValidation | ELoadFile | EPeers | EElectrum => true | _ => false end.
Definition hstep_ok (e : env) (pre : cfg) (s : hstep) (o : hobs) : bool :=
  match s with
  | HNets f | HResolve f _ =>
      spec_nets f (Some (h_net o, err_eqb (h_err o) EResolveNetworks, c_eth (h_cfg o), c_btc (h_cfg o)))
      && (if reached (h_err o) then state_values_ok e (h_net o) pre (h_cfg o) else true)
  | HRead i =>
      has_flags i
      && (if reached (h_err o)
          then existsb (fun n => nets_ok i n (out_of o) && values_ok i n (out_of o)) (candidates i)
          else if nets_stage (h_err o)
          then existsb (fun n => nets_ok i n (out_of o)) (candidates i)
          else true)
  end.
Fixpoint hist_ok (e : env) (pre : cfg) (steps : list hstep) (obs : list hobs) : bool :=
  match steps, obs with
  | [], [] => true
  | s :: steps', o :: obs' => hstep_ok e pre s o && hist_ok e (h_cfg o) steps' obs'
  | _, _ => false
  end.

(* the same per-step property as a proposition (Props/C44.v: hstep_ok_sound) *)
Definition hstep_prop (e : env) (pre : cfg) (s : hstep) (o : hobs) : Prop :=
  match s with
  | HNets f | HResolve f _ =>
      c_eth (h_cfg o) = net_eth (h_net o) /\ c_btc (h_cfg o) = net_btc (h_net o) /\
      (h_err o <> EResolveNetworks -> In (h_net o) (candidates_of f)) /\
      (reached (h_err o) = true ->
         peers_prop (c_peers pre) (c_peers (h_cfg o)) (if has_defaults (h_net o) then e_peers e (h_net o) else None) /\
         electrum_prop (c_electrum pre) (c_electrum (h_cfg o))
                       (if has_defaults (h_net o) then e_urls e (net_btc (h_net o)) else None) /\
         contracts_prop (c_contracts pre) (c_contracts (h_cfg o)) (e_contracts e))
  | HRead i =>
      has_flags i = true /\
      (nets_stage (h_err o) = true ->
         exists n, In n (candidates i) /\ c_eth (h_cfg o) = net_eth n /\ c_btc (h_cfg o) = net_btc n /\
         (reached (h_err o) = true ->
            peers_prop (explicit i [] (i_peers i)) (c_peers (h_cfg o))
                       (if has_defaults n then e_peers (i_env i) n else None) /\
            electrum_prop (explicit i 0 (i_electrum i)) (c_electrum (h_cfg o))
                          (if has_defaults n then e_urls (i_env i) (net_btc n) else None) /\
            contracts_prop (map (explicit i 0) (i_contracts i)) (c_contracts (h_cfg o)) (e_contracts (i_env i))))
  end.

Definition cfg_eqb (a b : cfg) : bool :=
  eth_eqb (c_eth a) (c_eth b) && btc_eqb (c_btc a) (c_btc b) && list_eqb (c_peers a) (c_peers b)
  && N.eqb (c_electrum a) (c_electrum b) && list_eqb (c_contracts a) (c_contracts b).
Definition hobs_eqb (a b : hobs) : bool :=
  net_eqb (h_net a) (h_net b) && err_eqb (h_err a) (h_err b) && cfg_eqb (h_cfg a) (h_cfg b).
Fixpoint hobs_list_eqb (a b : list hobs) : bool :=
  match a, b with
  | [], [] => true
  | x :: a', y :: b' => hobs_eqb x y && hobs_list_eqb a' b'
  | _, _ => false
  end.
(* a well-formed history case: every step has a flag set, ReadConfig steps are direct calls with
   one source record per contract, the state lists one address per contract *)
Definition hstep_wfb (e : env) (s : hstep) : bool :=
  flagged s &&
  match s with
  | HRead i => negb (i_cobra i) && env_wfb (i_env i)
               && Nat.eqb (length (i_contracts i)) (length (e_contracts (i_env i)))
               && list_eqb (e_contracts (i_env i)) (e_contracts e)
  | _ => true
  end.

(* ---------- cases ---------- *)
Inductive case :=
| CRead (i : input) (o : out) (n2 : net) (k2 : nat) (o2 : out)
    (* o: the Config after ReadConfig; o2: after running the resolve functions again with n2, k2 *)
| CPeers (e : env) (n : net) (p : list str) (r r2 : pres)
| CElectrum (e : env) (b : btcnet) (u : str) (k : nat) (r r2 : ures)
| CNets (f : flagset) (r : option (net * bool * ethnet * btcnet))
| CHist (e : env) (c0 : cfg) (steps : list hstep) (obs : list hobs).
    (* obs: what was observed after each step on ONE Config that started as c0 *)

Definition model_nets (f : flagset) : option (net * bool * ethnet * btcnet) :=
  match f with
  | FNil => None
  | FSet _ t d => let '(n, e) := select_network t d in Some (n, e, net_eth n, net_btc n)
  end.
Definition nets_res_eqb (a b : option (net * bool * ethnet * btcnet)) : bool :=
  match a, b with
  | Some (n, e, x, y), Some (n', e', x', y') => net_eqb n n' && Bool.eqb e e' && eth_eqb x x' && btc_eqb y y'
  | None, None => true
  | _, _ => false
  end.

Definition judge (c : case) : verdict :=
  match c with
  | CRead i o n2 k2 o2 =>
      if negb (env_wfb (i_env i) && Nat.eqb (length (i_contracts i)) (length (e_contracts (i_env i))))
      then BadCase else
      let m := read_config i in
      decide (spec_read i o o2)
             (out_eqb m o && out_eqb (re_resolve (i_env i) n2 k2 m) o2)
  | CPeers e n p r r2 =>
      decide (spec_peers e n p r r2)
             (pres_eqb (resolve_peers e n p) r
              && pres_eqb (match r with POk l => resolve_peers e n l | _ => r end) r2)
  | CElectrum e b u k r r2 =>
      if negb (env_wfb e) then BadCase else
      decide (spec_electrum e b u r r2)
             (ures_eqb (resolve_electrum e k b u) r
              && ures_eqb (match r with UOk v => resolve_electrum e (S k) b v | _ => r end) r2)
  | CNets f r =>
      match f with
      | FNil => BadCase
      | _ => decide (spec_nets f r) (nets_res_eqb (model_nets f) r)
      end
  | CHist e c0 steps obs =>
      if negb (env_wfb e && forallb (hstep_wfb e) steps
               && Nat.eqb (length (c_contracts c0)) (length (e_contracts e))
               && Nat.eqb (length obs) (length steps))
      then BadCase else
      decide (hist_ok e c0 steps obs) (hobs_list_eqb (run_hist e c0 steps) obs)
  end.

Inductive explained :=
| XRead (o o2 : out) | XPeers (r : pres) | XElectrum (r : ures) | XNets (r : option (net * bool * ethnet * btcnet))
| XHist (obs : list hobs).
Definition explain (c : case) : explained :=
  match c with
  | CRead i o n2 k2 o2 => let m := read_config i in XRead m (re_resolve (i_env i) n2 k2 m)
  | CPeers e n p _ _ => XPeers (resolve_peers e n p)
  | CElectrum e b u k _ _ => XElectrum (resolve_electrum e k b u)
  | CNets f _ => XNets (model_nets f)
  | CHist e c0 steps _ => XHist (run_hist e c0 steps)
  end.
