(* C36 — executable model of pkg/tbtc/heartbeat.go: heartbeatAction.execute and the
   heartbeatFailureCounter shared by all wallets of a node.  A wallet is identified by its FULL
   public key: [i_wallet] is the integer value of the 65 bytes 04‖X‖Y that execute() derives
   with marshalPublicKey (hex-encoded, this is the key of the counter map), so two wallets are
   the same wallet iff ALL bytes of their keys agree — however much the keys resemble each
   other (P and −P share X, P and λP share Y, ground keys share prefixes).  Members are N
   (group.MemberIndex).  One [input] describes what the collaborators of one
   execute() call answer (chain, signing executor, inactivity-claim executor); the model says
   what execute() does with it.  The three thresholds are parameters of the Section; the
   [Concrete] module instantiates them with the constants regenerated from /repo. *)
From Coq Require Import ZArith NArith List Bool.
From KV Require Import Common.Verdict Gen.Consts_C36.
Import ListNotations.
Open Scope Z_scope.

(* isOperatorUnstaking: OperatorToStakingProvider fails / operator not registered /
   EligibleStake fails / eligible stake = 0 (unstaking) / eligible stake > 0 *)
Inductive stake := StErr | StUnreg | StEligErr | StZero | StPos.
(* signingExecutor.sign: an error, or a signature with the activity report
   (number of active members, list of inactive members) *)
Inductive signres := SgErr | SgOk (active : Z) (inactive : list N).

Record input := {
  i_wallet : N;            (* the wallet's full uncompressed public key 04‖X‖Y as an integer *)
  i_stake : stake;
  i_valid : bool;          (* chain.ValidateHeartbeatProposal returns nil *)
  i_expiry : Z;            (* expiryBlock of the action *)
  i_sign : signres;
  i_claim_fails : bool     (* claimInactivity returns an error *)
}.

(* what execute() returned; EPanic = a panic or an error the model does not know (never a
   model output) *)
Inductive errk := ENone | EStake | EInvalid | EExpiry | ESign | ENoInactive | EClaim | EPanic.

Record output := {
  o_signed : bool;                       (* signingExecutor.sign was called *)
  o_claim : option (list N * bool);      (* claimInactivity(members, heartbeatFailed) call *)
  o_err : errk;                          (* what execute() returned *)
  o_count : Z                            (* failureCounter.get(wallet) after execute() *)
}.

(* heartbeatFailureCounter.counters: a map from the full key to the run length (absent = 0) *)
Definition upd (st : N -> Z) (w : N) (c : Z) : N -> Z :=
  fun x => if N.eqb x w then c else st x.

Section Heartbeat.
  Variable minActive : Z.      (* heartbeatSigningMinimumActiveMembers *)
  Variable thr : Z.            (* heartbeatConsecutiveFailureThreshold *)
  Variable claimValidity : Z.  (* heartbeatInactivityClaimValidityBlocks *)

  (* one execute(): counter of the wallet before -> output (with the counter after) *)
  Definition step (cnt : Z) (i : input) : output :=
    match i_stake i with
    | StErr | StUnreg | StEligErr => Build_output false None EStake cnt
    | StZero => Build_output false None ENone cnt
    | StPos =>
        if negb (i_valid i) then Build_output false None EInvalid cnt else
        if i_expiry i <? claimValidity then Build_output false None EExpiry cnt else
        match i_sign i with
        | SgErr => Build_output true None ESign cnt
        | SgOk active inact =>
            if minActive <=? active then Build_output true None ENone 0 else
            let c := cnt + 1 in
            if c <? thr then Build_output true None ENone c else
            match inact with
            | [] => Build_output true None ENoInactive c
            | _ => Build_output true (Some (inact, true))
                                (if i_claim_fails i then EClaim else ENone) c
            end
        end
    end.

  Fixpoint run_from (st : N -> Z) (h : list input) : list output :=
    match h with
    | [] => []
    | i :: t =>
        let o := step (st (i_wallet i)) i in
        o :: run_from (upd st (i_wallet i) (o_count o)) t
    end.
  Definition run (h : list input) : list output := run_from (fun _ => 0) h.

  (* ---------- the property, stated on histories without any counter ---------- *)
  Definition reaches_sign (i : input) : bool :=
    match i_stake i with StPos => i_valid i && (claimValidity <=? i_expiry i) | _ => false end.
  (* signing succeeded with fewer active members than required *)
  Definition lowact (i : input) : bool :=
    reaches_sign i && match i_sign i with SgOk a _ => a <? minActive | SgErr => false end.
  (* a successful heartbeat *)
  Definition success (i : input) : bool :=
    reaches_sign i && match i_sign i with SgOk a _ => minActive <=? a | SgErr => false end.
  Definition inactive_of (i : input) : list N :=
    match i_sign i with SgOk _ l => l | SgErr => [] end.

  (* length of the current run of low-activity heartbeats of wallet [w]: the history is
     given most recent first; a success of [w] ends the run, everything else (other wallets,
     signing errors, unstaking, invalid proposals) is skipped *)
  Fixpoint run_rev (w : N) (rh : list input) : Z :=
    match rh with
    | [] => 0
    | i :: t =>
        if N.eqb (i_wallet i) w then
          if success i then 0 else if lowact i then run_rev w t + 1 else run_rev w t
        else run_rev w t
    end.

  Definition nonempty {A} (l : list A) : bool := match l with [] => false | _ => true end.

  (* the claim the property demands at event [i] when [rh] is the history up to and
     including [i], most recent first *)
  Definition expected_claim (rh : list input) (i : input) : option (list N * bool) :=
    if lowact i && (thr <=? run_rev (i_wallet i) rh) && nonempty (inactive_of i)
    then Some (inactive_of i, true) else None.

  Fixpoint spec_claims (rpre : list input) (h : list input) : list (option (list N * bool)) :=
    match h with
    | [] => []
    | i :: t => expected_claim (i :: rpre) i :: spec_claims (i :: rpre) t
    end.
End Heartbeat.

(* ---------- comparisons ---------- *)
Fixpoint listN_eqb (a b : list N) : bool :=
  match a, b with
  | [], [] => true
  | x :: a', y :: b' => N.eqb x y && listN_eqb a' b'
  | _, _ => false
  end.
Definition subsetN (a b : list N) : bool := forallb (fun x => existsb (N.eqb x) b) a.
Definition same_set (a b : list N) : bool := subsetN a b && subsetN b a.

(* the property fixes WHICH members are named and the flag, not the order of the list *)
Definition claim_ok (expected observed : option (list N * bool)) : bool :=
  match expected, observed with
  | None, None => true
  | Some (l, f), Some (l', f') => same_set l l' && Bool.eqb f f'
  | _, _ => false
  end.
Definition claim_eqb (a b : option (list N * bool)) : bool :=
  match a, b with
  | None, None => true
  | Some (l, f), Some (l', f') => listN_eqb l l' && Bool.eqb f f'
  | _, _ => false
  end.
Definition errk_eqb (a b : errk) : bool :=
  match a, b with
  | ENone, ENone | EStake, EStake | EInvalid, EInvalid | EExpiry, EExpiry | ESign, ESign
  | ENoInactive, ENoInactive | EClaim, EClaim | EPanic, EPanic => true
  | _, _ => false
  end.
Definition output_eqb (a b : output) : bool :=
  Bool.eqb (o_signed a) (o_signed b) && claim_eqb (o_claim a) (o_claim b)
  && errk_eqb (o_err a) (o_err b) && (o_count a =? o_count b).

Fixpoint all2 {A B} (f : A -> B -> bool) (a : list A) (b : list B) : bool :=
  match a, b with
  | [], [] => true
  | x :: a', y :: b' => f x y && all2 f a' b'
  | _, _ => false
  end.

(* a case: the events in the order the driver ran them (for concurrently run wallets: any
   order that keeps each wallet's own order, see Props wallets_independent), each with the
   implementation's observed output *)
Record case := { c_inputs : list input; c_observed : list output }.

Module Concrete.
  Definition minActive := heartbeatSigningMinimumActiveMembers.
  Definition thr := heartbeatConsecutiveFailureThreshold.
  Definition claimValidity := heartbeatInactivityClaimValidityBlocks.

  Definition run := run minActive thr claimValidity.
  Definition spec_claims := spec_claims minActive thr claimValidity.

  (* executable form of the property, on the implementation's observed claims only *)
  Definition spec_ok (c : case) : bool :=
    all2 claim_ok (spec_claims [] (c_inputs c)) (map o_claim (c_observed c)).

  Definition judge (c : case) : verdict :=
    if negb (Nat.eqb (length (c_inputs c)) (length (c_observed c))) then BadCase else
    decide (spec_ok c) (all2 output_eqb (run (c_inputs c)) (c_observed c)).

  Definition explain (c : case) : list output := run (c_inputs c).
End Concrete.
