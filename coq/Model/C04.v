(* C04 — executable model of pkg/altbn128/altbn128.go (as repaired by the
   "fix: altbn128: bound the square-root search in Fp2 and handle zero coordinates" commit):
   gfP2 multiply / add / pow exactly as written, yFromX (big.Int.ModSqrt for p = 3 mod 4),
   sqrtGfP2 with the hexRoot loop bounded by hexRootOrder (generated from the Go constant),
   yParity, Compress / DecompressToG1 / DecompressToG2 on byte strings, G1FromInts / G2FromInts
   with bn256's Unmarshal checks, G1HashToPoint (try and increment, on fuel; SHA-256 value is
   an argument).  A gfP2 element is the pair (x, y) of altbn128.go's gfP2{x, y}: x real part,
   y imaginary part.  The subgroup test of bn256's G2 Unmarshal is library code: an oracle. *)
From Coq Require Import ZArith NArith List Bool Lia.
From Bignums Require Import BigZ.
From KV Require Import Common.Verdict Gen.Consts_C04.
Import ListNotations.
Open Scope Z_scope.

Definition gfp2 := (Z * Z)%type.

(* ---------------- constants of altbn128.go / bn256 ---------------- *)
Definition P : Z :=
  21888242871839275222246405745257275088696311157297823662689037894645226208583.
Definition twistB : gfp2 :=
  (19485874751759354771024239261021720505790618469301721065564631296452457478373,
   266929791119991161246907387137283842545076965332900288569378510910307636690).
Definition hexRoot : gfp2 :=
  (21573744529824266246521972077326577680729363968861965890554801909984373949499,
   16854739155576650954933913186877292401521110422362946064090026408937773542853).
(* (p^2 + 15) / 32 *)
Definition sqrtExp : Z :=
  14971724250519463826312126413021210649976634891596900701138993820439690427699319920245032869357433499099632259837909383182382988566862092145199781964622.
Definition curveB : Z := 3.

Section Field.
  Variable p : Z.

  (* ---- gfP2 ---- *)
  Definition mul2 (a b : gfp2) : gfp2 :=
    let xx := (fst a * fst b) mod p in
    let xy := (fst a * snd b) mod p in
    let yx := (snd a * fst b) mod p in
    let yy := (snd a * snd b) mod p in
    ((xx - yy) mod p, (xy + yx) mod p).
  Definition add2 (a b : gfp2) : gfp2 := ((fst a + fst b) mod p, (snd a + snd b) mod p).
  (* pow: e starts at 1; for every bit of exp from the lowest, multiply e by base when the bit
     is set, then square base *)
  Fixpoint pow_pos (e base : gfp2) (exp : positive) : gfp2 :=
    match exp with
    | xH => mul2 e base
    | xO q => pow_pos e (mul2 base base) q
    | xI q => pow_pos (mul2 e base) (mul2 base base) q
    end.
  Definition pow2 (base : gfp2) (exp : Z) : gfp2 :=
    match exp with Zpos q => pow_pos (1, 0) base q | _ => (1, 0) end.
  Definition eq2 (a b : gfp2) : bool := (fst a =? fst b) && (snd a =? snd b).
  Definition x2y (x y : gfp2) : bool := eq2 (pow2 y 2) x.
  Fixpoint sqrt_loop (n : nat) (x y : gfp2) : option gfp2 :=
    match n with
    | O => None
    | S n' => if x2y x y then Some y else sqrt_loop n' x (mul2 y hexRoot)
    end.
  Definition sqrt_gfp2 (x : gfp2) : option gfp2 :=
    sqrt_loop (Z.to_nat hexRootOrder) x (pow2 x sqrtExp).

  (* ---- big.Int.ModSqrt(c, p) for a prime p = 3 mod 4: nil for a non-residue, otherwise
     c^((p+1)/4) mod p (modSqrt3Mod4Prime) ---- *)
  Fixpoint powmod (a : Z) (e : positive) : Z :=
    match e with
    | xH => a mod p
    | xO e' => let r := powmod a e' in (r * r) mod p
    | xI e' => let r := powmod a e' in (((r * r) mod p) * a) mod p
    end.
  Definition mod_sqrt (c : Z) : option Z :=
    let c' := c mod p in
    let s := match (p + 1) / 4 with Zpos e => powmod c' e | _ => 1 end in
    if (s * s) mod p =? c' then Some s else None.
End Field.

(* ---- the two heavy kernels once more on Bignums' BigZ (machine words under vm_compute);
   used only by [Concrete.judge]; Proofs/C04.v proves them equal to the Z versions ---- *)
Section Big.
  Variable p : bigZ.
  Local Open Scope bigZ_scope.
  Definition mul2B (a b : bigZ * bigZ) : bigZ * bigZ :=
    let xx := (fst a * fst b) mod p in
    let xy := (fst a * snd b) mod p in
    let yx := (snd a * fst b) mod p in
    let yy := (snd a * snd b) mod p in
    ((xx - yy) mod p, (xy + yx) mod p).
  Fixpoint pow_posB (e base : bigZ * bigZ) (exp : positive) : bigZ * bigZ :=
    match exp with
    | xH => mul2B e base
    | xO q => pow_posB e (mul2B base base) q
    | xI q => pow_posB (mul2B e base) (mul2B base base) q
    end.
  Definition x2yB (x y : bigZ * bigZ) : bool :=
    let y2 := pow_posB (1, 0) y 2%positive in
    BigZ.eqb (fst y2) (fst x) && BigZ.eqb (snd y2) (snd x).
  Fixpoint sqrt_loopB (hr : bigZ * bigZ) (n : nat) (x y : bigZ * bigZ) : option (bigZ * bigZ) :=
    match n with
    | O => None
    | S n' => if x2yB x y then Some y else sqrt_loopB hr n' x (mul2B y hr)
    end.
  Fixpoint powmodB (a : bigZ) (e : positive) : bigZ :=
    match e with
    | xH => a mod p
    | xO e' => let r := powmodB a e' in (r * r) mod p
    | xI e' => let r := powmodB a e' in (((r * r) mod p) * a) mod p
    end.
End Big.
Definition ofZ2 (a : gfp2) : bigZ * bigZ := (BigZ.of_Z (fst a), BigZ.of_Z (snd a)).
Definition toZ2 (a : bigZ * bigZ) : gfp2 := (BigZ.to_Z (fst a), BigZ.to_Z (snd a)).
Definition sqrt_gfp2_big (p : Z) (x : gfp2) : option gfp2 :=
  let pb := BigZ.of_Z p in
  let y0 := match sqrtExp with Zpos q => pow_posB pb (1, 0)%bigZ (ofZ2 x) q | _ => (1, 0)%bigZ end in
  option_map toZ2 (sqrt_loopB pb (ofZ2 hexRoot) (Z.to_nat hexRootOrder) (ofZ2 x) y0).
Definition mod_sqrt_big (p : Z) (c : Z) : option Z :=
  let c' := c mod p in
  let s := match (p + 1) / 4 with
           | Zpos e => BigZ.to_Z (powmodB (BigZ.of_Z p) (BigZ.of_Z c') e)
           | _ => 1 end in
  if (s * s) mod p =? c' then Some s else None.

(* ---------------- bytes ---------------- *)
(* big.Int.SetBytes: big endian *)
Fixpoint be (l : list N) : Z :=
  match l with
  | [] => 0
  | b :: t => Z.of_N b * 256 ^ Z.of_nat (length t) + be t
  end.
(* left-padded big-endian encoding on n bytes *)
Fixpoint to_bytes (n : nat) (v : Z) : list N :=
  match n with
  | O => []
  | S n' => Z.to_N ((v / 256 ^ Z.of_nat n') mod 256) :: to_bytes n' v
  end.

(* yParity (after the fix: zero has no bytes and is even) *)
Definition y_parity (y : Z) : N := Z.to_N (y mod 2).

Inductive point1 := Inf1 | Aff1 (x y : Z).
Inductive point2 := Inf2 | Aff2 (x y : gfp2).
(* Hang: the driver's watchdog gave up twice (20 s, 60 s); Nil: a nil *bn256.G1 came back
   without an error; the model never produces either *)
Inductive res1 := R1 (pt : point1) | Err1 | Panic1 | Hang1 | Nil1.
Inductive res2 := R2 (pt : point2) | Err2 | Panic2 | Hang2.

Section Codec.
  Variable p : Z.
  Variable modsqrt : Z -> option Z.        (* big.Int.ModSqrt(., p) *)
  Variable sqrt2 : gfp2 -> option gfp2.    (* sqrtGfP2 *)
  Variable in_subgroup : gfp2 -> gfp2 -> bool. (* bn256: Order * point is the identity *)

  Definition two256 : Z := 2 ^ 256.

  (* G1FromInts: length check, then bn256 G1.Unmarshal (coordinates below p, (0,0) is the
     identity, otherwise the curve equation) *)
  Definition g1_from_ints (x y : Z) : res1 :=
    if (two256 <=? x) || (two256 <=? y) then Err1 else
    if (p <=? x) || (p <=? y) then Err1 else
    if (x =? 0) && (y =? 0) then R1 Inf1 else
    if (y * y) mod p =? (x * x * x + curveB) mod p then R1 (Aff1 x y) else Err1.

  Definition on_twist (x y : gfp2) : bool :=
    eq2 (mul2 p y y) (add2 p (mul2 p (mul2 p x x) x) twistB).
  Definition g2_from_ints (x y : gfp2) : res2 :=
    if (two256 <=? fst x) || (two256 <=? snd x) || (two256 <=? fst y) || (two256 <=? snd y) then Err2 else
    if (p <=? fst x) || (p <=? snd x) || (p <=? fst y) || (p <=? snd y) then Err2 else
    if (fst x =? 0) && (snd x =? 0) && (fst y =? 0) && (snd y =? 0) then R2 Inf2 else
    if on_twist x y && in_subgroup x y then R2 (Aff2 x y) else Err2.

  (* Marshal *)
  Definition marshal1 (pt : point1) : list N :=
    match pt with
    | Inf1 => repeat 0%N 64
    | Aff1 x y => to_bytes 32 x ++ to_bytes 32 y
    end.
  Definition marshal2 (pt : point2) : list N :=
    match pt with
    | Inf2 => repeat 0%N 128
    | Aff2 x y => to_bytes 32 (snd x) ++ to_bytes 32 (fst x) ++ to_bytes 32 (snd y) ++ to_bytes 32 (fst y)
    end.

  Definition set_top (par : N) (l : list N) : list N :=
    match l with
    | [] => []
    | b :: t => N.lor b (N.shiftl par 7) :: t
    end.
  (* G1Point.Compress / G2Point.Compress *)
  Definition compress1 (pt : point1) : list N :=
    let m := marshal1 pt in
    set_top (y_parity (be (skipn 32 m))) (firstn 32 m).
  Definition compress2 (pt : point2) : list N :=
    let m := marshal2 pt in
    set_top (y_parity (be (firstn 32 (skipn 64 m)))) (firstn 64 m).

  Definition top_bit (b : N) : N := N.shiftr (N.land b 128) 7.
  Definition strip_top (b : N) : N := N.land b 127.

  (* DecompressToG1 *)
  Definition decompress1 (m : list N) : res1 :=
    match m with
    | [] => Panic1
    | b0 :: rest =>
        let x := be (strip_top b0 :: rest) in
        match modsqrt (x * x * x + curveB) with
        | None => Err1
        | Some s =>
            let y := if N.eqb (top_bit b0) (y_parity s) then s else p + - s in
            g1_from_ints x y
        end
    end.

  (* DecompressToG2 *)
  Definition decompress2 (m : list N) : res2 :=
    match m with
    | [] => Panic2
    | b0 :: rest =>
        let xx := be (skipn 32 m) in                            (* m[32:64] *)
        let xy := be (strip_top b0 :: firstn 31 rest) in         (* m[0:32] without the flag *)
        let x := (xx, xy) in
        let y2 := add2 p (pow2 p x 3) twistB in
        match sqrt2 y2 with
        | None => Err2
        | Some y =>
            let y' := if N.eqb (top_bit b0) (y_parity (snd y)) then y
                      else ((- fst y) mod p, (- snd y) mod p) in
            g2_from_ints x y'
        end
    end.

  (* G1HashToPoint: h = sha256(m) as an integer; OutOfFuel = None *)
  Fixpoint hash_loop (fuel : nat) (x : Z) : option res1 :=
    match fuel with
    | O => None
    | S f =>
        match modsqrt (x * x * x + curveB) with
        | Some y => Some (g1_from_ints x y)
        | None => hash_loop f (x + 1)
        end
    end.
  Definition hash_to_point (fuel : nat) (h : Z) : option res1 := hash_loop fuel (h mod p).

  (* the same loop, also counting the increments (`x.Add(x, one)`) executed before the accepted
     x: what the judge runs on the long-run corpus, where the driver reports the run length it
     computed on its own (Jacobi symbols).  Proofs/C04.v: its second component is [hash_loop],
     the count n is the FIRST offset with a square, and the accepted x is (h mod p) + n. *)
  Fixpoint hash_run (fuel : nat) (x : Z) : option (Z * res1) :=
    match fuel with
    | O => None
    | S f =>
        match modsqrt (x * x * x + curveB) with
        | Some y => Some (0, g1_from_ints x y)
        | None => match hash_run f (x + 1) with
                  | Some (n, r) => Some (n + 1, r)
                  | None => None
                  end
        end
    end.
  Definition hash_to_point_run (fuel : nat) (h : Z) : option (Z * res1) := hash_run fuel (h mod p).
End Codec.

(* ---------------- cases and the executable property ---------------- *)
Definition bytes_eqb (a b : list N) : bool :=
  (length a =? length b)%nat && forallb (fun ab => N.eqb (fst ab) (snd ab)) (combine a b).
Definition point1_eqb (a b : point1) : bool :=
  match a, b with
  | Inf1, Inf1 => true
  | Aff1 x y, Aff1 x' y' => (x =? x') && (y =? y')
  | _, _ => false
  end.
Definition point2_eqb (a b : point2) : bool :=
  match a, b with
  | Inf2, Inf2 => true
  | Aff2 x y, Aff2 x' y' => eq2 x x' && eq2 y y'
  | _, _ => false
  end.
Definition res1_eqb (a b : res1) : bool :=
  match a, b with
  | R1 x, R1 y => point1_eqb x y
  | Err1, Err1 | Panic1, Panic1 => true
  | _, _ => false
  end.
Definition res2_eqb (a b : res2) : bool :=
  match a, b with
  | R2 x, R2 y => point2_eqb x y
  | Err2, Err2 | Panic2, Panic2 => true
  | _, _ => false
  end.

(* observed compression: the bytes, or a panic *)
Inductive cres := CBytes (l : list N) | CPanic.

Inductive case :=
(* a group element k*G: its marshalled coordinates, Compress(), and Decompress(Compress()) *)
| CRound1 (pt : point1) (c : cres) (d : res1)
| CRound2 (pt : point2) (c : cres) (d : res2)
(* arbitrary well-sized input to decompression; the observed result and, for an Ok result,
   nothing else: validity is re-checked in Coq *)
| CDec1 (m : list N) (d : res1)
| CDec2 (m : list N) (d : res2)
(* G1HashToPoint: sha256(m) as an integer, the returned point, the same call repeated *)
| CHash (h : Z) (pt rep : res1)
(* the same for a message ground for a long try-and-increment run: additionally the number of
   increments the driver computed independently of the implementation (Jacobi symbols) *)
| CHashRun (h : Z) (run : Z) (pt rep : res1).

Section Judge.
  Variable p : Z.
  Variable modsqrt : Z -> option Z.
  Variable sqrt2 : gfp2 -> option gfp2.

  Definition valid1 (pt : point1) : bool :=
    match pt with
    | Inf1 => true
    | Aff1 x y => (0 <=? x) && (x <? p) && (0 <=? y) && (y <? p)
                  && ((y * y) mod p =? (x * x * x + curveB) mod p)
    end.
  Definition in_range2 (a : gfp2) : bool :=
    (0 <=? fst a) && (fst a <? p) && (0 <=? snd a) && (snd a <? p).
  Definition valid2 (pt : point2) : bool :=
    match pt with
    | Inf2 => true
    | Aff2 x y => in_range2 x && in_range2 y && on_twist p x y
    end.

  (* the property on observed outputs *)
  Definition spec (c : case) : bool :=
    match c with
    | CRound1 pt _ d => res1_eqb d (R1 pt)                 (* round trip *)
    | CRound2 pt _ d => res2_eqb d (R2 pt)
    | CDec1 m d => match d with R1 pt => valid1 pt | Err1 => true | _ => false end
    | CDec2 m d => match d with R2 pt => valid2 pt | Err2 => true | _ => false end
    | CHash h pt rep | CHashRun h _ pt rep =>
        res1_eqb pt rep && match pt with R1 (Aff1 x y) => valid1 (Aff1 x y) | _ => false end
    end.

  Definition cres_eqb (a : cres) (b : list N) : bool :=
    match a with CBytes l => bytes_eqb l b | CPanic => false end.

  (* the subgroup oracle: the model agrees if the observed result is what it computes for
     SOME answer of the library's subgroup test *)
  Definition dec2 (m : list N) (o : bool) : res2 := decompress2 p sqrt2 (fun _ _ => o) m.
  Definition agree_dec2 (m : list N) (d : res2) : bool :=
    res2_eqb d (dec2 m true) || res2_eqb d (dec2 m false).

  Definition hash_fuel : nat := 256.
  Definition agree (c : case) : bool :=
    match c with
    | CRound1 pt cb d =>
        cres_eqb cb (compress1 pt) && res1_eqb d (decompress1 p modsqrt (compress1 pt))
    | CRound2 pt cb d =>
        cres_eqb cb (compress2 pt) && agree_dec2 (compress2 pt) d
    | CDec1 m d => res1_eqb d (decompress1 p modsqrt m)
    | CDec2 m d => agree_dec2 m d
    | CHash h pt _ =>
        match hash_to_point p modsqrt hash_fuel h with
        | Some r => res1_eqb pt r
        | None => false
        end
    | CHashRun h run pt _ =>
        (* the model's result, its x = (h mod p) + run, and its own count of increments = run *)
        match hash_to_point_run p modsqrt hash_fuel h with
        | Some (n, r) => res1_eqb pt r && (n =? run) &&
                         match r with R1 (Aff1 x _) => x =? h mod p + run | _ => false end
        | None => false
        end
    end.

  Definition wellformed (c : case) : bool :=
    match c with
    | CDec1 m _ => (length m =? 32)%nat && forallb (fun b => N.ltb b 256) m
    | CDec2 m _ => (length m =? 64)%nat && forallb (fun b => N.ltb b 256) m
    | CHashRun _ run _ _ => 0 <=? run
    | _ => true
    end.

  Definition judge (c : case) : verdict :=
    if wellformed c then decide (spec c) (agree c) else BadCase.

  Definition explain (c : case) : list N * option res1 * option res2 :=
    match c with
    | CRound1 pt _ _ => (compress1 pt, Some (decompress1 p modsqrt (compress1 pt)), None)
    | CRound2 pt _ _ => (compress2 pt, None, Some (dec2 (compress2 pt) true))
    | CDec1 m _ => ([], Some (decompress1 p modsqrt m), None)
    | CDec2 m _ => ([], None, Some (dec2 m true))
    | CHash h _ _ => ([], hash_to_point p modsqrt hash_fuel h, None)
    | CHashRun h _ _ _ =>
        (* the first component carries the model's increment count *)
        match hash_to_point_run p modsqrt hash_fuel h with
        | Some (n, r) => ([Z.to_N n], Some r, None)
        | None => ([], None, None)
        end
    end.
End Judge.

(* ---------------- the same buffers used again ----------------
   Decoding is a function of the BYTES: the decoder owns nothing of the caller's slice.  A caller
   keeps the compressed encoding it received (to decode it again, to compare, to store or to
   re-broadcast it), so for every decompression the driver keeps the input buffer, decodes the
   SAME buffer three times, compares the buffer with a copy taken before, and compresses the
   decoded point again.  Likewise Compress must leave its point, and G1HashToPoint its message,
   as they were.  A [ucase] is a [case] (first decode) plus these observations. *)
Inductive ucase :=
(* c: Compress(pt), copied right after the call; d d2 d3: three decodes of the one buffer holding
   c; c_after: that buffer after the decodes; pt_after: Marshal() of the point object passed to
   Compress, after everything; recomp: Compress of the decoded point (None when not decoded) *)
| URound1 (pt : point1) (c : cres) (d d2 d3 : res1) (c_after : cres) (pt_after : point1)
          (recomp : option cres)
| URound2 (pt : point2) (c : cres) (d d2 d3 : res2) (c_after : cres) (pt_after : point2)
          (recomp : option cres)
(* m: the input buffer copied before the first call; m_after: the buffer after the third *)
| UDec1 (m : list N) (d d2 d3 : res1) (m_after : list N) (recomp : option cres)
| UDec2 (m : list N) (d d2 d3 : res2) (m_after : list N) (recomp : option cres)
(* msg_kept: the message slice handed to G1HashToPoint (both calls) is byte for byte what it was *)
| UHash (h : Z) (pt rep : res1) (msg_kept : bool)
| UHashRun (h : Z) (run : Z) (pt rep : res1) (msg_kept : bool).

Definition base_case (u : ucase) : case :=
  match u with
  | URound1 pt c d _ _ _ _ _ => CRound1 pt c d
  | URound2 pt c d _ _ _ _ _ => CRound2 pt c d
  | UDec1 m d _ _ _ _ => CDec1 m d
  | UDec2 m d _ _ _ _ => CDec2 m d
  | UHash h pt rep _ => CHash h pt rep
  | UHashRun h run pt rep _ => CHashRun h run pt rep
  end.
Definition cres_same (a b : cres) : bool :=
  match a, b with
  | CBytes x, CBytes y => bytes_eqb x y
  | CPanic, CPanic => true
  | _, _ => false
  end.
(* the model of "decode the caller's buffer k times": the buffer is read, never written *)
Fixpoint decode_again {R} (dec : list N -> R) (k : nat) (buf : list N) : list R * list N :=
  match k with
  | O => ([], buf)
  | S k' => let r := dec buf in
            let (rs, buf') := decode_again dec k' buf in (r :: rs, buf')
  end.

(* the executable property: later decodes of the same buffer return what the first returned, the
   buffer is unchanged; for a round trip also the point handed to Compress is unchanged and the
   decoded point compresses to the bytes it was decoded from *)
Definition reuse_ok (u : ucase) : bool :=
  match u with
  | URound1 pt c d d2 d3 c_after pt_after recomp =>
      res1_eqb d2 d && res1_eqb d3 d && cres_same c_after c && point1_eqb pt_after pt
      && match d, recomp with
         | R1 _, Some rc => cres_same rc c
         | R1 _, None => false
         | _, _ => true
         end
  | URound2 pt c d d2 d3 c_after pt_after recomp =>
      res2_eqb d2 d && res2_eqb d3 d && cres_same c_after c && point2_eqb pt_after pt
      && match d, recomp with
         | R2 _, Some rc => cres_same rc c
         | R2 _, None => false
         | _, _ => true
         end
  | UDec1 m d d2 d3 m_after _ => res1_eqb d2 d && res1_eqb d3 d && bytes_eqb m_after m
  | UDec2 m d d2 d3 m_after _ => res2_eqb d2 d && res2_eqb d3 d && bytes_eqb m_after m
  | UHash _ _ _ kept | UHashRun _ _ _ _ kept => kept
  end.
(* correspondence only: Compress of the decoded point is the model's compression of it *)
Definition reuse_agree (u : ucase) : bool :=
  match u with
  | UDec1 _ (R1 pt) _ _ _ (Some rc) => cres_eqb rc (compress1 pt)
  | UDec2 _ (R2 pt) _ _ _ (Some rc) => cres_eqb rc (compress2 pt)
  | UDec1 _ (R1 _) _ _ _ None | UDec2 _ (R2 _) _ _ _ None => false
  | _ => true
  end.

Section JudgeU.
  Variable p : Z.
  Variable modsqrt : Z -> option Z.
  Variable sqrt2 : gfp2 -> option gfp2.
  Definition spec_u (u : ucase) : bool := spec p (base_case u) && reuse_ok u.
  Definition judge_u (u : ucase) : verdict :=
    if wellformed (base_case u)
    then decide (spec_u u) (agree p modsqrt sqrt2 (base_case u) && reuse_agree u)
    else BadCase.
  Definition explain_u (u : ucase) := (explain p modsqrt sqrt2 (base_case u), reuse_ok u).
End JudgeU.

Module Concrete.
  Definition judge := judge P (mod_sqrt_big P) (sqrt_gfp2_big P).
  Definition explain := explain P (mod_sqrt_big P) (sqrt_gfp2_big P).
  (* the same on plain Z (what the theorems are about); equal by Proofs/C04.v *)
  Definition judge_Z := C04.judge P (mod_sqrt P) (sqrt_gfp2 P).
  Definition judge_u := judge_u P (mod_sqrt_big P) (sqrt_gfp2_big P).
  Definition explain_u := explain_u P (mod_sqrt_big P) (sqrt_gfp2_big P).
  Definition judge_u_Z := C04.judge_u P (mod_sqrt P) (sqrt_gfp2 P).
End Concrete.
