(* C24 — executable model of coordinationExecutor.executeFollowerRoutine
   (pkg/tbtc/coordination.go), together with wallet.membersByOperator and
   group.MembershipValidator.IsValidMembership, as written.

   Operators are N identifiers (0 = an address that backs no seat of the wallet); a sender's
   public key is represented by the operator its address belongs to (the chain's
   PublicKeyBytesToAddress is a function).  Member indexes are N (uint8 in Go).  Wallet key
   hashes are N identifiers, blocks Z, action and fault types the Z values of the Go constants
   (Gen/Consts_C24.v).  The follower's loop consumes a HISTORY: the sequence of outcomes of
   its `select` -- a received message or the end of the active phase (ctx.Done). *)
From Coq Require Import ZArith NArith List Bool Lia.
From KV Require Import Common.Verdict Gen.Consts_C24.
Import ListNotations.
Open Scope Z_scope.

Definition memN (x : N) (l : list N) : bool := existsb (N.eqb x) l.
Definition memZ (x : Z) (l : list Z) : bool := existsb (Z.eqb x) l.

Record msg := {
  m_coord : bool;     (* the payload is a *coordinationMessage *)
  m_sender : N;       (* message.senderID, the member index the sender claims *)
  m_op : N;           (* operator owning netMessage.SenderPublicKey() (authenticated by the network layer) *)
  m_block : Z;        (* message.coordinationBlock *)
  m_wallet : N;       (* message.walletPublicKeyHash *)
  m_action : Z;       (* message.proposal.ActionType() *)
  m_pid : N           (* identity of the proposal object carried by the message *)
}.

Record cfg := {
  f_seats : list N;   (* coordinatedWallet.signingGroupOperators: seat i (0-based) is member i+1 *)
  f_self : list N;    (* ce.membersIndexes: the member indexes of the executing follower *)
  f_leader : N;       (* the leader operator passed to the routine *)
  f_block : Z;        (* coordinationBlock *)
  f_wallet : N;       (* ce.walletPublicKeyHash() *)
  f_allowed : list Z  (* actionsAllowed *)
}.

Record fault := { culprit : N; ftype : Z }.

Inductive event := Msg (m : msg) | Timeout.

Inductive fres :=
| Accepted (pid : N) (faults : list fault)   (* return message.proposal, faults, nil *)
| TimedOut (faults : list fault)             (* return nil, faults, error *)
| Blocked (faults : list fault)              (* the history ended without ctx.Done: still waiting *)
| FPanic.                                    (* membersByOperator(leader)[0]: index out of range *)

(* wallet.membersByOperator: member indexes (i+1, as uint8) of the seats held by [o]; the
   Go code sorts the list, which is already ascending *)
Fixpoint members_from (o : N) (seats : list N) (i : N) : list N :=
  match seats with
  | [] => []
  | s :: t => (if N.eqb s o then [N.modulo i 256] else []) ++ members_from o t (i + 1)
  end.
Definition members_by_operator (o : N) (seats : list N) : list N := members_from o seats 1.
Definition leader_id (c : cfg) : option N := hd_error (members_by_operator (f_leader c) (f_seats c)).

(* MembershipValidator.IsValidMembership(memberID, publicKey): index := int(memberID - 1)
   on uint8 (0 wraps to 255); true iff the key's operator holds seat [index] *)
Definition valid_membership (seats : list N) (sender op : N) : bool :=
  match nth_error seats (N.to_nat (N.modulo (sender + 255) 256)) with
  | Some o => N.eqb o op
  | None => false
  end.

(* ---- one iteration of the loop on a received message: the filters in program order ---- *)
Inductive step := Ignore | AddFault (f : fault) | Accept.

Definition classify (c : cfg) (lid : N) (m : msg) : step :=
  if negb (m_coord m) then Ignore                                     (* wrong type *)
  else if memN (m_sender m) (f_self c) then Ignore                    (* from self *)
  else if negb (valid_membership (f_seats c) (m_sender m) (m_op m)) then Ignore
  else if negb (f_block c =? m_block m) then Ignore                   (* wrong window *)
  else if negb (N.eqb (f_wallet c) (m_wallet m)) then Ignore          (* wrong wallet *)
  else if negb (N.eqb lid (m_sender m)) then
    AddFault {| culprit := m_op m; ftype := FaultLeaderImpersonation |}
  else if negb (memZ (m_action m) (f_allowed c)) then
    AddFault {| culprit := f_leader c; ftype := FaultLeaderMistake |}
  else Accept.

Fixpoint follow (c : cfg) (lid : N) (h : list event) (acc : list fault) : fres :=
  match h with
  | [] => Blocked acc
  | Timeout :: _ => TimedOut (acc ++ [{| culprit := f_leader c; ftype := FaultLeaderIdleness |}])
  | Msg m :: t =>
      match classify c lid m with
      | Ignore => follow c lid t acc
      | AddFault f => follow c lid t (acc ++ [f])
      | Accept => Accepted (m_pid m) acc
      end
  end.

Definition follower (c : cfg) (h : list event) : fres :=
  match leader_id c with
  | None => FPanic
  | Some lid => follow c lid h []
  end.

(* ---------- the vocabulary of the property ---------- *)
(* the sender really holds the seat it claims *)
Definition authentic (c : cfg) (m : msg) : bool := valid_membership (f_seats c) (m_sender m) (m_op m).
(* a coordination message for this window and this wallet, with a valid membership *)
Definition on_topic (c : cfg) (m : msg) : bool :=
  m_coord m && authentic c m && (f_block c =? m_block m) && N.eqb (f_wallet c) (m_wallet m).
Definition from_self (c : cfg) (m : msg) : bool := memN (m_sender m) (f_self c).
(* the leader's valid proposal *)
Definition acceptable (c : cfg) (lid : N) (m : msg) : bool :=
  on_topic c m && N.eqb lid (m_sender m) && memZ (m_action m) (f_allowed c).
(* a proposal raised for this window and wallet by somebody who is not the leader's first member *)
Definition impersonates (c : cfg) (lid : N) (m : msg) : bool :=
  on_topic c m && negb (from_self c m) && negb (N.eqb lid (m_sender m)).
Definition mistaken (c : cfg) (lid : N) (m : msg) : bool :=
  on_topic c m && negb (from_self c m) && N.eqb lid (m_sender m) && negb (memZ (m_action m) (f_allowed c)).
Definition fault_of (c : cfg) (lid : N) (m : msg) : list fault :=
  if impersonates c lid m then [{| culprit := m_op m; ftype := FaultLeaderImpersonation |}]
  else if mistaken c lid m then [{| culprit := f_leader c; ftype := FaultLeaderMistake |}]
  else [].

(* the messages received during the active phase: up to the first Timeout *)
Fixpoint active (h : list event) : list msg :=
  match h with
  | Msg m :: t => m :: active t
  | _ => []
  end.
Fixpoint has_timeout (h : list event) : bool :=
  match h with
  | [] => false
  | Timeout :: _ => true
  | Msg _ :: t => has_timeout t
  end.

(* ---------- cases ---------- *)
Record obs := {
  o_panic : bool;
  o_pid : option N;        (* the returned proposal (identity), None for nil *)
  o_faults : list fault;
  o_err : bool             (* err != nil *)
}.
Record case := { k_cfg : cfg; k_hist : list event; k_out : obs }.

Definition obs_of (r : fres) : option obs :=
  match r with
  | Accepted p fs => Some {| o_panic := false; o_pid := Some p; o_faults := fs; o_err := false |}
  | TimedOut fs => Some {| o_panic := false; o_pid := None; o_faults := fs; o_err := true |}
  | FPanic => Some {| o_panic := true; o_pid := None; o_faults := []; o_err := false |}
  | Blocked _ => None
  end.

Definition fault_eqb (a b : fault) : bool := N.eqb (culprit a) (culprit b) && (ftype a =? ftype b).
Fixpoint faults_eqb (a b : list fault) : bool :=
  match a, b with
  | [], [] => true
  | x :: a', y :: b' => fault_eqb x y && faults_eqb a' b'
  | _, _ => false
  end.
Definition optN_eqb (a b : option N) : bool :=
  match a, b with
  | Some x, Some y => N.eqb x y
  | None, None => true
  | _, _ => false
  end.
Definition obs_eqb (a b : obs) : bool :=
  Bool.eqb (o_panic a) (o_panic b) && optN_eqb (o_pid a) (o_pid b)
  && faults_eqb (o_faults a) (o_faults b) && Bool.eqb (o_err a) (o_err b).

(* ---------- executable form of the property, on the implementation's output ---------- *)
(* the messages before the first one carrying proposal [p] *)
Fixpoint before_pid (p : N) (l : list msg) : option (list msg * msg) :=
  match l with
  | [] => None
  | m :: t => if N.eqb (m_pid m) p then Some ([], m)
              else match before_pid p t with
                   | Some (pre, x) => Some (m :: pre, x)
                   | None => None
                   end
  end.

Fixpoint insertN (x : N) (l : list N) : list N :=
  match l with
  | [] => [x]
  | y :: t => if N.leb x y then x :: l else y :: insertN x t
  end.
Definition sortN (l : list N) : list N := fold_right insertN [] l.
Fixpoint listN_eqb (a b : list N) : bool :=
  match a, b with
  | [], [] => true
  | x :: a', y :: b' => N.eqb x y && listN_eqb a' b'
  | _, _ => false
  end.

Definition culprits_of (t : Z) (fs : list fault) : list N :=
  map culprit (filter (fun f => ftype f =? t) fs).

(* only the three fault types of the follower routine occur *)
Definition known_fault (f : fault) : bool :=
  (ftype f =? FaultLeaderIdleness) || (ftype f =? FaultLeaderMistake) || (ftype f =? FaultLeaderImpersonation).

Definition spec_ok (c : cfg) (h : list event) (o : obs) : bool :=
  match leader_id c with
  | None => true                      (* the leader backs no seat: outside the property *)
  | Some lid =>
      negb (o_panic o) &&
      let act := active h in
      match o_pid o with
      | Some p =>
          (* a proposal is returned only if it is the leader's valid proposal, received
             during the active phase; no error, the leader is not called idle *)
          match before_pid p act with
          | None => false
          | Some (pre, m) =>
              acceptable c lid m
              && negb (o_err o)
              && listN_eqb (culprits_of FaultLeaderIdleness (o_faults o)) []
              (* impersonators seen before it are blamed under their own operator *)
              && listN_eqb (sortN (culprits_of FaultLeaderImpersonation (o_faults o)))
                           (sortN (map m_op (filter (impersonates c lid) pre)))
              (* the leader's disallowed proposals seen before it are recorded as his mistakes *)
              && listN_eqb (culprits_of FaultLeaderMistake (o_faults o))
                           (map (fun _ => f_leader c) (filter (mistaken c lid) pre))
              && forallb known_fault (o_faults o)
          end
      | None =>
          (* nothing returned: an error, the leader -- and only the leader -- is recorded as
             idle, once, and indeed no valid proposal of the leader arrived in time *)
          o_err o
          && listN_eqb (culprits_of FaultLeaderIdleness (o_faults o)) [f_leader c]
          && negb (existsb (fun m => acceptable c lid m && negb (from_self c m)) act)
          && listN_eqb (sortN (culprits_of FaultLeaderImpersonation (o_faults o)))
                       (sortN (map m_op (filter (impersonates c lid) act)))
          && listN_eqb (culprits_of FaultLeaderMistake (o_faults o))
                       (map (fun _ => f_leader c) (filter (mistaken c lid) act))
          && forallb known_fault (o_faults o)
      end
  end.

Definition msg_eqb (a b : msg) : bool :=
  Bool.eqb (m_coord a) (m_coord b) && N.eqb (m_sender a) (m_sender b) && N.eqb (m_op a) (m_op b)
  && (m_block a =? m_block b) && N.eqb (m_wallet a) (m_wallet b) && (m_action a =? m_action b)
  && N.eqb (m_pid a) (m_pid b).
(* proposal identities identify messages: two messages of the active phase carrying the same
   proposal object are retransmissions of each other *)
Fixpoint pids_ok (l : list msg) : bool :=
  match l with
  | [] => true
  | m :: t => forallb (fun x => negb (N.eqb (m_pid x) (m_pid m)) || msg_eqb x m) t && pids_ok t
  end.

Definition well_formed (c : cfg) (h : list event) : bool :=
  has_timeout h
  && pids_ok (active h)
  && (Nat.leb (length (f_seats c)) 255)
  && forallb (fun s => negb (N.eqb s 0)) (f_seats c)
  && forallb (fun e => match e with Msg m => N.ltb (m_sender m) 256 | Timeout => true end) h.

Definition judge (k : case) : verdict :=
  if negb (well_formed (k_cfg k) (k_hist k)) then BadCase else
  decide (spec_ok (k_cfg k) (k_hist k) (k_out k))
         (match obs_of (follower (k_cfg k) (k_hist k)) with
          | Some o => obs_eqb o (k_out k)
          | None => false
          end).

Definition explain (k : case) : fres := follower (k_cfg k) (k_hist k).
