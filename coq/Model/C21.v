(* C21 — executable model of pkg/firewall/firewall.go, anyApplicationPolicy.Validate.
   Peers are N identifiers (one per distinct operator public key, i.e. per distinct
   PublicKey.String()).  The two time caches are sets: every sequence is inside both caching
   periods, so Sweep removes nothing (cache expiry, real time, is out of scope).
   The applications' answers are an oracle: each validation carries the answer every
   application WOULD give if asked in that call ([Yes]/[No]/[Err]), in application order. *)
From Coq Require Import NArith List Bool.
From KV Require Import Common.Verdict.
Import ListNotations.

Inductive ans := Yes | No | Err.
(* nil | errNotRecognized | "could not validate ..." (wrapped application error) *)
Inductive result := Admit | NotRecognized | Failed.

Record state := { pos : list N; neg : list N }.
Definition empty : state := {| pos := []; neg := [] |}.

Definition memN (x : N) (l : list N) : bool := existsb (N.eqb x) l.

(* the loop over the applications: outcome and number of applications consulted *)
Inductive scan_res := SYes | SNo | SErr.
Fixpoint scan (l : list ans) : scan_res * nat :=
  match l with
  | [] => (SNo, 0)
  | Yes :: _ => (SYes, 1)
  | Err :: _ => (SErr, 1)
  | No :: t => let (r, k) := scan t in (r, S k)
  end.

Record outcome := { o_result : result; o_calls : nat; o_after : state }.

Definition validate (allow : list N) (st : state) (p : N) (answers : list ans) : outcome :=
  if memN p allow then {| o_result := Admit; o_calls := 0; o_after := st |} else
  if memN p (pos st) then {| o_result := Admit; o_calls := 0; o_after := st |} else
  if memN p (neg st) then {| o_result := NotRecognized; o_calls := 0; o_after := st |} else
  match scan answers with
  | (SErr, k) => {| o_result := Failed; o_calls := k; o_after := st |}
  | (SYes, k) => {| o_result := Admit; o_calls := k;
                    o_after := {| pos := p :: pos st; neg := neg st |} |}
  | (SNo, k) => {| o_result := NotRecognized; o_calls := k;
                   o_after := {| pos := pos st; neg := p :: neg st |} |}
  end.

(* a sequence of validations on one policy object *)
Definition step := (N * list ans)%type.
Fixpoint run (allow : list N) (st : state) (steps : list step) : list (state * outcome) :=
  match steps with
  | [] => []
  | (p, a) :: t => let o := validate allow st p a in (st, o) :: run allow (o_after o) t
  end.

(* ---------- the property in executable form, on OBSERVED validations ---------- *)
(* one observed validation: the peer, the answers the scripted applications would give, the
   value returned by Validate and the indices of the applications that were actually asked
   (IsRecognized calls, in call order) *)
Record obs := { ob_peer : N; ob_answers : list ans; ob_result : result; ob_calls : list N }.

Definition ans_eqb (a b : ans) : bool :=
  match a, b with Yes, Yes | No, No | Err, Err => true | _, _ => false end.
Definition result_eqb (a b : result) : bool :=
  match a, b with Admit, Admit | NotRecognized, NotRecognized | Failed, Failed => true
  | _, _ => false end.
Definition has (a : ans) (l : list ans) : bool := existsb (ans_eqb a) l.

(* the answers actually given in a validation *)
Definition given (o : obs) : list ans :=
  map (fun i => nth (N.to_nat i) (ob_answers o) No) (ob_calls o).
Definition asked_all (napps : nat) (o : obs) : bool :=
  forallb (fun i => memN (N.of_nat i) (ob_calls o)) (seq 0 napps).
(* a validation in which some application recognised the peer and no check failed *)
Definition said_yes (o : obs) : bool := has Yes (given o) && negb (has Err (given o)).
(* a validation in which every application was asked and every one answered No *)
Definition said_no (napps : nat) (o : obs) : bool :=
  asked_all napps o && forallb (ans_eqb No) (given o).

Definition earlier (f : obs -> bool) (p : N) (hist : list obs) : bool :=
  existsb (fun e => N.eqb (ob_peer e) p && f e) hist.

(* admitted  => allowlisted, or recognised in this call, or a positive answer for the same
                peer was given earlier (reuse within the caching period)
   rejected  => not allowlisted, and: a check failed in this call, or all applications
                said No in this call, or all said No for this peer earlier (reuse)
   a failed check in this call never admits *)
Definition step_ok (allow : list N) (napps : nat) (hist : list obs) (o : obs) : bool :=
  let p := ob_peer o in
  match ob_result o with
  | Admit => negb (has Err (given o))
             && (memN p allow || said_yes o || earlier said_yes p hist)
  | _ => negb (memN p allow)
         && (has Err (given o) || said_no napps o || earlier (said_no napps) p hist)
  end.

Fixpoint spec_from (allow : list N) (napps : nat) (hist rest : list obs) : bool :=
  match rest with
  | [] => true
  | o :: t => step_ok allow napps hist o && spec_from allow napps (o :: hist) t
  end.

(* The verdict must also follow the answers the applications WOULD give, in application order
   (the oracle [ob_answers]), not only the answers the implementation chose to collect: the loop
   stops at the first Yes or the first Err.  [step_ok] alone accepts a rejection whenever a
   failed check was collected in the call — also one collected AFTER an application had already
   recognised the peer.  An earlier verdict for the same peer may be reused (caching period):
     allowlisted                       => admitted;
     first answer that is not No = Yes => admitted, unless the peer was rejected as not
                                          recognised earlier (reuse of that verdict);
     otherwise (Err first, or all No)  => not admitted, unless the peer was admitted earlier. *)
Definition verdict_before (r : result) (p : N) (hist : list obs) : bool :=
  existsb (fun e => N.eqb (ob_peer e) p && result_eqb (ob_result e) r) hist.
Definition order_ok (allow : list N) (hist : list obs) (o : obs) : bool :=
  let p := ob_peer o in
  if memN p allow then result_eqb (ob_result o) Admit else
  match fst (scan (ob_answers o)) with
  | SYes => result_eqb (ob_result o) Admit || verdict_before NotRecognized p hist
  | _ => negb (result_eqb (ob_result o) Admit) || verdict_before Admit p hist
  end.
Fixpoint order_from (allow : list N) (hist rest : list obs) : bool :=
  match rest with
  | [] => true
  | o :: t => order_ok allow hist o && order_from allow (o :: hist) t
  end.

Definition spec_ok (allow : list N) (napps : nat) (l : list obs) : bool :=
  spec_from allow napps [] l && order_from allow [] l.

(* ---------- correspondence ---------- *)
Record case := { c_allow : list N; c_napps : nat; c_obs : list obs }.

Definition steps_of (l : list obs) : list step := map (fun o => (ob_peer o, ob_answers o)) l.

Fixpoint list_eqbN (a b : list N) : bool :=
  match a, b with
  | [], [] => true
  | x :: a', y :: b' => N.eqb x y && list_eqbN a' b'
  | _, _ => false
  end.

(* the model's observation of one validation: result and applications 0..k-1 in order *)
Definition model_obs (o : outcome) : result * list N :=
  (o_result o, map N.of_nat (seq 0 (o_calls o))).
Definition agree_step (o : obs) (m : state * outcome) : bool :=
  let '(r, calls) := model_obs (snd m) in
  result_eqb (ob_result o) r && list_eqbN (ob_calls o) calls.
Fixpoint agree_all (l : list obs) (m : list (state * outcome)) : bool :=
  match l, m with
  | [], [] => true
  | o :: l', x :: m' => agree_step o x && agree_all l' m'
  | _, _ => false
  end.

Definition well_formed (c : case) : bool :=
  forallb (fun o => Nat.eqb (length (ob_answers o)) (c_napps c)) (c_obs c).

Definition judge (c : case) : verdict :=
  if negb (well_formed c) then BadCase else
  decide (spec_ok (c_allow c) (c_napps c) (c_obs c))
         (agree_all (c_obs c) (run (c_allow c) empty (steps_of (c_obs c)))).

(* what --replay prints: the model's result and calls per validation *)
Definition explain (c : case) : list (result * list N) :=
  map (fun m => model_obs (snd m)) (run (c_allow c) empty (steps_of (c_obs c))).

(* ---------- vocabulary of the theorems (Props/C21.v) ---------- *)
(* the state of the two caches after a sequence of validations *)
Definition final (allow : list N) (st : state) (steps : list step) : state :=
  fold_left (fun st s => o_after (validate allow st (fst s) (snd s))) steps st.

(* [x] is the first answer that is not No *)
Definition first_is (x : ans) (a : list ans) : Prop :=
  exists pre post, a = pre ++ x :: post /\ Forall (eq No) pre.

(* what the model lets an observer see of a run, as a list of observed validations *)
Fixpoint model_trace (allow : list N) (st : state) (steps : list step) : list obs :=
  match steps with
  | [] => []
  | (p, a) :: t =>
      let o := validate allow st p a in
      {| ob_peer := p; ob_answers := a; ob_result := o_result o;
         ob_calls := map N.of_nat (seq 0 (o_calls o)) |} :: model_trace allow (o_after o) t
  end.

(* the in-order part of the property of one observed validation (see [order_ok]) *)
Definition order_prop (allow : list N) (hist : list obs) (o : obs) : Prop :=
  let p := ob_peer o in
  (In p allow -> ob_result o = Admit) /\
  (~ In p allow -> first_is Yes (ob_answers o) ->
     ob_result o = Admit \/
     exists e, In e hist /\ ob_peer e = p /\ ob_result e = NotRecognized) /\
  (~ In p allow -> ~ first_is Yes (ob_answers o) ->
     ob_result o <> Admit \/
     exists e, In e hist /\ ob_peer e = p /\ ob_result e = Admit).

Definition all_asked (napps : nat) (o : obs) : Prop :=
  forall i, (i < napps)%nat -> In (N.of_nat i) (ob_calls o).

(* the property of one observed validation [o] given the earlier ones [hist] *)
Definition step_prop (allow : list N) (napps : nat) (hist : list obs) (o : obs) : Prop :=
  let p := ob_peer o in
  (In Err (given o) -> ob_result o <> Admit) /\
  (ob_result o = Admit ->
     In p allow \/ In Yes (given o) \/
     exists e, In e hist /\ ob_peer e = p /\ In Yes (given e) /\ ~ In Err (given e)) /\
  (ob_result o <> Admit ->
     ~ In p allow /\
     (In Err (given o) \/ (all_asked napps o /\ Forall (eq No) (given o)) \/
      exists e, In e hist /\ ob_peer e = p /\ all_asked napps e /\ Forall (eq No) (given e))).
