(* C26 — executable model of the four wallet transaction assembly functions
     pkg/tbtc/deposit_sweep.go      assembleDepositSweepTransaction
     pkg/tbtc/redemption.go         withRedemptionTotalFee, assembleRedemptionTransaction
     pkg/tbtc/moving_funds.go       assembleMovingFundsTransaction
     pkg/tbtc/moved_funds_sweep.go  assembleMovedFundsSweepUtxo, assembleMovedFundsSweepTransaction
   and of the part of pkg/bitcoin/transaction_builder.go they use (AddPublicKeyHashInput,
   AddScriptHashInput, getScript, AddOutput, TotalInputsValue), AS WRITTEN: amounts are Go
   int64 (every + and - wraps, / truncates toward zero, % has the sign of the dividend),
   the redeemable amount is a uint64 subtraction converted to int64.
   Scripts and outpoints are N identifiers (the driver numbers script byte strings and
   (txhash, index) pairs by first occurrence).  The Bitcoin chain client is data: every UTXO of
   a case carries what the chain answers for its outpoint ([centry]). *)
From Coq Require Import ZArith NArith List Bool Lia.
From KV Require Import Common.Verdict.
Import ListNotations.
Open Scope Z_scope.

(* ---------- Go int64 arithmetic ---------- *)
Definition two63 : Z := 9223372036854775808.
Definition two64 : Z := 18446744073709551616.
Definition w64 (z : Z) : Z := (z + two63) mod two64 - two63.   (* two's complement wrap *)
Definition add64 (a b : Z) : Z := w64 (a + b).
Definition sub64 (a b : Z) : Z := w64 (a - b).
Definition quot64 (a b : Z) : Z := w64 (Z.quot a b).            (* Go's / *)
Definition rem64 (a b : Z) : Z := Z.rem a b.                    (* Go's % *)
Definition in64 (z : Z) : bool := (- two63 <=? z) && (z <? two63).
Definition inU64 (z : Z) : bool := (0 <=? z) && (z <? two64).

Definition sumZ (l : list Z) : Z := fold_right Z.add 0 l.

(* ---------- data ---------- *)
(* class of the locking script the chain reports for an outpoint, as the builder tests it:
   P2PKH or P2WPKH / P2SH or P2WSH / anything else *)
Inductive sclass := KPkh | KSh | KOther.
(* the chain's answer for an outpoint: unknown transaction (GetTransaction errs) / the
   transaction has no such output (Go: index out of range) / the output with its class and
   its real value *)
Inductive centry := CMissing | CNoOutput | COut (k : sclass) (actual : Z).
(* a bitcoin.UnspentTransactionOutput handed to the assembly function: outpoint, the value the
   caller claims, and the chain's answer for that outpoint *)
Record utxo := { u_op : N; u_value : Z; u_chain : centry }.
(* a Deposit: its UTXO, and whether Deposit.Script() succeeds (depositor is 20 bytes of hex) *)
Record deposit := { d_utxo : utxo; d_script_ok : bool }.
(* a RedemptionRequest: redeemer output script, RequestedAmount and TreasuryFee (uint64) *)
Record request := { r_script : N; r_amount : Z; r_treasury : Z }.

Definition input := (N * Z)%type.     (* outpoint, value recorded by the builder *)
Definition output := (N * Z)%type.    (* script, value *)
Inductive res := Tx (ins : list input) (outs : list output) | Rejected | Panic.

Inductive step (A : Type) := SOk (a : A) | SErr | SPanic.
Arguments SOk {A} a.  Arguments SErr {A}.  Arguments SPanic {A}.
Definition bind {A} (s : step A) (f : A -> res) : res :=
  match s with SOk a => f a | SErr => Rejected | SPanic => Panic end.

Definition sclass_eqb (a b : sclass) : bool :=
  match a, b with KPkh, KPkh | KSh, KSh | KOther, KOther => true | _, _ => false end.

Definition in_of (u : utxo) : input := (u_op u, u_value u).
Definition opt_list {A} (o : option A) : list A := match o with Some a => [a] | None => [] end.
Definition values (l : list (N * Z)) : list Z := map snd l.
Definition scripts (l : list (N * Z)) : list N := map fst l.

(* ---------- transaction builder ---------- *)
(* AddPublicKeyHashInput (want = KPkh) / AddScriptHashInput (want = KSh): getScript fetches the
   previous transaction, indexes its outputs, tests the script class; the value recorded is
   the CLAIMED utxo.Value *)
Definition add_input (want : sclass) (b : list input) (u : utxo) : step (list input) :=
  match u_chain u with
  | CMissing => SErr
  | CNoOutput => SPanic
  | COut k _ => if sclass_eqb k want then SOk (b ++ [in_of u]) else SErr
  end.
Definition add_opt_input (want : sclass) (b : list input) (u : option utxo) : step (list input) :=
  match u with None => SOk b | Some u => add_input want b u end.
(* TotalInputsValue: an int64 accumulator *)
Definition total_inputs (b : list input) : Z :=
  fold_left (fun acc i => add64 acc (snd i)) b 0.

(* ---------- deposit sweep ---------- *)
Fixpoint add_deposits (b : list input) (ds : list deposit) : step (list input) :=
  match ds with
  | [] => SOk b
  | d :: t =>
      if negb (d_script_ok d) then SErr else
      match add_input KSh b (d_utxo d) with
      | SOk b' => add_deposits b' t
      | SErr => SErr
      | SPanic => SPanic
      end
  end.

Definition assemble_deposit_sweep (own : N) (main : option utxo) (ds : list deposit) (fee : Z) : res :=
  match ds with
  | [] => Rejected
  | _ =>
      bind (add_opt_input KPkh [] main) (fun b =>
      bind (add_deposits b ds) (fun b' =>
      Tx b' [(own, sub64 (total_inputs b') fee)]))
  end.

(* ---------- even split with the remainder on the last (written twice in the Go code:
   withRedemptionTotalFee and assembleMovingFundsTransaction) ---------- *)
(* remainder := total % n; per := (total - remainder) / n; the last gets per + remainder.
   None = integer division by zero (run-time panic). *)
Definition even_split (total : Z) (n : nat) : option (list Z) :=
  match n with
  | O => None
  | S m =>
      let r := rem64 total (Z.of_nat n) in
      let per := quot64 (sub64 total r) (Z.of_nat n) in
      Some (repeat per m ++ [add64 per r])
  end.

(* ---------- redemption ---------- *)
(* how the fee shares are produced: the production distribution withRedemptionTotalFee(fee), or
   an arbitrary redemptionFeeDistributionFn returning the given list *)
Inductive dist := DTotal (fee : Z) | DShares (l : list Z).
Definition fee_shares (d : dist) (n : nat) : option (list Z) :=
  match d with DTotal fee => even_split fee n | DShares l => Some l end.

(* the loop over the requests: outputs so far, totalFee, totalRedemptionOutputsValue;
   None = feeShares[i] out of range *)
Fixpoint red_loop (reqs : list request) (shares : list Z) (outs : list output) (tf tr : Z)
  : option (list output * Z * Z) :=
  match reqs with
  | [] => Some (outs, tf, tr)
  | r :: t =>
      match shares with
      | [] => None
      | s :: st =>
          let redeemable := w64 (r_amount r - r_treasury r) in
          let v := sub64 redeemable s in
          red_loop t st (outs ++ [(r_script r, v)]) (add64 tf s) (add64 tr v)
      end
  end.

(* shape: 0 = RedemptionChangeFirst, 1 = RedemptionChangeLast, anything else panics when a
   change output exists *)
Definition assemble_redemption (own : N) (main : option utxo) (reqs : list request) (d : dist)
           (shape : N) : res :=
  match main with
  | None => Rejected
  | Some mu =>
  match reqs with
  | [] => Rejected
  | _ =>
      bind (add_input KPkh [] mu) (fun b =>
      match fee_shares d (length reqs) with
      | None => Panic
      | Some sh =>
      match red_loop reqs sh [] 0 0 with
      | None => Panic
      | Some (outs, tf, tr) =>
          let change := sub64 (sub64 (total_inputs b) tr) tf in
          if 0 <? change then
            match shape with
            | 0%N => Tx b ((own, change) :: outs)
            | 1%N => Tx b (outs ++ [(own, change)])
            | _ => Panic
            end
          else Tx b outs
      end end)
  end end.

(* ---------- moving funds ---------- *)
Definition assemble_moving_funds (main : option utxo) (targets : list N) (fee : Z) : res :=
  match targets with
  | [] => Rejected
  | _ =>
  match main with
  | None => Rejected
  | Some mu =>
      bind (add_input KPkh [] mu) (fun b =>
      match even_split (sub64 (u_value mu) fee) (length targets) with
      | None => Panic
      | Some vs => Tx b (combine targets vs)
      end)
  end end.

(* ---------- moved funds sweep ---------- *)
(* the moved funds UTXO argument: nil / built by assembleMovedFundsSweepUtxo from the chain /
   given directly *)
Inductive moved_arg := MNil | MChain (op : N) (e : centry) | MDirect (u : utxo).
Definition moved_utxo (m : moved_arg) : step (option utxo) :=
  match m with
  | MNil => SOk None
  | MDirect u => SOk (Some u)
  | MChain op e =>
      match e with
      | CMissing => SErr
      | CNoOutput => SPanic
      | COut _ v => SOk (Some {| u_op := op; u_value := v; u_chain := e |})
      end
  end.

Definition assemble_moved_funds_sweep (own : N) (moved : option utxo) (main : option utxo) (fee : Z) : res :=
  match moved with
  | None => Rejected
  | Some m =>
      bind (add_input KPkh [] m) (fun b =>
      bind (add_opt_input KPkh b main) (fun b' =>
      Tx b' [(own, sub64 (total_inputs b') fee)]))
  end.
Definition moved_funds_sweep (own : N) (m : moved_arg) (main : option utxo) (fee : Z) : res :=
  bind (moved_utxo m) (fun mu => assemble_moved_funds_sweep own mu main fee).

(* ====================================================================================
   The property in executable form, evaluated on the implementation's outputs.
   ==================================================================================== *)
Fixpoint listZ_eqb (a b : list Z) : bool :=
  match a, b with
  | [], [] => true
  | x :: a', y :: b' => Z.eqb x y && listZ_eqb a' b'
  | _, _ => false
  end.
Fixpoint listN_eqb (a b : list N) : bool :=
  match a, b with
  | [], [] => true
  | x :: a', y :: b' => N.eqb x y && listN_eqb a' b'
  | _, _ => false
  end.
Definition io_eqb (a b : list (N * Z)) : bool :=
  listN_eqb (map fst a) (map fst b) && listZ_eqb (map snd a) (map snd b).
Definition res_eqb (a b : res) : bool :=
  match a, b with
  | Tx i o, Tx i' o' => io_eqb i i' && io_eqb o o'
  | Rejected, Rejected | Panic, Panic => true
  | _, _ => false
  end.

(* the chain confirms the claimed value of the UTXO *)
Definition real (u : utxo) : bool :=
  match u_chain u with COut _ v => Z.eqb v (u_value u) | _ => false end.

(* solvency guard of the two sweeps: the claimed values are the chain's, non-negative, their
   sum is an int64, and 0 <= fee <= sum *)
Definition sweep_guard (us : list utxo) (fee : Z) : bool :=
  forallb real us && forallb (fun u => 0 <=? u_value u) us
  && (sumZ (map u_value us) <? two63) && (0 <=? fee) && (fee <=? sumZ (map u_value us)).

(* a sweep transaction: spends exactly [us] in order, one output to the wallet's own script;
   under the guard the output is worth (sum - fee) >= 0, i.e. inputs - outputs = fee *)
Definition sweep_ok (own : N) (us : list utxo) (fee : Z) (ins : list input) (outs : list output) : bool :=
  io_eqb ins (map in_of us)
  && listN_eqb (scripts outs) [own]
  && (negb (sweep_guard us fee)
      || (Z.eqb (sumZ (values ins) - sumZ (values outs)) fee
          && forallb (fun v => 0 <=? v) (values outs))).

(* ----- redemption ----- *)
Definition redeemable (r : request) : Z := r_amount r - r_treasury r.
(* guard on the requests: amounts and treasury fees are int64-sized, treasury fee <= amount *)
Definition req_guard (r : request) : bool :=
  (0 <=? r_treasury r) && (r_treasury r <=? r_amount r) && (r_amount r <? two63).
(* the redemption guard: main UTXO real, 0 <= value < 2^63; every request guarded; the wallet
   is solvent: sum of redeemable amounts <= main UTXO value; shape is a known one *)
Definition red_guard (mu : utxo) (reqs : list request) (shape : N) : bool :=
  real mu && (0 <=? u_value mu) && (u_value mu <? two63)
  && forallb req_guard reqs
  && (sumZ (map redeemable reqs) <=? u_value mu)
  && (N.leb shape 1).
(* guard on a list of shares against the requests: 0 <= share_i <= redeemable_i, same length *)
Fixpoint shares_guard (reqs : list request) (sh : list Z) : bool :=
  match reqs, sh with
  | [], [] => true
  | r :: t, s :: st => (0 <=? s) && (s <=? redeemable r) && shares_guard t st
  | _, _ => false
  end.
(* the even shares of a total fee, in Z: what the guard needs to know about them *)
Definition ideal_shares (fee : Z) (n : nat) : list Z :=
  match n with
  | O => []
  | S m => repeat (fee / Z.of_nat n) m ++ [fee / Z.of_nat n + fee mod Z.of_nat n]
  end.
Definition dist_guard (reqs : list request) (d : dist) : bool :=
  match d with
  | DTotal fee => (0 <=? fee) && (fee <? two63) && shares_guard reqs (ideal_shares fee (length reqs))
  | DShares l => shares_guard reqs l
  end.
Definition dist_total (d : dist) : Z :=
  match d with DTotal fee => fee | DShares l => sumZ l end.

(* split the outputs of a redemption transaction into (change, request outputs) *)
Definition split_change (n : nat) (shape : N) (outs : list output)
  : option (option output * list output) :=
  if Nat.eqb (length outs) n then Some (None, outs) else
  if Nat.eqb (length outs) (S n) then
    match shape with
    | 0%N => match outs with c :: t => Some (Some c, t) | [] => None end
    | _ => Some (Some (last outs (0%N, 0)), removelast outs)
    end
  else None.

(* the fee share request i is charged, read back from its output *)
Definition implied_shares (reqs : list request) (routs : list output) : list Z :=
  map (fun p => redeemable (fst p) - snd (snd p)) (combine reqs routs).

Definition redemption_ok (own : N) (mu : utxo) (reqs : list request) (d : dist) (shape : N)
           (ins : list input) (outs : list output) : bool :=
  io_eqb ins [in_of mu]
  && match split_change (length reqs) shape outs with
     | None => false
     | Some (ch, routs) =>
         (* only the intended scripts: the redeemers' in request order, the change to the wallet *)
         listN_eqb (scripts routs) (map r_script reqs)
         && match ch with Some c => N.eqb (fst c) own | None => true end
         && (negb (red_guard mu reqs shape && dist_guard reqs d)
             || ((* the implied fee shares add up to the proposed total fee and are those of
                    the distribution when it is given explicitly *)
                 Z.eqb (sumZ (implied_shares reqs routs)) (dist_total d)
                 && match d with DShares l => listZ_eqb (implied_shares reqs routs) l | DTotal _ => true end
                 && forallb (fun s => 0 <=? s) (implied_shares reqs routs)
                 && forallb (fun v => 0 <=? v) (values routs)
                 (* change = main - sum redeemable, present iff positive *)
                 && match ch with
                    | Some c => (Z.eqb (snd c) (u_value mu - sumZ (map redeemable reqs))) && (0 <? snd c)
                    | None => Z.eqb (u_value mu) (sumZ (map redeemable reqs))
                    end
                 (* inputs - outputs = fee *)
                 && Z.eqb (sumZ (values ins) - sumZ (values outs)) (dist_total d)))
     end.

(* ----- moving funds ----- *)
Definition mf_guard (mu : utxo) (fee : Z) : bool :=
  real mu && (0 <=? fee) && (fee <=? u_value mu) && (u_value mu <? two63).
(* all but the last value equal q, the last equals q + r *)
Fixpoint split_values_ok (q r : Z) (vs : list Z) : bool :=
  match vs with
  | [] => false
  | [v] => Z.eqb v (q + r)
  | v :: t => Z.eqb v q && split_values_ok q r t
  end.
Definition moving_funds_ok (mu : utxo) (targets : list N) (fee : Z)
           (ins : list input) (outs : list output) : bool :=
  io_eqb ins [in_of mu]
  && listN_eqb (scripts outs) targets
  && (negb (mf_guard mu fee)
      || (let total := u_value mu - fee in
          let n := Z.of_nat (length targets) in
          split_values_ok (total / n) (total mod n) (values outs)
          && Z.eqb (sumZ (values ins) - sumZ (values outs)) fee)).

(* ----- fee shares alone ----- *)
Definition fee_shares_ok (total : Z) (n : nat) (o : option (list Z)) : bool :=
  match o with
  | None => true                      (* no shares produced *)
  | Some l => Nat.eqb (length l) n && Z.eqb (sumZ l) total
              && (negb (0 <=? total) || forallb (fun s => 0 <=? s) l)
  end.

(* ====================================================================================
   cases and judge
   ==================================================================================== *)
Inductive case :=
| CDepositSweep (own : N) (main : option utxo) (ds : list deposit) (fee : Z) (o : res)
| CRedemption (own : N) (main : option utxo) (reqs : list request) (d : dist) (shape : N) (o : res)
| CMovingFunds (main : option utxo) (targets : list N) (fee : Z) (o : res)
| CMovedFundsSweep (own : N) (moved : moved_arg) (main : option utxo) (fee : Z) (o : res)
| CFeeShares (total : Z) (n : nat) (o : option (list Z)).

Definition utxo_wf (u : utxo) : bool :=
  in64 (u_value u) && match u_chain u with COut _ v => in64 v | _ => true end.
Definition req_wf (r : request) : bool := inU64 (r_amount r) && inU64 (r_treasury r).
Definition moved_wf (m : moved_arg) : bool :=
  match m with
  | MNil => true
  | MChain _ e => match e with COut _ v => in64 v | _ => true end
  | MDirect u => utxo_wf u
  end.
Definition dist_wf (d : dist) : bool :=
  match d with DTotal fee => in64 fee | DShares l => forallb in64 l end.
Definition res_wf (r : res) : bool :=
  match r with Tx i o => forallb in64 (values i) && forallb in64 (values o) | _ => true end.

Definition case_wf (c : case) : bool :=
  match c with
  | CDepositSweep _ main ds fee o =>
      forallb utxo_wf (opt_list main) && forallb (fun d => utxo_wf (d_utxo d)) ds && in64 fee && res_wf o
  | CRedemption _ main reqs d _ o =>
      forallb utxo_wf (opt_list main) && forallb req_wf reqs && dist_wf d && res_wf o
  | CMovingFunds main _ fee o => forallb utxo_wf (opt_list main) && in64 fee && res_wf o
  | CMovedFundsSweep _ m main fee o =>
      moved_wf m && forallb utxo_wf (opt_list main) && in64 fee && res_wf o
  | CFeeShares total _ o =>
      in64 total && match o with Some l => forallb in64 l | None => true end
  end.

(* the moved funds UTXO the sweep is intended to spend (for the spec), when there is one *)
Definition moved_intended (m : moved_arg) : option utxo :=
  match moved_utxo m with SOk (Some u) => Some u | _ => None end.

Definition spec_ok (c : case) : bool :=
  match c with
  | CDepositSweep own main ds fee (Tx ins outs) =>
      sweep_ok own (opt_list main ++ map d_utxo ds) fee ins outs
  | CRedemption own (Some mu) reqs d shape (Tx ins outs) =>
      redemption_ok own mu reqs d shape ins outs
  | CMovingFunds (Some mu) targets fee (Tx ins outs) =>
      moving_funds_ok mu targets fee ins outs
  | CMovedFundsSweep own m main fee (Tx ins outs) =>
      match moved_intended m with
      | Some u => sweep_ok own (u :: opt_list main) fee ins outs
      | None => false                (* a transaction without the moved funds UTXO *)
      end
  | CRedemption _ None _ _ _ (Tx _ _) => false   (* a transaction without the main UTXO *)
  | CMovingFunds None _ _ (Tx _ _) => false
  | CFeeShares total n o => fee_shares_ok total n o
  | _ => true                        (* nothing was assembled *)
  end.

Definition model (c : case) : res + option (list Z) :=
  match c with
  | CDepositSweep own main ds fee _ => inl (assemble_deposit_sweep own main ds fee)
  | CRedemption own main reqs d shape _ => inl (assemble_redemption own main reqs d shape)
  | CMovingFunds main targets fee _ => inl (assemble_moving_funds main targets fee)
  | CMovedFundsSweep own m main fee _ => inl (moved_funds_sweep own m main fee)
  | CFeeShares total n _ => inr (even_split total n)
  end.

Definition agree (c : case) : bool :=
  match c, model c with
  | CDepositSweep _ _ _ _ o, inl r
  | CRedemption _ _ _ _ _ o, inl r
  | CMovingFunds _ _ _ o, inl r
  | CMovedFundsSweep _ _ _ _ o, inl r => res_eqb o r
  | CFeeShares _ _ o, inr r =>
      match o, r with
      | Some a, Some b => listZ_eqb a b
      | None, None => true
      | _, _ => false
      end
  | _, _ => false
  end.

Definition judge (c : case) : verdict :=
  if negb (case_wf c) then BadCase else decide (spec_ok c) (agree c).

(* what --replay prints: the model's own output *)
Definition explain (c : case) : res + option (list Z) := model c.
