(* C01 — the CRASH (fail-silent) adversary class for the GJKR model of Model/C01.v.

   Model/C01.v lets the adversary publish arbitrary messages ([script]: adv1 .. adv10).  A crash
   adversary controls a set of seats each of which runs the HONEST code (the same phase
   functions as the honest members, on its own polynomials, with its own arrival orders) up to
   a phase [cr_from] of its own and publishes nothing from that phase on.  Its script is
   therefore not free: it is what those seats publish.  [crash_script_of] computes it by running
   all seats together (the "joint run": honest seats first, then the crashing seats, a seat
   whose crash phase has come is stopped by setting its [failed] flag, exactly as the model
   treats a member that stopped); [crash_adversary] is the predicate on scripts.

   No proofs in this file (Proofs/C01_crash.v). *)
From Coq Require Import ZArith NArith List Bool.
From KV Require Import Common.Verdict Model.C01.
Import ListNotations.
Open Scope N_scope.

(* a crashing seat: its polynomials and the first phase (1..12) in which it is silent;
   a value above 10 means it publishes every message (phase 10 is the last sending phase) *)
Record crasher := { cr_member : hmember; cr_from : N }.
Definition crash_ids (cs : list crasher) : list N := map (fun x => h_id (cr_member x)) cs.
(* honest seats never stop: 13 *)
Definition crash_from (cs : list crasher) (m : N) : N :=
  match find (fun x => N.eqb (h_id (cr_member x)) m) cs with
  | Some x => cr_from x
  | None => 13
  end.
(* the seat stops when its crash phase has come *)
Definition kill (K : N -> N) (p : N) (s : mstate) : mstate :=
  if K (me s) <=? p then set_failed true s else s.

(* what the live members among [sts] publish in a sending step (cf. [exchange]) *)
Definition pub (c : cfg) (f : mstate -> mstate * list msg) (sts : list mstate) : list netmsg :=
  flat_map (fun x => if failed (fst x) then [] else map (wrap c) (snd x))
           (map (fun s => if failed s then (s, []) else f s) sts).

Definition order_script (ord : list (N * list (N * list nat))) : script :=
  {| adv1 := []; adv3 := []; adv4 := []; adv7 := []; adv8 := []; adv10 := []; order := ord |}.

Section JointRun.
  Variable c : cfg.
  Variable ord : list (N * list (N * list nat)).
  Variable K : N -> N.
  Variable L0 : list mstate.          (* initial states of ALL seats *)
  Let sc := order_script ord.
  Definition f1 : mstate -> mstate * list msg := fun s => (s, phase1 c s).

  (* J_p: the states that enter sending phase p (seats whose crash phase has come are stopped);
     S_p: the states after step p *)
  Definition J1 := map (kill K 1) L0.
  Definition S1 := exchange c sc 1 f1 [] J1.
  Definition S2 := quiet (phase2 c) S1.
  Definition J3 := map (kill K 3) S2.
  Definition S3 := exchange c sc 3 (phase3 c) [] J3.
  Definition J4 := map (kill K 4) S3.
  Definition S4 := exchange c sc 4 (phase4 c) [] J4.
  Definition S5 := quiet (phase5 c) S4.
  Definition S6 := quiet (phase6 c) S5.
  Definition J7 := map (kill K 7) S6.
  Definition S7 := exchange c sc 7 (phase7 c) [] J7.
  Definition J8 := map (kill K 8) S7.
  Definition S8 := exchange c sc 8 (phase8 c) [] J8.
  Definition S9 := quiet (phase9 c) S8.
  Definition J10 := map (kill K 10) S9.
  Definition S10 := exchange c sc 10 (phase10 c) [] J10.
  Definition S11 := quiet (phase11 c) S10.
  Definition S12 := quiet (phase12 c) S11.

  (* the six sending steps: phase, step function, the states that enter it *)
  Definition joint_steps : list (N * (mstate -> mstate * list msg) * list mstate) :=
    [(1, f1, J1); (3, phase3 c, J3); (4, phase4 c, J4); (7, phase7 c, J7); (8, phase8 c, J8);
     (10, phase10 c, J10)].

  (* every live seat's arrival order of every sending phase is a permutation of the messages
     published in that phase *)
  Definition arrival_orders_ok : Prop :=
    forall p f J s, In (p, f, J) joint_steps -> In s J -> failed s = false ->
      is_perm (length (pub c f J)) (order_for sc (me s) p (length (pub c f J))) = true.

  (* the script of the crashing seats: the seats after the first [nh] *)
  Definition crash_script_of (nh : nat) : script :=
    {| adv1 := pub c f1 (skipn nh J1);
       adv3 := pub c (phase3 c) (skipn nh J3);
       adv4 := pub c (phase4 c) (skipn nh J4);
       adv7 := pub c (phase7 c) (skipn nh J7);
       adv8 := pub c (phase8 c) (skipn nh J8);
       adv10 := pub c (phase10 c) (skipn nh J10);
       order := ord |}.
End JointRun.

Definition all_seats (honest : list hmember) (cs : list crasher) : list mstate :=
  map init_state (honest ++ map cr_member cs).

(* THE ADVERSARY CLASS: [sc] is the script of the crash adversary that holds the seats [cs] *)
Definition crash_adversary (c : cfg) (honest : list hmember) (cs : list crasher) (sc : script) : Prop :=
  sc = crash_script_of c (order sc) (crash_from cs) (all_seats honest cs) (length honest).
(* all arrival orders (of honest and of not yet crashed seats) are permutations *)
Definition crash_orders_ok (c : cfg) (honest : list hmember) (cs : list crasher) (sc : script) : Prop :=
  arrival_orders_ok c (order sc) (crash_from cs) (all_seats honest cs).

(* every seat is either honest or held by the adversary; polynomials have t+1 coefficients *)
Definition seats_ok (c : cfg) (honest : list hmember) (cs : list crasher) : Prop :=
  NoDup (map h_id honest ++ crash_ids cs)
  /\ (forall m, In m (map h_id honest ++ crash_ids cs) -> in_group c m = true)
  /\ length (map h_id honest ++ crash_ids cs) = N.to_nat (gn c)
  /\ (forall h, In h (honest ++ map cr_member cs) ->
        length (h_coefA h) = tcount c /\ length (h_coefB h) = tcount c).

(* the inactive list every member ends with: the seats silent from phase 1, then those silent
   from phase 2 or 3, from 4, from 5..7, from 8, from 9 or 10 -- each in ascending seat order *)
Definition silent_between (c : cfg) (K : N -> N) (p0 p1 : N) : list N :=
  filter (fun m => ((p0 =? 0) || (p0 <? K m)) && negb (p1 <? K m)) (members c).
Definition crash_inactive (c : cfg) (K : N -> N) : list N :=
  silent_between c K 0 1 ++ silent_between c K 1 3 ++ silent_between c K 3 4
  ++ silent_between c K 4 7 ++ silent_between c K 7 8 ++ silent_between c K 8 10.
(* the group key every member ends with: the sum of the constant coefficients of the seats
   that distributed their shares (not silent before phase 4), i.e. QUAL *)
Definition coef_of (hs : list hmember) (m : N) : list Z :=
  match find (fun h => N.eqb (h_id h) m) hs with Some h => h_coefA h | None => [] end.
Definition crash_key (c : cfg) (K : N -> N) (A : N -> list Z) : Z :=
  let qual := filter (fun m => 3 <? K m) (members c) in
  (fold_right Z.add 0%Z (map (fun m => nth 0 (A m) 0%Z) qual) mod q c)%Z.
