(* C42 — executable model of pkg/sortition/sortition.go (MonitorPool's first check,
   checkOperatorStatus, checkRewardsEligibility) and policy.go (join policies).
   A "world" is what the chain answers during one status check; a history is a list of worlds. *)
From Coq Require Import List Bool.
From KV Require Import Common.Verdict.
Import ListNotations.

Inductive ans := ATrue | AFalse | AErr.          (* a chain query: (true,nil) (false,nil) (_,err) *)
Inductive tx := Join | Update | Restore.          (* the three state-changing requests *)

Record world := {
  registered : ans;      (* OperatorToStakingProvider: registered flag / error *)
  in_pool : ans; up_to_date : ans; locked : ans;
  eligible : ans; can_restore : ans;
  chaosnet : ans; beta : ans;
  restore_fails : bool; update_fails : bool; join_fails : bool   (* outcome of the transactions *)
}.

Inductive policy :=
| PUncond                       (* UnconditionalJoinPolicy *)
| PBeta                         (* BetaOperatorPolicy *)
| PConst (b : bool)             (* any other JoinPolicy, answering b *)
| PConj (ps : list policy).     (* ConjunctionPolicy: all must pass, left to right, short-circuit *)

Fixpoint should_join (w : world) (p : policy) : bool :=
  match p with
  | PUncond => true
  | PBeta =>
      match chaosnet w with
      | AErr => false
      | AFalse => true
      | ATrue => match beta w with ATrue => true | _ => false end
      end
  | PConst b => b
  | PConj ps =>
      (fix all (l : list policy) : bool :=
         match l with [] => true | q :: t => if should_join w q then all t else false end) ps
  end.

(* checkRewardsEligibility: the transactions it requests *)
Definition check_rewards (w : world) : list tx :=
  match eligible w with
  | AFalse => match can_restore w with ATrue => [Restore] | _ => [] end
  | _ => []
  end.

(* checkOperatorStatus: (transactions requested in order, error returned?) *)
Definition check_status (w : world) (p : policy) : list tx * bool :=
  match in_pool w with
  | AErr => ([], true)
  | inp =>
      match up_to_date w with
      | AErr => ([], true)
      | utd =>
          let r := match inp with ATrue => check_rewards w | _ => [] end in
          match utd with
          | ATrue => (r, false)
          | _ =>
              match locked w with
              | AErr => (r, true)
              | ATrue => (r, false)
              | AFalse =>
                  match inp with
                  | ATrue => (r ++ [Update], false)
                  | _ => if should_join w p then (r ++ [Join], false) else (r, false)
                  end
              end
          end
      end
  end.

(* MonitorPool up to and including its first check: (transactions, MonitorPool returned an error) *)
Definition monitor_first (w : world) (p : policy) : list tx * bool :=
  match registered w with
  | ATrue => (fst (check_status w p), false)   (* a failing check is only logged *)
  | _ => ([], true)
  end.

(* ---------- the property in executable form, on an observed list of requests ---------- *)
Definition ans_is (a : ans) (b : bool) : bool :=
  match a, b with ATrue, true | AFalse, false => true | _, _ => false end.
Definition tx_eqb (a b : tx) : bool :=
  match a, b with Join, Join | Update, Update | Restore, Restore => true | _, _ => false end.

Definition permitted (w : world) (p : policy) (t : tx) : bool :=
  match t with
  | Join => ans_is (in_pool w) false && ans_is (up_to_date w) false && ans_is (locked w) false
            && should_join w p
  | Update => ans_is (in_pool w) true && ans_is (up_to_date w) false && ans_is (locked w) false
  | Restore => ans_is (can_restore w) true
  end.

Definition spec_ok (w : world) (p : policy) (txs : list tx) : bool :=
  forallb (permitted w p) txs.

Fixpoint txs_eqb (a b : list tx) : bool :=
  match a, b with
  | [], [] => true
  | x :: a', y :: b' => tx_eqb x y && txs_eqb a' b'
  | _, _ => false
  end.

(* one step of a history: the world, and what the implementation was observed to do *)
Record step := { s_world : world; s_txs : list tx; s_err : bool }.
Record case := { c_policy : policy; c_steps : list step }.

Definition step_spec (p : policy) (s : step) : bool := spec_ok (s_world s) p (s_txs s).
Definition step_agree (p : policy) (s : step) : bool :=
  let '(t, e) := monitor_first (s_world s) p in txs_eqb t (s_txs s) && Bool.eqb e (s_err s).

Definition judge (c : case) : verdict :=
  match c_steps c with
  | [] => BadCase
  | _ => decide (forallb (step_spec (c_policy c)) (c_steps c))
                (forallb (step_agree (c_policy c)) (c_steps c))
  end.

Definition explain (c : case) : list (list tx * bool) :=
  map (fun s => monitor_first (s_world s) (c_policy c)) (c_steps c).
