(* C42 — executable model of pkg/sortition/sortition.go (MonitorPool, checkOperatorStatus,
   checkRewardsEligibility) and policy.go (join policies), plus tbtc's enoughPreParamsInPoolPolicy.
   A "world" is what the chain and the scripted sub-policies answer during ONE status check (one
   tick of MonitorPool); a history is a list of worlds. The join policy is ONE object graph that
   lives through the whole history: the model threads it through the ticks ([tick_st],
   [history_st]) exactly as MonitorPool hands the same [policy] value to every
   checkOperatorStatus call; Proofs/C42.v shows that no tick changes it. *)
From Coq Require Import List Bool ZArith Arith.
From KV Require Import Common.Verdict.
Import ListNotations.

Inductive ans := ATrue | AFalse | AErr.          (* a chain query: (true,nil) (false,nil) (_,err) *)
Inductive tx := Join | Update | Restore          (* the three state-changing requests *)
            | Panic.                           (* the check panicked (never in the model) *)

(* the read-only questions asked during a check, in the order they are asked *)
Inductive query :=
| QInPool | QUpToDate | QEligible | QCanRestore | QLocked | QChaosnet | QBeta
| QAsk (i : nat).         (* ShouldJoin of the i-th scripted sub-policy *)

Record world := {
  registered : ans;      (* OperatorToStakingProvider: registered flag / error (MonitorPool start only) *)
  in_pool : ans; up_to_date : ans; locked : ans;
  eligible : ans; can_restore : ans;
  chaosnet : ans; beta : ans;
  restore_fails : bool; update_fails : bool; join_fails : bool;   (* outcome of the transactions *)
  scripted : list bool;  (* answers of the scripted sub-policies at this tick *)
  pre_count : Z; pre_size : Z   (* pre-parameters in the pool / configured pool size at this tick *)
}.

Inductive policy :=
| PUncond                       (* UnconditionalJoinPolicy *)
| PBeta                         (* BetaOperatorPolicy *)
| PScript (i : nat)             (* any other JoinPolicy: answers what the world scripts for it *)
| PPre                          (* tbtc enoughPreParamsInPoolPolicy *)
| PConj (ps : list policy).     (* ConjunctionPolicy: all must pass, left to right, short-circuit *)

(* the per-tick pure decision *)
Fixpoint should_join (w : world) (p : policy) : bool :=
  match p with
  | PUncond => true
  | PBeta =>
      match chaosnet w with
      | AErr => false
      | AFalse => true
      | ATrue => match beta w with ATrue => true | _ => false end
      end
  | PScript i => nth i (scripted w) false
  | PPre => (pre_size w <=? pre_count w)%Z
  | PConj ps =>
      (fix all (l : list policy) : bool :=
         match l with [] => true | q :: t => if should_join w q then all t else false end) ps
  end.

(* the questions one ShouldJoin call asks *)
Fixpoint policy_queries (w : world) (p : policy) : list query :=
  match p with
  | PUncond => []
  | PBeta => QChaosnet :: match chaosnet w with ATrue => [QBeta] | _ => [] end
  | PScript i => [QAsk i]
  | PPre => []               (* reads the local pre-parameters pool: no chain question *)
  | PConj ps =>
      (fix all (l : list policy) : list query :=
         match l with
         | [] => []
         | q :: t => policy_queries w q ++ (if should_join w q then all t else [])
         end) ps
  end.

(* ShouldJoin on the policy OBJECT: the answer and the object graph as the call leaves it
   (ConjunctionPolicy.policies after the loop; the other policies have no mutable field) *)
Fixpoint should_join_st (w : world) (p : policy) : bool * policy :=
  match p with
  | PConj ps =>
      let '(b, ps') :=
        (fix all (l : list policy) : bool * list policy :=
           match l with
           | [] => (true, [])
           | q :: t =>
               let '(bq, q') := should_join_st w q in
               if bq then let '(bt, t') := all t in (bt, q' :: t') else (false, q' :: t)
           end) ps in
      (b, PConj ps')
  | _ => (should_join w p, p)
  end.

(* checkRewardsEligibility: the transactions it requests *)
Definition check_rewards (w : world) : list tx :=
  match eligible w with
  | AFalse => match can_restore w with ATrue => [Restore] | _ => [] end
  | _ => []
  end.
Definition rewards_queries (w : world) : list query :=
  QEligible :: match eligible w with AFalse => [QCanRestore] | _ => [] end.

(* checkOperatorStatus: (transactions requested in order, error returned?) *)
Definition check_status (w : world) (p : policy) : list tx * bool :=
  match in_pool w with
  | AErr => ([], true)
  | inp =>
      match up_to_date w with
      | AErr => ([], true)
      | utd =>
          let r := match inp with ATrue => check_rewards w | _ => [] end in
          match utd with
          | ATrue => (r, false)
          | _ =>
              match locked w with
              | AErr => (r, true)
              | ATrue => (r, false)
              | AFalse =>
                  match inp with
                  | ATrue => (r ++ [Update], false)
                  | _ => if should_join w p then (r ++ [Join], false) else (r, false)
                  end
              end
          end
      end
  end.

(* does this check get as far as asking the join policy? *)
Definition asks_policy (w : world) : bool :=
  match in_pool w, up_to_date w, locked w with AFalse, AFalse, AFalse => true | _, _, _ => false end.

(* checkOperatorStatus: the questions asked, in order *)
Definition check_queries (w : world) (p : policy) : list query :=
  QInPool ::
  match in_pool w with
  | AErr => []
  | inp =>
      QUpToDate ::
      match up_to_date w with
      | AErr => []
      | utd =>
          (match inp with ATrue => rewards_queries w | _ => [] end) ++
          match utd with
          | ATrue => []
          | _ => QLocked :: if asks_policy w then policy_queries w p else []
          end
      end
  end.

(* one tick: what is observable of one checkOperatorStatus call *)
Definition out := (list tx * bool * list query)%type.
Definition tick (p : policy) (w : world) : out := (check_status w p, check_queries w p).

(* one tick on the policy object: the observable and the object afterwards *)
Definition tick_st (p : policy) (w : world) : out * policy :=
  if asks_policy w then (tick p w, snd (should_join_st w p)) else (tick p w, p).

(* MonitorPool's loop: the same policy object is handed to every tick *)
Fixpoint history_st (p : policy) (ws : list world) : list out :=
  match ws with
  | [] => []
  | w :: t => let '(o, p') := tick_st p w in o :: history_st p' t
  end.

(* MonitorPool: registration is resolved once; then the first check and the ticks.
   (outputs per tick, MonitorPool returned an error) *)
Definition monitor (reg : ans) (p : policy) (ws : list world) : list out * bool :=
  match reg with
  | ATrue => (history_st p ws, false)    (* a failing check is only logged *)
  | _ => ([], true)
  end.

(* MonitorPool up to and including its first check *)
Definition monitor_first (w : world) (p : policy) : list tx * bool :=
  match registered w with
  | ATrue => (fst (check_status w p), false)
  | _ => ([], true)
  end.

(* ---------- the property in executable form, on an observed list of requests ---------- *)
Definition ans_is (a : ans) (b : bool) : bool :=
  match a, b with ATrue, true | AFalse, false => true | _, _ => false end.
Definition tx_eqb (a b : tx) : bool :=
  match a, b with Join, Join | Update, Update | Restore, Restore | Panic, Panic => true | _, _ => false end.
Definition query_eqb (a b : query) : bool :=
  match a, b with
  | QInPool, QInPool | QUpToDate, QUpToDate | QEligible, QEligible | QCanRestore, QCanRestore
  | QLocked, QLocked | QChaosnet, QChaosnet | QBeta, QBeta => true
  | QAsk i, QAsk j => Nat.eqb i j
  | _, _ => false
  end.

Definition permitted (w : world) (p : policy) (t : tx) : bool :=
  match t with
  | Join => ans_is (in_pool w) false && ans_is (up_to_date w) false && ans_is (locked w) false
            && should_join w p
  | Update => ans_is (in_pool w) true && ans_is (up_to_date w) false && ans_is (locked w) false
  | Restore => ans_is (can_restore w) true
  | Panic => true     (* not a request: the property does not speak about it; shows as Mismatch *)
  end.

Definition spec_ok (w : world) (p : policy) (txs : list tx) : bool :=
  forallb (permitted w p) txs.

Fixpoint list_eqb {A} (eqb : A -> A -> bool) (a b : list A) : bool :=
  match a, b with
  | [], [] => true
  | x :: a', y :: b' => eqb x y && list_eqb eqb a' b'
  | _, _ => false
  end.
Definition txs_eqb := list_eqb tx_eqb.
Definition queries_eqb := list_eqb query_eqb.

(* one step of a history: the world of that tick and what the implementation was observed to do.
   [s_err] is None where the error of the check is not observable (MonitorPool only logs it);
   [s_allow] is the driver's own evaluation of "every sub-policy says yes at this tick", computed
   from the script without touching the policy objects. *)
Record step := { s_world : world; s_txs : list tx; s_queries : list query;
                 s_err : option bool; s_allow : bool }.
Record case := { c_registered : ans; c_policy : policy; c_steps : list step; c_monitor_err : bool }.

(* the executable history property: at every tick, every request is permitted by THAT tick's world *)
Definition step_spec (p : policy) (s : step) : bool := spec_ok (s_world s) p (s_txs s).
Definition hist_spec (p : policy) (steps : list step) : bool := forallb (step_spec p) steps.

Definition step_agree (o : out) (s : step) : bool :=
  let '(t, e, q) := o in
  txs_eqb t (s_txs s) && queries_eqb q (s_queries s) &&
  match s_err s with Some e' => Bool.eqb e e' | None => true end.

Fixpoint steps_agree (os : list out) (ss : list step) : bool :=
  match os, ss with
  | [], [] => true
  | o :: os', s :: ss' => step_agree o s && steps_agree os' ss'
  | _, _ => false
  end.

Definition silent (s : step) : bool :=
  match s_txs s, s_queries s with [], [] => true | _, _ => false end.

Definition hist_agree (c : case) : bool :=
  let '(os, e) := monitor (c_registered c) (c_policy c) (map s_world (c_steps c)) in
  Bool.eqb e (c_monitor_err c) &&
  match c_registered c with
  | ATrue => steps_agree os (c_steps c)
  | _ => forallb silent (c_steps c)     (* MonitorPool gave up before any check *)
  end.

(* the driver and the model must mean the same thing by "the policy allows joining at this tick" *)
Definition allow_consistent (p : policy) (s : step) : bool :=
  Bool.eqb (should_join (s_world s) p) (s_allow s).

Definition judge (c : case) : verdict :=
  match c_steps c with
  | [] => BadCase
  | _ =>
      if forallb (allow_consistent (c_policy c)) (c_steps c)
      then decide (hist_spec (c_policy c) (c_steps c)) (hist_agree c)
      else BadCase
  end.

Definition explain (c : case) : list out * bool :=
  monitor (c_registered c) (c_policy c) (map s_world (c_steps c)).
