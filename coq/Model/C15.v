(* C15 — executable model of pkg/protocol/state/async_machine.go (AsyncMachine.Execute and
   asyncStateTransition) together with BaseAsyncState (state.go), as a labelled transition
   system whose labels are what the harness can observe and force:

     environment   EDeliver m acc   the channel delivers m; acc = the machine's handler took it
                   ECancel          the machine's context is cancelled
     machine       MInit k snap     the transition goroutine enters Initiate of state k; snap =
                                    GetAllReceivedMessages for every message type, at that moment
                   MInitRet k       Initiate of state k returns (nil or its error)
                   MCan k b         a tick: CanTransition of state k returns b
                   MRecv k m        the select loop hands m to state k (Receive -> ReceiveToHistory
                                    when the state admits it)
                   MNext k snap     onStateDone fired, Next() of state k is called
                   MDone o          Execute returns

   The toy states are the usual shape of a keep-core async state: Receive admits the valid
   messages into the shared BaseAsyncState, CanTransition = "at least [need] messages of my
   type are in the history".  Go's [select] over (receive buffer, onStateDone, ctx.Done) and the
   100 ms ticker are nondeterminism of the system: every enabled label may come next.
   The second half of the file ("the bounded receive buffer") refines the message queue [abuf]
   into what the code has: the handler registered on the broadcast channel does a BLOCKING send
   into a channel of asyncReceiveBuffer slots, the loop pops one message at a time.
   No proofs here. *)
From Coq Require Import ZArith NArith List Bool.
From KV Require Import Common.Verdict Gen.Consts_C15.
Import ListNotations.
Open Scope N_scope.

Record msg := { mty : N; mid : N; mvalid : bool }.
Definition msg_eqb (a b : msg) : bool :=
  (mty a =? mty b) && (mid a =? mid b) && Bool.eqb (mvalid a) (mvalid b).

Record ast := { a_type : N; a_need : N; a_init_err : bool; a_next_err : bool }.
Definition program := list ast.
Definition ast0 : ast := {| a_type := 0; a_need := 0; a_init_err := false; a_next_err := false |}.
Definition nth_ast (prog : program) (k : nat) : ast := nth k prog ast0.

Inductive outcome := AFinal (k : nat) | AErrInit (k : nat) | AErrNext (k : nat) | ACancelled.
Definition outcome_eqb (a b : outcome) : bool :=
  match a, b with
  | AFinal x, AFinal y | AErrInit x, AErrInit y | AErrNext x, AErrNext y => Nat.eqb x y
  | ACancelled, ACancelled => true
  | _, _ => false
  end.

Definition snapshot := list (list N).

Inductive event :=
| EDeliver (m : msg) (acc : bool) | ECancel
| MInit (k : nat) (snap : snapshot) | MInitRet (k : nat) | MCan (k : nat) (b : bool)
| MRecv (k : nat) (m : msg) | MNext (k : nat) (snap : snapshot) | MDone (o : outcome).

(* ------------------------------------------------------------------ BaseAsyncState *)
(* the history is the list of admitted messages in arrival order; the Go map from type to slice
   is its per-type filter *)
Definition of_type (ty : N) (h : list msg) : list N :=
  map mid (filter (fun m => mty m =? ty) h).
Definition snapshot_of (types : list N) (h : list msg) : snapshot :=
  map (fun ty => of_type ty h) types.
Definition receive_to_history (h : list msg) (m : msg) : list msg :=
  if mvalid m then h ++ [m] else h.
Definition can_transition (s : ast) (h : list msg) : bool :=
  a_need s <=? N.of_nat (length (of_type (a_type s) h)).

(* ------------------------------------------------------------------ the machine *)
Inductive phase := PSpawned | PInitiating | PInitFailed | PPolling | PSignalled.
Inductive mach := Running | Exiting (o : outcome) | Done.

Record astate := { cur : nat; ph : phase; mach_ : mach; cancelled : bool;
                   abuf : list msg; hist : list msg }.
Definition init_state : astate :=
  {| cur := 0; ph := PSpawned; mach_ := Running; cancelled := false; abuf := []; hist := [] |}.

Fixpoint listN_eqb (x y : list N) : bool :=
  match x, y with
  | [], [] => true
  | p :: x', q :: y' => (p =? q) && listN_eqb x' y'
  | _, _ => false
  end.
Fixpoint snap_eqb (a b : snapshot) : bool :=
  match a, b with
  | [], [] => true
  | x :: a', y :: b' => listN_eqb x y && snap_eqb a' b'
  | _, _ => false
  end.

(* once Execute has returned nothing more is observed of the machine *)
Definition is_done (m : mach) : bool := match m with Done => true | _ => false end.

Definition step (types : list N) (prog : program) (s : astate) (e : event) : option astate :=
  match e with
  | EDeliver m acc =>
      let push := {| cur := cur s; ph := ph s; mach_ := mach_ s; cancelled := cancelled s;
                     abuf := abuf s ++ [m]; hist := hist s |} in
      match mach_ s with
      | Running =>
          (* a failed Initiate makes Execute return (and cancel the handler) at any moment *)
          let may_have_returned := match ph s with PInitFailed => true | _ => false end in
          if cancelled s then (if acc then None else Some s)
          else if acc then Some push
          else if may_have_returned then Some s else None
      | Exiting _ => if cancelled s && acc then None else Some (if acc then push else s)
      | Done => if acc then None else Some s
      end
  | ECancel =>
      Some {| cur := cur s; ph := ph s; mach_ := mach_ s; cancelled := true;
              abuf := abuf s; hist := hist s |}
  | MInit k snap =>
      match (if is_done (mach_ s) then PSignalled else ph s) with
      | PSpawned =>
          if Nat.eqb k (cur s) && Nat.ltb k (length prog) && snap_eqb snap (snapshot_of types (hist s))
          then Some {| cur := cur s; ph := PInitiating; mach_ := mach_ s; cancelled := cancelled s;
                       abuf := abuf s; hist := hist s |}
          else None
      | _ => None
      end
  | MInitRet k =>
      match (if is_done (mach_ s) then PSignalled else ph s) with
      | PInitiating =>
          if Nat.eqb k (cur s)
          then Some {| cur := cur s;
                       ph := if a_init_err (nth_ast prog k) then PInitFailed else PPolling;
                       mach_ := mach_ s; cancelled := cancelled s; abuf := abuf s; hist := hist s |}
          else None
      | _ => None
      end
  | MCan k b =>
      match (if is_done (mach_ s) then PSignalled else ph s) with
      | PPolling =>
          if Nat.eqb k (cur s) && Bool.eqb b (can_transition (nth_ast prog k) (hist s))
          then Some {| cur := cur s; ph := if b then PSignalled else PPolling;
                       mach_ := mach_ s; cancelled := cancelled s; abuf := abuf s; hist := hist s |}
          else None
      | _ => None
      end
  | MRecv k m =>
      match mach_ s, abuf s with
      | Running, m' :: rest =>
          if Nat.eqb k (cur s) && msg_eqb m m'
          then Some {| cur := cur s; ph := ph s; mach_ := Running; cancelled := cancelled s;
                       abuf := rest; hist := receive_to_history (hist s) m' |}
          else None
      | _, _ => None
      end
  | MNext k snap =>
      match mach_ s, ph s with
      | Running, PSignalled =>
          if Nat.eqb k (cur s) && snap_eqb snap (snapshot_of types (hist s)) then
            if a_next_err (nth_ast prog k) then
              Some {| cur := cur s; ph := PSignalled; mach_ := Exiting (AErrNext k);
                      cancelled := cancelled s; abuf := abuf s; hist := hist s |}
            else if Nat.eqb (S k) (length prog) then
              Some {| cur := cur s; ph := PSignalled; mach_ := Exiting (AFinal k);
                      cancelled := cancelled s; abuf := abuf s; hist := hist s |}
            else
              Some {| cur := S k; ph := PSpawned; mach_ := Running;
                      cancelled := cancelled s; abuf := abuf s; hist := hist s |}
          else None
      | _, _ => None
      end
  | MDone o =>
      let fin := {| cur := cur s; ph := ph s; mach_ := Done; cancelled := cancelled s;
                    abuf := abuf s; hist := hist s |} in
      match mach_ s with
      | Exiting o' => if outcome_eqb o o' then Some fin else None
      | Running =>
          match o with
          | AErrInit k =>
              match ph s with
              | PInitFailed => if Nat.eqb k (cur s) then Some fin else None
              | _ => None
              end
          | ACancelled => if cancelled s then Some fin else None
          | _ => None
          end
      | Done => None
      end
  end.

Fixpoint run_from (types : list N) (prog : program) (s : astate) (evs : list event) : option astate :=
  match evs with
  | [] => Some s
  | e :: t => match step types prog s e with
              | Some s' => run_from types prog s' t
              | None => None
              end
  end.
Definition run (types : list N) (prog : program) (evs : list event) : option astate :=
  run_from types prog init_state evs.

(* a step other than a "not yet" tick is still owed by the machine *)
Definition machine_owes (prog : program) (s : astate) : bool :=
  match mach_ s with
  | Done => false
  | Exiting _ => true
  | Running =>
      cancelled s || negb (match abuf s with [] => true | _ => false end) ||
      match ph s with
      | PSpawned | PInitFailed | PSignalled => true
      | PInitiating => false                       (* Initiate's duration is the environment's *)
      | PPolling => can_transition (nth_ast prog (cur s)) (hist s)
      end
  end.

(* ------------------------------------------------------------------ observations of a trace *)
Definition inits (evs : list event) : list nat :=
  flat_map (fun e => match e with MInit k _ => [k] | _ => [] end) evs.
Definition initrets (evs : list event) : list nat :=
  flat_map (fun e => match e with MInitRet k => [k] | _ => [] end) evs.
Definition nexts (evs : list event) : list nat :=
  flat_map (fun e => match e with MNext k _ => [k] | _ => [] end) evs.
Definition recvs (evs : list event) : list (nat * msg) :=
  flat_map (fun e => match e with MRecv k m => [(k, m)] | _ => [] end) evs.
Definition accepted (evs : list event) : list msg :=
  flat_map (fun e => match e with EDeliver m true => [m] | _ => [] end) evs.
Definition dones (evs : list event) : list outcome :=
  flat_map (fun e => match e with MDone o => [o] | _ => [] end) evs.
(* every message some state admitted, in order: what BaseAsyncState must still hold *)
Definition admitted (evs : list event) : list msg :=
  flat_map (fun e => match e with MRecv _ m => if mvalid m then [m] else [] | _ => [] end) evs.
Definition signalled (k : nat) (evs : list event) : bool :=
  existsb (fun e => match e with MCan k' true => Nat.eqb k k' | _ => false end) evs.
Definition cancel_seen (evs : list event) : bool :=
  existsb (fun e => match e with ECancel => true | _ => false end) evs.

(* ------------------------------------------------------------------ the property, executable,
   evaluated on an OBSERVED trace only *)
Definition is_nil {A} (l : list A) : bool := match l with [] => true | _ => false end.

Definition ev_ok (types : list N) (prog : program) (pre : list event) (e : event) : bool :=
  let ni := length (inits pre) in
  let nr := length (initrets pre) in
  let nn := length (nexts pre) in
  match e with
  | EDeliver _ _ | ECancel => true
  | MInit k snap =>
      is_nil (dones pre) && Nat.eqb k ni && Nat.ltb k (length prog) && Nat.eqb nn k && Nat.eqb nr k
      && snap_eqb snap (snapshot_of types (admitted pre))
  | MInitRet k =>
      is_nil (dones pre) && Nat.eqb ni (S k) && Nat.eqb nr k
  | MCan k b =>
      is_nil (dones pre) && Nat.eqb nr (S k) && Nat.eqb nn k && negb (a_init_err (nth_ast prog k))
      && negb (signalled k pre)
      && Bool.eqb b (can_transition (nth_ast prog k) (admitted pre))
  | MRecv k m =>
      is_nil (dones pre) && Nat.eqb k nn
      && match nth_error (accepted pre) (length (recvs pre)) with
         | Some m' => msg_eqb m m'
         | None => false
         end
  | MNext k snap =>
      is_nil (dones pre) && Nat.eqb k nn && Nat.eqb nr (S k) && signalled k pre
      && snap_eqb snap (snapshot_of types (admitted pre))
  | MDone o =>
      is_nil (dones pre) &&
      match o with
      | AFinal k => Nat.eqb (S k) (length prog) && Nat.eqb nn (S k) && negb (a_next_err (nth_ast prog k))
      | AErrInit k => Nat.eqb nr (S k) && Nat.eqb nn k && a_init_err (nth_ast prog k)
      | AErrNext k => Nat.eqb nn (S k) && a_next_err (nth_ast prog k)
      | ACancelled => cancel_seen pre
      end
  end.

Fixpoint all_ok (f : list event -> event -> bool) (pre rest : list event) : bool :=
  match rest with
  | [] => true
  | e :: t => f pre e && all_ok f (pre ++ [e]) t
  end.

Record case := {
  c_types : list N;        (* the message types whose history the toy states snapshot *)
  c_prog : program;
  c_settled : bool;        (* the harness saw every owed machine step happen *)
  c_events : list event }.

Definition spec_ok (c : case) : bool := all_ok (ev_ok (c_types c) (c_prog c)) [] (c_events c).

Definition agree (c : case) : bool :=
  match run (c_types c) (c_prog c) (c_events c) with
  | None => false
  | Some s => if c_settled c then negb (machine_owes (c_prog c) s) else true
  end.

Definition judge (c : case) : verdict :=
  if is_nil (c_prog c) then BadCase else decide (spec_ok c) (agree c).

Fixpoint accepted_prefix (types : list N) (prog : program) (s : astate) (evs : list event) (n : nat)
  : nat * astate :=
  match evs with
  | [] => (n, s)
  | e :: t => match step types prog s e with
              | Some s' => accepted_prefix types prog s' t (S n)
              | None => (n, s)
              end
  end.
Inductive explanation :=
  XTrace (events_total accepted_events : nat) (at_state : astate) (machine_still_owes spec_events : bool).
Definition explain (c : case) : explanation :=
  let '(n, s) := accepted_prefix (c_types c) (c_prog c) init_state (c_events c) 0 in
  XTrace (length (c_events c)) n s (machine_owes (c_prog c) s) (spec_ok c).

(* ================================================================== the bounded receive buffer
   Execute:   recvChan := make(chan net.Message, asyncReceiveBuffer)
              handler  := func(msg) { recvChan <- msg }          (blocks while the buffer is full)
              loop:       case msg := <-recvChan: currentState.Receive(msg)
   The logical queue [abuf] of the machine above is split, front to back, into
     the message the loop has popped and not yet passed through Receive   ([nhand] = 0 or 1),
     the contents of the Go channel                                        ([nchan] <= capacity),
     the messages of producers still blocked in [recvChan <- msg]          (the rest, Go serves
                                                                            blocked senders FIFO).
   Labels: [LEv e] an event of the machine above ([EDeliver m true] = a producer calls the
   handler with m; [MRecv] needs a popped message), and three labels that the event log of the
   machine above does not show: [LEnq] the first blocked producer's message enters the channel
   (only when there is room), [LPop] the loop takes the head of the channel, [LRet] a handler call
   whose message entered the channel returns.  Nothing else touches the queue: no label drops. *)
Inductive blabel := LEv (e : event) | LEnq | LPop | LRet.
Record bstate := { core : astate; nhand : nat; nchan : nat; unret : nat }.
Definition binit : bstate := {| core := init_state; nhand := 0; nchan := 0; unret := 0 |}.
Definition is_running (m : mach) : bool := match m with Running => true | _ => false end.

Definition bstep (cap : nat) (types : list N) (prog : program) (b : bstate) (l : blabel) : option bstate :=
  match l with
  | LEv (MRecv k m) =>
      if Nat.eqb (nhand b) 1 then
        match step types prog (core b) (MRecv k m) with
        | Some c => Some {| core := c; nhand := 0; nchan := nchan b; unret := unret b |}
        | None => None
        end
      else None
  | LEv e =>
      match step types prog (core b) e with
      | Some c => Some {| core := c; nhand := nhand b; nchan := nchan b; unret := unret b |}
      | None => None
      end
  | LEnq =>
      if Nat.ltb (nhand b + nchan b) (length (abuf (core b))) && Nat.ltb (nchan b) cap
      then Some {| core := core b; nhand := nhand b; nchan := S (nchan b); unret := S (unret b) |}
      else None
  | LPop =>
      if Nat.eqb (nhand b) 0 && Nat.ltb 0 (nchan b) && is_running (mach_ (core b))
      then Some {| core := core b; nhand := 1; nchan := pred (nchan b); unret := unret b |}
      else None
  | LRet =>
      if Nat.ltb 0 (unret b)
      then Some {| core := core b; nhand := nhand b; nchan := nchan b; unret := pred (unret b) |}
      else None
  end.

Fixpoint brun_from (cap : nat) (types : list N) (prog : program) (b : bstate) (ls : list blabel)
  : option bstate :=
  match ls with
  | [] => Some b
  | l :: t => match bstep cap types prog b l with
              | Some b' => brun_from cap types prog b' t
              | None => None
              end
  end.
Definition brun (cap : nat) (types : list N) (prog : program) (ls : list blabel) : option bstate :=
  brun_from cap types prog binit ls.

(* the three parts of the queue *)
Definition inhand (b : bstate) : list msg := firstn (nhand b) (abuf (core b)).
Definition inchan (b : bstate) : list msg := firstn (nchan b) (skipn (nhand b) (abuf (core b))).
Definition blocked (b : bstate) : list msg := skipn (nhand b + nchan b) (abuf (core b)).

(* what the event log of the machine above shows of a run with the buffer *)
Definition erase (ls : list blabel) : list event :=
  flat_map (fun l => match l with LEv e => [e] | _ => [] end) ls.
Definition rets (ls : list blabel) : nat :=
  length (filter (fun l => match l with LRet => true | _ => false end) ls).
(* the order of handler returns (true) and completed Receive calls (false) *)
Definition sched_of (ls : list blabel) : list bool :=
  flat_map (fun l => match l with LRet => [true] | LEv (MRecv _ _) => [false] | _ => [] end) ls.

(* a handler call returns only once its message is in the channel: with r returns and e
   completed Receive calls before it, r + 1 <= e + 1 + capacity *)
Fixpoint sched_ok_from (cap r e : nat) (s : list bool) : bool :=
  match s with
  | [] => true
  | true :: t => Nat.leb (S r) (e + cap + 1) && sched_ok_from cap (S r) e t
  | false :: t => sched_ok_from cap r (S e) t
  end.
Definition sched_ok (cap : nat) (s : list bool) : bool := sched_ok_from cap 0 0 s.

(* ------------------------------------------------------------------ burst cases: a late member
   whose Receive is slow while the group bursts more messages than the buffer holds.  The
   observation is compact (run-length encoded): the order of the messages handed to the
   registered handler, the order of the messages that passed Receive, the interleaving of handler
   returns and completed Receive calls, the counters at the moment the producer was seen blocked
   (or finished) with the slow Receive still held, the final histories and the outcome. *)
Definition mrun := (N * N * N * bool)%type.          (* type, first id, count, valid *)
Definition expand_run (r : mrun) : list msg :=
  let '(ty, id0, cnt, v) := r in
  map (fun i => {| mty := ty; mid := id0 + N.of_nat i; mvalid := v |}) (seq 0 (N.to_nat cnt)).
Definition expand (rs : list mrun) : list msg := flat_map expand_run rs.
Fixpoint expand_sched (b : bool) (l : list N) : list bool :=
  match l with
  | [] => []
  | n :: t => repeat b (N.to_nat n) ++ expand_sched (negb b) t
  end.
Definition expand_ids (rs : list (N * N)) : list N :=
  flat_map (fun r => map (fun i => fst r + N.of_nat i) (seq 0 (N.to_nat (snd r)))) rs.

Fixpoint is_prefix (a b : list msg) : bool :=
  match a, b with
  | [], _ => true
  | x :: a', y :: b' => msg_eqb x y && is_prefix a' b'
  | _ :: _, [] => false
  end.
Fixpoint msgs_eqb (a b : list msg) : bool :=
  match a, b with
  | [], [] => true
  | x :: a', y :: b' => msg_eqb x y && msgs_eqb a' b'
  | _, _ => false
  end.

Record bcase := {
  b_types : list N;
  b_prog : program;
  b_handed : list mrun;          (* every message a handler call was started with, in call order *)
  b_received : list mrun;        (* the messages that passed Receive, in order *)
  b_sched : list N;              (* run lengths: handler returns, completed Receives, returns, ... *)
  b_rel : N * N;                 (* (handler returns, completed Receives) when the producer was seen
                                    blocked or finished, the slow Receive still held *)
  b_hist : list (list (N * N));  (* final GetAllReceivedMessages per type of b_types: (first id, count) runs *)
  b_drained : bool;              (* every handler call had returned and the loop was seen idle *)
  b_starved : bool;              (* then the machine was polling without the messages it needs *)
  b_outcome : outcome }.

Definition admitted_of (ms : list msg) : list msg := filter mvalid ms.
Definition all_can (prog : program) (h : list msg) : bool :=
  forallb (fun s => can_transition s h) prog.
Definition no_errors (prog : program) : bool :=
  forallb (fun s => negb (a_init_err s) && negb (a_next_err s)) prog.

Fixpoint hist_ok (types : list N) (hs : list (list (N * N))) (h : list msg) : bool :=
  match types, hs with
  | [], [] => true
  | ty :: types', x :: hs' => listN_eqb (expand_ids x) (of_type ty h) && hist_ok types' hs' h
  | _, _ => false
  end.

(* the property on a burst observation: Receive saw a prefix of what was handed over, in order,
   nothing skipped or repeated; once every call returned and the loop went idle it saw all of it;
   no handler call returned before its message had room; the shared history holds every admitted
   message; the machine ended in the final state (all conditions met by the history) or by a
   cancellation *)
Definition bspec_ok_cap (cap : nat) (c : bcase) : bool :=
  let H := expand (b_handed c) in
  let R := expand (b_received c) in
  is_prefix R H
  && (if b_drained c then Nat.eqb (length R) (length H) else true)
  && sched_ok cap (expand_sched true (b_sched c))
  && hist_ok (b_types c) (b_hist c) (admitted_of R)
  && match b_outcome c with
     | AFinal k => Nat.eqb (S k) (length (b_prog c)) && all_can (b_prog c) (admitted_of R)
     | ACancelled => true
     | AErrInit k => a_init_err (nth_ast (b_prog c) k)
     | AErrNext k => a_next_err (nth_ast (b_prog c) k)
     end.

(* the model's own account of a burst schedule (programs without failing states): the producer
   gets exactly as far as the buffer allows while Receive is held, everything handed over
   arrives, and the machine ends in the final state iff the admitted messages meet every
   state's condition *)
Definition bagree_cap (cap : nat) (c : bcase) : bool :=
  let H := expand (b_handed c) in
  let R := expand (b_received c) in
  let enough := all_can (b_prog c) (admitted_of H) in
  msgs_eqb R H        (* also when Execute returned before the loop was seen idle: the last state needs the last message *)
  && (N.to_nat (fst (b_rel c)) =? Nat.min (length H) (N.to_nat (snd (b_rel c)) + cap + 1))%nat
  && Bool.eqb (b_starved c) (negb enough)
  && outcome_eqb (b_outcome c)
       (if enough then AFinal (pred (length (b_prog c))) else ACancelled).

Definition buffer_capacity : nat := Z.to_nat asyncReceiveBuffer.

Definition bjudge (c : bcase) : verdict :=
  if is_nil (b_prog c) || negb (no_errors (b_prog c)) || (buffer_capacity =? 0)%nat then BadCase
  else decide (bspec_ok_cap buffer_capacity c) (bagree_cap buffer_capacity c).

Fixpoint first_diff (a b : list msg) (i : nat) : option nat :=
  match a, b with
  | [], [] => None
  | x :: a', y :: b' => if msg_eqb x y then first_diff a' b' (S i) else Some i
  | _, _ => Some i
  end.
Inductive bexplanation :=
  XBurst (capacity handed received : nat) (first_difference : option nat)
         (returns_expected_while_held : nat) (conditions_met_by_handed : bool)
         (expected_outcome : outcome) (spec : bool).
Definition bexplain (c : bcase) : bexplanation :=
  let H := expand (b_handed c) in
  let R := expand (b_received c) in
  let enough := all_can (b_prog c) (admitted_of H) in
  XBurst buffer_capacity (length H) (length R) (first_diff R H 0)
         (Nat.min (length H) (N.to_nat (snd (b_rel c)) + buffer_capacity + 1)) enough
         (if enough then AFinal (pred (length (b_prog c))) else ACancelled)
         (bspec_ok_cap buffer_capacity c).

(* ------------------------------------------------------------------ what the driver emits *)
Inductive anycase := CLog (c : case) | CBurst (b : bcase).
Definition judge_any (a : anycase) : verdict :=
  match a with CLog c => judge c | CBurst b => bjudge b end.
Definition explain_any (a : anycase) : explanation + bexplanation :=
  match a with CLog c => inl (explain c) | CBurst b => inr (bexplain b) end.
