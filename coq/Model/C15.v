(* C15 — executable model of pkg/protocol/state/async_machine.go (AsyncMachine.Execute and
   asyncStateTransition) together with BaseAsyncState (state.go), as a labelled transition
   system whose labels are what the harness can observe and force:

     environment   EDeliver m acc   the channel delivers m; acc = the machine's handler took it
                   ECancel          the machine's context is cancelled
     machine       MInit k snap     the transition goroutine enters Initiate of state k; snap =
                                    GetAllReceivedMessages for every message type, at that moment
                   MInitRet k       Initiate of state k returns (nil or its error)
                   MCan k b         a tick: CanTransition of state k returns b
                   MRecv k m        the select loop hands m to state k (Receive -> ReceiveToHistory
                                    when the state admits it)
                   MNext k snap     onStateDone fired, Next() of state k is called
                   MDone o          Execute returns

   The toy states are the usual shape of a keep-core async state: Receive admits the valid
   messages into the shared BaseAsyncState, CanTransition = "at least [need] messages of my
   type are in the history".  Go's [select] over (receive buffer, onStateDone, ctx.Done) and the
   100 ms ticker are nondeterminism of the system: every enabled label may come next.
   No proofs here. *)
From Coq Require Import ZArith NArith List Bool.
From KV Require Import Common.Verdict.
Import ListNotations.
Open Scope N_scope.

Record msg := { mty : N; mid : N; mvalid : bool }.
Definition msg_eqb (a b : msg) : bool :=
  (mty a =? mty b) && (mid a =? mid b) && Bool.eqb (mvalid a) (mvalid b).

Record ast := { a_type : N; a_need : N; a_init_err : bool; a_next_err : bool }.
Definition program := list ast.
Definition ast0 : ast := {| a_type := 0; a_need := 0; a_init_err := false; a_next_err := false |}.
Definition nth_ast (prog : program) (k : nat) : ast := nth k prog ast0.

Inductive outcome := AFinal (k : nat) | AErrInit (k : nat) | AErrNext (k : nat) | ACancelled.
Definition outcome_eqb (a b : outcome) : bool :=
  match a, b with
  | AFinal x, AFinal y | AErrInit x, AErrInit y | AErrNext x, AErrNext y => Nat.eqb x y
  | ACancelled, ACancelled => true
  | _, _ => false
  end.

Definition snapshot := list (list N).

Inductive event :=
| EDeliver (m : msg) (acc : bool) | ECancel
| MInit (k : nat) (snap : snapshot) | MInitRet (k : nat) | MCan (k : nat) (b : bool)
| MRecv (k : nat) (m : msg) | MNext (k : nat) (snap : snapshot) | MDone (o : outcome).

(* ------------------------------------------------------------------ BaseAsyncState *)
(* the history is the list of admitted messages in arrival order; the Go map from type to slice
   is its per-type filter *)
Definition of_type (ty : N) (h : list msg) : list N :=
  map mid (filter (fun m => mty m =? ty) h).
Definition snapshot_of (types : list N) (h : list msg) : snapshot :=
  map (fun ty => of_type ty h) types.
Definition receive_to_history (h : list msg) (m : msg) : list msg :=
  if mvalid m then h ++ [m] else h.
Definition can_transition (s : ast) (h : list msg) : bool :=
  a_need s <=? N.of_nat (length (of_type (a_type s) h)).

(* ------------------------------------------------------------------ the machine *)
Inductive phase := PSpawned | PInitiating | PInitFailed | PPolling | PSignalled.
Inductive mach := Running | Exiting (o : outcome) | Done.

Record astate := { cur : nat; ph : phase; mach_ : mach; cancelled : bool;
                   abuf : list msg; hist : list msg }.
Definition init_state : astate :=
  {| cur := 0; ph := PSpawned; mach_ := Running; cancelled := false; abuf := []; hist := [] |}.

Fixpoint listN_eqb (x y : list N) : bool :=
  match x, y with
  | [], [] => true
  | p :: x', q :: y' => (p =? q) && listN_eqb x' y'
  | _, _ => false
  end.
Fixpoint snap_eqb (a b : snapshot) : bool :=
  match a, b with
  | [], [] => true
  | x :: a', y :: b' => listN_eqb x y && snap_eqb a' b'
  | _, _ => false
  end.

(* once Execute has returned nothing more is observed of the machine *)
Definition is_done (m : mach) : bool := match m with Done => true | _ => false end.

Definition step (types : list N) (prog : program) (s : astate) (e : event) : option astate :=
  match e with
  | EDeliver m acc =>
      let push := {| cur := cur s; ph := ph s; mach_ := mach_ s; cancelled := cancelled s;
                     abuf := abuf s ++ [m]; hist := hist s |} in
      match mach_ s with
      | Running =>
          (* a failed Initiate makes Execute return (and cancel the handler) at any moment *)
          let may_have_returned := match ph s with PInitFailed => true | _ => false end in
          if cancelled s then (if acc then None else Some s)
          else if acc then Some push
          else if may_have_returned then Some s else None
      | Exiting _ => if cancelled s && acc then None else Some (if acc then push else s)
      | Done => if acc then None else Some s
      end
  | ECancel =>
      Some {| cur := cur s; ph := ph s; mach_ := mach_ s; cancelled := true;
              abuf := abuf s; hist := hist s |}
  | MInit k snap =>
      match (if is_done (mach_ s) then PSignalled else ph s) with
      | PSpawned =>
          if Nat.eqb k (cur s) && Nat.ltb k (length prog) && snap_eqb snap (snapshot_of types (hist s))
          then Some {| cur := cur s; ph := PInitiating; mach_ := mach_ s; cancelled := cancelled s;
                       abuf := abuf s; hist := hist s |}
          else None
      | _ => None
      end
  | MInitRet k =>
      match (if is_done (mach_ s) then PSignalled else ph s) with
      | PInitiating =>
          if Nat.eqb k (cur s)
          then Some {| cur := cur s;
                       ph := if a_init_err (nth_ast prog k) then PInitFailed else PPolling;
                       mach_ := mach_ s; cancelled := cancelled s; abuf := abuf s; hist := hist s |}
          else None
      | _ => None
      end
  | MCan k b =>
      match (if is_done (mach_ s) then PSignalled else ph s) with
      | PPolling =>
          if Nat.eqb k (cur s) && Bool.eqb b (can_transition (nth_ast prog k) (hist s))
          then Some {| cur := cur s; ph := if b then PSignalled else PPolling;
                       mach_ := mach_ s; cancelled := cancelled s; abuf := abuf s; hist := hist s |}
          else None
      | _ => None
      end
  | MRecv k m =>
      match mach_ s, abuf s with
      | Running, m' :: rest =>
          if Nat.eqb k (cur s) && msg_eqb m m'
          then Some {| cur := cur s; ph := ph s; mach_ := Running; cancelled := cancelled s;
                       abuf := rest; hist := receive_to_history (hist s) m' |}
          else None
      | _, _ => None
      end
  | MNext k snap =>
      match mach_ s, ph s with
      | Running, PSignalled =>
          if Nat.eqb k (cur s) && snap_eqb snap (snapshot_of types (hist s)) then
            if a_next_err (nth_ast prog k) then
              Some {| cur := cur s; ph := PSignalled; mach_ := Exiting (AErrNext k);
                      cancelled := cancelled s; abuf := abuf s; hist := hist s |}
            else if Nat.eqb (S k) (length prog) then
              Some {| cur := cur s; ph := PSignalled; mach_ := Exiting (AFinal k);
                      cancelled := cancelled s; abuf := abuf s; hist := hist s |}
            else
              Some {| cur := S k; ph := PSpawned; mach_ := Running;
                      cancelled := cancelled s; abuf := abuf s; hist := hist s |}
          else None
      | _, _ => None
      end
  | MDone o =>
      let fin := {| cur := cur s; ph := ph s; mach_ := Done; cancelled := cancelled s;
                    abuf := abuf s; hist := hist s |} in
      match mach_ s with
      | Exiting o' => if outcome_eqb o o' then Some fin else None
      | Running =>
          match o with
          | AErrInit k =>
              match ph s with
              | PInitFailed => if Nat.eqb k (cur s) then Some fin else None
              | _ => None
              end
          | ACancelled => if cancelled s then Some fin else None
          | _ => None
          end
      | Done => None
      end
  end.

Fixpoint run_from (types : list N) (prog : program) (s : astate) (evs : list event) : option astate :=
  match evs with
  | [] => Some s
  | e :: t => match step types prog s e with
              | Some s' => run_from types prog s' t
              | None => None
              end
  end.
Definition run (types : list N) (prog : program) (evs : list event) : option astate :=
  run_from types prog init_state evs.

(* a step other than a "not yet" tick is still owed by the machine *)
Definition machine_owes (prog : program) (s : astate) : bool :=
  match mach_ s with
  | Done => false
  | Exiting _ => true
  | Running =>
      cancelled s || negb (match abuf s with [] => true | _ => false end) ||
      match ph s with
      | PSpawned | PInitFailed | PSignalled => true
      | PInitiating => false                       (* Initiate's duration is the environment's *)
      | PPolling => can_transition (nth_ast prog (cur s)) (hist s)
      end
  end.

(* ------------------------------------------------------------------ observations of a trace *)
Definition inits (evs : list event) : list nat :=
  flat_map (fun e => match e with MInit k _ => [k] | _ => [] end) evs.
Definition initrets (evs : list event) : list nat :=
  flat_map (fun e => match e with MInitRet k => [k] | _ => [] end) evs.
Definition nexts (evs : list event) : list nat :=
  flat_map (fun e => match e with MNext k _ => [k] | _ => [] end) evs.
Definition recvs (evs : list event) : list (nat * msg) :=
  flat_map (fun e => match e with MRecv k m => [(k, m)] | _ => [] end) evs.
Definition accepted (evs : list event) : list msg :=
  flat_map (fun e => match e with EDeliver m true => [m] | _ => [] end) evs.
Definition dones (evs : list event) : list outcome :=
  flat_map (fun e => match e with MDone o => [o] | _ => [] end) evs.
(* every message some state admitted, in order: what BaseAsyncState must still hold *)
Definition admitted (evs : list event) : list msg :=
  flat_map (fun e => match e with MRecv _ m => if mvalid m then [m] else [] | _ => [] end) evs.
Definition signalled (k : nat) (evs : list event) : bool :=
  existsb (fun e => match e with MCan k' true => Nat.eqb k k' | _ => false end) evs.
Definition cancel_seen (evs : list event) : bool :=
  existsb (fun e => match e with ECancel => true | _ => false end) evs.

(* ------------------------------------------------------------------ the property, executable,
   evaluated on an OBSERVED trace only *)
Definition is_nil {A} (l : list A) : bool := match l with [] => true | _ => false end.

Definition ev_ok (types : list N) (prog : program) (pre : list event) (e : event) : bool :=
  let ni := length (inits pre) in
  let nr := length (initrets pre) in
  let nn := length (nexts pre) in
  match e with
  | EDeliver _ _ | ECancel => true
  | MInit k snap =>
      is_nil (dones pre) && Nat.eqb k ni && Nat.ltb k (length prog) && Nat.eqb nn k && Nat.eqb nr k
      && snap_eqb snap (snapshot_of types (admitted pre))
  | MInitRet k =>
      is_nil (dones pre) && Nat.eqb ni (S k) && Nat.eqb nr k
  | MCan k b =>
      is_nil (dones pre) && Nat.eqb nr (S k) && Nat.eqb nn k && negb (a_init_err (nth_ast prog k))
      && negb (signalled k pre)
      && Bool.eqb b (can_transition (nth_ast prog k) (admitted pre))
  | MRecv k m =>
      is_nil (dones pre) && Nat.eqb k nn
      && match nth_error (accepted pre) (length (recvs pre)) with
         | Some m' => msg_eqb m m'
         | None => false
         end
  | MNext k snap =>
      is_nil (dones pre) && Nat.eqb k nn && Nat.eqb nr (S k) && signalled k pre
      && snap_eqb snap (snapshot_of types (admitted pre))
  | MDone o =>
      is_nil (dones pre) &&
      match o with
      | AFinal k => Nat.eqb (S k) (length prog) && Nat.eqb nn (S k) && negb (a_next_err (nth_ast prog k))
      | AErrInit k => Nat.eqb nr (S k) && Nat.eqb nn k && a_init_err (nth_ast prog k)
      | AErrNext k => Nat.eqb nn (S k) && a_next_err (nth_ast prog k)
      | ACancelled => cancel_seen pre
      end
  end.

Fixpoint all_ok (f : list event -> event -> bool) (pre rest : list event) : bool :=
  match rest with
  | [] => true
  | e :: t => f pre e && all_ok f (pre ++ [e]) t
  end.

Record case := {
  c_types : list N;        (* the message types whose history the toy states snapshot *)
  c_prog : program;
  c_settled : bool;        (* the harness saw every owed machine step happen *)
  c_events : list event }.

Definition spec_ok (c : case) : bool := all_ok (ev_ok (c_types c) (c_prog c)) [] (c_events c).

Definition agree (c : case) : bool :=
  match run (c_types c) (c_prog c) (c_events c) with
  | None => false
  | Some s => if c_settled c then negb (machine_owes (c_prog c) s) else true
  end.

Definition judge (c : case) : verdict :=
  if is_nil (c_prog c) then BadCase else decide (spec_ok c) (agree c).

Fixpoint accepted_prefix (types : list N) (prog : program) (s : astate) (evs : list event) (n : nat)
  : nat * astate :=
  match evs with
  | [] => (n, s)
  | e :: t => match step types prog s e with
              | Some s' => accepted_prefix types prog s' t (S n)
              | None => (n, s)
              end
  end.
Inductive explanation :=
  XTrace (events_total accepted_events : nat) (at_state : astate) (machine_still_owes spec_events : bool).
Definition explain (c : case) : explanation :=
  let '(n, s) := accepted_prefix (c_types c) (c_prog c) init_state (c_events c) 0 in
  XTrace (length (c_events c)) n s (machine_owes (c_prog c) s) (spec_ok c).
