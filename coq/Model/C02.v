(* C02 — Beacon DKG: honest key shares are consistent with the group public key.

   The executable model of pkg/beacon/gjkr is the one of C01 (Model/C01.v: the twelve phases,
   [run], the [case] type = symbolic input + what the real members were observed to output).
   The anchored code of this property is modelled there by
     phase6                      CombineMemberShares
     lagrange_coeff/interpolate0 calculateLagrangeCoefficient / reconstructIndividualPrivateKeys
     phase12 / pubshare_for      CombineGroupPublicKey / ComputeGroupPublicKeyShares
   G2 points are their discrete logarithms modulo the group order; the driver certifies every
   logarithm it hands over with the bn256 library itself (d*G2 == observed point), so
   "share * G2 == public key share" is equality of a share with a certified logarithm.

   This file adds the executable form of the property on the IMPLEMENTATION's observables and
   the judge.  No proofs here. *)
From Coq Require Import ZArith NArith List Bool.
From KV Require Import Common.Verdict.
From KV Require Export Model.C01.
Import ListNotations.
Open Scope N_scope.

(* what a finished honest member was observed to output (see Model.C01.finished) *)
Definition fin := (list N * list N * N * option Z * Z * list (N * option Z))%type.

(* part 1: b holds a public key share for a, and it is share_a * G2 *)
Definition pubshare_matches (Q : Z) (a b : N * fin) : bool :=
  N.eqb (fst a) (fst b) ||
  match lookup (fst a) (f_ps (snd b)) with
  | Some d => optZ_eqb d (Some (f_share (snd a) mod Q)%Z)
  | None => false
  end.
Definition shares_ok (Q : Z) (f : list (N * fin)) : bool :=
  forallb (fun a => forallb (pubshare_matches Q a) f) f.

(* part 2: every (t+1)-subset of the honest shares interpolates at 0 to the discrete log of the
   group public key of every finished honest member *)
Definition points_of (sub : list (N * fin)) : list (N * Z) :=
  map (fun a => (fst a, f_share (snd a))) sub.
Definition subset_ok (Q : Z) (f sub : list (N * fin)) : bool :=
  let v := interpolate0 Q (points_of sub) in
  forallb (fun a => optZ_eqb (f_key (snd a)) (Some v)) f.
Definition interpolation_ok (Q : Z) (t : N) (f : list (N * fin)) : bool :=
  forallb (subset_ok Q f) (sublists (S (N.to_nat t)) f).

(* The runs the property speaks about: at most t corrupt seats ([covered]) and agreement holds
   among the honest members that finished ([spec01]: same key, same marked sets, no honest
   member marked).  A run in which agreement itself fails (known defect C01-a) is reported by
   C01, not here. *)
Definition in_scope (cs : case) : bool := covered (c_in cs) && spec01 cs.

Definition spec_ok (cs : case) : bool :=
  if negb (in_scope cs) then true else
  let f := finished (c_obs cs) in
  let Q := q (i_cfg (c_in cs)) in
  shares_ok Q f && interpolation_ok Q (gt (i_cfg (c_in cs))) f.

Definition judge (cs : case) : verdict :=
  if well_formed cs then decide (spec_ok cs) (agree agree02_one cs) else BadCase.

(* --replay prints the model's own outputs and, for the finished honest members, the value every
   (t+1)-subset of the observed shares interpolates to *)
Definition explain (cs : case) : list (N * outcome) * list (list N * Z) :=
  let f := finished (c_obs cs) in
  let Q := q (i_cfg (c_in cs)) in
  (run (c_in cs),
   map (fun sub => (map fst sub, interpolate0 Q (points_of sub)))
       (sublists (S (N.to_nat (gt (i_cfg (c_in cs))))) f)).
