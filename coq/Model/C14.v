(* C14 — executable model of pkg/protocol/state/sync_machine.go (SyncMachine.Execute and
   stateTransition) as a labelled transition system whose labels are exactly what the harness
   can observe and force:

     environment   EBlock h        the chain reaches height h (BlockCounter contract: a waiter for
                                   t fires once height >= t and yields t)
                   EMsg m acc      the broadcast channel delivers message m; acc = a live handler
                                   took it (it is then in the machine's receive buffer)
     machine       MWait t         WaitForBlockHeight(t) is called
                   MInit k hgt     Initiate of state k is entered, CurrentBlock() = hgt
                   MWaiter w       BlockHeightWaiter(w) is called (Initiate has returned nil)
                   MRecv k m       the select loop hands message m to state k (Receive)
                   MNext k         the block branch of the select loop is taken: Next() of state k
                   MDone o         Execute returns

   Go's [select] choice between the receive buffer and the fired block waiter is the
   nondeterminism of the system: both MRecv and MNext are enabled, every order is a trace.
   uint64 arithmetic wraps (add64).  A state is (delay, active, does Initiate fail, does Next
   fail).  No proofs here. *)
From Coq Require Import ZArith NArith List Bool.
From KV Require Import Common.Verdict Gen.Consts_C14.
Import ListNotations.
Open Scope N_scope.

Definition two64 : N := 18446744073709551616.
Definition add64 (a b : N) : N := (a + b) mod two64.

Record st := { delay : N; active : N; init_err : bool; next_err : bool }.
Definition program := list st.
Definition st0 : st := {| delay := 0; active := 0; init_err := false; next_err := false |}.
Definition nth_st (prog : program) (k : nat) : st := nth k prog st0.

Inductive outcome := Final (k : nat) (h : N) | ErrInit (k : nat) | ErrNext (k : nat).

Inductive event :=
| EBlock (h : N) | EMsg (m : N) (acc : bool)
| MWait (t : N) | MInit (k : nat) (hgt : N) | MWaiter (w : N)
| MRecv (k : nat) (m : N) | MNext (k : nat) | MDone (o : outcome).

(* ------------------------------------------------------------------ the machine *)
Inductive ctl :=
| CBoot                          (* Execute entered, handler registered *)
| CStartWait                     (* inside WaitForBlockHeight(start) *)
| CDelayWait (k : nat) (t : N)   (* stateTransition of state k: inside WaitForBlockHeight(t) *)
| CInit (k : nat) (t : N)        (* inside Initiate of state k *)
| CLoop (k : nat) (w : N)        (* select loop, block waiter for w *)
| CNext (k : nat) (w : N)        (* block branch taken, ctx cancelled, inside Next() *)
| CDone (o : outcome).

Record mstate := { ctl_ : ctl; height : N; buf : list N }.
Definition init_state (h0 : N) : mstate := {| ctl_ := CBoot; height := h0; buf := [] |}.
Definition with_ctl (s : mstate) (c : ctl) : mstate :=
  {| ctl_ := c; height := height s; buf := buf s |}.

Definition handler_live (c : ctl) : bool :=
  match c with CNext _ _ | CDone _ => false | _ => true end.

Definition step (prog : program) (start : N) (s : mstate) (e : event) : option mstate :=
  match e with
  | EBlock h => Some {| ctl_ := ctl_ s; height := N.max (height s) h; buf := buf s |}
  | EMsg m acc =>
      if Bool.eqb acc (handler_live (ctl_ s)) then
        Some (if acc then {| ctl_ := ctl_ s; height := height s; buf := buf s ++ [m] |} else s)
      else None
  | MWait t =>
      match ctl_ s with
      | CBoot => if t =? start then Some (with_ctl s CStartWait) else None
      | CStartWait =>
          match prog with
          | [] => None
          | s0 :: _ =>
              if (start <=? height s) && (t =? add64 start (delay s0))
              then Some (with_ctl s (CDelayWait 0 t)) else None
          end
      | CNext k w =>
          match nth_error prog (S k) with
          | Some sn =>
              if negb (next_err (nth_st prog k)) && (t =? add64 w (delay sn))
              then Some (with_ctl s (CDelayWait (S k) t)) else None
          | None => None
          end
      | _ => None
      end
  | MInit k hgt =>
      match ctl_ s with
      | CDelayWait k' t =>
          if Nat.eqb k k' && (t <=? height s) && (hgt =? height s)
          then Some (with_ctl s (CInit k t)) else None
      | _ => None
      end
  | MWaiter w =>
      match ctl_ s with
      | CInit k t =>
          if negb (init_err (nth_st prog k)) && (w =? add64 t (active (nth_st prog k)))
          then Some (with_ctl s (CLoop k w)) else None
      | _ => None
      end
  | MRecv k m =>
      match ctl_ s, buf s with
      | CLoop k' w, m' :: rest =>
          if Nat.eqb k k' && (m =? m')
          then Some {| ctl_ := ctl_ s; height := height s; buf := rest |} else None
      | _, _ => None
      end
  | MNext k =>
      match ctl_ s with
      | CLoop k' w => if Nat.eqb k k' && (w <=? height s) then Some (with_ctl s (CNext k w)) else None
      | _ => None
      end
  | MDone o =>
      match ctl_ s, o with
      | CInit k t, ErrInit k' =>
          if Nat.eqb k k' && init_err (nth_st prog k) then Some (with_ctl s (CDone o)) else None
      | CNext k w, ErrNext k' =>
          if Nat.eqb k k' && next_err (nth_st prog k) then Some (with_ctl s (CDone o)) else None
      | CNext k w, Final k' h =>
          if Nat.eqb k k' && negb (next_err (nth_st prog k)) && Nat.eqb (S k) (length prog) && (h =? w)
          then Some (with_ctl s (CDone o)) else None
      | _, _ => None
      end
  end.

Fixpoint run_from (prog : program) (start : N) (s : mstate) (evs : list event) : option mstate :=
  match evs with
  | [] => Some s
  | e :: t => match step prog start s e with
              | Some s' => run_from prog start s' t
              | None => None
              end
  end.
(* [h0] = the chain height when Execute is called *)
Definition run (prog : program) (start h0 : N) (evs : list event) : option mstate :=
  run_from prog start (init_state h0) evs.

(* is some machine label enabled (the machine is not blocked)?  Initiate and Next are the toy
   states' code: their duration is the environment's, so CInit / CNext count as blocked. *)
Definition machine_enabled (start : N) (s : mstate) : bool :=
  match ctl_ s with
  | CBoot => true
  | CStartWait => start <=? height s
  | CDelayWait _ t => t <=? height s
  | CLoop _ w => negb (match buf s with [] => true | _ => false end) || (w <=? height s)
  | CInit _ _ | CNext _ _ | CDone _ => false
  end.

(* eager schedules: a new block arrives only when the machine is blocked (the machine is never
   outrun by the chain) *)
Definition step_eager (prog : program) (start : N) (s : mstate) (e : event) : option mstate :=
  match e with
  | EBlock _ => if machine_enabled start s then None else step prog start s e
  | _ => step prog start s e
  end.
Fixpoint run_eager_from (prog : program) (start : N) (s : mstate) (evs : list event) : option mstate :=
  match evs with
  | [] => Some s
  | e :: t => match step_eager prog start s e with
              | Some s' => run_eager_from prog start s' t
              | None => None
              end
  end.
Definition run_eager prog start h0 evs := run_eager_from prog start (init_state h0) evs.

(* ------------------------------------------------------------------ observations of a trace *)
Definition waits (evs : list event) : list N :=
  flat_map (fun e => match e with MWait t => [t] | _ => [] end) evs.
Definition inits (evs : list event) : list (nat * N) :=
  flat_map (fun e => match e with MInit k h => [(k, h)] | _ => [] end) evs.
Definition waiters (evs : list event) : list N :=
  flat_map (fun e => match e with MWaiter w => [w] | _ => [] end) evs.
Definition nexts (evs : list event) : list nat :=
  flat_map (fun e => match e with MNext k => [k] | _ => [] end) evs.
Definition recvs (evs : list event) : list (nat * N) :=
  flat_map (fun e => match e with MRecv k m => [(k, m)] | _ => [] end) evs.
Definition accepted (evs : list event) : list N :=
  flat_map (fun e => match e with EMsg m true => [m] | _ => [] end) evs.
Definition dones (evs : list event) : list outcome :=
  flat_map (fun e => match e with MDone o => [o] | _ => [] end) evs.
Definition height_of (h0 : N) (evs : list event) : N :=
  fold_left (fun h e => match e with EBlock h' => N.max h h' | _ => h end) evs h0.

(* ------------------------------------------------------------------ closed forms *)
Definition dur (s : st) : N := delay s + active s.
Definition sum_dur (l : program) : N := fold_right (fun s acc => dur s + acc) 0 l.
(* block at which state k is initiated / ends, for a machine started at [start] *)
Definition nominal (prog : program) (start : N) (k : nat) : N :=
  (start + sum_dur (firstn k prog) + delay (nth_st prog k)) mod two64.
Definition endk (prog : program) (start : N) (k : nat) : N :=
  (start + sum_dur (firstn (S k) prog)) mod two64.

(* ------------------------------------------------------------------ the property, executable,
   evaluated on an OBSERVED trace only (never on the model's state) *)
Definition is_nil {A} (l : list A) : bool := match l with [] => true | _ => false end.

(* [pre] = the events observed before [e] *)
Definition ev_ok (prog : program) (start h0 : N) (total : option N) (pre : list event) (e : event) : bool :=
  let nw := length (waits pre) in
  let ni := length (inits pre) in
  let nq := length (waiters pre) in
  let nn := length (nexts pre) in
  let h := height_of h0 pre in
  match e with
  | EBlock _ | EMsg _ _ => true
  | MWait t =>
      is_nil (dones pre) &&
      match nw with
      | O => (t =? start) && Nat.eqb ni 0 && Nat.eqb nn 0
      | S j => Nat.ltb j (length prog) && (t =? nominal prog start j)
               && Nat.eqb ni j && Nat.eqb nq j && Nat.eqb nn j && (start <=? h)
      end
  | MInit k hgt =>
      is_nil (dones pre) && Nat.eqb k ni && Nat.eqb nw (S (S k)) && Nat.eqb nq k && Nat.eqb nn k
      && (nominal prog start k <=? hgt)
  | MWaiter w =>
      is_nil (dones pre) && Nat.eqb ni (S nq) && Nat.eqb nn nq && (w =? endk prog start nq)
      && negb (init_err (nth_st prog nq))
  | MRecv k m =>
      is_nil (dones pre) && Nat.eqb nq (S k) && Nat.eqb nn k
      && match nth_error (accepted pre) (length (recvs pre)) with
         | Some m' => m =? m'
         | None => false
         end
  | MNext k =>
      is_nil (dones pre) && Nat.eqb k nn && Nat.eqb nq (S k) && (endk prog start k <=? h)
  | MDone o =>
      is_nil (dones pre) &&
      match o with
      | Final k hh => Nat.eqb (S k) (length prog) && Nat.eqb nn (S k) && (hh =? endk prog start k)
                      && negb (next_err (nth_st prog k))
                      && match total with Some T => hh =? (start + T) mod two64 | None => true end
      | ErrInit k => Nat.eqb ni (S k) && Nat.eqb nq k && init_err (nth_st prog k)
      | ErrNext k => Nat.eqb nn (S k) && next_err (nth_st prog k)
      end
  end.

Fixpoint all_ok (f : list event -> event -> bool) (pre rest : list event) : bool :=
  match rest with
  | [] => true
  | e :: t => f pre e && all_ok f (pre ++ [e]) t
  end.

(* timely: blocks arrive one by one, and every wait / waiter is requested at a height that has
   not passed its target (the start block is not in the past, no Initiate overruns its state) *)
Fixpoint timely_from (h : N) (evs : list event) : bool :=
  match evs with
  | [] => true
  | EBlock h' :: t => (h' <=? h + 1) && timely_from (N.max h h') t
  | MWait x :: t | MWaiter x :: t => (h <=? x) && timely_from h t
  | _ :: t => timely_from h t
  end.
(* exactness of the actual heights (only claimed for eager, timely traces) *)
Definition ev_exact (prog : program) (start h0 : N) (pre : list event) (e : event) : bool :=
  match e with
  | MInit k hgt => hgt =? nominal prog start k
  | MNext k => height_of h0 pre =? endk prog start k
  | _ => true
  end.

Record trace_case := {
  c_prog : program; c_start : N;
  c_h0 : N;                (* chain height when Execute was called *)
  c_total : option N;      (* the Go total-duration function's value for this state list, if any *)
  c_eager : bool;          (* the harness let the machine block before every new block *)
  c_settled : bool;        (* the harness saw the machine blocked after the last event *)
  c_events : list event }.

Definition no_wrap (prog : program) (start : N) : bool := start + sum_dur prog <? two64.

Definition spec_trace (c : trace_case) : bool :=
  all_ok (ev_ok (c_prog c) (c_start c) (c_h0 c) (c_total c)) [] (c_events c)
  && (if c_eager c && timely_from (c_h0 c) (c_events c)
      then all_ok (ev_exact (c_prog c) (c_start c) (c_h0 c)) [] (c_events c) else true).

Definition agree_trace (c : trace_case) : bool :=
  match (if c_eager c then run_eager else run) (c_prog c) (c_start c) (c_h0 c) (c_events c) with
  | None => false
  | Some s => if c_settled c then negb (machine_enabled (c_start c) s) else true
  end.

(* ------------------------------------------------------------------ re-execution of ONE machine
   A SyncMachine is a long-lived object: Execute can be called on it again (an attempt aborted
   by a failing Initiate / Next, then a retry from a later start block).  Execute writes none
   of the machine's fields (logger, channel, blockCounter, initialState), every handler it
   registered is cancelled on every return path, and the receive buffer is
   `recvChan := make(chan net.Message, syncReceiveBuffer)` at the top of Execute: a fresh one
   per call; whatever the previous call left in its buffer is garbage.  [reuse = true] is the
   machine that would keep ONE buffer for its whole life (kept to state what goes wrong);
   the code is [reuse = false]. *)
Definition exec_state (carry : list N) (h0 : N) : mstate :=
  {| ctl_ := CBoot; height := h0; buf := carry |}.
Definition carried (reuse : bool) (s : mstate) : list N := if reuse then buf s else [].
Fixpoint run_hist_from (reuse : bool) (carry : list N) (rs : list trace_case) : option (list mstate) :=
  match rs with
  | [] => Some []
  | r :: t =>
      match run_from (c_prog r) (c_start r) (exec_state carry (c_h0 r)) (c_events r) with
      | Some s => match run_hist_from reuse (carried reuse s) t with
                  | Some ss => Some (s :: ss)
                  | None => None
                  end
      | None => None
      end
  end.
Definition run_history (rs : list trace_case) : option (list mstate) := run_hist_from false [] rs.

(* every message handed to a state in an execution was accepted from the channel during THAT
   execution (spec_trace's MRecv clause, per execution: the oldest message accepted in this
   execution and not yet handed over) and every execution keeps its own block windows *)
Definition spec_hist (rs : list trace_case) : bool := forallb spec_trace rs.
Definition agree_hist (rs : list trace_case) : bool := forallb agree_trace rs.

(* ------------------------------------------------------------------ the real state lists *)
Definition mk (d a : Z) : st :=
  {| delay := Z.to_N d; active := Z.to_N a; init_err := false; next_err := false |}.

(* pkg/beacon/gjkr/states.go: the chain of Next() from ephemeralKeyPairGenerationState *)
Definition gjkr_states : program :=
  [ mk ephemeralKeyPairStateDelayBlocks ephemeralKeyPairStateActiveBlocks;          (* phase 1 *)
    mk silentStateDelayBlocks silentStateActiveBlocks;                              (* 2 *)
    mk commitmentStateDelayBlocks commitmentStateActiveBlocks;                      (* 3 *)
    mk commitmentVerificationStateDelayBlocks commitmentVerificationStateActiveBlocks; (* 4 *)
    mk silentStateDelayBlocks silentStateActiveBlocks;                              (* 5 *)
    mk silentStateDelayBlocks silentStateActiveBlocks;                              (* 6 *)
    mk pointsShareStateDelayBlocks pointsShareStateActiveBlocks;                    (* 7 *)
    mk pointsValidationStateDelayBlocks pointsValidationStateActiveBlocks;          (* 8 *)
    mk silentStateDelayBlocks silentStateActiveBlocks;                              (* 9 *)
    mk keyRevealStateDelayBlocks keyRevealStateActiveBlocks;                        (* 10 *)
    mk silentStateDelayBlocks silentStateActiveBlocks;                              (* 11 *)
    mk combinationStateDelayBlocks combinationStateActiveBlocks;                    (* 12 *)
    mk silentStateDelayBlocks silentStateActiveBlocks ].                            (* finalization *)
(* func ProtocolBlocks() *)
Definition gjkr_ProtocolBlocks : Z :=
  (ephemeralKeyPairStateDelayBlocks + ephemeralKeyPairStateActiveBlocks +
   commitmentStateDelayBlocks + commitmentStateActiveBlocks +
   commitmentVerificationStateDelayBlocks + commitmentVerificationStateActiveBlocks +
   pointsShareStateDelayBlocks + pointsShareStateActiveBlocks +
   pointsValidationStateDelayBlocks + pointsValidationStateActiveBlocks +
   keyRevealStateDelayBlocks + keyRevealStateActiveBlocks +
   combinationStateDelayBlocks + combinationStateActiveBlocks)%Z.

(* pkg/beacon/dkg/result/states.go *)
Definition result_states : program :=
  [ mk resultSigningStateDelayBlocks resultSigningStateActiveBlocks;
    mk SilentStateDelayBlocks SilentStateActiveBlocks;
    mk SilentStateDelayBlocks SilentStateActiveBlocks ].
(* func PrePublicationBlocks() *)
Definition result_PrePublicationBlocks : Z :=
  (resultSigningStateDelayBlocks + resultSigningStateActiveBlocks)%Z.

Definition real_states (proto : N) : program :=
  match proto with 0 => gjkr_states | _ => result_states end.
Definition real_total (proto : N) : Z :=
  match proto with 0 => gjkr_ProtocolBlocks | _ => result_PrePublicationBlocks end.

Fixpoint da_eqb (l : list (N * N)) (p : program) : bool :=
  match l, p with
  | [], [] => true
  | (d, a) :: l', s :: p' => (d =? delay s) && (a =? active s) && da_eqb l' p'
  | _, _ => false
  end.
Definition sum_da (l : list (N * N)) : N := fold_right (fun x acc => fst x + snd x + acc) 0 l.

(* ------------------------------------------------------------------ cases and judge *)
Inductive case :=
| CTrace (c : trace_case)
(* the SAME SyncMachine instance executed several times, one observed trace per Execute call *)
| CHist (runs : list trace_case)
(* the (DelayBlocks, ActiveBlocks) of the real state chain walked through Next(), and the value
   returned by the Go total-duration function *)
| CDur (proto : N) (states : list (N * N)) (total : N).

Definition judge (c : case) : verdict :=
  match c with
  | CTrace c =>
      if is_nil (c_prog c) then BadCase else decide (spec_trace c) (agree_trace c)
  | CHist rs =>
      if is_nil rs || existsb (fun c => is_nil (c_prog c)) rs then BadCase
      else decide (spec_hist rs) (agree_hist rs)
  | CDur proto states total =>
      if 1 <? proto then BadCase else
      decide (sum_da states =? total)
             (da_eqb states (real_states proto) && (Z.of_N total =? real_total proto)%Z)
  end.

(* what --replay prints: how many events the model accepts, and its control state there *)
Fixpoint accepted_prefix (prog : program) (start : N) (s : mstate) (evs : list event) (n : nat)
  : nat * mstate :=
  match evs with
  | [] => (n, s)
  | e :: t => match step prog start s e with
              | Some s' => accepted_prefix prog start s' t (S n)
              | None => (n, s)
              end
  end.
Inductive explanation :=
| XTrace (events_total accepted_events : nat) (at_state : mstate) (machine_still_enabled : bool)
         (spec_events spec_exact : bool)
| XDur (model_states : list (N * N)) (model_total : Z)
| XHist (runs : list explanation).
Definition explain_trace (c : trace_case) : explanation :=
  let '(n, s) := accepted_prefix (c_prog c) (c_start c) (init_state (c_h0 c)) (c_events c) 0 in
  XTrace (length (c_events c)) n s (machine_enabled (c_start c) s)
         (all_ok (ev_ok (c_prog c) (c_start c) (c_h0 c) (c_total c)) [] (c_events c))
         (all_ok (ev_exact (c_prog c) (c_start c) (c_h0 c)) [] (c_events c)).
Definition explain (c : case) : explanation :=
  match c with
  | CTrace c => explain_trace c
  | CHist rs => XHist (map explain_trace rs)
  | CDur proto _ _ =>
      XDur (map (fun s => (delay s, active s)) (real_states proto)) (real_total proto)
  end.
