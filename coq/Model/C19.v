(* C19 — wire and storage decoding is total and round-trips.

   Part 1: a generic, executable model of the protobuf wire format as read by
   google.golang.org/protobuf v1.31 (internal/impl/decode.go, encoding/protowire): varints
   (at most 10 bytes, the 10th at most 1, non-minimal encodings accepted), tags (field number in
   [1, 2^29-1] at message level, [1, 2^31-1] inside skipped groups), fixed32/fixed64,
   length-delimited values, groups of unknown fields skipped with the library's nesting limit.
   Part 2: message schemas (field number, pb type, the check the hand-written Go [Unmarshal]
   applies) and a schema-directed decoder = proto.Unmarshal (proto3 semantics: unknown fields and
   fields with a mismatching wire type are skipped, last scalar wins, repeated fields
   accumulate, map entries with last-wins keys, repeated occurrences of a sub-message merge,
   strings must be valid UTF-8) followed by the transcribed glue of the Go [Unmarshal]
   (validateMemberIndex, length checks, key / point parsing through the oracle [parse],
   sub-message dereference, the swallowed error of the gjkr accusation messages).
   Part 3: the schemas of the modelled keep-core types, the case type and [judge]. *)
From Coq Require Import ZArith NArith List Bool Lia.
From KV Require Import Common.Verdict.
Import ListNotations.
Open Scope N_scope.

(* ------------------------------------------------------------------ varints *)
Fixpoint enc_varint_f (fuel : nat) (n : N) : list N :=
  match fuel with
  | O => [n mod 128]
  | S f => if n <? 128 then [n] else (n mod 128 + 128) :: enc_varint_f f (n / 128)
  end.
Definition enc_varint (n : N) : list N := enc_varint_f 9 n.

(* protowire.ConsumeVarint: at most 10 bytes; the 10th byte must be 0 or 1 *)
Fixpoint dec_varint_f (fuel : nat) (l : list N) : option (N * list N) :=
  match l with
  | [] => None
  | b :: t =>
      if b <? 128 then
        match fuel with
        | O => if b <? 2 then Some (b, t) else None
        | S _ => Some (b, t)
        end
      else
        match fuel with
        | O => None
        | S f => match dec_varint_f f t with
                 | Some (v, r) => Some ((b - 128) + 128 * v, r)
                 | None => None
                 end
        end
  end.
Definition dec_varint (l : list N) : option (N * list N) := dec_varint_f 9 l.

Definition lenN {A} (l : list A) : N := N.of_nat (length l).
(* byte strings are written in case terms as [hb len 0x...]: the [len] big-endian bytes of a
   number (one numeral is parsed much faster than a list of bytes) *)
Fixpoint hb_f (len : nat) (n : N) (acc : list N) : list N :=
  match len with
  | O => acc
  | S l => hb_f l (N.shiftr n 8) (N.land n 255 :: acc)
  end.
Definition hb (len n : N) : list N := hb_f (N.to_nat len) n [].
(* the first [n] bytes and the rest; None when fewer than [n] bytes remain *)
Definition split_at (n : N) (l : list N) : option (list N * list N) :=
  if n <=? lenN l then Some (firstn (N.to_nat n) l, skipn (N.to_nat n) l) else None.

(* ------------------------------------------------------------------ tokens *)
Inductive wval := WVar (n : N) | WF64 (l : list N) | WF32 (l : list N) | WBytes (l : list N).
Definition token := (N * wval)%type.

Definition max_num_msg : N := 536870911.      (* protowire.MaxValidNumber = 2^29 - 1 *)
Definition max_num_group : N := 2147483647.   (* math.MaxInt32, protowire.ConsumeTag *)
Definition group_depth_limit : nat := 10001.  (* protowire.DefaultRecursionLimit = 10000 *)

Definition dec_tag (maxnum : N) (l : list N) : option (N * N * list N) :=
  match dec_varint l with
  | None => None
  | Some (key, r) =>
      let num := key / 8 in
      if (1 <=? num) && (num <=? maxnum) then Some (num, key mod 8, r) else None
  end.

(* protowire.ConsumeFieldValue on a start-group tag: consume fields until the stack of open
   groups is empty; returns the remaining input *)
Fixpoint skip_group (fuel : nat) (stack : list N) (l : list N) : option (list N) :=
  match stack with
  | [] => Some l
  | top :: st =>
      match fuel with
      | O => None
      | S f =>
          match dec_tag max_num_group l with
          | None => None
          | Some (num, wt, r) =>
              if wt =? 0 then
                match dec_varint r with Some (_, r') => skip_group f stack r' | None => None end
              else if wt =? 1 then
                match split_at 8 r with Some (_, r') => skip_group f stack r' | None => None end
              else if wt =? 2 then
                match dec_varint r with
                | Some (n, r1) =>
                    match split_at n r1 with Some (_, r') => skip_group f stack r' | None => None end
                | None => None
                end
              else if wt =? 3 then
                if Nat.leb group_depth_limit (length stack) then None
                else skip_group f (num :: stack) r
              else if wt =? 4 then
                if num =? top then skip_group f st r else None
              else if wt =? 5 then
                match split_at 4 r with Some (_, r') => skip_group f stack r' | None => None end
              else None
          end
      end
  end.

(* the message-level field loop of impl MessageInfo.unmarshalPointer, schema-independent
   part: the list of (field number, value) in input order; groups are consumed and dropped
   (no modelled message has a group field), None = errDecode *)
Fixpoint tokenize_f (fuel : nat) (l : list N) : option (list token) :=
  match l with
  | [] => Some []
  | _ =>
      match fuel with
      | O => None
      | S f =>
          match dec_tag max_num_msg l with
          | None => None
          | Some (num, wt, r) =>
              if wt =? 0 then
                match dec_varint r with
                | Some (v, r') =>
                    match tokenize_f f r' with Some ts => Some ((num, WVar v) :: ts) | None => None end
                | None => None
                end
              else if wt =? 1 then
                match split_at 8 r with
                | Some (b, r') =>
                    match tokenize_f f r' with Some ts => Some ((num, WF64 b) :: ts) | None => None end
                | None => None
                end
              else if wt =? 2 then
                match dec_varint r with
                | Some (n, r1) =>
                    match split_at n r1 with
                    | Some (b, r') =>
                        match tokenize_f f r' with Some ts => Some ((num, WBytes b) :: ts) | None => None end
                    | None => None
                    end
                | None => None
                end
              else if wt =? 3 then
                match skip_group (S (length r)) [num] r with
                | Some r' => tokenize_f f r'
                | None => None
                end
              else if wt =? 5 then
                match split_at 4 r with
                | Some (b, r') =>
                    match tokenize_f f r' with Some ts => Some ((num, WF32 b) :: ts) | None => None end
                | None => None
                end
              else None
          end
      end
  end.
Definition tokenize (l : list N) : option (list token) := tokenize_f (length l) l.

Definition enc_tag (num wt : N) : list N := enc_varint (num * 8 + wt).
Definition ser_tok (t : token) : list N :=
  match snd t with
  | WVar v => enc_tag (fst t) 0 ++ enc_varint v
  | WF64 l => enc_tag (fst t) 1 ++ l
  | WBytes l => enc_tag (fst t) 2 ++ enc_varint (lenN l) ++ l
  | WF32 l => enc_tag (fst t) 5 ++ l
  end.
Definition ser (ts : list token) : list N := flat_map ser_tok ts.

(* ------------------------------------------------------------------ field extraction *)
Definition vars_of (k : N) (ts : list token) : list N :=
  flat_map (fun t => if fst t =? k then match snd t with WVar v => [v] | _ => [] end else []) ts.
Definition bytes_of (k : N) (ts : list token) : list (list N) :=
  flat_map (fun t => if fst t =? k then match snd t with WBytes b => [b] | _ => [] end else []) ts.
Definition last_var (k : N) (ts : list token) : N := last (vars_of k ts) 0.
Definition last_bytes (k : N) (ts : list token) : list N := last (bytes_of k ts) [].
Definition two32 : N := 4294967296.
Definition two64 : N := 18446744073709551616.

(* utf8.Valid *)
Definition inr (lo hi b : N) : bool := (lo <=? b) && (b <=? hi).
Fixpoint utf8_valid (l : list N) : bool :=
  match l with
  | [] => true
  | b0 :: t0 =>
      if b0 <? 128 then utf8_valid t0 else
      match t0 with
      | [] => false
      | b1 :: t1 =>
          if inr 194 223 b0 then inr 128 191 b1 && utf8_valid t1 else
          match t1 with
          | [] => false
          | b2 :: t2 =>
              if inr 224 239 b0 then
                (if b0 =? 224 then inr 160 191 b1 else if b0 =? 237 then inr 128 159 b1 else inr 128 191 b1)
                && inr 128 191 b2 && utf8_valid t2
              else
              match t2 with
              | [] => false
              | b3 :: t3 =>
                  if inr 240 244 b0 then
                    (if b0 =? 240 then inr 144 191 b1 else if b0 =? 244 then inr 128 143 b1 else inr 128 191 b1)
                    && inr 128 191 b2 && inr 128 191 b3 && utf8_valid t3
                  else false
              end
          end
      end
  end.

(* big.Int.SetBytes / Bytes *)
Definition be_val (l : list N) : N := fold_left (fun acc b => acc * 256 + b) l 0.
Fixpoint be_bytes_f (fuel : nat) (n : N) (acc : list N) : list N :=
  match fuel with
  | O => acc
  | S f => if n =? 0 then acc else be_bytes_f f (n / 256) (n mod 256 :: acc)
  end.
Definition be_bytes (n : N) : list N := be_bytes_f (N.to_nat (N.size n)) n [].

(* a Go map[uint32][]byte as the list of its entries sorted by key *)
Fixpoint map_put (k : N) (v : list N) (m : list (N * list N)) : list (N * list N) :=
  match m with
  | [] => [(k, v)]
  | (k', v') :: t =>
      if k <? k' then (k, v) :: m else if k =? k' then (k, v) :: t else (k', v') :: map_put k v t
  end.
Definition map_of (es : list (N * list N)) : list (N * list N) :=
  fold_left (fun m e => map_put (fst e) (snd e) m) es [].

(* ------------------------------------------------------------------ schemas *)
(* the check the Go glue applies to a bytes value *)
Inductive bcheck :=
| BAny
| BLen (n : N)              (* len(b) != n -> error *)
| BParse (p : N)            (* key / point parser number p; the decoded value is re-serialised *)
| BNonEmptyParse (p : N).   (* len(b) == 0 -> error, then parser p (which cannot fail) *)
Inductive u32kind :=
| UMax255     (* validateMemberIndex: > 255 -> error *)
| UTrunc8     (* group.MemberIndex(x) without validation: x mod 256 *)
| UFull.      (* kept as uint32 *)
Inductive ftype0 :=
| TU32 (k : u32kind) | TU64 | TBytes (c : bcheck) | TString | TBig
| TRep (c : bcheck) | TRepStr | TMap (c : bcheck).  (* map<uint32,bytes>, keys validated <= 255 *)
Inductive absent := APanic | AErr.   (* what the glue does when the sub-message is nil *)
Inductive ftype := F0 (t : ftype0) | TMsg (sub : list (N * ftype0)) (a : absent).

Inductive fval0 := VN (n : N) | VB (b : list N) | VL (l : list (list N)) | VM (m : list (N * list N)).
Inductive fval := V0 (v : fval0) | VMsg (vs : list fval0).

Record mschema := { ms_fields : list (N * ftype);   (* in the order the glue processes them *)
                    ms_swallow : list N }.          (* fields whose glue error makes Unmarshal return nil early *)

Inductive res := Ok (v : list fval) | Err | Panic.

Definition default0 (t : ftype0) : fval0 :=
  match t with
  | TU32 _ | TU64 | TBig => VN 0
  | TBytes _ | TString => VB []
  | TRep _ | TRepStr => VL []
  | TMap _ => VM []
  end.
Definition default (t : ftype) : fval :=
  match t with F0 t0 => V0 (default0 t0) | TMsg sub _ => VMsg (map (fun f => default0 (snd f)) sub) end.

Section Decode.
  (* parser p applied to bytes: None = error, Some c = success, c the re-serialised value *)
  Variable parse : N -> list N -> option (list N).

  Definition check (c : bcheck) (b : list N) : option (list N) :=
    match c with
    | BAny => Some b
    | BLen n => if lenN b =? n then Some b else None
    | BParse p => parse p b
    | BNonEmptyParse p => match b with [] => None | _ => parse p b end
    end.
  Fixpoint check_all (c : bcheck) (l : list (list N)) : option (list (list N)) :=
    match l with
    | [] => Some []
    | b :: t => match check c b, check_all c t with
                | Some b', Some t' => Some (b' :: t')
                | _, _ => None
                end
    end.
  Fixpoint check_map (c : bcheck) (m : list (N * list N)) : option (list (N * list N)) :=
    match m with
    | [] => Some []
    | (k, b) :: t =>
        if 255 <? k then None else
        match check c b, check_map c t with
        | Some b', Some t' => Some ((k, b') :: t')
        | _, _ => None
        end
    end.

  (* one map entry: a message {1: uint32 key, 2: bytes value} *)
  Definition map_entry (b : list N) : option (N * list N) :=
    match tokenize b with
    | None => None
    | Some ts => Some (last_var 1 ts mod two32, last_bytes 2 ts)
    end.
  Fixpoint map_entries (l : list (list N)) : option (list (N * list N)) :=
    match l with
    | [] => Some []
    | b :: t => match map_entry b, map_entries t with
                | Some e, Some es => Some (e :: es)
                | _, _ => None
                end
    end.

  (* proto.Unmarshal level: does the wire parser accept field k of type t *)
  Definition pb_ok0 (k : N) (t : ftype0) (ts : list token) : bool :=
    match t with
    | TString | TRepStr => forallb utf8_valid (bytes_of k ts)
    | TMap _ => match map_entries (bytes_of k ts) with Some _ => true | None => false end
    | _ => true
    end.
  (* the glue on field k: None = the Go Unmarshal returns an error *)
  Definition glue0 (k : N) (t : ftype0) (ts : list token) : option fval0 :=
    match t with
    | TU32 UMax255 => let v := last_var k ts mod two32 in if 255 <? v then None else Some (VN v)
    | TU32 UTrunc8 => Some (VN ((last_var k ts mod two32) mod 256))
    | TU32 UFull => Some (VN (last_var k ts mod two32))
    | TU64 => Some (VN (last_var k ts))
    | TBytes c => option_map VB (check c (last_bytes k ts))
    | TString => Some (VB (last_bytes k ts))
    | TBig => Some (VN (be_val (last_bytes k ts)))
    | TRep c => option_map VL (check_all c (bytes_of k ts))
    | TRepStr => Some (VL (bytes_of k ts))
    | TMap c => match map_entries (bytes_of k ts) with
                | Some es => option_map VM (check_map c (map_of es))
                | None => None
                end
    end.

  (* all occurrences of sub-message k, each parsed on its own, merged *)
  Fixpoint sub_tokens (l : list (list N)) : option (list token) :=
    match l with
    | [] => Some []
    | b :: t => match tokenize b, sub_tokens t with
                | Some ts, Some ts' => Some (ts ++ ts')
                | _, _ => None
                end
    end.
  Definition pb_ok_fields0 (fs : list (N * ftype0)) (ts : list token) : bool :=
    forallb (fun f => pb_ok0 (fst f) (snd f) ts) fs.
  Fixpoint glue_fields0 (fs : list (N * ftype0)) (ts : list token) : option (list fval0) :=
    match fs with
    | [] => Some []
    | (k, t) :: rest => match glue0 k t ts, glue_fields0 rest ts with
                        | Some v, Some vs => Some (v :: vs)
                        | _, _ => None
                        end
    end.

  Definition pb_ok (k : N) (t : ftype) (ts : list token) : bool :=
    match t with
    | F0 t0 => pb_ok0 k t0 ts
    | TMsg sub _ => match sub_tokens (bytes_of k ts) with
                    | Some sts => pb_ok_fields0 sub sts
                    | None => false
                    end
    end.
  Inductive gres := GOk (v : fval) | GErr | GPanic.
  Definition glue (k : N) (t : ftype) (ts : list token) : gres :=
    match t with
    | F0 t0 => match glue0 k t0 ts with Some v => GOk (V0 v) | None => GErr end
    | TMsg sub a =>
        match bytes_of k ts with
        | [] => match a with APanic => GPanic | AErr => GErr end
        | occ => match sub_tokens occ with
                 | Some sts => match glue_fields0 sub sts with Some vs => GOk (VMsg vs) | None => GErr end
                 | None => GErr
                 end
        end
    end.

  Fixpoint run_glue (sw : list N) (fs : list (N * ftype)) (ts : list token) : res :=
    match fs with
    | [] => Ok []
    | (k, t) :: rest =>
        match glue k t ts with
        | GOk v => match run_glue sw rest ts with Ok vs => Ok (v :: vs) | e => e end
        | GErr => if existsb (N.eqb k) sw then Ok (map (fun f => default (snd f)) fs) else Err
        | GPanic => Panic
        end
    end.

  Definition decode (s : mschema) (bytes : list N) : res :=
    match tokenize bytes with
    | None => Err
    | Some ts =>
        if forallb (fun f => pb_ok (fst f) (snd f) ts) (ms_fields s)
        then run_glue (ms_swallow s) (ms_fields s) ts
        else Err
    end.
End Decode.

(* ------------------------------------------------------------------ encoding (proto.Marshal of the pb struct the Go Marshal builds) *)
Definition enc_bytes_field (k : N) (b : list N) : list token :=
  match b with [] => [] | _ => [(k, WBytes b)] end.
Definition enc_field0 (k : N) (t : ftype0) (v : fval0) : list token :=
  match t, v with
  | (TU32 _ | TU64), VN n => if n =? 0 then [] else [(k, WVar n)]
  | (TBytes _ | TString), VB b => enc_bytes_field k b
  | TBig, VN n => enc_bytes_field k (be_bytes n)
  | (TRep _ | TRepStr), VL l => map (fun b => (k, WBytes b)) l
  | TMap _, VM m => map (fun e => (k, WBytes (ser [(1, WVar (fst e)); (2, WBytes (snd e))]))) m
  | _, _ => []
  end.
Fixpoint enc_fields0 (fs : list (N * ftype0)) (vs : list fval0) : list token :=
  match fs, vs with
  | (k, t) :: fs', v :: vs' => enc_field0 k t v ++ enc_fields0 fs' vs'
  | _, _ => []
  end.
Definition enc_field (k : N) (t : ftype) (v : fval) : list token :=
  match t, v with
  | F0 t0, V0 v0 => enc_field0 k t0 v0
  | TMsg sub _, VMsg vs => [(k, WBytes (ser (enc_fields0 sub vs)))]
  | _, _ => []
  end.
Fixpoint enc_fields (fs : list (N * ftype)) (vs : list fval) : list token :=
  match fs, vs with
  | (k, t) :: fs', v :: vs' => enc_field k t v ++ enc_fields fs' vs'
  | _, _ => []
  end.
Definition encode (s : mschema) (v : list fval) : list N := ser (enc_fields (ms_fields s) v).

(* ------------------------------------------------------------------ the modelled keep-core types *)
(* parser numbers *)
Definition P_ephemeral_pub : N := 1.   (* ephemeral.UnmarshalPublicKey -> PublicKey.Marshal (33 bytes) *)
Definition P_ephemeral_priv : N := 2.  (* ephemeral.UnmarshalPrivateKey -> PrivateKey.Marshal (32 bytes) *)
Definition P_g1 : N := 3.              (* bn256.G1.Unmarshal -> Marshal *)
Definition P_g2 : N := 4.              (* bn256.G2.Unmarshal -> Marshal *)
Definition P_wallet_pub : N := 5.      (* elliptic.Unmarshal(secp256k1), nil coordinates rejected -> elliptic.Marshal *)
Definition P_key_share : N := 6.       (* tecdsa.PrivateKeyShare.Unmarshal -> Marshal *)

Definition sender : N * ftype := (1, F0 (TU32 UMax255)).
Definition mk (fs : list (N * ftype)) : mschema := {| ms_fields := fs; ms_swallow := [] |}.

(* pkg/beacon/gjkr/marshaling.go *)
Definition S_gjkr_EphemeralPublicKey := mk [sender; (2, F0 (TMap (BParse P_ephemeral_pub))); (3, F0 TString)].
Definition S_gjkr_MemberCommitments := mk [sender; (2, F0 (TRep (BParse P_g1))); (3, F0 TString)].
Definition S_gjkr_Accusations :=   (* SecretSharesAccusationsMessage and PointsAccusationsMessage: `if err != nil { return nil }` *)
  {| ms_fields := [sender; (2, F0 (TMap (BNonEmptyParse P_ephemeral_priv))); (3, F0 TString)];
     ms_swallow := [2] |}.
Definition S_gjkr_MemberPublicKeySharePoints := mk [sender; (2, F0 (TRep (BParse P_g2))); (3, F0 TString)].
Definition S_gjkr_MisbehavedEphemeralKeys := mk [sender; (2, F0 (TMap (BNonEmptyParse P_ephemeral_priv))); (3, F0 TString)].
(* sender, 32-byte hash, signature, public key, session: dkg/result DKGResultHashSignatureMessage,
   tecdsa/dkg resultSignatureMessage, protocol/inactivity claimSignatureMessage *)
Definition S_hash_signature :=
  mk [sender; (2, F0 (TBytes (BLen 32))); (3, F0 (TBytes BAny)); (4, F0 (TBytes BAny)); (5, F0 TString)].
(* sender, payload, session: entry SignatureShareMessage, tecdsa/dkg tssRoundOne/Three,
   tecdsa/signing tssRoundThree..Nine *)
Definition S_sender_payload_session := mk [sender; (2, F0 (TBytes BAny)); (3, F0 TString)].
(* tecdsa/dkg tssRoundTwoMessage, tecdsa/signing tssRoundOneMessage *)
Definition S_sender_payload_peers_session :=
  mk [sender; (2, F0 (TBytes BAny)); (3, F0 (TMap BAny)); (4, F0 TString)].
(* tecdsa/signing tssRoundTwoMessage *)
Definition S_sender_peers_session := mk [sender; (2, F0 (TMap BAny)); (3, F0 TString)].
(* tecdsa/dkg and tecdsa/signing ephemeralPublicKeyMessage: same shape as gjkr *)
Definition S_tecdsa_EphemeralPublicKey := S_gjkr_EphemeralPublicKey.
Definition S_tecdsa_dkg_Finalization := mk [sender; (2, F0 TString)].
Definition S_announcement := mk [sender; (2, F0 TString); (3, F0 TString)].
(* pkg/net/security/handshake *)
Definition S_act1 := mk [(1, F0 (TBytes (BLen 8))); (2, F0 TString)].
Definition S_act2 := mk [(1, F0 (TBytes (BLen 8))); (2, F0 (TBytes (BLen 32))); (3, F0 TString)].
Definition S_act3 := mk [(1, F0 (TBytes (BLen 32)))].
(* pkg/tbtc/marshaling.go *)
Definition wallet_fields : list (N * ftype0) := [(1, TBytes (BParse P_wallet_pub)); (2, TRepStr)].
Definition S_tbtc_signer :=      (* as repaired by the fix: commit: missing wallet -> error *)
  mk [(1, TMsg wallet_fields AErr); (2, F0 (TU32 UTrunc8)); (3, F0 (TBytes (BParse P_key_share)))].
Definition S_tbtc_signer_before_fix :=   (* pbSigner.Wallet.PublicKey with Wallet == nil *)
  mk [(1, TMsg wallet_fields APanic); (2, F0 (TU32 UTrunc8)); (3, F0 (TBytes (BParse P_key_share)))].
Definition S_tbtc_Heartbeat := mk [(1, F0 (TBytes (BLen 16)))].
Definition S_tbtc_Redemption := mk [(1, F0 (TRep BAny)); (2, F0 TBig)].
Definition S_tbtc_MovingFunds := mk [(1, F0 (TRep (BLen 20))); (2, F0 TBig)].
Definition S_tbtc_MovedFundsSweep := mk [(1, F0 (TBytes (BLen 32))); (2, F0 (TU32 UFull)); (3, F0 TBig)].

(* the schemas the driver may name (the repaired signer, not the old one) *)
Definition all_schemas : list mschema :=
  [S_gjkr_EphemeralPublicKey; S_gjkr_MemberCommitments; S_gjkr_Accusations;
   S_gjkr_MemberPublicKeySharePoints; S_gjkr_MisbehavedEphemeralKeys; S_hash_signature;
   S_sender_payload_session; S_sender_payload_peers_session; S_sender_peers_session;
   S_tecdsa_dkg_Finalization; S_announcement; S_act1; S_act2; S_act3; S_tbtc_signer;
   S_tbtc_Heartbeat; S_tbtc_Redemption; S_tbtc_MovingFunds; S_tbtc_MovedFundsSweep].

(* ------------------------------------------------------------------ cases and judge *)
Fixpoint list_eqb {A} (eq : A -> A -> bool) (a b : list A) : bool :=
  match a, b with
  | [], [] => true
  | x :: a', y :: b' => eq x y && list_eqb eq a' b'
  | _, _ => false
  end.
Definition bytes_eqb := list_eqb N.eqb.
Definition fval0_eqb (a b : fval0) : bool :=
  match a, b with
  | VN x, VN y => x =? y
  | VB x, VB y => bytes_eqb x y
  | VL x, VL y => list_eqb bytes_eqb x y
  | VM x, VM y => list_eqb (fun p q => (fst p =? fst q) && bytes_eqb (snd p) (snd q)) x y
  | _, _ => false
  end.
Definition fval_eqb (a b : fval) : bool :=
  match a, b with
  | V0 x, V0 y => fval0_eqb x y
  | VMsg x, VMsg y => list_eqb fval0_eqb x y
  | _, _ => false
  end.
Definition res_eqb (a b : res) : bool :=
  match a, b with
  | Ok x, Ok y => list_eqb fval_eqb x y
  | Err, Err | Panic, Panic => true
  | _, _ => false
  end.

Inductive gkind := KRoundTrip | KCorrupt | KRandom.
Inductive oclass := OOk | OErr | OPanic.

(* The property on what the implementation did with one input:
   it never panics; a value it accepts is a valid value ([valid]: re-encoding it does not panic
   and decoding the re-encoding gives the same value again); what was encoded from a
   well-formed value decodes, to an equal value ([valid] then also says "equal to the original"). *)
Definition spec_gen (k : gkind) (o : oclass) (valid : bool) : bool :=
  match o with
  | OPanic => false
  | OErr => match k with KRoundTrip => false | _ => true end
  | OOk => valid
  end.

Record mcase := {
  m_schema : mschema;
  m_kind : gkind;
  m_bytes : list N;                                   (* the input of Unmarshal *)
  m_orc : list (N * list N * option (list N));        (* observed results of the key parsers *)
  m_obs : res;                                        (* observed: Ok = the decoded value, re-encoded and read back field by field *)
  m_valid : bool;
  m_orig : option (list fval)                         (* round trip: the generated value *)
}.
Inductive hstep := HStep (k : gkind) (bytes : list N) (obs : res) (valid : bool) (orig : option (list fval)).
Inductive case :=
| CGen (k : gkind) (o : oclass) (valid : bool)
| CModel (c : mcase)
(* histories: several decodes by the same decoder in one process; the observable of EVERY step
   is re-read after ALL decodes of the history have run (and after the input buffers have been
   overwritten), so [valid] / the observed value are the late ones *)
| CHistGen (steps : list (gkind * oclass * bool))
| CHist (s : mschema) (orc : list (N * list N * option (list N))) (steps : list hstep).

Fixpoint orc_lookup (t : list (N * list N * option (list N))) (p : N) (b : list N) : option (list N) :=
  match t with
  | [] => None
  | (p', b', r) :: t' => if (p =? p') && bytes_eqb b b' then r else orc_lookup t' p b
  end.

Definition class_of (r : res) : oclass := match r with Ok _ => OOk | Err => OErr | Panic => OPanic end.

Definition spec_model (c : mcase) : bool :=
  spec_gen (m_kind c) (class_of (m_obs c)) (m_valid c)
  && match m_kind c, m_orig c with
     | KRoundTrip, Some v => res_eqb (m_obs c) (Ok v)
     | KRoundTrip, None => false
     | _, _ => true
     end.

(* order-insensitive comparison of two token lists (Go's map iteration order is random) *)
Fixpoint bytes_leb (a b : list N) : bool :=
  match a, b with
  | [], _ => true
  | _ :: _, [] => false
  | x :: a', y :: b' => if x <? y then true else if y <? x then false else bytes_leb a' b'
  end.
Definition tok_bytes (t : token) : list N := ser_tok t.
Fixpoint tok_insert (t : token) (l : list token) : list token :=
  match l with
  | [] => [t]
  | u :: r => if bytes_leb (tok_bytes t) (tok_bytes u) then t :: l else u :: tok_insert t r
  end.
Definition tok_sort (l : list token) : list token := fold_right tok_insert [] l.
Definition same_tokens (a b : list N) : bool :=
  match tokenize a, tokenize b with
  | Some x, Some y => bytes_eqb (ser (tok_sort x)) (ser (tok_sort y))
  | _, _ => false
  end.

(* model = implementation on one decode: same bytes, same result; for a round trip the model's
   encoding of the generated value is (up to field order) the input *)
Definition agree_enc (c : mcase) : bool :=
  match m_kind c, m_orig c with
  | KRoundTrip, Some v => same_tokens (encode (m_schema c) v) (m_bytes c)
  | _, _ => true
  end.
Definition agree_model (c : mcase) : bool :=
  res_eqb (decode (orc_lookup (m_orc c)) (m_schema c) (m_bytes c)) (m_obs c) && agree_enc c.

(* ------------------------------------------------------------------ histories *)
(* Decoding is a function of the bytes alone: the model of "decode b1, then b2, ..., then read
   all the decoded values back" is the list of the independent results. *)
Definition decode_history (parse : N -> list N -> option (list N)) (s : mschema)
           (bs : list (list N)) : list res := map (decode parse s) bs.

Definition step_case (s : mschema) (orc : list (N * list N * option (list N))) (st : hstep) : mcase :=
  match st with
  | HStep k bytes obs valid orig =>
      {| m_schema := s; m_kind := k; m_bytes := bytes; m_orc := orc; m_obs := obs;
         m_valid := valid; m_orig := orig |}
  end.
Definition step_bytes (st : hstep) : list N := match st with HStep _ b _ _ _ => b end.
Definition step_obs (st : hstep) : res := match st with HStep _ _ o _ _ => o end.
Definition step_kind (st : hstep) : gkind := match st with HStep k _ _ _ _ => k end.
Definition step_orig (st : hstep) : option (list fval) := match st with HStep _ _ _ _ o => o end.

(* the property on a whole history, evaluated on the values RE-READ after the last decode: every
   step satisfies the single-decode property (no panic, accepted values valid, round-trip steps
   still equal to the value they were encoded from) *)
Definition spec_hist_gen (steps : list (gkind * oclass * bool)) : bool :=
  forallb (fun st => match st with (k, o, valid) => spec_gen k o valid end) steps.
Definition spec_hist (s : mschema) (orc : list (N * list N * option (list N))) (steps : list hstep) : bool :=
  forallb (fun st => spec_model (step_case s orc st)) steps.
Definition agree_hist (s : mschema) (orc : list (N * list N * option (list N))) (steps : list hstep) : bool :=
  list_eqb res_eqb (decode_history (orc_lookup orc) s (map step_bytes steps)) (map step_obs steps)
  && forallb (fun st => agree_enc (step_case s orc st)) steps.

Definition judge (c : case) : verdict :=
  match c with
  | CGen k o valid => decide (spec_gen k o valid) true
  | CModel c => decide (spec_model c) (agree_model c)
  | CHistGen steps => match steps with [] => BadCase | _ => decide (spec_hist_gen steps) true end
  | CHist s orc steps =>
      match steps with [] => BadCase | _ => decide (spec_hist s orc steps) (agree_hist s orc steps) end
  end.

(* what --replay prints: the model's own result(s) *)
Definition explain (c : case) : list res :=
  match c with
  | CGen _ _ _ | CHistGen _ => []
  | CModel c => [decode (orc_lookup (m_orc c)) (m_schema c) (m_bytes c)]
  | CHist s orc steps => decode_history (orc_lookup orc) s (map step_bytes steps)
  end.
