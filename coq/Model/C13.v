(* C13 — executable model of how a member collects the signatures supporting a key-generation
   result or an inactivity claim, as written in
     pkg/beacon/dkg/result/{states,signing,submission}.go   (beacon)
     pkg/tecdsa/dkg/{states,protocol}.go + pkg/tbtc/dkg_submit.go   (tecdsa)
     pkg/protocol/inactivity/{states,member}.go + pkg/tbtc/inactivity.go   (inactivity)
   Pipeline: Receive (admission, Model/C12) -> message history -> per-sender rule -> hash
   equality -> signature verification -> + own signature -> threshold gate of the submitter.
   Signature verification (chain.Signing.VerifyWithPublicKey) and the key-to-address function are
   oracles (Section variables).  No proofs here. *)
From Coq Require Import ZArith NArith List Bool.
From KV Require Import Common.Verdict Model.C12.
Import ListNotations.
Open Scope N_scope.

Inductive proto := Beacon | Tecdsa | Inactivity.

(* a signature message as it arrives from the network *)
Record raw := { r_idx : N;       (* claimed member index *)
                r_key : N;       (* network public key of the sender, pinned by the network layer *)
                r_pubkey : N;    (* public key named inside the message *)
                r_hash : N;      (* result / claim hash the sender supports *)
                r_sig : N;       (* signature *)
                r_session : N }.

(* the receiving member *)
Record cfg := { f_self : N; f_ops : list N; f_grp : grp; f_session : N;
                f_hash : N;      (* own preferred hash *)
                f_selfsig : N }. (* own signature over it *)

(* parameters read by the submitters *)
Record params := { p_gsize : Z;      (* beacon config.GroupSize *)
                   p_honest : Z;     (* beacon config.HonestThreshold / tbtc HonestThreshold *)
                   p_quorum : Z }.   (* tbtc GroupQuorum *)

(* ---------- Go map[MemberIndex][]byte, kept sorted by key ---------- *)
Fixpoint upsert (k v : N) (m : list (N * N)) : list (N * N) :=
  match m with
  | [] => [(k, v)]
  | (k', v') :: t =>
      if k <? k' then (k, v) :: m
      else if k =? k' then (k, v) :: t
      else (k', v') :: upsert k v t
  end.
Fixpoint lookup (k : N) (m : list (N * N)) : option N :=
  match m with
  | [] => None
  | (k', v) :: t => if k =? k' then Some v else lookup k t
  end.

Definition from (i : N) (msgs : list raw) : list raw := filter (fun r => r_idx r =? i) msgs.

(* state.DeduplicateMessagesPayloads keyed by the sender: the first message of a sender stays *)
Fixpoint dedup_first (seen : list N) (msgs : list raw) : list raw :=
  match msgs with
  | [] => []
  | r :: t => if memN (r_idx r) seen then dedup_first seen t
              else r :: dedup_first (r_idx r :: seen) t
  end.

Section Support.
  Variable addr_of : N -> N.                 (* PublicKeyBytesToAddress *)
  Variable verify : N -> N -> N -> bool.     (* VerifyWithPublicKey hash signature publicKey; an error counts as false *)

  (* resultSigningState.Receive / claimSigningState.Receive *)
  Definition admitted (c : cfg) (r : raw) : bool :=
    should_accept addr_of (f_self c) (f_grp c) (f_ops c) (r_idx r) (r_key r)
    && (r_pubkey r =? r_key r)                                   (* isValidKeyUsed *)
    && (f_session c =? r_session r).
  Definition history (c : cfg) (raws : list raw) : list raw := filter (admitted c) raws.

  (* SigningMember.VerifyDKGResultSignatures (beacon) *)
  Definition duplicated (i : N) (msgs : list raw) : bool := (2 <=? length (from i msgs))%nat.
  Definition beacon_step (c : cfg) (all : list raw) (acc : list (N * N)) (r : raw) : list (N * N) :=
    if r_idx r =? f_self c then acc
    else if duplicated (r_idx r) all then acc
    else if negb (r_hash r =? f_hash c) then acc
    else if negb (verify (r_hash r) (r_sig r) (r_pubkey r)) then acc
    else upsert (r_idx r) (r_sig r) acc.
  Definition beacon_verify (c : cfg) (msgs : list raw) : list (N * N) :=
    upsert (f_self c) (f_selfsig c) (fold_left (beacon_step c msgs) msgs []).

  (* signingMember.verifyDKGResultSignatures / verifyInactivityClaimSignatures on receivedMessages *)
  Definition first_step (c : cfg) (acc : list (N * N)) (r : raw) : list (N * N) :=
    if negb (r_hash r =? f_hash c) then acc
    else if negb (verify (r_hash r) (r_sig r) (r_pubkey r)) then acc
    else upsert (r_idx r) (r_sig r) acc.
  Definition first_verify (c : cfg) (msgs : list raw) : list (N * N) :=
    upsert (f_self c) (f_selfsig c) (fold_left (first_step c) (dedup_first [] msgs) []).

  Definition support (p : proto) (c : cfg) (raws : list raw) : list (N * N) :=
    match p with
    | Beacon => beacon_verify c (history c raws)
    | Tecdsa | Inactivity => first_verify c (history c raws)
    end.
End Support.

(* ---------- threshold gates ---------- *)
(* config.HonestThreshold + (config.GroupSize-config.HonestThreshold)/2 on Go ints *)
Definition beacon_threshold (p : params) : Z := (p_honest p + Z.quot (p_gsize p - p_honest p) 2)%Z.
Definition threshold (pr : proto) (p : params) : Z :=
  match pr with
  | Beacon => beacon_threshold p
  | Tecdsa => p_quorum p
  | Inactivity => p_honest p
  end.
Definition count (sigs : list (N * N)) : Z := Z.of_nat (length sigs).
(* the first statement of SubmitDKGResult / SubmitResult / SubmitClaim *)
Definition gate (pr : proto) (p : params) (sigs : list (N * N)) : bool :=
  negb (count sigs <? threshold pr p)%Z.
(* [env_ok]: everything the submitter checks afterwards (not yet submitted by somebody else,
   result valid on chain, context alive) *)
Definition submits (pr : proto) (p : params) (sigs : list (N * N)) (env_ok : bool) : bool :=
  gate pr p sigs && env_ok.

(* ---------- the property in executable form (evaluated on the implementation's map) ---------- *)
Fixpoint keys_increasing (m : list (N * N)) : bool :=
  match m with
  | (a, _) :: ((b, _) :: _) as t => (a <? b) && keys_increasing t
  | _ => true
  end.

Definition sigmap_eqb (a b : list (N * N)) : bool :=
  (length a =? length b)%nat
  && forallb (fun p => (fst (fst p) =? fst (snd p)) && (snd (fst p) =? snd (snd p))) (combine a b).

Section Spec.
  Variable addr_of : N -> N.
  Variable verify : N -> N -> N -> bool.

  (* message [r] justifies the entry (i, s) *)
  Definition justifies_b (c : cfg) (i s : N) (r : raw) : bool :=
    (r_idx r =? i) && (r_sig r =? s) && (r_hash r =? f_hash c)
    && (r_pubkey r =? r_key r) && (r_session r =? f_session c)
    && holds_index_b (f_ops c) i (addr_of (r_key r))
    && is_operating (f_grp c) i
    && verify (r_hash r) (r_sig r) (r_key r).

  Definition support_ok_b (c : cfg) (raws : list raw) (sigs : list (N * N)) : bool :=
    keys_increasing sigs
    && match lookup (f_self c) sigs with Some s => s =? f_selfsig c | None => false end
    && forallb (fun e => (fst e =? f_self c) || existsb (justifies_b c (fst e) (snd e)) raws) sigs.

  (* [submitted]: the map handed to the chain, if the submitter went through *)
  Definition submit_ok_b (pr : proto) (p : params) (sigs : list (N * N))
             (submitted : option (list (N * N))) : bool :=
    match submitted with
    | None => true
    | Some l => sigmap_eqb l sigs && (threshold pr p <=? count l)%Z
    end.
End Spec.

(* ---------- cases ---------- *)
Record sup_case := { c_proto : proto; c_cfg : cfg; c_params : params; c_raws : list raw;
                     c_addr : list (N * N);               (* key -> address table (the real signer's answers) *)
                     c_env_ok : bool;
                     c_sigs : list (N * N);               (* implementation: validSignatures, sorted by member *)
                     c_submitted : option (list (N * N)) }. (* implementation: map received by the chain *)
Definition case := sup_case.

(* the stub signer of the driver: signature s = 2*(4096*key + hash) + valid_bit *)
Definition stub_verify (h s k : N) : bool := (s mod 2 =? 1) && (s / 2 =? 4096 * k + h).
Definition table_addr (t : list (N * N)) (k : N) : N :=
  match lookup k t with Some a => a | None => 0 end.

Definition well_formed (c : sup_case) : bool :=
  (length (f_ops (c_cfg c)) <=? 255)%nat
  && (f_self (c_cfg c) <? 256)
  && forallb (fun r => (r_idx r <? 256) && (r_hash r <? 4096)) (c_raws c)
  && (f_hash (c_cfg c) <? 4096).

Definition model_support (c : sup_case) : list (N * N) :=
  support (table_addr (c_addr c)) stub_verify (c_proto c) (c_cfg c) (c_raws c).
Definition model_submitted (c : sup_case) : option (list (N * N)) :=
  let s := model_support c in
  if submits (c_proto c) (c_params c) s (c_env_ok c) then Some s else None.

Definition opt_eqb (a b : option (list (N * N))) : bool :=
  match a, b with
  | None, None => true
  | Some x, Some y => sigmap_eqb x y
  | _, _ => false
  end.

Definition judge (c : case) : verdict :=
  if negb (well_formed c) then BadCase else
  decide (support_ok_b (table_addr (c_addr c)) stub_verify (c_cfg c) (c_raws c) (c_sigs c)
          && submit_ok_b (c_proto c) (c_params c) (c_sigs c) (c_submitted c))
         (sigmap_eqb (model_support c) (c_sigs c)
          && opt_eqb (model_submitted c) (c_submitted c)).

Definition explain (c : case) : list (N * N) * option (list (N * N)) :=
  (model_support c, model_submitted c).

(* constructor used by the generated case terms (keeps Model.C12 out of the case files) *)
Definition mk_grp (size : N) (ia dq : list N) : grp := {| g_size := size; g_ia := ia; g_dq := dq |}.
