(* C20 — executable model of pkg/net/security/handshake/connection_handshake.go (the three acts
   of the connection handshake) as driven by pkg/net/libp2p/authenticated_connection.go
   (act 1 message -> AnswerHandshake -> act 2 message -> InitiatorAct2.Next -> act 3 message ->
   FinalizeHandshake; each message travels as bytes and is decoded by the receiver).
   Nonces are N (uint64), protocol identifiers are N (strings compared for equality only; the
   driver numbers distinct strings).  The challenge hash  sha256(nonce1 || nonce2)  is the
   Section variable [H]; nothing is assumed about it in the model. *)
From Coq Require Import NArith List Bool.
From KV Require Import Common.Verdict.
Import ListNotations.

Section Handshake.
  Variable challenge : Type.
  Variable H : N -> N -> challenge.                      (* hashToChallenge *)
  Variable ceqb : challenge -> challenge -> bool.        (* == on [32]byte *)

  Record act1 := { a1_nonce : N; a1_proto : N }.
  Record act2 := { a2_nonce : N; a2_chal : challenge; a2_proto : N }.
  Record act3 := { a3_chal : challenge }.

  (* InitiatorAct1 / InitiatorAct2 hold the same two fields *)
  Record initiator := { i_nonce : N; i_proto : N }.
  (* ResponderAct2; ResponderAct3 and InitiatorAct3 hold one challenge *)
  Record responder2 := { r_nonce : N; r_chal : challenge; r_proto : N }.

  Inductive err := ErrProtocol | ErrChallenge | ErrDecode.
  Inductive res (A : Type) := Ok (a : A) | Fail (e : err).
  Arguments Ok {A}. Arguments Fail {A}.

  (* InitiateHandshake with the drawn nonce [n1]; InitiatorAct1.Message; InitiatorAct1.Next *)
  Definition initiate (n1 p : N) : initiator := {| i_nonce := n1; i_proto := p |}.
  Definition msg1 (i : initiator) : act1 := {| a1_nonce := i_nonce i; a1_proto := i_proto i |}.

  (* AnswerHandshake with the drawn nonce [n2] *)
  Definition answer (m : act1) (p n2 : N) : res responder2 :=
    if negb (N.eqb (a1_proto m) p) then Fail ErrProtocol
    else Ok {| r_nonce := n2; r_chal := H (a1_nonce m) n2; r_proto := p |}.
  Definition msg2 (r : responder2) : act2 :=
    {| a2_nonce := r_nonce r; a2_chal := r_chal r; a2_proto := r_proto r |}.
  (* ResponderAct2.Next *)
  Definition responder_next (r : responder2) : challenge := r_chal r.

  (* InitiatorAct2.Next: protocol first, then the challenge *)
  Definition initiator_next (i : initiator) (m : act2) : res challenge :=
    if negb (N.eqb (a2_proto m) (i_proto i)) then Fail ErrProtocol
    else if ceqb (H (i_nonce i) (a2_nonce m)) (a2_chal m) then Ok (a2_chal m)
    else Fail ErrChallenge.
  Definition msg3 (c : challenge) : act3 := {| a3_chal := c |}.

  (* ResponderAct3.FinalizeHandshake *)
  Definition finalize (c : challenge) (m : act3) : res unit :=
    if ceqb c (a3_chal m) then Ok tt else Fail ErrChallenge.

  (* ---- a whole session with a party in the middle ----
     [t1 t2 t3] map the message sent to the message delivered; None = bytes the receiver
     cannot decode (wrong nonce / challenge length, garbage).  The honest network is
     [Some]. *)
  Inductive outcome := Completed | FailedAt (act : N) (e : err).

  Definition session (p1 p2 n1 n2 : N)
             (t1 : act1 -> option act1) (t2 : act2 -> option act2) (t3 : act3 -> option act3)
    : outcome :=
    let i := initiate n1 p1 in
    match t1 (msg1 i) with
    | None => FailedAt 1 ErrDecode
    | Some m1 =>
      match answer m1 p2 n2 with
      | Fail e => FailedAt 1 e
      | Ok r =>
        match t2 (msg2 r) with
        | None => FailedAt 2 ErrDecode
        | Some m2 =>
          match initiator_next i m2 with
          | Fail e => FailedAt 2 e
          | Ok c =>
            match t3 (msg3 c) with
            | None => FailedAt 3 ErrDecode
            | Some m3 =>
              match finalize (responder_next r) m3 with
              | Fail e => FailedAt 3 e
              | Ok _ => Completed
              end
            end
          end
        end
      end
    end.

  (* ---- field-level tampering, as data (what the driver does to the bytes in flight) ---- *)
  Record tamper1 := { t1_drop : bool; t1_nonce : option N; t1_proto : option N }.
  Record tamper2 := { t2_drop : bool; t2_nonce : option N; t2_chal : option challenge;
                      t2_proto : option N }.
  Record tamper3 := { t3_drop : bool; t3_chal : option challenge }.

  Definition over {A} (o : option A) (x : A) : A := match o with Some y => y | None => x end.
  Definition apply1 (t : tamper1) (m : act1) : option act1 :=
    if t1_drop t then None else
    Some {| a1_nonce := over (t1_nonce t) (a1_nonce m); a1_proto := over (t1_proto t) (a1_proto m) |}.
  Definition apply2 (t : tamper2) (m : act2) : option act2 :=
    if t2_drop t then None else
    Some {| a2_nonce := over (t2_nonce t) (a2_nonce m); a2_chal := over (t2_chal t) (a2_chal m);
            a2_proto := over (t2_proto t) (a2_proto m) |}.
  Definition apply3 (t : tamper3) (m : act3) : option act3 :=
    if t3_drop t then None else Some {| a3_chal := over (t3_chal t) (a3_chal m) |}.

  (* ---- the property in executable form, on the messages the IMPLEMENTATION delivered ----
     The handshake completes iff every delivered act decodes, both sides see the peer's
     protocol equal to their own, act 2 carries the challenge derived from the initiator's
     nonce1 and the delivered nonce2, and act 3 carries the challenge derived from the
     delivered nonce1 and the responder's nonce2; otherwise it fails at the first act whose
     condition is violated. *)
  Definition act1_ok (p2 : N) (d1 : option act1) : bool :=
    match d1 with Some m => N.eqb (a1_proto m) p2 | None => false end.
  Definition act2_ok (p1 n1 : N) (d2 : option act2) : bool :=
    match d2 with
    | Some m => N.eqb (a2_proto m) p1 && ceqb (H n1 (a2_nonce m)) (a2_chal m)
    | None => false
    end.
  Definition act3_ok (d1 : option act1) (n2 : N) (d3 : option act3) : bool :=
    match d1, d3 with
    | Some m1, Some m3 => ceqb (H (a1_nonce m1) n2) (a3_chal m3)
    | _, _ => false
    end.

  (* which act the handshake must stop at (0 = completes) *)
  Definition expected_stop (p1 p2 n1 n2 : N) (d1 : option act1) (d2 : option act2)
             (d3 : option act3) : N :=
    if negb (act1_ok p2 d1) then 1 else
    if negb (act2_ok p1 n1 d2) then 2 else
    if negb (act3_ok d1 n2 d3) then 3 else 0.

  (* outcome [o] is "stopped at act [e]" (e = 0: completed) *)
  Definition stops_at (o : outcome) (e : N) : bool :=
    match o with
    | Completed => N.eqb e 0
    | FailedAt k _ => negb (N.eqb k 0) && N.eqb k e
    end.

  (* the network delivers what was sent *)
  Definition intact {A} (t : A -> option A) : Prop := forall m, t m = Some m.
End Handshake.

Arguments Ok {A}. Arguments Fail {A}.

(* ---------- the concrete challenge type of the correspondence check ----------
   A 32-byte challenge observed in the implementation is rendered by the driver as [CH a b]
   when it equals sha256(le64(a) || le64(b) || 16 zero bytes) for nonces a, b occurring in the
   case (computed by the driver with crypto/sha256, independently of the code under test), and
   as [COther k] (k-th distinct unexplained value) otherwise.  [CH] is injective. *)
Inductive cch := CH (a b : N) | COther (k : N).
Definition cch_eqb (x y : cch) : bool :=
  match x, y with
  | CH a b, CH c d => N.eqb a c && N.eqb b d
  | COther j, COther k => N.eqb j k
  | _, _ => false
  end.

Definition err_eqb (a b : err) : bool :=
  match a, b with
  | ErrProtocol, ErrProtocol | ErrChallenge, ErrChallenge | ErrDecode, ErrDecode => true
  | _, _ => false
  end.
Definition outcome_eqb (a b : outcome) : bool :=
  match a, b with
  | Completed, Completed => true
  | FailedAt j e, FailedAt k f => N.eqb j k && err_eqb e f
  | _, _ => false
  end.

Definition act1_eqb (a b : act1) : bool :=
  N.eqb (a1_nonce a) (a1_nonce b) && N.eqb (a1_proto a) (a1_proto b).
Definition act2_eqb (a b : act2 cch) : bool :=
  N.eqb (a2_nonce _ a) (a2_nonce _ b) && cch_eqb (a2_chal _ a) (a2_chal _ b)
  && N.eqb (a2_proto _ a) (a2_proto _ b).
Definition act3_eqb (a b : act3 cch) : bool := cch_eqb (a3_chal _ a) (a3_chal _ b).
Definition opt_eqb {A} (f : A -> A -> bool) (a b : option A) : bool :=
  match a, b with Some x, Some y => f x y | None, None => true | _, _ => false end.

(* One session run on the implementation.
   Inputs: both protocol ids, both nonces (injected through crypto/rand.Reader), the tampering.
   Observed: the messages each side SENT (None when the handshake stopped before), and how
   the handshake ended. *)
Record case := {
  c_p1 : N; c_p2 : N; c_n1 : N; c_n2 : N;
  c_t1 : tamper1; c_t2 : tamper2 cch; c_t3 : tamper3 cch;
  c_s1 : act1; c_s2 : option (act2 cch); c_s3 : option (act3 cch);
  c_out : outcome
}.

Definition obind {A B} (o : option A) (f : A -> option B) : option B :=
  match o with Some x => f x | None => None end.

(* what was delivered, computed from what the implementation sent *)
Definition d1 (c : case) : option act1 := apply1 (c_t1 c) (c_s1 c).
Definition d2 (c : case) : option (act2 cch) := obind (c_s2 c) (apply2 cch (c_t2 c)).
Definition d3 (c : case) : option (act3 cch) := obind (c_s3 c) (apply3 cch (c_t3 c)).

(* the property, on the implementation's outputs: the handshake stops exactly where the first
   delivered act violates its condition (and completes when none does); an act that is sent
   carries the nonce of its sender and the challenge derived from both nonces as its sender
   knows them *)
Definition spec_ok (c : case) : bool :=
  stops_at (c_out c)
        (expected_stop cch CH cch_eqb (c_p1 c) (c_p2 c) (c_n1 c) (c_n2 c) (d1 c) (d2 c) (d3 c))
  && N.eqb (a1_nonce (c_s1 c)) (c_n1 c)
  && match c_s2 c, d1 c with
     | Some m2, Some m1 => N.eqb (a2_nonce _ m2) (c_n2 c)
                           && cch_eqb (a2_chal _ m2) (CH (a1_nonce m1) (c_n2 c))
     | Some _, None => false            (* the responder answered an undecodable act 1 *)
     | None, _ => true
     end
  && match c_s3 c, d2 c with
     | Some m3, Some m2 => cch_eqb (a3_chal _ m3) (CH (c_n1 c) (a2_nonce _ m2))
     | Some _, None => false
     | None, _ => true
     end.

(* the model's own run: messages sent and outcome *)
Definition model_sent (c : case) : act1 * option (act2 cch) * option (act3 cch) :=
  let i := initiate (c_n1 c) (c_p1 c) in
  let s1 := msg1 i in
  match apply1 (c_t1 c) s1 with
  | None => (s1, None, None)
  | Some m1 =>
    match answer cch CH m1 (c_p2 c) (c_n2 c) with
    | Fail _ => (s1, None, None)
    | Ok r =>
      let s2 := msg2 cch r in
      match apply2 cch (c_t2 c) s2 with
      | None => (s1, Some s2, None)
      | Some m2 =>
        match initiator_next cch CH cch_eqb i m2 with
        | Fail _ => (s1, Some s2, None)
        | Ok ch => (s1, Some s2, Some (msg3 cch ch))
        end
      end
    end
  end.
Definition model_out (c : case) : outcome :=
  session cch CH cch_eqb (c_p1 c) (c_p2 c) (c_n1 c) (c_n2 c)
          (apply1 (c_t1 c)) (apply2 cch (c_t2 c)) (apply3 cch (c_t3 c)).

Definition agree (c : case) : bool :=
  let '(s1, s2, s3) := model_sent c in
  act1_eqb (c_s1 c) s1 && opt_eqb act2_eqb (c_s2 c) s2 && opt_eqb act3_eqb (c_s3 c) s3
  && outcome_eqb (c_out c) (model_out c).

Definition judge (c : case) : verdict := decide (spec_ok c) (agree c).

(* the case the model itself produces for the inputs of [c] *)
Definition model_case (c : case) : case :=
  let '(s1, s2, s3) := model_sent c in
  {| c_p1 := c_p1 c; c_p2 := c_p2 c; c_n1 := c_n1 c; c_n2 := c_n2 c;
     c_t1 := c_t1 c; c_t2 := c_t2 c; c_t3 := c_t3 c;
     c_s1 := s1; c_s2 := s2; c_s3 := s3; c_out := model_out c |}.
Definition explain (c : case) := (model_sent c, model_out c).
