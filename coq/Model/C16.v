(* C16 — executable model of the broadcast delivery path:
     pkg/net/retransmission/retransmission.go  WithRetransmissionSupport (duplicate filter)
     pkg/net/libp2p/channel.go, pkg/net/local/broadcast_channel.go
                                               Recv's handler goroutine, nextSeqno.

   The handler goroutine of Recv repeats:   msg := <-queue            \
                                            if ctx.Err() != nil: skip  / [Check t m]
                                            handleWithRetransmissions(msg):
                                               lock; seen := cache[id]; cache[id] = true; unlock   [Filter t]
                                               if !seen: delegate(msg)                              [Call t]
   These are three separate steps of thread t; [Cancel] (the context is cancelled) can fall
   between any two of them.  The filter is documented as thread-safe and is also used directly
   from several goroutines, so the model has any number of threads sharing the cache; a
   channel's Recv uses one.  The message identity is "<sender>-<seqno>" (Sprintf): a pair
   (sender, seqno) here (sender strings contain no '-').

   [cstep] is libp2p's channel.Send with its publisher as an oracle: the sequence number is taken
   first, the retransmission schedule captures the message WITH that number, then the initial
   publish succeeds or fails; every later tick publishes the captured message again (ok / error).
   The counter is never given back.

   [astep] is the atomic handler (arrival = check + filter + call at once) of DESIGN.md;
   Props/C16 relates the two at the granularity of the context check. *)
From Coq Require Import ZArith NArith List Bool Lia.
From KV Require Import Common.Verdict.
Import ListNotations.
Open Scope N_scope.

Definition msg := (N * N)%type.                 (* (transport sender, sequence number) *)
Definition msg_eqb (a b : msg) : bool := (fst a =? fst b) && (snd a =? snd b).
Definition mem (m : msg) (l : list msg) : bool := existsb (msg_eqb m) l.

(* ---------- atomic handler ---------- *)
Record astate := { a_cache : list msg; a_cancelled : bool }.
Inductive aop := Arrive (m : msg) | ACancel.
Definition astep (st : astate) (o : aop) : astate * list msg :=
  match o with
  | Arrive m =>
      if a_cancelled st then (st, []) else
      if mem m (a_cache st) then (st, [])
      else ({| a_cache := m :: a_cache st; a_cancelled := false |}, [m])
  | ACancel => ({| a_cache := a_cache st; a_cancelled := true |}, [])
  end.
Fixpoint arun (st : astate) (ops : list aop) : astate * list msg :=
  match ops with
  | [] => (st, [])
  | o :: t => let (st1, d1) := astep st o in let (st2, d2) := arun st1 t in (st2, d1 ++ d2)
  end.
Definition ainit : astate := {| a_cache := []; a_cancelled := false |}.

(* ---------- the code as written: three steps per thread ---------- *)
Inductive pc := Idle | Checked (m : msg) | Calling (m : msg).
Record hstate := { cache : list msg; cancelled : bool; pcs : list pc;
                   log : list (nat * msg) }.   (* delegate invocations, oldest first *)
Inductive op := Check (t : nat) (m : msg) | Filter (t : nat) | Call (t : nat) | Cancel.

Fixpoint set_pc (l : list pc) (t : nat) (p : pc) : list pc :=
  match l, t with
  | [], _ => []
  | _ :: r, O => p :: r
  | x :: r, S t' => x :: set_pc r t' p
  end.
Definition get_pc (l : list pc) (t : nat) : pc := nth t l Idle.

Definition step (st : hstate) (o : op) : hstate :=
  match o with
  | Check t m =>
      if (t <? length (pcs st))%nat then
        match get_pc (pcs st) t with
        | Idle => if cancelled st then st
                  else {| cache := cache st; cancelled := cancelled st;
                          pcs := set_pc (pcs st) t (Checked m); log := log st |}
        | _ => st
        end
      else st
  | Filter t =>
      match get_pc (pcs st) t with
      | Checked m =>
          if mem m (cache st)
          then {| cache := cache st; cancelled := cancelled st; pcs := set_pc (pcs st) t Idle; log := log st |}
          else {| cache := m :: cache st; cancelled := cancelled st;
                  pcs := set_pc (pcs st) t (Calling m); log := log st |}
      | _ => st
      end
  | Call t =>
      match get_pc (pcs st) t with
      | Calling m => {| cache := cache st; cancelled := cancelled st; pcs := set_pc (pcs st) t Idle;
                        log := log st ++ [(t, m)] |}
      | _ => st
      end
  | Cancel => {| cache := cache st; cancelled := true; pcs := pcs st; log := log st |}
  end.
Definition run (st : hstate) (ops : list op) : hstate := fold_left step ops st.
Definition init (threads : nat) : hstate :=
  {| cache := []; cancelled := false; pcs := repeat Idle threads; log := [] |}.

(* ---------- sequence numbers: atomic.AddUint64(&counter, 1) ---------- *)
Definition w64 : N := 18446744073709551616.
Definition next_seqno (c : N) : N * N := let c' := (c + 1) mod w64 in (c', c').
Fixpoint seqnos (c : N) (k : nat) : list N :=
  match k with O => [] | S k' => let (c', s) := next_seqno c in s :: seqnos c' k' end.

(* ---------- channel.Send under publish faults (pkg/net/libp2p/channel.go) ----------
     messageProto, err := c.messageProto(message)        Marshal may fail: return, nothing consumed
     messageProto.SequenceNumber = c.nextSeqno()
     doSend := func() error { return c.publish(messageProto) }
     retransmission.ScheduleRetransmissions(ctx, logger, ticker, doSend, strategy)
     return doSend()
   A message is identified by the position of its Send among the Sends that reached nextSeqno.
   [CRetx i ok]: one retransmission of message i (whatever the strategy, tick and goroutine
   order; a cancelled context just means no more of them) whose publish returns ok / an error.
   The wire log has every publish call: (message, sequence number, publisher's answer). *)
Inductive sout := SMarshalErr | SPublished | SPublishErr.
Inductive cop := CSend (o : sout) | CRetx (i : nat) (ok : bool).
Record cstate := { counter : N; sched : list (nat * N); wire : list (nat * N * bool) }.
Definition cinit (c : N) : cstate := {| counter := c; sched := []; wire := [] |}.
Definition cstep (st : cstate) (o : cop) : cstate :=
  match o with
  | CSend SMarshalErr => st
  | CSend r =>
      let (c', s) := next_seqno (counter st) in
      let id := length (sched st) in
      {| counter := c'; sched := sched st ++ [(id, s)];
         wire := wire st ++ [(id, s, match r with SPublished => true | _ => false end)] |}
  | CRetx i ok =>
      match nth_error (sched st) i with
      | Some (id, s) => {| counter := counter st; sched := sched st; wire := wire st ++ [(id, s, ok)] |}
      | None => st
      end
  end.
Definition crun (st : cstate) (ops : list cop) : cstate := fold_left cstep ops st.
(* a receiver: everything that left the sender (successful publishes) goes through the filter *)
Definition wire_arrivals (sender : N) (w : list (nat * N * bool)) : list aop :=
  flat_map (fun e : nat * N * bool => if snd e then [Arrive (sender, snd (fst e))] else []) w.
Definition receiver_deliveries (sender : N) (w : list (nat * N * bool)) : list msg :=
  snd (arun ainit (wire_arrivals sender w)).

(* ---------- correspondence cases ---------- *)
(* times are values of one logical clock incremented at every recorded event *)

(* (A) WithRetransmissionSupport called directly from several goroutines *)
Record fcall := { f_thread : N; f_msg : msg; f_inv : N; f_ret : N; f_delivered : bool }.
Record filter_case := { fc_calls : list fcall;
                        fc_order : list nat }.   (* linearisation certificate: indices into fc_calls *)

(* (B) a channel history *)
Record send := { s_chan : N;                 (* the sending channel instance *)
                 s_msg : option msg;         (* (sender, seqno) seen by the receivers for it *)
                 s_inv : N; s_ret : N }.
Record delivery := { d_msg : msg; d_send : nat;   (* index of the send whose payload was delivered *)
                     d_inv : N; d_ret : N }.      (* d_ret = 0: the delegate had not returned *)
Record handler := { h_reg : N;                    (* time Recv returned *)
                    h_cancel : option (N * N);    (* cancel() invoked / returned *)
                    h_must : list nat;            (* sends the driver waited for this handler to get *)
                    h_deliveries : list delivery }.   (* in invocation order *)
Record chan_case := { cc_sends : list send; cc_handlers : list handler;
                      cc_fresh_chans : list N }.  (* channel instances all of whose sends are listed *)

(* (C) one long-lived libp2p channel whose publisher fails on scripted calls; a receiver channel
   gets every successfully published message *)
Record fault_case := {
  fa_wire : list (N * N * bool);      (* every publish call, in order: (message by first appearance,
                                         sequence number on the wire, publisher's answer) *)
  fa_sends : list (option N * bool);  (* every Send call, in order: the message it published
                                         (None: Marshal failed) and whether it returned an error *)
  fa_delivered : list (N * N);        (* the receiver's delegate calls for this sender: (message, seqno) *)
  fa_flushed : bool }.                (* a message of ANOTHER sender, published last, was delivered
                                         after them: the receiver had handled everything *)
Inductive case := CFilter (c : filter_case) | CChan (c : chan_case) | CFault (c : fault_case).

Fixpoint nodup_msgs (l : list msg) : bool :=
  match l with [] => true | m :: t => negb (mem m t) && nodup_msgs t end.
Fixpoint nodupN (l : list N) : bool :=
  match l with [] => true | m :: t => negb (existsb (N.eqb m) t) && nodupN t end.
Fixpoint nodup_nat (l : list nat) : bool :=
  match l with [] => true | m :: t => negb (existsb (Nat.eqb m) t) && nodup_nat t end.

(* ---- (A): property and linearisability ---- *)
Definition filter_spec (c : filter_case) : bool :=
  nodup_msgs (map f_msg (filter f_delivered (fc_calls c))).

Fixpoint respects_time (l : list fcall) : bool :=     (* nobody is placed before a call that returned before it was invoked *)
  match l with
  | [] => true
  | a :: t => forallb (fun b => negb (f_ret b <? f_inv a)) t && respects_time t
  end.
Fixpoint replay_filter (st : astate) (l : list fcall) : bool :=
  match l with
  | [] => true
  | a :: t => let (st', d) := astep st (Arrive (f_msg a)) in
              Bool.eqb (f_delivered a) (match d with [] => false | _ => true end) && replay_filter st' t
  end.
Definition filter_agree (c : filter_case) : bool :=
  let n := length (fc_calls c) in
  Nat.eqb (length (fc_order c)) n && nodup_nat (fc_order c)
  && forallb (fun i => (i <? n)%nat) (fc_order c)
  && match map (fun i => nth_error (fc_calls c) i) (fc_order c) with l =>
       let calls := flat_map (fun o => match o with Some x => [x] | None => [] end) l in
       respects_time calls && replay_filter ainit calls
     end.

(* ---- (B): property on the history ---- *)
(* nothing after cancel, at the granularity of the context check: a delivery invoked after
   cancel() returned is tolerated only if its context check can have preceded the
   cancellation, i.e. the handler goroutine was not still inside (or before) its previous
   delegate call when cancel() returned *)
Fixpoint cancel_ok (cret : N) (prev_ret : option N) (ds : list delivery) : bool :=
  match ds with
  | [] => true
  | d :: t =>
      (if cret <? d_inv d
       then match prev_ret with
            | None => true
            | Some 0 => false               (* previous delegate call never returned *)
            | Some r => r <? cret
            end
       else true)
      && cancel_ok cret (Some (d_ret d)) t
  end.
(* a message whose send began after cancel() returned is never delivered *)
Definition late_send_ok (sends : list send) (cret : N) (d : delivery) : bool :=
  match nth_error sends (d_send d) with
  | Some s => s_inv s <? cret
  | None => false
  end.
Definition handler_spec (sends : list send) (h : handler) : bool :=
  nodup_msgs (map d_msg (h_deliveries h))
  && match h_cancel h with
     | None => true
     | Some (_, cret) =>
         cancel_ok cret None (h_deliveries h)
         && forallb (fun d => if cret <? d_inv d then late_send_ok sends cret d else true) (h_deliveries h)
     end.
Definition known_msgs (sends : list send) (ch : N) : list msg :=
  flat_map (fun s => if s_chan s =? ch then match s_msg s with Some m => [m] | None => [] end else []) sends.
Definition chan_spec (c : chan_case) : bool :=
  forallb (handler_spec (cc_sends c)) (cc_handlers c)
  (* fresh sequence numbers: the messages of one channel instance are pairwise distinct *)
  && forallb (fun ch => nodup_msgs (known_msgs (cc_sends c) ch))
             (map s_chan (cc_sends c)).

(* ---- (B): agreement with the model ---- *)
(* the handler goroutine's schedule that reproduces the deliveries: every delivered message
   goes through Check/Filter/Call, then the Cancel, then the arrivals of every other message *)
Definition handler_schedule (sends : list send) (h : handler) : list op :=
  flat_map (fun d => [Check 0 (d_msg d); Filter 0; Call 0]) (h_deliveries h)
  ++ (match h_cancel h with Some _ => [Cancel] | None => [] end)
  ++ flat_map (fun s => match s_msg s with Some m => [Check 0 m; Filter 0; Call 0] | None => [] end) sends.
Definition list_msg_eqb := fix f (a b : list msg) : bool :=
  match a, b with
  | [], [] => true
  | x :: a', y :: b' => msg_eqb x y && f a' b'
  | _, _ => false
  end.
Definition subset_nat (a b : list nat) : bool := forallb (fun x => existsb (Nat.eqb x) b) a.
Definition handler_agree (sends : list send) (h : handler) : bool :=
  (* no phantom: every delivery is the message of a send that had begun *)
  forallb (fun d => match nth_error sends (d_send d) with
                    | Some s => (match s_msg s with Some m => msg_eqb m (d_msg d) | None => false end)
                                && (s_inv s <? d_inv d)
                    | None => false
                    end) (h_deliveries h)
  (* completeness: what the driver waited for is there *)
  && subset_nat (h_must h) (map d_send (h_deliveries h))
  (* an uncancelled handler misses no listed message; a cancelled one gets nothing else *)
  && let st := run (init 1) (handler_schedule sends h) in
     match h_cancel h with
     | Some _ => list_msg_eqb (map snd (log st)) (map d_msg (h_deliveries h))
     | None => true
     end.
(* the seqnos handed out by a fresh channel instance to its k sends are 1..k in some order *)
Definition seqnos_agree (sends : list send) (ch : N) : bool :=
  let mine := filter (fun s => s_chan s =? ch) sends in
  let got := flat_map (fun s => match s_msg s with Some m => [snd m] | None => [] end) mine in
  Nat.eqb (length got) (length mine)
  && forallb (fun s => existsb (N.eqb s) got) (seqnos 0 (length mine))
  && forallb (fun s => existsb (N.eqb s) (seqnos 0 (length mine))) got.
Definition chan_agree (c : chan_case) : bool :=
  forallb (handler_agree (cc_sends c)) (cc_handlers c)
  && forallb (seqnos_agree (cc_sends c)) (cc_fresh_chans c).

(* ---- (C): property ---- *)
(* different messages <-> different sequence numbers, over everything the channel handed to its
   publisher (a retransmission repeats its message's number, nobody else's) *)
Definition wire_fresh (w : list (N * N * bool)) : bool :=
  forallb (fun a : N * N * bool => forallb (fun b : N * N * bool =>
    Bool.eqb (fst (fst a) =? fst (fst b)) (snd (fst a) =? snd (fst b))) w) w.
Definition count_id (id : N) (d : list (N * N)) : nat := length (filter (fun x : N * N => fst x =? id) d).
Definition has_ok (id : N) (w : list (N * N * bool)) : bool :=
  existsb (fun e : N * N * bool => (fst (fst e) =? id) && snd e) w.
Definition fault_spec (c : fault_case) : bool :=
  wire_fresh (fa_wire c)
  && nodupN (map snd (fa_delivered c))
  && (if fa_flushed c
      then forallb (fun e : N * N * bool => Nat.eqb (count_id (fst (fst e)) (fa_delivered c))
                                     (if has_ok (fst (fst e)) (fa_wire c) then 1 else 0)) (fa_wire c)
      else true).

(* ---- (C): agreement with the model ---- *)
Fixpoint ops_of_wire (known : nat) (w : list (N * N * bool)) : option (list cop) :=
  match w with
  | [] => Some []
  | (id, _, ok) :: t =>
      if (N.to_nat id =? known)%nat
      then option_map (cons (CSend (if ok then SPublished else SPublishErr))) (ops_of_wire (S known) t)
      else if (N.to_nat id <? known)%nat
      then option_map (cons (CRetx (N.to_nat id) ok)) (ops_of_wire known t)
      else None
  end.
Fixpoint wire_eqb (a : list (nat * N * bool)) (b : list (N * N * bool)) : bool :=
  match a, b with
  | [], [] => true
  | (i, s, k) :: a', (j, r, l) :: b' => (N.of_nat i =? j) && (s =? r) && Bool.eqb k l && wire_eqb a' b'
  | _, _ => false
  end.
Fixpoint sends_agree (k : N) (l : list (option N * bool)) (w : list (N * N * bool)) : bool :=
  match l with
  | [] => true
  | (None, err) :: t => err && sends_agree k t w
  | (Some id, err) :: t =>
      (id =? k)
      && match find (fun e : N * N * bool => fst (fst e) =? id) w with
         | Some e => Bool.eqb err (negb (snd e))
         | None => false
         end
      && sends_agree (k + 1) t w
  end.
Definition model_delivered (st : cstate) : list (N * N) :=
  flat_map (fun m : msg => match find (fun e : nat * N => snd e =? snd m) (sched st) with
                     | Some e => [(N.of_nat (fst e), snd m)]
                     | None => []
                     end) (receiver_deliveries 1 (wire st)).
Definition fault_agree (c : fault_case) : bool :=
  match ops_of_wire 0 (fa_wire c) with
  | None => false
  | Some ops =>
      let st := crun (cinit 0) ops in
      wire_eqb (wire st) (fa_wire c)
      && sends_agree 0 (fa_sends c) (fa_wire c)
      && fa_flushed c
      && list_msg_eqb (model_delivered st) (fa_delivered c)
  end.

Definition size_ok (c : case) : bool :=
  match c with
  | CFilter f => (length (fc_calls f) <=? 400)%nat
  | CChan h => (length (cc_sends h) <=? 400)%nat && (length (cc_handlers h) <=? 64)%nat
  | CFault f => (length (fa_wire f) <=? 400)%nat
  end.

Definition judge (c : case) : verdict :=
  if negb (size_ok c) then BadCase else
  match c with
  | CFilter f => decide (filter_spec f) (filter_agree f)
  | CChan h => decide (chan_spec h) (chan_agree h)
  | CFault f => decide (fault_spec f) (fault_agree f)
  end.

(* what --replay prints: per handler (or for the filter, in certificate order) the model's deliveries *)
Definition explain (c : case) : list (list msg) :=
  match c with
  | CFilter f => [snd (arun ainit (map (fun a => Arrive (f_msg a)) (fc_calls f)))]
  | CChan h => map (fun hd => map snd (log (run (init 1) (handler_schedule (cc_sends h) hd)))) (cc_handlers h)
  | CFault f =>      (* the model's wire (message, seqno) and the receiver's deliveries (message, seqno) *)
      match ops_of_wire 0 (fa_wire f) with
      | None => []
      | Some ops => let st := crun (cinit 0) ops in
                    [map (fun e : nat * N * bool => (N.of_nat (fst (fst e)), snd (fst e))) (wire st); model_delivered st]
      end
  end.
