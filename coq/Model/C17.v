(* C17 — executable model of pkg/net/retransmission/{strategy,ticker,retransmission}.go as
   repaired by the fix: commit that puts BackoffStrategy's counter update under a mutex.

   strategy.go   BackoffStrategy.Tick  : one atomic step [btick] on (tickCounter, delay,
                 retransmitTick), all uint64 (wrap-around written in), answering whether the
                 retransmission routine is called (it is called outside of the mutex);
                 StandardStrategy.Tick calls it always.
   ticker.go     Ticker.start          : for every tick, a handler whose context is done is
                 deleted, a live one has its function called.
   retransmission.go ScheduleRetransmissions : the handler function spawns one goroutine per
                 tick which calls strategy.Tick.  Spawned-but-not-yet-run goroutines are the
                 [pending] counter of the system model; [ORun] runs one of them.

   [ustep] is the model of the code BEFORE the repair (no mutex): a tick is four separate
   steps (load tickCounter; store tickCounter+1; compare; update), kept to state the
   defect that was repaired (Props: unsync_backoff_refuted). *)
From Coq Require Import ZArith NArith List Bool Lia.
From KV Require Import Common.Verdict.
Import ListNotations.
Open Scope N_scope.

Definition w64 : N := 18446744073709551616.    (* 2^64 *)

(* ---------- strategy.go ---------- *)
Record bstate := { tc : N; delay : N; rt : N }.
Definition binit : bstate := {| tc := 0; delay := 1; rt := 1 |}.

Definition btick (s : bstate) : bstate * bool :=
  let tc' := (tc s + 1) mod w64 in
  if tc' =? rt s
  then ({| tc := tc'; delay := (delay s * 2) mod w64; rt := (rt s + (delay s + 1) mod w64) mod w64 |}, true)
  else ({| tc := tc'; delay := delay s; rt := rt s |}, false).

Inductive strategy := Std | Back (s : bstate).
Definition stick (s : strategy) : strategy * bool :=
  match s with
  | Std => (Std, true)
  | Back b => let (b', f) := btick b in (Back b', f)
  end.

(* state after k ticks; whether the k-th tick (k >= 1) retransmits *)
Definition bafter (s : bstate) (k : N) : bstate := N.iter k (fun s => fst (btick s)) s.
Definition fires (k : N) : bool := snd (btick (bafter binit (k - 1))).

(* the closed form of the schedule: 1, 3, 6, 11, 20, 37, ... *)
Definition sched (n : N) : N := 2 ^ (n - 1) + n - 1.
Definition is_sched (k : N) : bool :=
  existsb (fun n => k =? sched n) (map N.of_nat (seq 1 64)).

(* ---------- ticker.go + ScheduleRetransmissions: one scheduled retransmission ---------- *)
Record sys := { cancelled : bool;      (* the context passed to ScheduleRetransmissions is done *)
                registered : bool;     (* the handler is in Ticker.handlers *)
                pending : N;           (* goroutines spawned by ticks that have not yet called Tick *)
                strat : strategy;
                calls : N;             (* strategy.Tick calls made *)
                retx : N }.            (* retransmission routine calls made *)
Inductive op := OTick | ORun | OCancel.

Definition sys_init (s : strategy) : sys :=
  {| cancelled := false; registered := true; pending := 0; strat := s; calls := 0; retx := 0 |}.

Definition sstep (st : sys) (o : op) : sys :=
  match o with
  | OTick =>
      if negb (registered st) then st else
      if cancelled st
      then {| cancelled := true; registered := false; pending := pending st; strat := strat st;
              calls := calls st; retx := retx st |}
      else {| cancelled := false; registered := true; pending := pending st + 1; strat := strat st;
              calls := calls st; retx := retx st |}
  | ORun =>
      if pending st =? 0 then st else
      let (s', f) := stick (strat st) in
      {| cancelled := cancelled st; registered := registered st; pending := pending st - 1;
         strat := s'; calls := calls st + 1; retx := retx st + (if f then 1 else 0) |}
  | OCancel =>
      {| cancelled := true; registered := registered st; pending := pending st; strat := strat st;
         calls := calls st; retx := retx st |}
  end.
Definition srun (st : sys) (ops : list op) : sys := fold_left sstep ops st.

(* number of retransmissions among the next k Tick calls of a strategy *)
Fixpoint count_fires (s : strategy) (k : nat) : N * strategy :=
  match k with
  | O => (0, s)
  | S k' => let (s', f) := stick s in
            let (c, s'') := count_fires s' k' in ((if f then 1 else 0) + c, s'')
  end.
(* positions (1-based) of the retransmissions among the next k Tick calls *)
Fixpoint fire_positions (s : strategy) (k : nat) (pos : N) : list N * strategy :=
  match k with
  | O => ([], s)
  | S k' => let (s', f) := stick s in
            let (l, s'') := fire_positions s' k' (pos + 1) in
            ((if f then pos :: l else l), s'')
  end.

(* ---------- the code before the repair: unsynchronised Tick as three steps ---------- *)
(* thread-local program counter of one overlapping Tick call *)
Inductive upc := UStart | ULoaded (v : N) | UStored | UTaken | UDone (fired : bool).
Record ustate := { ub : bstate; upcs : list upc }.
Inductive uop := UStep (t : nat).
Definition set_nth {A} (l : list A) (i : nat) (x : A) : list A :=
  firstn i l ++ match skipn i l with [] => [] | _ :: t => x :: t end.
Definition ustep (st : ustate) (o : uop) : ustate :=
  let 'UStep t := o in
  match nth_error (upcs st) t with
  | None => st
  | Some UStart => {| ub := ub st; upcs := set_nth (upcs st) t (ULoaded (tc (ub st))) |}
  | Some (ULoaded v) =>
      {| ub := {| tc := (v + 1) mod w64; delay := delay (ub st); rt := rt (ub st) |};
         upcs := set_nth (upcs st) t UStored |}
  | Some UStored =>
      let b := ub st in
      if tc b =? rt b
      then {| ub := b; upcs := set_nth (upcs st) t UTaken |}
      else {| ub := b; upcs := set_nth (upcs st) t (UDone false) |}
  | Some UTaken =>
      let b := ub st in
      {| ub := {| tc := tc b; delay := (delay b * 2) mod w64;
                  rt := (rt b + (delay b + 1) mod w64) mod w64 |};
         upcs := set_nth (upcs st) t (UDone true) |}
  | Some (UDone _) => st
  end.
Definition urun (st : ustate) (ops : list uop) : ustate := fold_left ustep ops st.
Definition ufired (st : ustate) : N :=
  N.of_nat (length (filter (fun p => match p with UDone true => true | _ => false end) (upcs st))).

(* ---------- correspondence cases ---------- *)
(* One scheduled retransmission driven by the harness through the real Ticker.  Each script
   step ends when every spawned goroutine has finished (the driver waits for that), so the
   observations are taken in drained states. *)
Inductive sop :=
  | SSeq (k : N) (fired : list N)          (* k ticks one at a time; 1-based positions that retransmitted *)
  | SBurst (b : N) (dcalls dretx : N)      (* b ticks fed back to back, callbacks overlapping; observed deltas *)
  | SCancel (dcalls dretx : N)             (* cancel the context; deltas observed until drained *)
  | SDereg (count : N).                    (* observed Ticker handler count (0 or 1) *)

Record case := { c_strategy : strategy; c_script : list sop }.

Fixpoint list_eqb (a b : list N) : bool :=
  match a, b with
  | [], [] => true
  | x :: a', y :: b' => (x =? y) && list_eqb a' b'
  | _, _ => false
  end.

Definition feed (st : sys) (k : nat) : sys :=
  srun st (repeat OTick k ++ repeat ORun k).

(* replay of the script on the model; None on the first disagreement *)
Fixpoint replay (st : sys) (sc : list sop) : bool :=
  match sc with
  | [] => true
  | SSeq k fired :: t =>
      let st' := srun st (flat_map (fun _ => [OTick; ORun]) (repeat tt (N.to_nat k))) in
      let exp := if cancelled st || negb (registered st) then []
                 else fst (fire_positions (strat st) (N.to_nat k) 1) in
      list_eqb fired exp && replay st' t
  | SBurst b dc dr :: t =>
      let st' := feed st (N.to_nat b) in
      (dc =? calls st' - calls st) && (dr =? retx st' - retx st) && replay st' t
  | SCancel dc dr :: t =>
      let st' := srun st [OCancel] in
      (dc =? 0) && (dr =? 0) && replay st' t
  | SDereg n :: t =>
      (n =? if registered st then 1 else 0) && replay st t
  end.

(* ---- the property in executable form, on the implementation's observations only ---- *)
(* a state BackoffStrategy really reaches from its constructor within 2^62 ticks *)
Definition reachable_b (b : bstate) : bool :=
  existsb (fun n => (delay b =? 2 ^ (n - 1)) && (rt b =? sched n)
                    && ((if n =? 1 then 0 else sched (n - 1)) <=? tc b) && (tc b <? sched n))
          (map N.of_nat (seq 1 62)).

(* abs = strategy ticks made so far (absolute tick number for a reachable backoff state);
   live = the context has not been cancelled *)
Definition positions_ok (fired : list N) (lo k : N) (sel : N -> bool) : bool :=
  list_eqb fired (filter (fun p => sel (lo + p)) (map N.of_nat (seq 1 (N.to_nat k)))).
Definition count_sel (lo k : N) (sel : N -> bool) : N :=
  N.of_nat (length (filter (fun p => sel (lo + p)) (map N.of_nat (seq 1 (N.to_nat k))))).

Fixpoint spec_script (sel : N -> bool) (abs : N) (live : bool) (sc : list sop) : bool :=
  match sc with
  | [] => true
  | SSeq k fired :: t =>
      if live then positions_ok fired abs k sel && spec_script sel (abs + k) live t
      else match fired with [] => spec_script sel abs live t | _ => false end
  | SBurst b dc dr :: t =>
      if live then (dc =? b) && (dr =? count_sel abs b sel) && spec_script sel (abs + b) live t
      else (dc =? 0) && (dr =? 0) && spec_script sel abs live t
  | SCancel dc dr :: t => (dc =? 0) && (dr =? 0) && spec_script sel abs false t
  | SDereg _ :: t => spec_script sel abs live t
  end.

Definition spec_ok (c : case) : bool :=
  match c_strategy c with
  | Std => spec_script (fun _ => true) 0 true (c_script c)
  | Back b => if reachable_b b then spec_script is_sched (tc b) true (c_script c)
              else true   (* counters no run can reach: only the correspondence is checked *)
  end.

Definition total_ticks (sc : list sop) : N :=
  fold_left (fun a o => match o with SSeq k _ => a + k | SBurst b _ _ => a + b | _ => a end) sc 0.

Definition wf_case (c : case) : bool :=
  (total_ticks (c_script c) <=? 200000) &&
  match c_strategy c with
  | Std => true
  | Back b => (tc b <? w64) && (delay b <? w64) && (rt b <? w64)
  end.

Definition judge (c : case) : verdict :=
  if negb (wf_case c) then BadCase else
  decide (spec_ok c) (replay (sys_init (c_strategy c)) (c_script c)).

(* what --replay prints: the model's retransmitting positions over the whole tick stream *)
Definition explain (c : case) : list N :=
  fst (fire_positions (c_strategy c) (N.to_nat (total_ticks (c_script c))) 1).

(* ================= ticker.go as a REGISTRY: ONE long-lived Ticker, many messages ==============
   Production shares one Ticker between all messages of a channel: every
   ScheduleRetransmissions call registers a handler (Ticker.onTick: nextHandlerId++;
   handlers[nextHandlerId] = &handler{ctx, fn}, a Go map assignment — it OVERWRITES an
   existing key), every tick walks the map, deletes the handlers whose context is done and
   calls the others (each spawns the goroutine that calls its own strategy's Tick).
   A history is a list of [rop]; observations are taken in drained states (every goroutine
   spawned by the previous op has finished), so a tick reaches each strategy once before the
   next op.  The order in which a tick walks the map is Go's; messages do not share anything,
   so the per-message observation does not depend on it.
   A message is identified by a number; its context is its own ([m_done]). *)
Inductive rop := RSchedule (m : N) (s : strategy) | RCancel (m : N) | RTick.

Record mrec := { m_id : N; m_done : bool; m_strat : strategy;
                 m_rlog : list N }.   (* tick numbers at which it was retransmitted, latest first *)
Record reg := { handlers : list (N * N);   (* Ticker.handlers: id -> the message it serves *)
                next_id : N;               (* Ticker.nextHandlerId (uint64) *)
                msgs : list mrec;          (* the messages' own contexts / strategies / logs *)
                tickno : N }.              (* ticks delivered so far *)
Definition reg_init : reg := {| handlers := []; next_id := 0; msgs := []; tickno := 0 |}.

(* handlers[id] = h *)
Definition map_set (id m : N) (hs : list (N * N)) : list (N * N) :=
  filter (fun p => negb (fst p =? id)) hs ++ [(id, m)].
Definition upd (m : N) (f : mrec -> mrec) (ms : list mrec) : list mrec :=
  map (fun r => if m_id r =? m then f r else r) ms.
Definition set_done (r : mrec) : mrec :=
  {| m_id := m_id r; m_done := true; m_strat := m_strat r; m_rlog := m_rlog r |}.
Definition tick_rec (t : N) (r : mrec) : mrec :=
  let (s', f) := stick (m_strat r) in
  {| m_id := m_id r; m_done := m_done r; m_strat := s';
     m_rlog := if f then t :: m_rlog r else m_rlog r |}.
Definition new_rec (m : N) (s : strategy) : mrec :=
  {| m_id := m; m_done := false; m_strat := s; m_rlog := [] |}.
(* handler.ctx.Err() != nil for the handler serving message m *)
Definition is_done (ms : list mrec) (m : N) : bool :=
  existsb (fun r => (m_id r =? m) && m_done r) ms.

Definition rstep (st : reg) (o : rop) : reg :=
  match o with
  | RSchedule m s =>
      let id := (next_id st + 1) mod w64 in
      {| handlers := map_set id m (handlers st); next_id := id;
         msgs := msgs st ++ [new_rec m s]; tickno := tickno st |}
  | RCancel m =>
      {| handlers := handlers st; next_id := next_id st;
         msgs := upd m set_done (msgs st); tickno := tickno st |}
  | RTick =>
      let t := tickno st + 1 in
      let keep := filter (fun p => negb (is_done (msgs st) (snd p))) (handlers st) in
      {| handlers := keep; next_id := next_id st;
         msgs := fold_left (fun ms p => upd (snd p) (tick_rec t) ms) keep (msgs st);
         tickno := t |}
  end.
Definition rrun (h : list rop) : reg := fold_left rstep h reg_init.

(* the reference the registry has to implement: no handler table at all, every message on
   its own — a tick reaches exactly the messages whose context is live *)
Definition fstep (st : list mrec * N) (o : rop) : list mrec * N :=
  let (ms, t) := st in
  match o with
  | RSchedule m s => (ms ++ [new_rec m s], t)
  | RCancel m => (upd m set_done ms, t)
  | RTick => (map (fun r => if m_done r then r else tick_rec (t + 1) r) ms, t + 1)
  end.
Definition frun_from (st : list mrec * N) (h : list rop) : list mrec * N := fold_left fstep h st.
Definition frun (h : list rop) : list mrec * N := frun_from ([], 0) h.

(* the history as one message sees it: every tick, its own registration and cancellation *)
Definition about (m : N) (o : rop) : bool :=
  match o with RSchedule m' _ => m' =? m | RCancel m' => m' =? m | RTick => true end.
Definition only (m : N) (h : list rop) : list rop := filter (about m) h.

Definition scheduled (h : list rop) : list N :=
  flat_map (fun o => match o with RSchedule m _ => [m] | _ => [] end) h.
Fixpoint ticks_in (h : list rop) : N :=
  match h with [] => 0 | RTick :: t => 1 + ticks_in t | _ :: t => ticks_in t end.
(* ticks before message m's first cancellation *)
Fixpoint live_len (m : N) (h : list rop) : nat :=
  match h with
  | [] => O
  | RTick :: t => S (live_len m t)
  | RCancel m' :: t => if m' =? m then O else live_len m t
  | RSchedule _ _ :: t => live_len m t
  end.
Definition log_of (ms : list mrec) (m : N) : option (list N) :=
  match find (fun r => m_id r =? m) ms with Some r => Some (rev (m_rlog r)) | None => None end.

(* ---- closed form of one message's log, from the history alone (executable property) ---- *)
Definition sel_of (s : strategy) : option (N -> bool) :=
  match s with
  | Std => Some (fun _ => true)
  | Back b => if reachable_b b then Some (fun p => is_sched (tc b + p)) else None
  end.
(* the ticks (global numbering) at which message m, registered by the [RSchedule m s] that
   follows [pre] and is followed by [post], must be retransmitted: its own schedule counted
   from its own registration, up to its own cancellation, whatever else is in the history *)
Definition expected_log (sel : N -> bool) (pre post : list rop) (m : N) : list N :=
  map (fun p => ticks_in pre + p)
      (filter sel (map N.of_nat (seq 1 (live_len m post)))).

Fixpoint nodup_b (l : list N) : bool :=
  match l with [] => true | x :: t => negb (existsb (N.eqb x) t) && nodup_b t end.

(* observed: per message (in registration order) the tick numbers at which its
   retransmission routine ran *)
Fixpoint reg_spec (pre h : list rop) (logs : list (N * list N)) : bool :=
  match h with
  | [] => match logs with [] => true | _ => false end
  | RSchedule m s :: post =>
      match logs with
      | (m', l) :: logs' =>
          (m' =? m) &&
          match sel_of s with
          | Some sel => list_eqb l (expected_log sel pre post m)
          | None => true
          end && reg_spec (pre ++ [RSchedule m s]) post logs'
      | [] => false
      end
  | o :: post => reg_spec (pre ++ [o]) post logs
  end.

Definition logs_eqb (a : list (N * list N)) (b : list (N * list N)) : bool :=
  (length a =? length b)%nat &&
  forallb (fun p => (fst (fst p) =? fst (snd p)) && list_eqb (snd (fst p)) (snd (snd p))) (combine a b).

Definition reg_logs (st : reg) : list (N * list N) :=
  map (fun r => (m_id r, rev (m_rlog r))) (msgs st).

Inductive anycase :=
| COne (c : case)
| CReg (h : list rop) (logs : list (N * list N)) (nh : N).   (* nh: Ticker handler count at the end *)

Definition strategy_wf (s : strategy) : bool :=
  match s with Std => true | Back b => (tc b <? w64) && (delay b <? w64) && (rt b <? w64) end.
Definition reg_wf (h : list rop) : bool :=
  nodup_b (scheduled h) && (N.of_nat (length h) <? 100000) &&
  forallb (fun o => match o with RSchedule _ s => strategy_wf s | _ => true end) h.

Definition judge_any (c : anycase) : verdict :=
  match c with
  | COne c => judge c
  | CReg h logs nh =>
      if negb (reg_wf h) then BadCase else
      let st := rrun h in
      decide (reg_spec [] h logs)
             (logs_eqb logs (reg_logs st) && (nh =? N.of_nat (length (handlers st))))
  end.

Definition explain_any (c : anycase) : list (N * list N) :=
  match c with
  | COne c => [(0, explain c)]
  | CReg h _ _ => reg_logs (rrun h)
  end.
