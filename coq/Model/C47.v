(* C47 — executable model of the five "wait for my slot, then submit unless somebody else did"
   routines:
     KBeaconDkg  pkg/beacon/dkg/result/submission.go  SubmitDKGResult / waitForSubmissionEligibility
     KRelay      pkg/beacon/entry/submission.go       submitRelayEntry / waitForSubmissionEligibility /
                                                      calculateSubmissionQueueIndex
     KTbtcDkg    pkg/tbtc/dkg_submit.go               dkgResultSubmitter.SubmitResult
     KApproval   pkg/tbtc/dkg.go                      executeDkgValidation (approval scheduling)
     KInactivity pkg/tbtc/inactivity.go               inactivityClaimSubmitter.SubmitClaim
   as they are written: Go uint64 arithmetic wraps modulo 2^64, group.MemberIndex is a uint8 and
   `memberIndex-1` is computed in uint8 in pkg/tbtc, the relay entry's first submitter index is
   `entry mod groupSize` (0-based) but is compared with the 1-based member index.
   The delay steps of pkg/tbtc are NOT typed here: they are the generated constants of
   Gen.Consts_C47.  Chain configuration values (group size, block step, relay entry timeout,
   challenge / precedence periods) are inputs. *)
From Coq Require Import ZArith List Bool.
From KV Require Import Common.Verdict Gen.Consts_C47.
Import ListNotations.
Open Scope Z_scope.

Definition two64 : Z := 18446744073709551616.
Definition u64 (z : Z) : Z := z mod two64.
Definition u8 (z : Z) : Z := z mod 256.

Inductive kind := KBeaconDkg | KRelay | KTbtcDkg | KApproval | KInactivity.

Record params := {
  p_kind : kind;
  p_ref : Z;        (* reference block: startBlockHeight (beacon), currentBlock read by the
                       submitter (tBTC DKG, inactivity), result submission block (approval) *)
  p_step : Z;       (* beacon: config.ResultPublicationBlockStep *)
  p_n : Z;          (* relay: config.GroupSize *)
  p_timeout : Z;    (* relay: config.RelayEntryTimeout *)
  p_entry : Z;      (* relay: the new entry as an unsigned big-endian integer *)
  p_challenge : Z;  (* approval: DKGParameters.ChallengePeriodBlocks *)
  p_prec : Z;       (* approval: DKGParameters.ApprovePrecedencePeriodBlocks *)
  p_submitter : Z   (* approval: result.SubmitterMemberIndex *)
}.

(* ---------------- slot computations ---------------- *)

(* beacon DKG result: startBlockHeight + (uint64(index) - 1) * blockStep *)
Definition beacon_dkg_slot (start step m : Z) : Z :=
  u64 (start + u64 (u64 (m - 1) * step)).

(* calculateSubmissionQueueIndex *)
Definition queue_index (m first n : Z) : Z :=
  if first <=? m then u64 (m - first) else u64 (u64 (m + n) - first).

(* firstSubmitterMemberIndex = entry mod groupSize, in [0, groupSize-1] *)
Definition relay_first (entry n : Z) : Z := entry mod n.

Definition relay_slot (start step n entry m : Z) : Z :=
  u64 (start + u64 (queue_index m (relay_first entry n) n * step)).

(* pkg/tbtc: uint64(memberIndex-1) * step with memberIndex a uint8 *)
Definition tbtc_delay (step m : Z) : Z := u64 (u8 (m - 1) * step).

Definition tbtc_dkg_slot (cur m : Z) : Z :=
  u64 (cur + tbtc_delay dkgResultSubmissionDelayStepBlocks m).

Definition inactivity_slot (cur m : Z) : Z :=
  u64 (cur + tbtc_delay inactivityClaimSubmissionDelayStepBlocks m).

Definition approval_precedence_start (sub challenge : Z) : Z := u64 (u64 (sub + challenge) + 1).

Definition approval_slot (sub challenge prec submitter m : Z) : Z :=
  let pstart := approval_precedence_start sub challenge in
  if m =? submitter then pstart
  else u64 (u64 (pstart + prec) + tbtc_delay dkgResultApprovalDelayStepBlocks m).

Definition slot (p : params) (m : Z) : Z :=
  match p_kind p with
  | KBeaconDkg => beacon_dkg_slot (p_ref p) (p_step p) m
  | KRelay => relay_slot (p_ref p) (p_step p) (p_n p) (p_entry p) m
  | KTbtcDkg => tbtc_dkg_slot (p_ref p) m
  | KApproval => approval_slot (p_ref p) (p_challenge p) (p_prec p) (p_submitter p) m
  | KInactivity => inactivity_slot (p_ref p) m
  end.

(* ---------------- the DOCUMENTED slots, in unbounded arithmetic ---------------- *)
(* "start + (index - 1) * step": what the comments of the five routines promise.  Nothing
   wraps here (plain Z, no uint8 / uint64 reduction): a slot computed by the code in a narrower
   type than uint64 (e.g. the multiplication carried out in the uint8 group.MemberIndex) falls
   BELOW this value for the high seats and the member then acts before its slot.  The relay
   entry queue position is calculateSubmissionQueueIndex as documented (first submitter
   entry mod groupSize, the others follow in a ring). *)
Definition doc_queue_index (m first n : Z) : Z :=
  if first <=? m then m - first else m + n - first.

Definition doc_slot (p : params) (m : Z) : Z :=
  match p_kind p with
  | KBeaconDkg => p_ref p + (m - 1) * p_step p
  | KRelay => p_ref p + doc_queue_index m (p_entry p mod p_n p) (p_n p) * p_step p
  | KTbtcDkg => p_ref p + (m - 1) * dkgResultSubmissionDelayStepBlocks
  | KApproval =>
      if m =? p_submitter p then p_ref p + p_challenge p + 1
      else p_ref p + p_challenge p + 1 + p_prec p + (m - 1) * dkgResultApprovalDelayStepBlocks
  | KInactivity => p_ref p + (m - 1) * inactivityClaimSubmissionDelayStepBlocks
  end.

(* ---------------- early exit ---------------- *)

(* what a waiting member observes, in order.  [Head b]: the chain head is at block b (the first
   event is the head at the moment the routine is called); [Competing]: the event that makes the
   submission pointless — DKG result submitted by somebody else (beacon, tBTC: the upstream
   context is cancelled), relay entry submitted, DKG result approved, inactivity claimed;
   [Timeout b]: relay entry timeout signalled at block b (relay only). *)
Inductive ev := Head (b : Z) | Competing | Timeout (b : Z).

Inductive exit := ExNil | ExErr | ExWaiting.

(* (event index at which the submission call was made, head block then), exit *)
Definition outcome := (option (nat * Z) * exit)%type.

(* every routine but the relay one: leave at the first of "my slot is reached -> submit",
   "competing event -> give up" *)
Fixpoint run_simple (s : Z) (idx : nat) (h : list ev) : outcome :=
  match h with
  | [] => (None, ExWaiting)
  | Head b :: t => if s <=? b then (Some (idx, b), ExNil) else run_simple s (S idx) t
  | Competing :: _ => (None, ExNil)
  | Timeout _ :: t => run_simple s (S idx) t       (* not observed by these routines *)
  end.

(* relay entry: submission is fire-and-forget, the loop goes on until the entry is seen
   on-chain or the timeout is signalled; the eligibility channel fires once *)
Fixpoint run_relay (s : Z) (idx : nat) (sub : option (nat * Z)) (h : list ev) : outcome :=
  match h with
  | [] => (sub, ExWaiting)
  | Head b :: t =>
      match sub with
      | None => if s <=? b then run_relay s (S idx) (Some (idx, b)) t else run_relay s (S idx) None t
      | Some _ => run_relay s (S idx) sub t
      end
  | Competing :: _ => (sub, ExNil)
  | Timeout _ :: _ => (sub, ExErr)
  end.

(* [pre] = the check made before waiting already shows the work is done (group registered /
   DKG state not AwaitingResult / inactivity nonce already advanced): no slot is computed *)
Definition has_precheck (k : kind) : bool :=
  match k with KBeaconDkg | KTbtcDkg | KInactivity => true | KRelay | KApproval => false end.

Definition run (p : params) (m : Z) (pre : bool) (h : list ev) : option Z * outcome :=
  if pre && has_precheck (p_kind p) then (None, (None, ExNil))
  else
    let s := slot p m in
    (Some s, match p_kind p with
             | KRelay => run_relay s 0 None h
             | _ => run_simple s 0 h
             end).

(* ---------------- cases and the executable property ---------------- *)

Record obs := { o_slot : option Z; o_submit : option (nat * Z); o_exit : exit }.

Inductive case :=
(* the slots the implementation computed for several members and ONE reference block *)
| CSlots (p : params) (slots : list (Z * Z))
(* one member, one history *)
| CRun (p : params) (m : Z) (pre : bool) (h : list ev) (o : obs)
(* calculateSubmissionQueueIndex alone *)
| CQueue (m first n q : Z).

Definition exit_eqb (a b : exit) : bool :=
  match a, b with ExNil, ExNil | ExErr, ExErr | ExWaiting, ExWaiting => true | _, _ => false end.
Definition optZ_eqb (a b : option Z) : bool :=
  match a, b with Some x, Some y => x =? y | None, None => true | _, _ => false end.
Definition optNZ_eqb (a b : option (nat * Z)) : bool :=
  match a, b with
  | Some (i, x), Some (j, y) => Nat.eqb i j && (x =? y)
  | None, None => true
  | _, _ => false
  end.

(* may members a and b share a slot?  Only the result submitter and another member when the
   on-chain precedence period is zero (explicit guard of the property) *)
Definition may_share (p : params) (a b : Z) : bool :=
  match p_kind p with
  | KApproval => ((a =? p_submitter p) || (b =? p_submitter p)) && (p_prec p <=? 0)
  | _ => false
  end.

Fixpoint distinct_slots (p : params) (l : list (Z * Z)) : bool :=
  match l with
  | [] => true
  | (a, sa) :: t =>
      forallb (fun bs => negb (sa =? snd bs) || may_share p a (fst bs)) t && distinct_slots p t
  end.

(* the earliest block a member may act at *)
Definition earliest (p : params) : Z :=
  match p_kind p with
  | KApproval => p_ref p + p_challenge p + 1
  | _ => p_ref p
  end.

(* the slot member m waits for: not before the reference block, NOT BEFORE THE DOCUMENTED SLOT
   of its seat, and (relay entry) strictly before the timeout *)
Definition slot_in_window (p : params) (m s : Z) : bool :=
  (earliest p <=? s) && (doc_slot p m <=? s) &&
  match p_kind p with
  | KRelay => s <? p_ref p + p_timeout p       (* strictly before the relay entry timeout *)
  | _ => true
  end.

Definition slots_ok (p : params) (l : list (Z * Z)) : bool :=
  distinct_slots p l && forallb (fun ms => slot_in_window p (fst ms) (snd ms)) l.

Definition is_head_ge (s : Z) (e : option ev) : bool :=
  match e with Some (Head b) => s <=? b | _ => false end.
Definition is_terminal (e : ev) : bool :=
  match e with Competing | Timeout _ => true | Head _ => false end.

(* no submission before the slot — the one the routine waited for AND the documented one of the
   member's seat —, none after a competing event / when the pre-check says done *)
Definition run_ok (p : params) (m : Z) (pre : bool) (h : list ev) (o : obs) : bool :=
  match o_submit o with
  | None => true
  | Some (i, b) =>
      negb (pre && has_precheck (p_kind p)) &&
      match o_slot o with
      | None => false
      | Some s =>
          is_head_ge s (nth_error h i) &&                       (* reached its slot *)
          (doc_slot p m <=? b) &&                               (* ... the documented one too *)
          match nth_error h i with Some (Head b') => b' =? b | _ => false end &&
          negb (existsb is_terminal (firstn i h))               (* nothing competing before *)
      end
  end.

Definition member_ok (p : params) (m : Z) : bool :=
  (1 <=? m) && (m <=? 255) &&
  match p_kind p with KRelay => m <=? p_n p | _ => true end.

Fixpoint nodupb (l : list Z) : bool :=
  match l with [] => true | a :: t => negb (existsb (Z.eqb a) t) && nodupb t end.

(* inputs inside the domain where block arithmetic does not wrap and the configuration is the
   one the chain handles produce (timeout = groupSize * step) *)
Definition params_ok (p : params) : bool :=
  (0 <=? p_ref p) && (p_ref p <? 4611686018427387904) &&
  match p_kind p with
  | KBeaconDkg => (0 <? p_step p) && (p_step p <? 4294967296)
  | KRelay => (0 <? p_step p) && (p_step p <? 4294967296) && (0 <? p_n p) && (p_n p <=? 255)
              && (p_timeout p =? p_n p * p_step p) && (0 <=? p_entry p)
  | KApproval => (0 <=? p_challenge p) && (p_challenge p <? 4294967296)
                 && (0 <=? p_prec p) && (p_prec p <? 4294967296)
                 && (1 <=? p_submitter p) && (p_submitter p <=? 255)
  | _ => true
  end.

Definition spec_ok (c : case) : bool :=
  match c with
  | CSlots p l => slots_ok p l
  | CRun p m pre h o => run_ok p m pre h o
  | CQueue m first n q => (0 <=? q) && (q <? n) && ((first + q) mod n =? m mod n)
  end.

Definition agree (c : case) : bool :=
  match c with
  | CSlots p l => forallb (fun ms => snd ms =? slot p (fst ms)) l
  | CRun p m pre h o =>
      let '(s, (sub, ex)) := run p m pre h in
      optZ_eqb (o_slot o) s && optNZ_eqb (o_submit o) sub && exit_eqb (o_exit o) ex
  | CQueue m first n q => q =? queue_index m first n
  end.

Definition no_timeout (h : list ev) : bool :=
  forallb (fun e => match e with Timeout _ => false | _ => true end) h.

Definition well_formed (c : case) : bool :=
  match c with
  | CSlots p l => params_ok p && forallb (fun ms => member_ok p (fst ms)) l && nodupb (map fst l)
  | CRun p m pre h o => params_ok p && member_ok p m &&
                        match p_kind p with KRelay => true | _ => no_timeout h end
  | CQueue m first n q => (1 <=? m) && (m <=? n) && (0 <=? first) && (first <? n) && (n <=? 255)
  end.

Definition judge (c : case) : verdict :=
  if well_formed c then decide (spec_ok c) (agree c) else BadCase.

(* what --replay prints: the model's slots / outcome *)
Definition explain (c : case) : list (Z * Z) * (option Z * outcome) :=
  match c with
  | CSlots p l => (map (fun ms => (fst ms, slot p (fst ms))) l, (None, (None, ExWaiting)))
  | CRun p m pre h o => ([], run p m pre h)
  | CQueue m first n q => ([(m, queue_index m first n)], (None, (None, ExWaiting)))
  end.
